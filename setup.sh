#!/bin/sh
# Build the framework from files on disk only (offline).
set -e
cd "$(dirname "$0")"
export GOFLAGS=-mod=mod GOPROXY=off GOSUMDB=off GOTOOLCHAIN=local
mkdir -p .build replays evidence
(cd translator && go build -o ../.build/translator .)
./.build/translator -repo "${VERIF_REPO:-/repo}" -out lean/LiteFSVerif/Gen
(cd lean && lake build)
cp "${VERIF_REPO:-/repo}/go.sum" harness/go.sum
(cd harness && go build -tags verif -o ../.build/harness .)
echo setup ok
