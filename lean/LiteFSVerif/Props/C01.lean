/-
  C01 — A replica at position (TXID, checksum) is byte-identical to the primary there.

  Protocol model (Model/Protocol.lean): any number of nodes; every node may commit (forks), any
  file of any log or a snapshot of any node may be delivered to any node at any time, logs may be
  trimmed, nodes restart.  `hist` is the ghost set of all (position, image) pairs ever committed.

  * `C01_safety`: in every reachable world, a node at position (t, c) holds exactly the image that
    was committed as (t, c) — under the explicit hypothesis that the history is collision-free
    (the code itself identifies history points by checksum).
  * `C01_no_exit`: on such a world no delivery of a log file fails its post-apply verification
    (healthy histories never drive a replica into `Exit(99)`).
  * `C01_converges_partial`: with one primary at TXID ≥ 1 and no further commits, a stream session
    (the loop of `streamDB`) from any history position — behind, ahead, forked, behind a retention
    cut — ends with the replica at the primary's position after at most `txid distance + 2`
    iterations.  Partial: wall-clock time, TCP, goroutine scheduling and the kernel page cache are
    outside the model (DESIGN.md).
-/
import LiteFSVerif.Proofs.Protocol
import LiteFSVerif.Proofs.ApplyBytes
import LiteFSVerif.Proofs.Replicate
import LiteFSVerif.Gen.Skel
import LiteFSVerif.Model.ExpectedSkel

namespace LiteFSVerif.C01
open LiteFSVerif LiteFSVerif.Cks LiteFSVerif.Cluster LiteFSVerif.Protocol

variable {I : Type}

theorem C01_safety (H : I → Chk) (e0 : I) (n : Nat) (ops : List (Op I))
    (hcf : CollisionFree (run H (init e0 n) ops).hist)
    (node : ANode I) (hn : node ∈ (run H (init e0 n) ops).nodes)
    (img : I) (hc : (node.pos, img) ∈ (run H (init e0 n) ops).hist) : node.img = img :=
  hcf _ _ _ ((run_inv H ops (init e0 n) (init_inv H e0 n) hcf).node node hn) hc

/-- the checksum a node reports is the checksum of the image it holds -/
theorem C01_position_checksum (H : I → Chk) (e0 : I) (n : Nat) (ops : List (Op I))
    (hcf : CollisionFree (run H (init e0 n) ops).hist)
    (node : ANode I) (hn : node ∈ (run H (init e0 n) ops).nodes) (h1 : 1 ≤ node.pos.1) :
    node.pos.2 = H node.img :=
  let hi := run_inv H ops (init e0 n) (init_inv H e0 n) hcf
  hi.chk node.pos node.img (hi.node node hn) h1

/-- no delivery of a file of some node's log fails its verification -/
theorem C01_no_exit (H : I → Chk) (e0 : I) (n : Nat) (ops : List (Op I))
    (hcf : CollisionFree (run H (init e0 n) ops).hist)
    (s d : ANode I) (hs : s ∈ (run H (init e0 n) ops).nodes) (hd : d ∈ (run H (init e0 n) ops).nodes)
    (f : AFile I) (hf : f ∈ s.log) (hmax : 1 ≤ f.max) :
    (Protocol.deliver H d f).2 ≠ .failedVerify := by
  have hi := run_inv H ops (init e0 n) (init_inv H e0 n) hcf
  obtain ⟨_, h2, h3⟩ := hi.files s hs f hf
  unfold Protocol.deliver
  split
  · simp
  · split
    · simp
    · rename_i _ hna
      have hacc : accepts d f = true := by simpa using hna
      have hver : H (f.app d.img) = f.post := by
        by_cases hm : f.min = 1
        · exact (hi.chk (f.max, f.post) _ (h2 hm d.img) hmax).symm
        · obtain ⟨a, ha1, ha2⟩ := h3 hm
          simp only [accepts, Bool.or_eq_true, beq_iff_eq, Bool.and_eq_true] at hacc
          rcases hacc with h | ⟨hp1, hp2⟩
          · exact absurd h hm
          · have hpos : d.pos = (f.min - 1, f.pre) := by
              apply Prod.ext
              · show d.pos.1 = f.min - 1; omega
              · exact hp2
            have hdn := hi.node d hd
            rw [hpos] at hdn
            rw [hcf _ _ _ hdn ha1]
            exact (hi.chk (f.max, f.post) _ ha2 hmax).symm
      simp [hver]

/-- convergence at message level (partial: logical steps, not wall-clock time) -/
theorem C01_converges_partial (H : I → Chk) (e0 : I) (n : Nat) (ops : List (Op I))
    (hcf : CollisionFree (run H (init e0 n) ops).hist)
    (p r : ANode I) (hp : p ∈ (run H (init e0 n) ops).nodes) (hr : r ∈ (run H (init e0 n) ops).nodes)
    (hne : r.ident ≠ p.ident) (hp1 : 1 ≤ p.pos.1) :
    ∃ r', session H p r (p.pos.1 - r.pos.1 + 2) r.pos = (r', true) ∧ r'.pos = p.pos ∧ r'.img = p.img := by
  have hi := run_inv H ops (init e0 n) (init_inv H e0 n) hcf
  obtain ⟨r', h1, h2, h3⟩ := session_converges H _ hcf hi.chk p (hi.node p hp) (hi.files p hp) hp1
    (p.pos.1 - r.pos.1 + 2) r (hi.node r hr) hne (need_le p r)
  refine ⟨r', h1, h2, ?_⟩
  rw [h2] at h3
  exact hcf _ _ _ h3 (hi.node p hp)

/-- premises are satisfiable: a fork — node 0 and node 1 both commit on top of TXID 1, then node 1
    is snapshotted onto node 0's branch -/
example : (run (fun x : Nat => x.toUInt64) (init 0 2)
      [.commit 0 (· + 1), .send 0 1 0, .commit 0 (· + 10), .commit 1 (· + 20), .snap 0 1]).nodes.map (fun n => (n.pos.1, n.img)) =
    [(2, 11), (2, 11)] := by decide


/-! ### engine level: what `ApplyLTXNoLock` does to the bytes of the database file -/

/-- engine, byte level: after a successful apply of a transaction file with a non-zero size the
    database file has exactly `commit` pages and every byte is the byte of the last page frame of
    the file that covers it, or else the byte the database held before (zero past its old end) -/
theorem C01_apply_bytes (s s' : Engine.Eng) (f : Engine.LTXFile) (fatal : Bool)
    (h : Engine.applyLTX s f fatal = .ok s') (hc : f.commit > 0) :
    ∃ d', s'.dbFile = some d' ∧ s'.pageSize = (if s.pageSize = 0 then f.pageSize else s.pageSize) ∧
      s'.pageN = f.commit ∧ d'.size = f.commit * s'.pageSize ∧
      ∀ i, i < d'.size → BA.getD d' i = Engine.byteAfterFrom s'.pageSize f.pages i (BA.getD (Engine.dbBytes s) i) :=
  Engine.applyLTX_bytes s s' f fatal h hc

/-- engine, byte level: two nodes whose database files agree byte for byte (reads past the end
    count as zero) and that use the same page size hold *equal* database files after each applies
    the same transaction file — replication is a function of (previous bytes, file) only -/
theorem C01_apply_same_file_same_bytes (a a' b b' : Engine.Eng) (f : Engine.LTXFile) (fa fb : Bool)
    (ha : Engine.applyLTX a f fa = .ok a') (hb : Engine.applyLTX b f fb = .ok b') (hc : f.commit > 0)
    (hps : a.pageSize = b.pageSize)
    (hbytes : ∀ i, BA.getD (Engine.dbBytes a) i = BA.getD (Engine.dbBytes b) i) :
    a'.dbFile = b'.dbFile := by
  obtain ⟨da, h1, h2, _, h4, h5⟩ := Engine.applyLTX_bytes a a' f fa ha hc
  obtain ⟨db, g1, g2, _, g4, g5⟩ := Engine.applyLTX_bytes b b' f fb hb hc
  have hpe : a'.pageSize = b'.pageSize := by rw [h2, g2, hps]
  have hsz : da.size = db.size := by rw [h4, g4, hpe]
  rw [h1, g1]
  congr 1
  apply ByteArray.ext_getElem hsz
  intro i hi hi'
  have e1 := h5 i hi
  have e2 := g5 i hi'
  rw [BA.getD_lt hi] at e1
  rw [BA.getD_lt hi'] at e2
  rw [e1, e2, hpe, hbytes i]


/-- engine, byte level, end to end for a rollback-journal commit: the file the primary publishes,
    applied by any node with the same page size whose database bytes agree with the primary's
    outside the captured pages (a replica at the previous position, given that the dirty set
    covers every page the transaction changed), leaves that node with a database file of exactly
    the committed size that equals the primary's database file byte for byte. -/
theorem C01_journal_commit_replicates_bytes (p p' : Engine.Eng) (mode : Nat)
    (hcommit : Engine.commitJournalValid p mode = .ok p') (hps : p.pageSize ≠ 0) :
    ∃ (dbf : ByteArray) (lock : Nat) (f : Engine.LTXFile), p'.dbFile = some dbf ∧ Cks.lockPgno p.pageSize = .ok lock ∧
      p'.ltx = Engine.addLTX p.ltx f ∧
      ∀ (r r' : Engine.Eng) (fatal : Bool), Engine.applyLTX r f fatal = .ok r' → f.commit > 0 → r.pageSize = p.pageSize →
        (∀ i, (∀ q ∈ (Engine.sortNat (p.dirty.filter (· ≤ f.commit))).filter (· ≠ lock), ¬ Engine.covers p.pageSize q i) →
            BA.getD (Engine.dbBytes r) i = BA.getD dbf i) →
        ∃ d', r'.dbFile = some d' ∧ d'.size = f.commit * p.pageSize ∧ ∀ i, i < d'.size → BA.getD d' i = BA.getD dbf i :=
  Engine.journal_commit_replicates p p' mode hcommit hps

/-- engine, byte level, end to end for a WAL commit: the file the primary publishes, applied by
    any node with the same page size, leaves a database file of exactly the commit frame's size in
    which every byte of a page the transaction wrote is the byte of that page's last frame in the
    primary's WAL, and every other byte (and the lock page) is what the node held before. -/
theorem C01_wal_commit_replicates_bytes (p p' : Engine.Eng) (hcommit : Engine.commitWALBody p = .ok p')
    (hne : p' ≠ p) (hps : p.pageSize ≠ 0) :
    ∃ (wal : ByteArray) (tx : Sqlite.TxFrames) (lock : Nat) (f : Engine.LTXFile), p.wal = some wal ∧
      Sqlite.buildTxFrames wal p.pageSize p.w.offset p.w.bo p.w.salt1 p.w.salt2 p.w.chk1 p.w.chk2 = .ok (some tx) ∧
      Cks.lockPgno p.pageSize = .ok lock ∧ p'.ltx = Engine.addLTX p.ltx f ∧
      ∀ (r r' : Engine.Eng) (fatal : Bool), Engine.applyLTX r f fatal = .ok r' → f.commit > 0 → r.pageSize = p.pageSize →
        ∃ d', r'.dbFile = some d' ∧ d'.size = tx.commit * p.pageSize ∧
          ∀ i q, i < d'.size → q ≠ 0 → Engine.covers p.pageSize q i →
            BA.getD d' i = (if q = lock then BA.getD (Engine.dbBytes r) i else
              match tx.offsets.lookup q with
              | some off => BA.getD wal (off + 24 + (i - (q - 1) * p.pageSize))
              | none => BA.getD (Engine.dbBytes r) i) :=
  Engine.wal_commit_replicates p p' hcommit hne hps

/-- the control skeletons (branch conditions, loop heads, returns, order of calls and of state
    assignments) of `DB.ApplyLTXNoLock`, regenerated from the current source on every run, are the ones the
    model was written and validated against (Model/ExpectedSkel.lean): a reordered, dropped or
    altered check or call in these functions breaks this theorem -/
theorem C01_source_skeletons :
    Gen.Skel.DB_ApplyLTXNoLock = Expected.Skel.DB_ApplyLTXNoLock :=
  rfl

/-- further regenerated control skeletons (fifth round of seeded changes: code no earlier change had
    touched): Client_Stream, PosNode_Read -/
theorem C01_source_skeletons_5 :
    Gen.Skel.Client_Stream = Expected.Skel.Client_Stream ∧
    Gen.Skel.PosNode_Read = Expected.Skel.PosNode_Read :=
  ⟨rfl, rfl⟩

set_option maxRecDepth 20000 in
/-- A replica applies a received transaction file under the write lock, only at the expected
    position, and only after the stored copy was synced and verified — facts proved by `decide`
    about the skeleton of `processLTXStreamFrame` regenerated from store.go: the write lock is
    taken before the position is read and compared; the comparison comes before the temporary
    file is created; the file is synced, then verified, then published by the one `Rename`, and
    the one `ApplyLTXNoLock` comes after that. -/
theorem C01_replica_verifies_before_publishing_and_applying :
    let ix (sk : List (String × String)) (x : String × String) (d : Nat) := (sk.findIdx? (· == x)).getD d
    let t := Gen.Skel.Store_processLTXStreamFrame
    ix t ("call", "db.AcquireWriteLock") 1000 < ix t ("call", "db.Pos") 0 ∧
    ix t ("call", "db.AcquireWriteLock") 1000 < ix t ("if", "pos != expectedPos") 0 ∧
    ix t ("if", "pos != expectedPos") 1000 < ix t ("call", "s.OS.Create") 0 ∧
    ix t ("call", "s.OS.Create") 1000 < ix t ("call", "f.Sync") 0 ∧
    ix t ("call", "f.Sync") 1000 < ix t ("call", "ltx.NewDecoder(f).Verify") 0 ∧
    ix t ("call", "ltx.NewDecoder(f).Verify") 1000 < ix t ("call", "s.OS.Rename") 0 ∧
    ix t ("call", "s.OS.Rename") 1000 < ix t ("call", "db.ApplyLTXNoLock") 0 ∧
    (t.filter (· == ("call", "s.OS.Rename"))).length = 1 ∧
    (t.filter (· == ("call", "db.ApplyLTXNoLock"))).length = 1 := by
  decide

end LiteFSVerif.C01
