/-
  C10 — A completed snapshot or export is the image of exactly one position.

  Model: the small-step sequence of `Export` / `WriteSnapshotTo` (`Engine.bgSeq`: one lock call, the
  state capture, or the page copy per step) interleaved with arbitrary application operations on
  the same lock table (Model/Locks.lean).
  * `C10_source_order`: the model's sequences are the source's (regenerated from db.go): position,
    size and WAL frame offsets are read while the WAL write lock is held exclusively; `Export`
    releases that lock only after the CKPT / RECOVER / READ0..4 locks are requested;
    `WriteSnapshotTo` verifies its checksum against the captured position.
  * while a lock is held exclusively (resp. shared) by the snapshot, no application owner can obtain
    it in a conflicting mode (`C11_client_refused` and its shared counterpart), so no commit can
    slip in during the capture and no checkpoint / restart after the read locks are held.
-/
import LiteFSVerif.Props.C11
import LiteFSVerif.Gen.Facts
import LiteFSVerif.Proofs.SnapshotBytes
import LiteFSVerif.Gen.Skel
import LiteFSVerif.Model.ExpectedSkel

namespace LiteFSVerif.C10
open LiteFSVerif LiteFSVerif.Locks LiteFSVerif.Engine LiteFSVerif.RWMutex

def stepName : BgStep → List (String × String)
  | .lock l 0 => [(C11.lockField l, "RLock")]
  | .lock l 1 => [(C11.lockField l, "Lock")]
  | .lock l _ => [(C11.lockField l, "Unlock")]
  | .capture => [("capture", "pos"), ("capture", "pageN"), ("capture", "frameOffsets")]
  | .read => []

/-- the model's step sequences (WAL mode) are exactly the guard calls and captures of the source,
    in source order; the snapshot has a checksum self-check, the export relies on its locks -/
theorem C10_source_order :
    Gen.Facts.exportSeq = (bgSeq false true).flatMap stepName ∧
    Gen.Facts.snapshotSeq = (bgSeq true true).flatMap stepName ∧
    Gen.Facts.snapshotSeqSelfCheck = true := by decide

/-- in both sequences the capture happens strictly between taking and releasing the write lock -/
theorem C10_capture_under_write_lock (snap : Bool) :
    ∃ i j k : Nat, i < j ∧ j < k ∧ (bgSeq snap true)[i]? = some (BgStep.lock .write 1) ∧
      (bgSeq snap true)[j]? = some BgStep.capture ∧ (bgSeq snap true)[k]? = some (BgStep.lock .write 2) := by
  cases snap
  · exact ⟨3, 4, 12, by decide, by decide, by decide, by decide, by decide⟩
  · exact ⟨3, 4, 5, by decide, by decide, by decide, by decide, by decide⟩

/-- the export releases the write lock only after the checkpoint, recover and all five read locks
    have been requested: there is no window between capture and read locks -/
theorem C10_export_no_window :
    ∀ l ∈ [LockType.ckpt, .recover, .read0, .read1, .read2, .read3, .read4],
      ∃ i k : Nat, i < k ∧ (bgSeq false true)[i]? = some (BgStep.lock l 0) ∧ (bgSeq false true)[k]? = some (BgStep.lock .write 2) := by
  intro l hl
  simp only [List.mem_cons, List.mem_nil_iff, or_false] at hl
  rcases hl with h | h | h | h | h | h | h <;> subst h
  · exact ⟨5, 12, by decide, by decide, by decide⟩
  · exact ⟨6, 12, by decide, by decide, by decide⟩
  · exact ⟨7, 12, by decide, by decide, by decide⟩
  · exact ⟨8, 12, by decide, by decide, by decide⟩
  · exact ⟨9, 12, by decide, by decide, by decide⟩
  · exact ⟨10, 12, by decide, by decide, by decide⟩
  · exact ⟨11, 12, by decide, by decide, by decide⟩

/-- while the snapshot holds a lock in shared mode, no application owner can take it exclusively
    (checkpoint lock, read marks): no checkpoint can start and the log cannot be restarted -/
theorem C10_shared_blocks_exclusive (t : Table) (hT : TInv t) (l : LockType) (i j : Nat)
    (hi : i < t.owners.length) (hj : j < t.owners.length) (hne : j ≠ i)
    (hsh : t.guardState l i = .shared) :
    (t.call l Op.tryLock j).2 = .bool false := by
  unfold Table.call
  simp only
  have hlen := hT.gsl l
  have hi' : i < (t.mu l).gs.length := by omega
  have hj' : j < (t.mu l).gs.length := by omega
  unfold Table.guardState at hsh
  rw [getD_eq hi'] at hsh
  have hnotX : Posix.canExcl (t.mu l).gs j = false := by
    cases hc : Posix.canExcl (t.mu l).gs j with
    | false => rfl
    | true =>
      have := others_unlocked hc hi' (Ne.symm hne)
      rw [hsh] at this; cases this
  rw [(step_tryLock (hT.inv l) hj').2.2]
  simp [Posix.tryExcl, hnotX]

/-- while the snapshot holds the write lock exclusively (during its capture) no application owner
    holds or can obtain it: no commit is in progress and none can complete -/
theorem C10_capture_is_quiescent (t : Table) (hT : TInv t) (i j : Nat)
    (hi : i < t.owners.length) (hj : j < t.owners.length) (hne : j ≠ i)
    (hex : t.guardState .write i = .exclusive) :
    t.guardState .write j = .unlocked ∧ (t.call .write Op.tryLock j).2 = .bool false :=
  ⟨exclusive_excludes t hT .write i j hi hj hne hex, C11.C11_client_refused t hT .write i j hi hj hne hex true⟩

/-- collision-freedom as an explicit hypothesis: the snapshot's self-check compares checksums -/
def CollisionFree (lock : Nat) (imgs : List Spec.Img) : Prop :=
  ∀ a ∈ imgs, ∀ b ∈ imgs, Spec.checksum lock a = Spec.checksum lock b → a = b

/-- a snapshot that passes its self-check contains the image of the position it reports (both among
    the images that ever existed) -/
theorem C10_self_check (lock : Nat) (imgs : List Spec.Img) (hcf : CollisionFree lock imgs)
    (atPos read : Spec.Img) (h1 : atPos ∈ imgs) (h2 : read ∈ imgs)
    (hcheck : Spec.checksum lock read = Spec.checksum lock atPos) : read = atPos :=
  hcf read h2 atPos h1 hcheck

/-- engine, byte level (`WriteSnapshotTo` at quiescence, database below the lock page): a
    snapshot that is produced names exactly the node's position (TXID and checksum), and applied
    by any node it leaves a database file of exactly `pageN` pages whose every byte is the byte of
    the logical page the snapshot read — the committed WAL frame of that page if the WAL holds
    one, else the database file's page.  One position, one image: nothing of another position can
    be in it, because every byte is determined by the state `s` the snapshot was taken from. -/
theorem C10_snapshot_is_image_of_its_position (s : Engine.Eng) (nodeID : Nat) (f : Engine.LTXFile)
    (h : Cluster.snapshotFile s nodeID = some f) (hlock : s.pageN < 1073741824 / s.pageSize + 1) :
    f.minTxid = 1 ∧ f.maxTxid = s.posTxid ∧ f.post = s.posChk ∧ f.commit = s.pageN ∧
    ∀ (r r' : Engine.Eng) (fatal : Bool), Engine.applyLTX r f fatal = .ok r' → s.pageN > 0 →
      (r.pageSize = 0 ∨ r.pageSize = s.pageSize) →
      ∃ d', r'.dbFile = some d' ∧ d'.size = s.pageN * s.pageSize ∧
        ∀ i, i < d'.size → ∃ pg, Cluster.logicalPage s (i / s.pageSize) = some pg ∧
          BA.getD d' i = BA.getD pg (i % s.pageSize) :=
  Cluster.snapshot_bytes s nodeID f h hlock

/-- further regenerated control skeletons (see Model/ExpectedSkel.lean): DB_Export, DB_WriteSnapshotTo, DB_readPage, Server_streamLTXSnapshot -/
theorem C10_source_skeletons :
    Gen.Skel.DB_Export = Expected.Skel.DB_Export ∧
    Gen.Skel.DB_WriteSnapshotTo = Expected.Skel.DB_WriteSnapshotTo ∧
    Gen.Skel.DB_readPage = Expected.Skel.DB_readPage ∧
    Gen.Skel.Server_streamLTXSnapshot = Expected.Skel.Server_streamLTXSnapshot :=
  ⟨rfl, rfl, rfl, rfl⟩

set_option maxRecDepth 20000 in
/-- A snapshot is read under SQLite's read locks from a position captured under the write lock,
    and is not returned unless its checksum is that position's — facts proved by `decide` about the
    skeleton of `WriteSnapshotTo` regenerated from db.go: PENDING and SHARED are taken first; in
    WAL mode the position and the WAL frame offsets are read between `write.Lock` and
    `write.Unlock`; the five WAL read locks are held before the database file is opened; the
    comparison of the computed checksum with the position's comes before the encoder is closed and
    before the one successful return. -/
theorem C10_snapshot_reads_under_locks_and_checks_its_checksum :
    let ix (sk : List (String × String)) (x : String × String) (d : Nat) := (sk.findIdx? (· == x)).getD d
    let t := Gen.Skel.DB_WriteSnapshotTo
    ix t ("call", "gs.pending.RLock") 1000 < ix t ("call", "gs.shared.RLock") 0 ∧
    ix t ("call", "gs.shared.RLock") 1000 < ix t ("call", "gs.write.Lock") 0 ∧
    ix t ("call", "gs.write.Lock") 1000 < ix t ("call", "db.Pos") 0 ∧
    ix t ("call", "db.Pos") 1000 < ix t ("call", "gs.write.Unlock") 0 ∧
    (t.filter (· == ("call", "db.Pos"))).length = 1 ∧
    ix t ("call", "gs.read0.RLock") 1000 < ix t ("call", "db.os.Open") 0 ∧
    ix t ("call", "gs.read4.RLock") 1000 < ix t ("call", "db.os.Open") 0 ∧
    ix t ("if", "postApplyChecksum != pos.PostApplyChecksum") 1000 < ix t ("call", "enc.Close") 0 ∧
    ix t ("call", "enc.Close") 1000 < ix t ("return", "return enc.Header(), enc.Trailer(), nil") 0 ∧
    (t.filter (· == ("return", "return enc.Header(), enc.Trailer(), nil"))).length = 1 := by
  decide

end LiteFSVerif.C10
