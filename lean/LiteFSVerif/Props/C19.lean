/-
  C19 — The HTTP proxy gives read-your-writes and never runs writes on a replica.

  Model: Model/Proxy.lean (routing, the waiting read over a timeline of database positions, the
  non-read decision).  `C19_source_decisions`: the branch conditions and actions of `serveHTTP`,
  `serveRead`, `serveNonRead`, `proxyToTarget` regenerated from the source are the ones the model
  encodes.
-/
import LiteFSVerif.Model.Proxy
import LiteFSVerif.Gen.Facts
import LiteFSVerif.Gen.Skel
import LiteFSVerif.Model.ExpectedSkel

namespace LiteFSVerif.C19
open LiteFSVerif LiteFSVerif.Proxy

theorem C19_source_decisions :
    Gen.Facts.proxyServeHTTPConds =
      [("s.isPassthrough(r)", "proxyToTarget true"),
       ("r.Method == http.MethodGet && r.URL.Path == \"/litefs/health\"", "serveGetHealth"),
       ("isReadOnly && s.isAlwaysForwarded(r)", "other"),
       ("isReadOnly", "serveRead")] ∧
    Gen.Facts.proxyServeReadConds =
      [("cookie != nil", "other"),
       ("txid == 0", "proxyToTarget false"),
       ("db != nil", "other"),
       ("pos.TXID >= txid", "other"),
       ("select <-ctx.Done()", "http.Error http.StatusGatewayTimeout"),
       ("select <-ticker.C", "other")] ∧
    Gen.Facts.proxyServeNonReadConds =
      [("isPrimary", "proxyToTarget false"),
       ("info == nil", "http.Error http.StatusServiceUnavailable")] ∧
    Gen.Facts.proxyToTargetConds =
      [("!passthrough && s.isWriteRequest(r)", "set-cookie"),
       ("db != nil", "set-cookie")] := by decide

/-- read-your-writes: a read carrying a TXID ≥ 1 is forwarded only at a moment when the tracked
    database exists and is at or after that TXID — for every timeline of positions -/
theorem C19_read_your_writes (txid : Nat) (h1 : 1 ≤ txid) (tl : List (Option Nat)) (i : Nat)
    (h : serveRead txid tl = .forwardAt i) : ∃ p, tl[i]? = some (some p) ∧ txid ≤ p := by
  unfold serveRead at h
  have h0 : ¬ txid = 0 := by omega
  rw [if_neg h0] at h
  split at h
  · rename_i j hf
    injection h with h
    subst h
    obtain ⟨hj, hp, _⟩ := List.findIdx?_eq_some_iff_getElem.mp hf
    cases hv : tl[j] with
    | none => simp [hv] at hp
    | some p =>
      refine ⟨p, ?_, ?_⟩
      · rw [List.getElem?_eq_getElem hj, hv]
      · simpa [hv] using hp
  · cases h

/-- if the database never reaches the TXID within the window, the request ends in a time-out and
    the application is not reached -/
theorem C19_timeout (txid : Nat) (h1 : 1 ≤ txid) (tl : List (Option Nat))
    (hnever : ∀ p, some p ∈ tl → p < txid) : serveRead txid tl = .timeout := by
  unfold serveRead
  have h0 : ¬ txid = 0 := by omega
  rw [if_neg h0]
  split
  · rename_i j hf
    obtain ⟨hj, hp, _⟩ := List.findIdx?_eq_some_iff_getElem.mp hf
    cases hv : tl[j] with
    | none => simp [hv] at hp
    | some p =>
      have hm : some p ∈ tl := by rw [← hv]; exact List.getElem_mem hj
      have := hnever p hm
      simp [hv] at hp
      omega
  · rfl

/-- a write (any method but GET/HEAD, or an always-forward path) that is not a passthrough is routed
    to the non-read path -/
theorem C19_write_routed (r : Req) (hp : isPassthrough r.path = false)
    (hw : isReadMethod r.method = false ∨ isAlwaysForward r.path = true) : route r = .nonRead := by
  unfold route
  simp only [hp, Bool.false_eq_true, if_false]
  rcases hw with hw | hw
  · have hget : (r.method == "GET") = false := by
      simp only [isReadMethod, Bool.or_eq_false_iff] at hw; exact hw.1
    simp [hget, hw]
  · have hh : (pathOnly r.path == "/litefs/health".toList) = false := by
      cases h : (pathOnly r.path == "/litefs/health".toList) with
      | false => rfl
      | true =>
        have e : pathOnly r.path = "/litefs/health".toList := by simpa using h
        unfold isAlwaysForward at hw
        rw [e] at hw
        exact absurd hw (by decide)
    rw [hh, hw]
    simp only [Bool.and_false, Bool.not_true, Bool.false_eq_true, if_false]

/-- the non-read path forwards to the local application only on the primary: a replica redirects,
    a node that knows no primary answers an error -/
theorem C19_no_write_on_replica (role : Role) (h : role ≠ .primary) : serveNonRead role ≠ .toTarget := by
  cases role with
  | primary => exact absurd rfl h
  | replica _ => simp [serveNonRead]
  | orphan => simp [serveNonRead]

theorem C19_replica_redirects (host : String) : serveNonRead (.replica host) = .redirect host := rfl
theorem C19_orphan_errors : serveNonRead .orphan = .unavailable := rfl

/-- the cookie is read after the application answered: with positions that only grow it names a
    position at or after the write -/
theorem C19_cookie_after_write (tl : List Nat) (hmono : tl.Pairwise (· ≤ ·)) (i j : Nat) (hij : i ≤ j)
    (hj : j < tl.length) : tl[i]'(by omega) ≤ tl[j] := by
  rcases Nat.lt_or_eq_of_le hij with h | h
  · exact List.pairwise_iff_getElem.mp hmono i j (by omega) hj h
  · subst h; exact Nat.le_refl _

/-- malformed cookies count as "no TXID" -/
example : parseTXID "zzzz" = 0 ∧ parseTXID "000000000000000g" = 0 ∧ parseTXID "00000000000000000" = 0 ∧
    parseTXID "00000000000003E9" = 1001 ∧ parseTXID "00000000000003e9" = 1001 := by decide

/-- premises are satisfiable: a replica that catches up while the request waits -/
example : serveRead 3 [some 1, some 2, some 3, some 4] = .forwardAt 2 ∧ serveRead 3 [none, none] = .timeout ∧
    route { method := "POST", path := "/x", cookie := none } = .nonRead ∧
    route { method := "GET", path := "/fw/x", cookie := none } = .nonRead := by decide

/-- further regenerated control skeletons (see Model/ExpectedSkel.lean): ProxyServer_serveHTTP, ProxyServer_serveRead, ProxyServer_serveNonRead, ProxyServer_proxyToTarget, ProxyServer_isWriteRequest, ProxyServer_isPassthrough, ProxyServer_isAlwaysForwarded -/
theorem C19_source_skeletons :
    Gen.Skel.ProxyServer_serveHTTP = Expected.Skel.ProxyServer_serveHTTP ∧
    Gen.Skel.ProxyServer_serveRead = Expected.Skel.ProxyServer_serveRead ∧
    Gen.Skel.ProxyServer_serveNonRead = Expected.Skel.ProxyServer_serveNonRead ∧
    Gen.Skel.ProxyServer_proxyToTarget = Expected.Skel.ProxyServer_proxyToTarget ∧
    Gen.Skel.ProxyServer_isWriteRequest = Expected.Skel.ProxyServer_isWriteRequest ∧
    Gen.Skel.ProxyServer_isPassthrough = Expected.Skel.ProxyServer_isPassthrough ∧
    Gen.Skel.ProxyServer_isAlwaysForwarded = Expected.Skel.ProxyServer_isAlwaysForwarded :=
  ⟨rfl, rfl, rfl, rfl, rfl, rfl, rfl⟩

/-- the position cookie the proxy sets after a write reaches the client next to whatever cookies the
    application's own answer sets — for every list of application headers — and all of those
    reach it too (the headers are added, not assigned) -/
theorem C19_position_cookie_survives_application_cookies (txid : String) (app : List (String × String)) :
    txid ∈ Proxy.setCookies (Proxy.responseHeaders [("Set-Cookie", txid)] app) ∧
    ∀ c, ("Set-Cookie", c) ∈ app → c ∈ Proxy.setCookies (Proxy.responseHeaders [("Set-Cookie", txid)] app) := by
  constructor
  · simp [Proxy.setCookies, Proxy.responseHeaders]
  · intro c hc
    simp only [Proxy.setCookies, Proxy.responseHeaders, List.mem_map, List.mem_filter, List.mem_append]
    exact ⟨("Set-Cookie", c), ⟨Or.inr hc, by simp⟩, rfl⟩

/-- the fact the model above rests on, proved about the skeleton regenerated from
    http/proxy_server.go: inside the loop over the application's header values `proxyToTarget`
    calls `w.Header().Add`, and the cookie is set (`http.SetCookie`) before that loop -/
theorem C19_headers_are_added :
    ("call", "w.Header().Add") ∈ Gen.Skel.ProxyServer_proxyToTarget ∧
    ((Gen.Skel.ProxyServer_proxyToTarget.findIdx? (· == ("call", "http.SetCookie"))).getD 1000 <
      (Gen.Skel.ProxyServer_proxyToTarget.findIdx? (· == ("range", "resp.Header"))).getD 0) := by
  decide

end LiteFSVerif.C19
