/-
  C09 — The on-disk transaction log is one contiguous, self-verifying chain.

  Spec level (Spec/Image.lean): `chainOK` and its preservation by the three ways the log changes
  (append of an extending file, replacement by a snapshot, removal of a prefix by retention).
  Engine level (Model/Engine.lean): the operations that add files do so only with
  `min = pos.txid + 1`, `pre = pos.chk` (or as a snapshot that replaces the log), and set the
  position to the file's `(max, post)`.
  The file-level integrity check (`ltx.Decoder.Verify`) is an oracle of the harness, not modelled.
-/
import LiteFSVerif.Proofs.Image
import LiteFSVerif.Model.Engine

set_option linter.unusedSimpArgs false

namespace LiteFSVerif.C09
open LiteFSVerif LiteFSVerif.Spec LiteFSVerif.Engine

/-- appending a file with `min = prev.max + 1` and `pre = prev.post` keeps the log a chain -/
theorem C09_append (l : List Tx) (last t : Tx) (h : chainOK (l ++ [last]) = true)
    (h1 : t.minTxid = last.maxTxid + 1) (h2 : t.pre = last.post) :
    chainOK (l ++ [last, t]) = true := chainOK_append l last t h h1 h2

/-- retention removes a prefix: what is left is still a chain, and for every `k` smaller than
    the length the newest file survives -/
theorem C09_retention (l : List Tx) (k : Nat) (h : chainOK l = true) (hk : k < l.length) :
    chainOK (l.drop k) = true ∧ (l.drop k).getLast? = l.getLast? := by
  refine ⟨chainOK_drop l k h, ?_⟩
  rw [List.getLast?_drop]
  simp [Nat.not_le.mpr hk]

/-- a received snapshot replaces the whole chain -/
theorem C09_snapshot (t : Tx) : chainOK [t] = true := chainOK_single t

/-- TXIDs strictly increase along the chain -/
theorem C09_increasing (a b : Tx) (rest : List Tx) (h : chainOK (a :: b :: rest) = true)
    (ha : a.minTxid ≤ a.maxTxid) : a.maxTxid < b.minTxid := chain_txid_increasing a b rest h ha

/-- abstraction of an engine file to the spec level -/
def absTx (f : LTXFile) : Tx :=
  { minTxid := f.minTxid, maxTxid := f.maxTxid, pre := f.pre, post := f.post, commit := f.commit,
    pages := f.pages.map fun p => (p.1, BA.pageChk p.1 p.2) }

/-- `WriteLTXFileAt` (stream / forwarding path) accepts a non-snapshot file only if it extends
    the node's exact position; otherwise the state is unchanged -/
theorem C09_writeLTX_extends (s s' : Eng) (f : LTXFile) (h : writeLTXFile s f = .ok s') (hn : f.minTxid ≠ 1) :
    f.minTxid = s.posTxid + 1 ∧ f.pre = s.posChk ∧ s'.ltx = addLTX s.ltx f := by
  unfold writeLTXFile at h
  simp only [hn, ne_eq, not_false_eq_true, if_true, if_false] at h
  by_cases h1 : f.minTxid = s.posTxid + 1
  · by_cases h2 : f.pre = s.posChk
    · simp [h1, h2, pure, Except.pure, bind, Except.bind] at h
      exact ⟨h1, h2, by rw [← h]⟩
    · simp [h1, h2, fail, bind, Except.bind] at h
  · simp [h1, fail, bind, Except.bind] at h

theorem C09_writeLTX_rejected_unchanged (s : Eng) (f : LTXFile) (hn : f.minTxid ≠ 1)
    (hbad : f.minTxid ≠ s.posTxid + 1 ∨ f.pre ≠ s.posChk) :
    writeLTXFile s f = .error (s, .rejected) := by
  unfold writeLTXFile
  simp only [hn, ne_eq, not_false_eq_true, if_true]
  rcases hbad with h | h
  · simp [h, fail, bind, Except.bind]
  · by_cases h1 : f.minTxid = s.posTxid + 1
    · simp [h1, h, fail, bind, Except.bind, pure, Except.pure]
    · simp [h1, fail, bind, Except.bind]

/-- a snapshot (`min = 1`) replaces the whole log -/
theorem C09_writeLTX_snapshot (s s' : Eng) (f : LTXFile) (h : writeLTXFile s f = .ok s') (hs : f.minTxid = 1) :
    s'.ltx = [f] := by
  unfold writeLTXFile at h
  simp [hs, pure, Except.pure, bind, Except.bind] at h
  rw [← h]
  simp [hs, addLTX, addLTX.ins]

/-- `Drop` appends exactly one tombstone extending the position and moves the position to it -/
theorem C09_drop (s s' : Eng) (h : drop s = .ok s') :
    ∃ f, s'.ltx = addLTX s.ltx f ∧ f.minTxid = s.posTxid + 1 ∧ f.maxTxid = s.posTxid + 1 ∧ f.pre = s.posChk ∧
      f.post = Cks.flag ∧ f.commit = 0 ∧ s'.posTxid = f.maxTxid ∧ s'.posChk = f.post := by
  unfold drop at h
  by_cases hp : s.primary
  · simp only [hp, Bool.not_true, Bool.false_eq_true, if_false, bind, Except.bind, pure, Except.pure] at h
    split at h
    · simp [fail] at h
    · split at h
      · simp [fail] at h
      · injection h with h
        refine ⟨{ minTxid := s.posTxid + 1, maxTxid := s.posTxid + 1, pre := s.posChk, post := Cks.flag, commit := 0,
                  pageSize := s.pageSize, pages := [] }, ?_, rfl, rfl, rfl, rfl, rfl, ?_, ?_⟩ <;> rw [← h]
  · simp [hp, fail, bind, Except.bind] at h

/-! ### non-vacuity -/
example : chainOK [⟨1, 1, 0, 5, 1, []⟩, ⟨2, 2, 5, 7, 1, []⟩, ⟨3, 4, 7, 9, 2, []⟩] = true := by decide
example : chainOK [⟨1, 1, 0, 5, 1, []⟩, ⟨3, 3, 5, 7, 1, []⟩] = false := by decide

end LiteFSVerif.C09
