/-
  C09 — The on-disk transaction log is one contiguous, self-verifying chain.

  Spec level (Spec/Image.lean): `chainOK` and its preservation by the three ways the log changes
  (append of an extending file, replacement by a snapshot, removal of a prefix by retention).
  Engine level (Model/Engine.lean): the operations that add files do so only with
  `min = pos.txid + 1`, `pre = pos.chk` (or as a snapshot that replaces the log), and set the
  position to the file's `(max, post)`.
  The file-level integrity check (`ltx.Decoder.Verify`) is an oracle of the harness, not modelled.
-/
import LiteFSVerif.Proofs.Image
import LiteFSVerif.Proofs.Engine
import LiteFSVerif.Proofs.Log
import LiteFSVerif.Gen.Skel
import LiteFSVerif.Model.ExpectedSkel

set_option linter.unusedSimpArgs false

namespace LiteFSVerif.C09
open LiteFSVerif LiteFSVerif.Spec LiteFSVerif.Engine

/-- appending a file with `min = prev.max + 1` and `pre = prev.post` keeps the log a chain -/
theorem C09_append (l : List Tx) (last t : Tx) (h : chainOK (l ++ [last]) = true)
    (h1 : t.minTxid = last.maxTxid + 1) (h2 : t.pre = last.post) :
    chainOK (l ++ [last, t]) = true := chainOK_append l last t h h1 h2

/-- retention removes a prefix: what is left is still a chain, and for every `k` smaller than
    the length the newest file survives -/
theorem C09_retention (l : List Tx) (k : Nat) (h : chainOK l = true) (hk : k < l.length) :
    chainOK (l.drop k) = true ∧ (l.drop k).getLast? = l.getLast? := by
  refine ⟨chainOK_drop l k h, ?_⟩
  rw [List.getLast?_drop]
  simp [Nat.not_le.mpr hk]

/-- a received snapshot replaces the whole chain -/
theorem C09_snapshot (t : Tx) : chainOK [t] = true := chainOK_single t

/-- TXIDs strictly increase along the chain -/
theorem C09_increasing (a b : Tx) (rest : List Tx) (h : chainOK (a :: b :: rest) = true)
    (ha : a.minTxid ≤ a.maxTxid) : a.maxTxid < b.minTxid := chain_txid_increasing a b rest h ha

/-- abstraction of an engine file to the spec level -/
def absTx (f : LTXFile) : Tx :=
  { minTxid := f.minTxid, maxTxid := f.maxTxid, pre := f.pre, post := f.post, commit := f.commit,
    pages := f.pages.map fun p => (p.1, BA.pageChk p.1 p.2) }

/-- `WriteLTXFileAt` (stream / forwarding path) accepts a non-snapshot file only if it extends
    the node's exact position -/
theorem C09_writeLTX_extends (s s' : Eng) (f : LTXFile) (h : writeLTXFile s f = .ok s') (hn : f.minTxid ≠ 1) :
    f.minTxid = s.posTxid + 1 ∧ f.pre = s.posChk ∧ s'.ltx = addLTX s.ltx f := by
  unfold writeLTXFile at h
  obtain ⟨_, ha, h⟩ := M_bind_ok h
  obtain ⟨_, hb, h⟩ := M_bind_ok h
  have ha := ensure_ok ha
  have hb := ensure_ok hb
  simp only [pure, Except.pure, hn, if_false] at h
  injection h with h
  subst h
  exact ⟨by rcases ha with e | e; exact absurd e hn; exact e, by rcases hb with e | e; exact absurd e hn; exact e, rfl⟩

/-- ... otherwise it is rejected and the state is exactly what it was -/
theorem C09_writeLTX_rejected_unchanged (s : Eng) (f : LTXFile) (hn : f.minTxid ≠ 1)
    (hbad : f.minTxid ≠ s.posTxid + 1 ∨ f.pre ≠ s.posChk) :
    writeLTXFile s f = .error (s, .rejected) := by
  unfold writeLTXFile
  by_cases h1 : f.minTxid = s.posTxid + 1
  · have h2 : f.pre ≠ s.posChk := by rcases hbad with h | h; exact absurd h1 h; exact h
    rw [ensure_pos (Or.inr h1), M_ok_bind, ensure_neg (by simp [hn, h2])]
    rfl
  · rw [ensure_neg (by simp [hn, h1])]
    rfl

/-- a snapshot (`min = 1`) replaces the whole log -/
theorem C09_writeLTX_snapshot (s s' : Eng) (f : LTXFile) (h : writeLTXFile s f = .ok s') (hs : f.minTxid = 1) :
    s'.ltx = [f] := by
  unfold writeLTXFile at h
  obtain ⟨_, _, h⟩ := M_bind_ok h
  obtain ⟨_, _, h⟩ := M_bind_ok h
  simp only [pure, Except.pure, hs, if_true] at h
  injection h with h
  subst h
  simp [addLTX, addLTX.ins]

/-- `Drop` appends exactly one tombstone extending the position and moves the position to it -/
theorem C09_drop (s s' : Eng) (h : drop s = .ok s') :
    ∃ f, s'.ltx = addLTX s.ltx f ∧ f.minTxid = s.posTxid + 1 ∧ f.maxTxid = s.posTxid + 1 ∧ f.pre = s.posChk ∧
      f.post = Cks.flag ∧ f.commit = 0 ∧ s'.posTxid = f.maxTxid ∧ s'.posChk = f.post := by
  unfold drop at h
  obtain ⟨_, _, h⟩ := M_bind_ok h
  obtain ⟨_, _, h⟩ := M_bind_ok h
  obtain ⟨_, _, h⟩ := M_bind_ok h
  simp only [pure, Except.pure] at h
  injection h with h
  subst h
  exact ⟨{ minTxid := s.posTxid + 1, maxTxid := s.posTxid + 1, pre := s.posChk, post := Cks.flag, commit := 0,
           pageSize := s.pageSize, pages := [] }, rfl, rfl, rfl, rfl, rfl, rfl, rfl, rfl⟩

/-- engine: local commits (both journal modes) add exactly one file that extends the position -/
theorem C09_journal_commit_extends (s s' : Eng) (mode : Nat) (h : commitJournalValid s mode = .ok s') :
    ∃ f : LTXFile, s'.ltx = addLTX s.ltx f ∧ f.minTxid = s.posTxid + 1 ∧ f.pre = s.posChk ∧
      s'.posTxid = f.maxTxid ∧ s'.posChk = f.post := by
  obtain ⟨f, h1, h2, h3, h4, h5, h6, _⟩ := commitJournalValid_shape s s' mode h
  exact ⟨f, h1, h2, h4, by rw [h6, h3], h5.symm⟩

theorem C09_wal_commit_extends (s s' : Eng) (h : commitWALBody s = .ok s') (hne : s' ≠ s) :
    ∃ f : LTXFile, s'.ltx = addLTX s.ltx f ∧ f.minTxid = s.posTxid + 1 ∧ f.pre = s.posChk ∧
      s'.posTxid = f.maxTxid ∧ s'.posChk = f.post := by
  rcases commitWAL_shape s s' h with e | ⟨f, h1, h2, h3, h4, h5, h6, _⟩
  · exact absurd e hne
  · exact ⟨f, h1, h2, h4, by rw [h6, h3], h5.symm⟩

/-- retention (engine model) never removes the newest file -/
theorem C09_retention_keeps_newest (s : Eng) (f : LTXFile) (h : s.ltx.getLast? = some f) :
    f ∈ (enforceRetention s).ltx := by
  unfold enforceRetention
  simp only [List.mem_map, List.mem_filter]
  have hne : s.ltx ≠ [] := by intro e; simp [e] at h
  have hlast : s.ltx.getLast hne = f := by
    have := List.getLast?_eq_getLast hne; rw [this] at h; injection h
  refine ⟨(f, s.ltx.length - 1), ⟨?_, ?_⟩, rfl⟩
  · rw [List.mem_iff_getElem]
    have hl : 0 < s.ltx.length := List.length_pos_iff.mpr hne
    refine ⟨s.ltx.length - 1, by simp; omega, ?_⟩
    simp [List.getElem_zipIdx]
    rw [← hlast, List.getLast_eq_getElem]
  · have hl : 0 < s.ltx.length := List.length_pos_iff.mpr hne
    simp; omega

/-- retention with a backup service configured never removes a file holding a transaction the
    service has not confirmed: every file whose last TXID is at or above the high-water mark
    stays (the code keeps even the file that ends exactly at the mark), and so does every file
    that is not older than the retention period -/
theorem C09_retention_keeps_unconfirmed (s : Eng) (f : LTXFile) (hf : f ∈ s.ltx)
    (h : (s.backup = true ∧ s.hwm ≤ f.maxTxid) ∨ f.old = false) :
    f ∈ (enforceRetention s).ltx := by
  unfold enforceRetention
  simp only [List.mem_map, List.mem_filter]
  obtain ⟨i, hi, hget⟩ := List.mem_iff_getElem.mp hf
  refine ⟨(f, i), ⟨?_, ?_⟩, rfl⟩
  · rw [List.mem_iff_getElem]
    refine ⟨i, by simpa using hi, ?_⟩
    simp [List.getElem_zipIdx, hget]
  · rcases h with ⟨hb, hh⟩ | ho
    · simp [hb]; exact Or.inr hh
    · simp [ho]

/-- ... and what it does remove is old, not the newest, and — with a backup service — entirely
    below the high-water mark -/
theorem C09_retention_removes_only_confirmed (s : Eng) (f : LTXFile) (hf : f ∈ s.ltx)
    (hgone : f ∉ (enforceRetention s).ltx) :
    f.old = true ∧ (s.backup = true → f.maxTxid < s.hwm) := by
  constructor
  · cases ho : f.old with
    | true => rfl
    | false => exact absurd (C09_retention_keeps_unconfirmed s f hf (Or.inr ho)) hgone
  · intro hb
    exact Nat.lt_of_not_le fun hle => hgone (C09_retention_keeps_unconfirmed s f hf (Or.inl ⟨hb, hle⟩))

/-! ### the log invariant over engine operations

`LogInv s`: the log of `s` is one chain of files with non-empty TXID ranges whose newest file ends
at the node's position.  It holds initially and is preserved by every operation that adds to the
log — so it holds after any sequence of them. -/

theorem C09_inv_init : LogInv {} := LogInv.init

theorem C09_inv_journal_commit (s s' : Eng) (mode : Nat) (hinv : LogInv s)
    (h : commitJournalValid s mode = .ok s') : LogInv s' := by
  obtain ⟨f, h1, h2, h3, h4, h5, h6, _⟩ := commitJournalValid_shape s s' mode h
  exact hinv.extend f h1 h2 h4 (by rw [h6, h3]) h5.symm (by omega)

theorem C09_inv_wal_commit (s s' : Eng) (hinv : LogInv s) (h : commitWALBody s = .ok s') : LogInv s' := by
  rcases commitWAL_shape s s' h with e | ⟨f, h1, h2, h3, h4, h5, h6, _⟩
  · rw [e]; exact hinv
  · exact hinv.extend f h1 h2 h4 (by rw [h6, h3]) h5.symm (by omega)

theorem C09_inv_drop (s s' : Eng) (hinv : LogInv s) (h : drop s = .ok s') : LogInv s' := by
  obtain ⟨f, h1, h2, h3, h4, _, _, h7, h8⟩ := C09_drop s s' h
  exact hinv.extend f h1 h2 h4 h7 h8 (by omega)

/-- `WriteLTXFileAt`: an accepted incremental file extends the chain (the position moves when the
    file is applied: `C13_applied_at_same_position`); an accepted snapshot replaces the log -/
theorem C09_inv_write_incremental (s s1 s' : Eng) (f : LTXFile) (hinv : LogInv s)
    (hw : writeLTXFile s f = .ok s1) (hn : f.minTxid ≠ 1) (hr : f.minTxid ≤ f.maxTxid)
    (hl : s'.ltx = s1.ltx) (hp : s'.posTxid = f.maxTxid ∧ s'.posChk = f.post) : LogInv s' := by
  obtain ⟨h1, h2, h3⟩ := C09_writeLTX_extends s s1 f hw hn
  exact hinv.extend f (by rw [hl, h3]) h1 h2 hp.1 hp.2 hr

theorem C09_inv_write_snapshot (s s1 s' : Eng) (f : LTXFile)
    (hw : writeLTXFile s f = .ok s1) (hs : f.minTxid = 1) (hr : f.minTxid ≤ f.maxTxid)
    (hl : s'.ltx = s1.ltx) (hp : s'.posTxid = f.maxTxid ∧ s'.posChk = f.post) : LogInv s' := by
  have := C09_writeLTX_snapshot s s1 f hw hs
  exact LogInv.snapshot f (by rw [hl, this]) (by omega) hr hp.1 hp.2

/-- the stream path as a whole: a received file that the node accepts (incremental or snapshot)
    leaves the log a chain ending at the new position -/
theorem C09_inv_receive (s s' : Eng) (f : LTXFile) (hinv : LogInv s) (hr : 1 ≤ f.minTxid ∧ f.minTxid ≤ f.maxTxid)
    (h : receiveLTX s f = .ok s') : LogInv s' := by
  unfold receiveLTX at h
  cases hl : s.locks.tryAcquireWriteLock s.walMode with
  | mk t oi =>
    rw [hl] at h
    cases oi with
    | none => simp [fail] at h
    | some i =>
      simp only at h
      cases hr1 : (do let s1 ← writeLTXFile { s with locks := t } f; applyLTX s1 f true : M Eng) with
      | error e => rw [hr1] at h; simp [fail] at h
      | ok s2 =>
        rw [hr1] at h
        simp only [pure, Except.pure] at h
        injection h with h
        subst h
        obtain ⟨s1, hw, ha⟩ := M_bind_ok hr1
        obtain ⟨hl2, hp1, hp2⟩ := applyLTX_frame s1 s2 f true ha
        have hinv0 : LogInv { s with locks := t } := ⟨hinv.chain, hinv.ranges, hinv.last⟩
        by_cases hs : f.minTxid = 1
        · exact C09_inv_write_snapshot { s with locks := t } s1 _ f hw hs hr.2 hl2 ⟨hp1, hp2⟩
        · exact C09_inv_write_incremental { s with locks := t } s1 _ f hinv0 hw hs hr.2 hl2 ⟨hp1, hp2⟩

/-- removing the k oldest files (retention) while the newest stays keeps the invariant -/
theorem C09_inv_retention (s s' : Eng) (k : Nat) (hinv : LogInv s) (hk : k < s.ltx.length ∨ s.ltx = [])
    (h1 : s'.ltx = s.ltx.drop k) (h2 : s'.posTxid = s.posTxid) (h3 : s'.posChk = s.posChk) : LogInv s' :=
  hinv.dropPrefix k hk h1 h2 h3

/-- consequence of the invariant: TXID ranges along the log are contiguous and end at the position -/
theorem C09_inv_newest_is_position (s : Eng) (hinv : LogInv s) (f : LTXFile) (h : s.ltx.getLast? = some f) :
    f.maxTxid = s.posTxid ∧ f.post = s.posChk := hinv.last f h

/-! ### non-vacuity -/
example : chainOK [⟨1, 1, 0, 5, 1, []⟩, ⟨2, 2, 5, 7, 1, []⟩, ⟨3, 4, 7, 9, 2, []⟩] = true := by decide
example : chainOK [⟨1, 1, 0, 5, 1, []⟩, ⟨3, 3, 5, 7, 1, []⟩] = false := by decide

/-- the control skeletons (branch conditions, loop heads, returns, order of calls and of state
    assignments) of `DB.EnforceRetention`, regenerated from the current source on every run, are the ones the
    model was written and validated against (Model/ExpectedSkel.lean): a reordered, dropped or
    altered check or call in these functions breaks this theorem -/
theorem C09_source_skeletons :
    Gen.Skel.DB_EnforceRetention = Expected.Skel.DB_EnforceRetention :=
  rfl

/-- further regenerated control skeletons (see Model/ExpectedSkel.lean): Store_EnforceRetention -/
theorem C09_source_skeletons_2 :
    Gen.Skel.Store_EnforceRetention = Expected.Skel.Store_EnforceRetention :=
  rfl

/-- the receiving side: a file is verified in full before anything in the log is touched, and a
    snapshot's purge of the older files comes after that (WriteLTXFileAt), then the apply -/
theorem C09_source_skeletons_3 :
    Gen.Skel.DB_WriteLTXFileAt = Expected.Skel.DB_WriteLTXFileAt ∧
    Gen.Skel.DB_ApplyLTXNoLock = Expected.Skel.DB_ApplyLTXNoLock :=
  ⟨rfl, rfl⟩

/-- Retention decides before it removes — facts proved by `decide` about the skeleton of
    `(DB).EnforceRetention` regenerated from db.go: the high-water mark is read first, the tests
    for a configured backup client and for the newest file come before the test of
    `shouldRemove`, a file that is kept is skipped (`continue`) before the one `Remove`. -/
theorem C09_retention_decides_before_it_removes :
    let ix (sk : List (String × String)) (x : String × String) (d : Nat) := (sk.findIdx? (· == x)).getD d
    let t := Gen.Skel.DB_EnforceRetention
    ix t ("call", "db.HWM") 1000 < ix t ("call", "db.ReadLTXDir") 0 ∧
    ix t ("if", "db.store.BackupClient != nil") 1000 < ix t ("if", "!shouldRemove") 0 ∧
    ix t ("if", "i == len(ents)-1") 1000 < ix t ("if", "!shouldRemove") 0 ∧
    ix t ("if", "!shouldRemove") 1000 < ix t ("call", "db.os.Remove") 0 ∧
    ((t.drop (ix t ("if", "!shouldRemove") 1000)).takeWhile (· != ("call", "db.os.Remove"))).contains ("branch", "continue") = true ∧
    (t.filter (· == ("call", "db.os.Remove"))).length = 1 := by
  decide

end LiteFSVerif.C09
