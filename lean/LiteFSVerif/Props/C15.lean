/-
  C15 — Dropping a database is a replicated transaction; recreation continues the log.

  Engine model: `drop` (primary), `applyLTX` of a tombstone (commit = 0) on a replica, the
  re-creation path; spec level: the tombstone applied to any image yields the empty image whose
  checksum is the empty checksum.
-/
import LiteFSVerif.Proofs.Engine
import LiteFSVerif.Proofs.Image
import LiteFSVerif.Proofs.ApplyBytes
import LiteFSVerif.Gen.Skel
import LiteFSVerif.Model.ExpectedSkel

set_option linter.unusedSimpArgs false

namespace LiteFSVerif.C15
open LiteFSVerif LiteFSVerif.Engine LiteFSVerif.Spec

/-- applying a tombstone (commit 0) to any image gives the empty image -/
theorem C15_tombstone_empties (img : Img) (tx : Tx) (h : tx.commit = 0) : apply img tx = [] := by
  simp [apply, h]

/-- the empty image has exactly the empty checksum -/
theorem C15_empty_checksum (lock : Nat) : Spec.checksum lock [] = Spec.flag := by
  simp [Spec.checksum, Spec.flag]

/-- `Drop` on the primary: position advances by exactly one with the empty checksum; database,
    journal and WAL files are gone; the size is zero; the journal mode is reset -/
theorem C15_drop (s s' : Eng) (h : drop s = .ok s') :
    s'.posTxid = s.posTxid + 1 ∧ s'.posChk = Cks.flag ∧ s'.dbFile = none ∧ s'.journal = none ∧ s'.wal = none ∧
    s'.pageN = 0 ∧ s'.walMode = false ∧ s'.w.frameOffsets = [] ∧ s'.w.chksums = [] := by
  unfold drop at h
  obtain ⟨_, _, h⟩ := M_bind_ok h
  obtain ⟨_, _, h⟩ := M_bind_ok h
  obtain ⟨_, _, h⟩ := M_bind_ok h
  simp only [pure, Except.pure] at h
  injection h with h
  subst h
  exact ⟨rfl, rfl, rfl, rfl, rfl, rfl, rfl, rfl, rfl⟩

/-- the tombstone is one file extending the log (the chain continues through the deletion) -/
theorem C15_drop_file (s s' : Eng) (h : drop s = .ok s') :
    ∃ f, s'.ltx = addLTX s.ltx f ∧ f.minTxid = s.posTxid + 1 ∧ f.maxTxid = s.posTxid + 1 ∧ f.pre = s.posChk ∧
      f.post = Cks.flag ∧ f.commit = 0 ∧ f.pages = [] := by
  unfold drop at h
  obtain ⟨_, _, h⟩ := M_bind_ok h
  obtain ⟨_, _, h⟩ := M_bind_ok h
  obtain ⟨_, _, h⟩ := M_bind_ok h
  simp only [pure, Except.pure] at h
  injection h with h
  subst h
  exact ⟨{ minTxid := s.posTxid + 1, maxTxid := s.posTxid + 1, pre := s.posChk, post := Cks.flag, commit := 0,
           pageSize := s.pageSize, pages := [] }, rfl, rfl, rfl, rfl, rfl, rfl, rfl⟩

/-- a database created again under the same name continues the same transaction-ID sequence:
    the next local commit is `txid + 1` with the empty checksum as pre-apply checksum -/
theorem C15_recreate_continues (s0 s1 s2 : Eng) (mode : Nat) (hd : drop s0 = .ok s1)
    (sr : Eng) (hsame : sr.posTxid = s1.posTxid ∧ sr.posChk = s1.posChk ∧ sr.ltx = s1.ltx)
    (hc : commitJournalValid sr mode = .ok s2) :
    ∃ f : LTXFile, s2.ltx = addLTX s1.ltx f ∧ f.minTxid = s0.posTxid + 2 ∧ f.pre = Cks.flag ∧ s2.posTxid = s0.posTxid + 2 := by
  have hdrop := C15_drop s0 s1 hd
  obtain ⟨f, h1, h2, _, h4, _, h6, _⟩ := commitJournalValid_shape sr s2 mode hc
  refine ⟨f, ?_, ?_, ?_, ?_⟩
  · rw [h1, hsame.2.2]
  · rw [h2, hsame.1, hdrop.1]
  · rw [h4, hsame.2.1, hdrop.2.1]
  · rw [h6, hsame.1, hdrop.1]

/-- engine, replica side: applying the deletion marker the primary published (a file of size 0)
    removes database, journal and WAL, leaves a database of zero pages in rollback mode, and puts
    the replica at the marker's position — the same (TXID, empty checksum) the primary is at
    (`C15_drop`) -/
theorem C15_replica_applies_tombstone (s s' : Eng) (f : LTXFile) (fatal : Bool)
    (h : applyLTX s f fatal = .ok s') (hc : f.commit = 0) :
    s'.dbFile = none ∧ s'.journal = none ∧ s'.wal = none ∧ s'.pageN = 0 ∧ s'.walMode = false ∧
    s'.posTxid = f.maxTxid ∧ s'.posChk = f.post :=
  applyLTX_tombstone s s' f fatal h hc

/-- the control skeletons (branch conditions, loop heads, returns, order of calls and of state
    assignments) of `DB.Drop`, regenerated from the current source on every run, are the ones the
    model was written and validated against (Model/ExpectedSkel.lean): a reordered, dropped or
    altered check or call in these functions breaks this theorem -/
theorem C15_source_skeletons :
    Gen.Skel.DB_Drop = Expected.Skel.DB_Drop :=
  rfl

/-- further regenerated control skeletons (fifth round of seeded changes: code no earlier change had
    touched): Store_openDatabases, Store_openDatabase, RootNode_createDatabase, RootNode_lookupDBNode -/
theorem C15_source_skeletons_5 :
    Gen.Skel.Store_openDatabases = Expected.Skel.Store_openDatabases ∧
    Gen.Skel.Store_openDatabase = Expected.Skel.Store_openDatabase ∧
    Gen.Skel.RootNode_createDatabase = Expected.Skel.RootNode_createDatabase ∧
    Gen.Skel.RootNode_lookupDBNode = Expected.Skel.RootNode_lookupDBNode :=
  ⟨rfl, rfl, rfl, rfl⟩

/-- A drop is durable and forwarded before it is visible — facts proved by `decide` about the
    skeleton of `(DB).Drop` regenerated from db.go: the tombstone file is encoded, closed and synced
    first; under a remote halt lock it is committed to the primary before anything local changes;
    the one `Rename` that publishes it comes before the database file is removed, and the position
    is set only after the four files are gone. -/
theorem C15_drop_publishes_the_tombstone_before_removing :
    let ix (sk : List (String × String)) (x : String × String) (d : Nat) := (sk.findIdx? (· == x)).getD d
    let t := Gen.Skel.DB_Drop
    ix t ("call", "enc.Close") 1000 < ix t ("call", "ltxFile.Sync") 0 ∧
    ix t ("call", "ltxFile.Sync") 1000 < ix t ("call", "db.store.Client.Commit") 0 ∧
    ix t ("call", "db.store.Client.Commit") 1000 < ix t ("call", "db.os.Rename") 0 ∧
    (t.filter (· == ("call", "db.os.Rename"))).length = 1 ∧
    ix t ("call", "db.os.Rename") 1000 < ix t ("call", "db.DatabasePath") 0 ∧
    ix t ("call", "db.DatabasePath") 1000 < ix t ("call", "db.JournalPath") 0 ∧
    ix t ("call", "db.JournalPath") 1000 < ix t ("call", "db.WALPath") 0 ∧
    ix t ("call", "db.WALPath") 1000 < ix t ("call", "db.SHMPath") 0 ∧
    ix t ("call", "db.SHMPath") 1000 < ix t ("call", "db.setPos") 0 ∧
    ix t ("call", "db.setPos") 1000 < ix t ("return", "return nil") 0 := by
  decide

end LiteFSVerif.C15
