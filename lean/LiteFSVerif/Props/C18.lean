/-
  C18 — Stream frames, position maps and chunked bodies round-trip and fail safely.

  Models: Model/Frames.lean (client.go), Model/Chunk.lean (internal/chunk/chunk.go, http/http.go).
  Byte strings, names and payloads are of unbounded length; integers range over their whole
  wire width.  The type codes and the chunk limit are tied to the source by Gen/Facts.lean.
-/
import LiteFSVerif.Proofs.Frames
import LiteFSVerif.Proofs.Chunk
import LiteFSVerif.Gen.Facts
import LiteFSVerif.Gen.Skel
import LiteFSVerif.Model.ExpectedSkel

namespace LiteFSVerif.C18
open LiteFSVerif LiteFSVerif.Frames LiteFSVerif.Chunk

/-- constants of the model are the constants of the source (regenerated on every run) -/
theorem C18_facts :
    Gen.Facts.StreamFrameTypeLTX = (Frame.ltx 0 []).typeCode ∧
    Gen.Facts.StreamFrameTypeReady = Frame.ready.typeCode ∧
    Gen.Facts.StreamFrameTypeEnd = Frame.end_.typeCode ∧
    Gen.Facts.StreamFrameTypeDropDB = (Frame.dropDB []).typeCode ∧
    Gen.Facts.StreamFrameTypeHandoff = (Frame.handoff []).typeCode ∧
    Gen.Facts.StreamFrameTypeHWM = (Frame.hwm 0 []).typeCode ∧
    Gen.Facts.StreamFrameTypeHeartbeat = (Frame.heartbeat 0).typeCode ∧
    Gen.Facts.MaxChunkSize = Chunk.maxChunk ∧ Gen.Facts.ChunkEOF = 0 := by decide

/-- every frame a node can write is read back as the identical value, whatever follows it -/
theorem C18_frame_roundtrip (f : Frame) (h : f.WF) (rest : Bytes) :
    decodeFrame (encodeFrame f ++ rest) = .ok f rest := by
  have := enc_bind (f := fun t => (decodePayload t).mapErr DecErr.noEOF)
    (enc_readUint (typeCode_lt f)) (enc_mapErr (enc_payload f h))
  exact this rest

/-- every proper prefix of a frame's encoding is an error: io.EOF only for the empty prefix
    (clean end of the stream between frames), io.ErrUnexpectedEOF for every other cut -/
theorem C18_frame_prefix_error (f : Frame) (h : f.WF) (k : Nat) (hk : k < (encodeFrame f).length) :
    decodeFrame ((encodeFrame f).take k) = .err (if k = 0 then .eof else .unexpectedEOF) := by
  have := prefErr_bind (f := fun t => (decodePayload t).mapErr DecErr.noEOF)
    (enc_readUint (typeCode_lt f)) (prefErr_readUint 4 f.typeCode) (be4_ne_nil _)
    (prefErrU_mapErr_noEOF' (prefErrU_payload f h))
  exact this k hk

/-- a successful decode never yields a silently different value: the bytes consumed are exactly
    the encoding of the value returned, for arbitrary input bytes -/
theorem C18_frame_decode_sound (r rest : Bytes) (f : Frame) (h : decodeFrame r = .ok f rest) :
    r = encodeFrame f ++ rest ∧ f.WF :=
  decodeFrame_sound h

/-- arbitrary bytes: the decoder returns a value or an error (the model is a total function: Lean
    accepted its termination; there is no panic outcome because the code indexes nothing) and it
    never reads beyond the bytes it was given -/
theorem C18_frame_total (r : Bytes) :
    (∃ f rest, decodeFrame r = .ok f rest ∧ rest.length ≤ r.length) ∨ (∃ e, decodeFrame r = .err e) := by
  cases h : decodeFrame r with
  | ok f rest =>
    left
    refine ⟨f, rest, rfl, ?_⟩
    have := (decodeFrame_sound h).1
    rw [this]; simp
  | err e => right; exact ⟨e, rfl⟩

/-- position maps round-trip (entries in wire order; `lookup` is what the Go map then holds) -/
theorem C18_posmap_roundtrip (m : List Entry) (h : ∀ e ∈ m, e.WF) (hn : m.length < 256 ^ 4) (rest : Bytes) :
    decodePosMap (encodePosMap m ++ rest) = .ok m rest := by
  have := enc_bind (f := decodeEntries) (enc_readUint hn) (enc_decodeEntries m h)
  exact this rest

/-- every proper prefix of a position map is rejected (io.EOF or io.ErrUnexpectedEOF; both are
    errors to `handlePostStream`) -/
theorem C18_posmap_prefix_error (m : List Entry) (h : ∀ e ∈ m, e.WF) (hn : m.length < 256 ^ 4)
    (k : Nat) (hk : k < (encodePosMap m).length) :
    decodePosMap ((encodePosMap m).take k) = .err .eof ∨
    decodePosMap ((encodePosMap m).take k) = .err .unexpectedEOF := by
  have := prefShort_bind (f := decodeEntries) (enc_readUint hn)
    (prefShort_of_prefErr (prefErr_readUint 4 m.length)) (prefShort_decodeEntries m h)
  exact this k hk

/-- chunked bodies: any sequence of writes of any sizes (including empty and > 65535 bytes)
    followed by Close is read back as the concatenated payload, then the end of the body -/
theorem C18_chunk_roundtrip (ws : List Bytes) (rest : Bytes) :
    decodeChunks (ws.flatMap chunkWrite ++ chunkClose ++ rest) = .ok ws.flatten rest := by
  have hflat : ws.flatMap chunkWrite = (ws.flatMap splitChunks).flatMap encodeChunk := by
    rw [List.flatMap_assoc]; rfl
  have hgood : ∀ c ∈ ws.flatMap splitChunks, GoodChunk c := by
    intro c hc
    obtain ⟨w, _, hw⟩ := List.mem_flatMap.mp hc
    exact splitChunks_good w c hw
  have := decodeChunks_stream (ws.flatMap splitChunks) hgood rest
  rw [stream, ← hflat] at this
  rw [this]
  have hfl : ∀ ws : List Bytes, (ws.flatMap splitChunks).flatten = ws.flatten := by
    intro ws
    induction ws with
    | nil => rfl
    | cons w ws ih => simp [List.flatMap_cons, splitChunks_flatten, ih]
  rw [hfl]

/-- a chunked body cut anywhere before its end is an error, never a clean end and never a
    shorter payload -/
theorem C18_chunk_prefix_error (ws : List Bytes) (k : Nat)
    (hk : k < (ws.flatMap chunkWrite ++ chunkClose).length) :
    decodeChunks ((ws.flatMap chunkWrite ++ chunkClose).take k) = .err .unexpectedEOF := by
  have hflat : ws.flatMap chunkWrite = (ws.flatMap splitChunks).flatMap encodeChunk := by
    rw [List.flatMap_assoc]; rfl
  have hgood : ∀ c ∈ ws.flatMap splitChunks, GoodChunk c := by
    intro c hc
    obtain ⟨w, _, hw⟩ := List.mem_flatMap.mp hc
    exact splitChunks_good w c hw
  have := decodeChunks_stream_prefix (ws.flatMap splitChunks) hgood k
  rw [stream, ← hflat] at this
  exact this hk

/-- the writer never emits a chunk larger than the limit or an empty chunk (which would read
    as the end of the body) -/
theorem C18_chunk_sizes (p : Bytes) : ∀ c ∈ splitChunks p, 0 < c.length ∧ c.length ≤ 65535 :=
  splitChunks_good p

/-! ### non-vacuity -/
example : (Frame.ltx 12345 [100, 98]).WF ∧ (Frame.hwm (2 ^ 64 - 1) []).WF := by
  simp [Frame.WF]
example : decodeFrame (encodeFrame (.ltx 258 [100, 98]) ++ [9]) = .ok (.ltx 258 [100, 98]) [9] :=
  C18_frame_roundtrip _ (by simp [Frame.WF]) _

/-- the control skeletons (branch conditions, loop heads, returns, order of calls and of state
    assignments) of `Writer.Write`, `Reader.Read`, regenerated from the current source on every run, are the ones the
    model was written and validated against (Model/ExpectedSkel.lean): a reordered, dropped or
    altered check or call in these functions breaks this theorem -/
theorem C18_source_skeletons :
    Gen.Skel.Writer_Write = Expected.Skel.Writer_Write ∧
    Gen.Skel.Reader_Read = Expected.Skel.Reader_Read :=
  ⟨rfl, rfl⟩

/-- further regenerated control skeletons (see Model/ExpectedSkel.lean): fn_ReadStreamFrame, fn_WriteStreamFrame, LTXStreamFrame_ReadFrom, LTXStreamFrame_WriteTo, DropDBStreamFrame_ReadFrom, DropDBStreamFrame_WriteTo, HandoffStreamFrame_ReadFrom, HandoffStreamFrame_WriteTo, HWMStreamFrame_ReadFrom, HWMStreamFrame_WriteTo, HeartbeatStreamFrame_ReadFrom, HeartbeatStreamFrame_WriteTo, fn_ReadPosMapFrom, fn_WritePosMapTo -/
theorem C18_source_skeletons_2 :
    Gen.Skel.fn_ReadStreamFrame = Expected.Skel.fn_ReadStreamFrame ∧
    Gen.Skel.fn_WriteStreamFrame = Expected.Skel.fn_WriteStreamFrame ∧
    Gen.Skel.LTXStreamFrame_ReadFrom = Expected.Skel.LTXStreamFrame_ReadFrom ∧
    Gen.Skel.LTXStreamFrame_WriteTo = Expected.Skel.LTXStreamFrame_WriteTo ∧
    Gen.Skel.DropDBStreamFrame_ReadFrom = Expected.Skel.DropDBStreamFrame_ReadFrom ∧
    Gen.Skel.DropDBStreamFrame_WriteTo = Expected.Skel.DropDBStreamFrame_WriteTo ∧
    Gen.Skel.HandoffStreamFrame_ReadFrom = Expected.Skel.HandoffStreamFrame_ReadFrom ∧
    Gen.Skel.HandoffStreamFrame_WriteTo = Expected.Skel.HandoffStreamFrame_WriteTo ∧
    Gen.Skel.HWMStreamFrame_ReadFrom = Expected.Skel.HWMStreamFrame_ReadFrom ∧
    Gen.Skel.HWMStreamFrame_WriteTo = Expected.Skel.HWMStreamFrame_WriteTo ∧
    Gen.Skel.HeartbeatStreamFrame_ReadFrom = Expected.Skel.HeartbeatStreamFrame_ReadFrom ∧
    Gen.Skel.HeartbeatStreamFrame_WriteTo = Expected.Skel.HeartbeatStreamFrame_WriteTo ∧
    Gen.Skel.fn_ReadPosMapFrom = Expected.Skel.fn_ReadPosMapFrom ∧
    Gen.Skel.fn_WritePosMapTo = Expected.Skel.fn_WritePosMapTo :=
  ⟨rfl, rfl, rfl, rfl, rfl, rfl, rfl, rfl, rfl, rfl, rfl, rfl, rfl, rfl⟩

/-- Every stream frame reads the fields it writes — facts proved by `decide` about the skeletons
    of the frame codecs regenerated from litefs.go: for the LTX, high-water-mark, hand-off,
    heartbeat and drop frames the reader makes as many fixed-size reads (`binary.Read`) as the
    writer makes fixed-size writes (`binary.Write`), and as many variable-length reads
    (`internal.ReadBytes`) as the writer makes raw writes (`w.Write`). -/
theorem C18_frames_read_the_fields_they_write :
    let n (sk : List (String × String)) (c : String) := (sk.filter (· == ("call", c))).length
    n Gen.Skel.LTXStreamFrame_ReadFrom "binary.Read" = n Gen.Skel.LTXStreamFrame_WriteTo "binary.Write" ∧
    n Gen.Skel.LTXStreamFrame_ReadFrom "internal.ReadBytes" = n Gen.Skel.LTXStreamFrame_WriteTo "w.Write" ∧
    n Gen.Skel.HWMStreamFrame_ReadFrom "binary.Read" = n Gen.Skel.HWMStreamFrame_WriteTo "binary.Write" ∧
    n Gen.Skel.HWMStreamFrame_ReadFrom "internal.ReadBytes" = n Gen.Skel.HWMStreamFrame_WriteTo "w.Write" ∧
    n Gen.Skel.HandoffStreamFrame_ReadFrom "binary.Read" = n Gen.Skel.HandoffStreamFrame_WriteTo "binary.Write" ∧
    n Gen.Skel.HandoffStreamFrame_ReadFrom "internal.ReadBytes" = n Gen.Skel.HandoffStreamFrame_WriteTo "w.Write" ∧
    n Gen.Skel.HeartbeatStreamFrame_ReadFrom "binary.Read" = n Gen.Skel.HeartbeatStreamFrame_WriteTo "binary.Write" ∧
    n Gen.Skel.DropDBStreamFrame_ReadFrom "binary.Read" = n Gen.Skel.DropDBStreamFrame_WriteTo "binary.Write" ∧
    n Gen.Skel.DropDBStreamFrame_ReadFrom "internal.ReadBytes" = n Gen.Skel.DropDBStreamFrame_WriteTo "w.Write" ∧
    0 < n Gen.Skel.LTXStreamFrame_ReadFrom "binary.Read" ∧ 0 < n Gen.Skel.HeartbeatStreamFrame_ReadFrom "binary.Read" := by
  decide

end LiteFSVerif.C18
