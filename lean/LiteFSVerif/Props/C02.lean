/-
  C02 — Rollback-journal commits are captured exactly, once, in order.

  Spec level: capture exactness (`apply prev (capture …) = new` whenever the dirty set covers every
  changed page) and the page constraints of the captured file.
  Engine level (Model/Engine.lean `commitJournal`, `invalidateJournal`): a finalisation whose journal
  header is not valid (SQLite zeroed or never wrote it: a rollback) or that happens on a node
  without write authority publishes nothing.
  The assumptions about SQLite (which pages it writes, when it finalises) are the pager simulator's;
  the byte-level engine model is tied to db.go by the `engine` correspondence suite.
-/
import LiteFSVerif.Proofs.Image
import LiteFSVerif.Proofs.Engine
import LiteFSVerif.Proofs.Log
import LiteFSVerif.Gen.Skel
import LiteFSVerif.Model.ExpectedSkel

set_option linter.unusedSimpArgs false

namespace LiteFSVerif.C02
open LiteFSVerif LiteFSVerif.Spec LiteFSVerif.Engine

/-- the new transaction file applied to the image at the previous position yields exactly the
    image SQLite now sees, for any previous image, any new image (grown, shrunk or same size) and
    any dirty set that covers the changed pages -/
theorem C02_capture_exact (prev new : Img) (dirty : List Nat) (txid : Nat) (pre post : Chk)
    (hcover : ∀ i, i < new.length → new.getD i 0 ≠ prev.getD i 0 → (i + 1) ∈ dirty) :
    apply prev (capture new dirty txid txid pre post) = new :=
  apply_capture prev new dirty txid txid pre post hcover

/-- the captured file has the new size as commit, names the next transaction only, and carries
    the previous checksum as its pre-apply checksum -/
theorem C02_capture_header (new : Img) (dirty : List Nat) (txid : Nat) (pre post : Chk) :
    let f := capture new dirty txid txid pre post
    f.commit = new.length ∧ f.minTxid = txid ∧ f.maxTxid = txid ∧ f.pre = pre := by
  simp [capture]

/-- no page beyond the new size is captured -/
theorem C02_capture_bounds (new : Img) (dirty : List Nat) (txid : Nat) (pre post : Chk) :
    ∀ p ∈ (capture new dirty txid txid pre post).pages, 1 ≤ p.1 ∧ p.1 ≤ new.length := by
  intro p hp
  simp only [capture, List.mem_map, List.mem_filter] at hp
  obtain ⟨q, ⟨_, hq⟩, rfl⟩ := hp
  simpa using hq

/-- a rollback that writes every original page back leaves the image (and so its checksum)
    unchanged: applying a file whose pages equal the previous content is the identity -/
theorem C02_rollback_identity (prev : Img) (dirty : List Nat) (txid : Nat) (pre post : Chk) :
    apply prev (capture prev dirty txid txid pre post) = prev :=
  apply_capture prev prev dirty txid txid pre post (fun _ _ h => absurd rfl h)

/-- engine (byte level): a rollback-journal commit with a valid journal header publishes exactly
    one file; its pages are, in increasing page order, the *current bytes of the database file* of
    every page written since the last commit (the dirty set) that lies within the new size (the
    header's page count), except the lock page; its size field is that page count.  Together with
    `C02_capture_exact` (the dirty set covers every changed page: every page SQLite changed went
    through `WriteDatabaseAt`) the file applied to the previous image is the image SQLite sees. -/
theorem C02_commit_captures_database_bytes (s s' : Eng) (mode : Nat) (h : commitJournalValid s mode = .ok s') :
    ∃ (dbf : ByteArray) (lock : Nat) (f : LTXFile), s.dbFile = some dbf ∧ Cks.lockPgno s.pageSize = .ok lock ∧
      s'.ltx = addLTX s.ltx f ∧ f.commit = BA.be32 dbf 28 ∧
      f.pages = ((sortNat (s.dirty.filter (· ≤ BA.be32 dbf 28))).filter (· ≠ lock)).map
        (fun p => (p, dbf.extract ((p - 1) * s.pageSize) ((p - 1) * s.pageSize + s.pageSize))) :=
  commitJournalValid_captures s s' mode h

/-- engine: on a node without write authority `CommitJournal` refuses and changes nothing -/
theorem C02_commit_readonly (s : Eng) (mode : Nat) (h : s.writeable = false) :
    commitJournal s mode = .error (s, .readonly) := by
  unfold commitJournal
  simp [h, ensure, fail, pure, Except.pure, bind, Except.bind, bind, Except.bind]

/-- engine: `invalidateJournal` never touches the database image, the position or the log -/
theorem C02_invalidate_frame (s s' : Eng) (mode : Nat) (h : invalidateJournal s mode = .ok s') :
    s'.dbFile = s.dbFile ∧ s'.posTxid = s.posTxid ∧ s'.posChk = s.posChk ∧ s'.ltx = s.ltx ∧ s'.pageN = s.pageN ∧
    s'.wal = s.wal ∧ s'.dirty = [] := by
  unfold invalidateJournal at h
  match mode, h with
  | 0, h =>
    simp only [bind, Except.bind, pure, Except.pure] at h
    cases hj : s.journal <;> simp [hj, ensure, fail, pure, Except.pure, bind, Except.bind] at h
    rw [← h]; simp
  | 1, h =>
    simp only [bind, Except.bind, pure, Except.pure] at h
    cases hj : s.journal <;> simp [hj, ensure, fail, pure, Except.pure, bind, Except.bind] at h
    rw [← h]; simp
  | n + 2, h =>
    simp only [bind, Except.bind, pure, Except.pure] at h
    cases hj : s.journal <;> simp [hj] at h <;> (rw [← h]; simp)

/-- engine: finalising a journal whose header is not the journal magic (SQLite rolled back, or a
    write lock taken without writing) publishes nothing: image, position and log are unchanged -/
theorem C02_rollback_publishes_nothing (s s' : Eng) (mode : Nat) (j : ByteArray)
    (hw : s.writeable = true) (hj : s.journal = some j) (hsz : 8 ≤ j.size)
    (hmagic : (j.extract 0 8 != journalMagic) = true)
    (h : commitJournal s mode = .ok s') :
    s'.dbFile = s.dbFile ∧ s'.posTxid = s.posTxid ∧ s'.posChk = s.posChk ∧ s'.ltx = s.ltx := by
  unfold commitJournal at h
  have hlt : ¬ j.size < 8 := by omega
  simp only [hw, Bool.not_true, Bool.false_eq_true, if_false, hj, bind, Except.bind, pure, Except.pure, hlt, hmagic, if_true] at h
  have := C02_invalidate_frame s s' mode h
  exact ⟨this.1, this.2.1, this.2.2.1, this.2.2.2.1⟩

/-- engine: a journal finalisation with a valid header publishes exactly one file: it extends the
    position by exactly one transaction ID, its pre-apply checksum is the previous position's
    checksum, and the new position is the file's (max TXID, post-apply checksum); the commit itself
    does not write the database file -/
theorem C02_commit_once_in_order (s s' : Eng) (mode : Nat) (h : commitJournalValid s mode = .ok s') :
    ∃ f : LTXFile, s'.ltx = addLTX s.ltx f ∧ f.minTxid = s.posTxid + 1 ∧ f.maxTxid = s.posTxid + 1 ∧
      f.pre = s.posChk ∧ f.post = s'.posChk ∧ s'.posTxid = s.posTxid + 1 ∧ s'.pageN = f.commit ∧
      s'.dbFile = s.dbFile :=
  commitJournalValid_shape s s' mode h

/-! ### non-vacuity: a grow-and-modify transaction -/
example : apply [10, 20, 30] (capture [11, 20, 30, 40] [1, 4] 5 5 0 0) = [11, 20, 30, 40] := by decide
example : apply [10, 20, 30] (capture [11, 20] [1] 5 5 0 0) = [11, 20] := by decide

/-- the control skeletons (branch conditions, loop heads, returns, order of calls and of state
    assignments) of `DB.WriteDatabaseAt`, `DB.CommitJournal`, `DB.invalidateJournal`, `DB.writeDatabasePage`, regenerated from the current source on every run, are the ones the
    model was written and validated against (Model/ExpectedSkel.lean): a reordered, dropped or
    altered check or call in these functions breaks this theorem -/
theorem C02_source_skeletons :
    Gen.Skel.DB_WriteDatabaseAt = Expected.Skel.DB_WriteDatabaseAt ∧
    Gen.Skel.DB_CommitJournal = Expected.Skel.DB_CommitJournal ∧
    Gen.Skel.DB_invalidateJournal = Expected.Skel.DB_invalidateJournal ∧
    Gen.Skel.DB_writeDatabasePage = Expected.Skel.DB_writeDatabasePage :=
  ⟨rfl, rfl, rfl, rfl⟩

/-- the checksum bookkeeping a commit relies on: per-page sums, the cached 256-page block sums and
    their invalidation -/
theorem C02_source_skeletons_2 :
    Gen.Skel.DB_checksum = Expected.Skel.DB_checksum ∧
    Gen.Skel.DB_setDatabasePageChecksum = Expected.Skel.DB_setDatabasePageChecksum ∧
    Gen.Skel.DB_resetDatabasePageChecksumsAfter = Expected.Skel.DB_resetDatabasePageChecksumsAfter :=
  ⟨rfl, rfl, rfl⟩

/-- further regenerated control skeletons (fifth round of seeded changes: code no earlier change had
    touched): RootNode_createJournal, JournalNode_Open, DatabaseHandle_Flush -/
theorem C02_source_skeletons_5 :
    Gen.Skel.RootNode_createJournal = Expected.Skel.RootNode_createJournal ∧
    Gen.Skel.JournalNode_Open = Expected.Skel.JournalNode_Open ∧
    Gen.Skel.DatabaseHandle_Flush = Expected.Skel.DatabaseHandle_Flush :=
  ⟨rfl, rfl, rfl⟩

/-- A database page write is validated before it reaches the file — facts proved by `decide`
    about the skeleton of `WriteDatabaseAt` regenerated from db.go: the read-only refusal is the
    first test; the alignment and the length of the write are tested before the one call of
    `writeDatabasePage`, and the page is entered in the dirty set before it is written. -/
theorem C02_database_write_is_validated_before_it_reaches_the_file :
    let ix (sk : List (String × String)) (x : String × String) (d : Nat) := (sk.findIdx? (· == x)).getD d
    let t := Gen.Skel.DB_WriteDatabaseAt
    ix t ("if", "!db.Writeable()") 1000 < ix t ("if", "len(data) == 0") 0 ∧
    ix t ("return", "return ErrReadOnlyReplica") 1000 < ix t ("call", "db.writeDatabasePage") 0 ∧
    ix t ("if", "offset%int64(db.pageSize) != 0") 1000 < ix t ("call", "db.writeDatabasePage") 0 ∧
    ix t ("if", "len(data) != int(db.pageSize)") 1000 < ix t ("call", "db.writeDatabasePage") 0 ∧
    ix t ("set", "db.dirtyPageSet[pgno] = struct{}{}") 1000 < ix t ("call", "db.writeDatabasePage") 0 ∧
    (t.filter (· == ("call", "db.writeDatabasePage"))).length = 1 := by
  decide

end LiteFSVerif.C02
