/-
  C03 — WAL-mode commits are captured exactly when the write lock is released.

  Spec level: capture exactness for "last frame per page of the transaction, size from the commit
  frame" (the same `apply ∘ capture` law as C02 with the dirty set = pages of the transaction).
  Engine level (Model/Engine.lean): WAL writes need the exclusive WRITE lock and may not touch the
  log below the capture offset; releasing WRITE with no complete transaction after the capture
  offset changes nothing.
-/
import LiteFSVerif.Proofs.Image
import LiteFSVerif.Proofs.Engine

set_option linter.unusedSimpArgs false

namespace LiteFSVerif.C03
open LiteFSVerif LiteFSVerif.Spec LiteFSVerif.Engine LiteFSVerif.Locks

/-- the transaction file built from the last frame of every page of the transaction, applied to the
    previous image, is exactly the image SQLite now sees (truncated pages removed: the new image
    has `commit` pages) -/
theorem C03_capture_exact (prev new : Img) (txPages : List Nat) (txid : Nat) (pre post : Chk)
    (hcover : ∀ i, i < new.length → new.getD i 0 ≠ prev.getD i 0 → (i + 1) ∈ txPages) :
    apply prev (capture new txPages txid txid pre post) = new :=
  apply_capture prev new txPages txid txid pre post hcover

/-- engine: a WAL write (header, frame header or frame data) made while the WRITE lock is not held
    exclusively is refused and changes nothing -/
theorem C03_write_needs_lock (s : Eng) (offset : Nat) (data : ByteArray)
    (hw : s.writeable = true) (hd : data.size ≠ 0) (hps : s.pageSize ≠ 0)
    (hl : (s.locks.state .write == .exclusive) = false) (hhdr : offset = 0 → data.size = 32) :
    writeWALAt s offset data = .error (s, .err) := by
  unfold writeWALAt
  rw [ensure_pos (by simp [hw])]
  simp only [M_ok_bind, hd, if_false]
  rw [ensure_pos (by simpa using hps)]
  simp only [M_ok_bind]
  by_cases h0 : offset = 0
  · simp only [h0, if_true]
    rw [ensure_pos (by simp [hhdr h0]), M_ok_bind, ensure_neg (by simp [hl])]
    rfl
  · simp only [h0, if_false]
    rw [ensure_neg (by simp [hl])]
    rfl

/-- engine: a frame write below the capture offset (already captured frames) is refused -/
theorem C03_below_offset_refused (s : Eng) (offset : Nat) (data : ByteArray)
    (hw : s.writeable = true) (hd : data.size ≠ 0) (hps : s.pageSize ≠ 0)
    (h0 : offset ≠ 0) (hlt : offset < s.w.offset) :
    writeWALAt s offset data = .error (s, .err) := by
  unfold writeWALAt
  rw [ensure_pos (by simp [hw])]
  simp only [M_ok_bind, hd, if_false]
  rw [ensure_pos (by simpa using hps)]
  simp only [M_ok_bind, h0, if_false]
  by_cases hl : (s.locks.state .write == .exclusive) = true
  · rw [ensure_pos (by simp [hl]), M_ok_bind, ensure_neg (by simp; omega)]
    rfl
  · rw [ensure_neg (by simp [hl])]
    rfl

/-- engine: on a node without write authority WAL writes are refused with the read-only error -/
theorem C03_write_readonly (s : Eng) (offset : Nat) (data : ByteArray) (hw : s.writeable = false) :
    writeWALAt s offset data = .error (s, .readonly) := by
  unfold writeWALAt
  rw [ensure_neg (by simp [hw])]
  rfl

/-- engine: if no complete committed transaction follows the capture offset, releasing the write
    lock captures nothing: the state is unchanged -/
theorem C03_no_transaction_no_change (s : Eng) (wal : ByteArray) (hwal : s.wal = some wal)
    (hnone : Sqlite.buildTxFrames wal s.pageSize s.w.offset s.w.bo s.w.salt1 s.w.salt2 s.w.chk1 s.w.chk2 = .ok none) :
    commitWALBody s = .ok s := by
  unfold commitWALBody
  simp only [hwal, hnone, liftCk, M_pure_bind, M_ok_bind]
  rfl

/-- engine: releasing the write lock either captures nothing (state unchanged) or publishes exactly
    one file extending the position by one; database file and WAL bytes are not modified by the
    capture -/
theorem C03_release_captures_at_most_one (s s' : Eng) (h : commitWALBody s = .ok s') :
    s' = s ∨ ∃ f : LTXFile, s'.ltx = addLTX s.ltx f ∧ f.minTxid = s.posTxid + 1 ∧ f.maxTxid = s.posTxid + 1 ∧
      f.pre = s.posChk ∧ f.post = s'.posChk ∧ s'.posTxid = s.posTxid + 1 ∧ s'.pageN = f.commit ∧
      s'.dbFile = s.dbFile ∧ s'.wal = s.wal :=
  commitWAL_shape s s' h

/-- engine: a commit step that begins after write authority was lost publishes nothing -/
theorem C03_lost_authority (s s' : Eng) (hw : s.writeable = false) (h : commitWALBody s = .ok s') : s' = s :=
  commitWAL_lost_authority s s' hw h

/-! ### non-vacuity: repeated page within a transaction (last frame wins), shrink -/
example : apply [10, 20, 30, 40] (capture [11, 21] [1, 2, 1] 7 7 0 0) = [11, 21] := by decide

end LiteFSVerif.C03
