/-
  C03 — WAL-mode commits are captured exactly when the write lock is released.

  Spec level: capture exactness for "last frame per page of the transaction, size from the commit
  frame" (the same `apply ∘ capture` law as C02 with the dirty set = pages of the transaction).
  Engine level (Model/Engine.lean): WAL writes need the exclusive WRITE lock and may not touch the
  log below the capture offset; releasing WRITE with no complete transaction after the capture
  offset changes nothing.
-/
import LiteFSVerif.Proofs.Image
import LiteFSVerif.Proofs.Engine
import LiteFSVerif.Proofs.Log
import LiteFSVerif.Proofs.Wal
import LiteFSVerif.Gen.Skel
import LiteFSVerif.Model.ExpectedSkel

set_option linter.unusedSimpArgs false

namespace LiteFSVerif.C03
open LiteFSVerif LiteFSVerif.Spec LiteFSVerif.Engine LiteFSVerif.Locks

/-- the transaction file built from the last frame of every page of the transaction, applied to the
    previous image, is exactly the image SQLite now sees (truncated pages removed: the new image
    has `commit` pages) -/
theorem C03_capture_exact (prev new : Img) (txPages : List Nat) (txid : Nat) (pre post : Chk)
    (hcover : ∀ i, i < new.length → new.getD i 0 ≠ prev.getD i 0 → (i + 1) ∈ txPages) :
    apply prev (capture new txPages txid txid pre post) = new :=
  apply_capture prev new txPages txid txid pre post hcover

/-- engine: a WAL write (header, frame header or frame data) made while the WRITE lock is not held
    exclusively is refused and changes nothing -/
theorem C03_write_needs_lock (s : Eng) (offset : Nat) (data : ByteArray)
    (hw : s.writeable = true) (hd : data.size ≠ 0) (hps : s.pageSize ≠ 0)
    (hl : (s.locks.state .write == .exclusive) = false) (hhdr : offset = 0 → data.size = 32) :
    writeWALAt s offset data = .error (s, .err) := by
  unfold writeWALAt
  rw [ensure_pos (by simp [hw])]
  simp only [M_ok_bind, hd, if_false]
  rw [ensure_pos (by simpa using hps)]
  simp only [M_ok_bind]
  by_cases h0 : offset = 0
  · simp only [h0, if_true]
    rw [ensure_pos (by simp [hhdr h0]), M_ok_bind, ensure_neg (by simp [hl])]
    rfl
  · simp only [h0, if_false]
    rw [ensure_neg (by simp [hl])]
    rfl

/-- engine: a frame write below the capture offset (already captured frames) is refused -/
theorem C03_below_offset_refused (s : Eng) (offset : Nat) (data : ByteArray)
    (hw : s.writeable = true) (hd : data.size ≠ 0) (hps : s.pageSize ≠ 0)
    (h0 : offset ≠ 0) (hlt : offset < s.w.offset) :
    writeWALAt s offset data = .error (s, .err) := by
  unfold writeWALAt
  rw [ensure_pos (by simp [hw])]
  simp only [M_ok_bind, hd, if_false]
  rw [ensure_pos (by simpa using hps)]
  simp only [M_ok_bind, h0, if_false]
  by_cases hl : (s.locks.state .write == .exclusive) = true
  · rw [ensure_pos (by simp [hl]), M_ok_bind, ensure_neg (by simp; omega)]
    rfl
  · rw [ensure_neg (by simp [hl])]
    rfl

/-- engine: on a node without write authority WAL writes are refused with the read-only error -/
theorem C03_write_readonly (s : Eng) (offset : Nat) (data : ByteArray) (hw : s.writeable = false) :
    writeWALAt s offset data = .error (s, .readonly) := by
  unfold writeWALAt
  rw [ensure_neg (by simp [hw])]
  rfl

/-- engine: if no complete committed transaction follows the capture offset, releasing the write
    lock captures nothing: the state is unchanged -/
theorem C03_no_transaction_no_change (s : Eng) (wal : ByteArray) (hwal : s.wal = some wal)
    (hnone : Sqlite.buildTxFrames wal s.pageSize s.w.offset s.w.bo s.w.salt1 s.w.salt2 s.w.chk1 s.w.chk2 = .ok none) :
    commitWALBody s = .ok s := by
  unfold commitWALBody
  simp only [hwal, hnone, liftCk, M_pure_bind, M_ok_bind]
  rfl

/-- engine: releasing the write lock either captures nothing (state unchanged) or publishes exactly
    one file extending the position by one; database file and WAL bytes are not modified by the
    capture -/
theorem C03_release_captures_at_most_one (s s' : Eng) (h : commitWALBody s = .ok s') :
    s' = s ∨ ∃ f : LTXFile, s'.ltx = addLTX s.ltx f ∧ f.minTxid = s.posTxid + 1 ∧ f.maxTxid = s.posTxid + 1 ∧
      f.pre = s.posChk ∧ f.post = s'.posChk ∧ s'.posTxid = s.posTxid + 1 ∧ s'.pageN = f.commit ∧
      s'.dbFile = s.dbFile ∧ s'.wal = s.wal :=
  commitWAL_shape s s' h

/-- engine: a commit step that begins after write authority was lost publishes nothing -/
theorem C03_lost_authority (s s' : Eng) (hw : s.writeable = false) (h : commitWALBody s = .ok s') : s' = s :=
  commitWAL_lost_authority s s' hw h

/-! ### non-vacuity: repeated page within a transaction (last frame wins), shrink -/
example : apply [10, 20, 30, 40] (capture [11, 21] [1, 2, 1] 7 7 0 0) = [11, 21] := by decide

/-- engine (WAL mode): a WAL commit that finds a complete transaction after the current WAL
    offset publishes one file whose pages are, in increasing page order, the bytes of the last
    frame of each page inside that transaction (the lock page left out), whose size is the commit
    frame's page count, and whose WAL range starts at the previous offset; a commit that finds no
    complete transaction leaves the state as it is (`hne` excludes exactly that case) -/
theorem C03_commit_captures_frames (s s' : Eng) (h : commitWALBody s = .ok s') (hne : s' ≠ s) :
    ∃ (wal : ByteArray) (tx : Sqlite.TxFrames) (lock : Nat) (f : LTXFile), s.wal = some wal ∧
      Sqlite.buildTxFrames wal s.pageSize s.w.offset s.w.bo s.w.salt1 s.w.salt2 s.w.chk1 s.w.chk2 = .ok (some tx) ∧
      Cks.lockPgno s.pageSize = .ok lock ∧ s'.ltx = addLTX s.ltx f ∧ f.commit = tx.commit ∧
      f.walOffset = s.w.offset ∧ f.walOffset + f.walSize = tx.endOffset + (s.w.offset - tx.endOffset) ∧
      f.pages = ((sortNat (tx.offsets.map (·.1))).filter (· ≠ lock)).map
        (fun p => (p, wal.extract ((tx.offsets.lookup p).getD 0 + 24) ((tx.offsets.lookup p).getD 0 + 24 + s.pageSize))) :=
  commitWAL_captures s s' h hne

/-- WAL scan (`buildTxFrameOffsets`): the transaction found is exactly the next one in the WAL —
    `k ≥ 1` consecutive frames from the current offset, inside the file, with the WAL's salts,
    of which only the last is a commit frame — and a page is in the offset map iff one of those
    frames carries it, mapped to the *last* such frame.  With `C03_commit_captures_frames`:
    the published file holds, for every page SQLite wrote in the transaction, the final bytes it
    wrote, and nothing from a later (uncommitted or partial) transaction. -/
theorem C03_scan_is_next_transaction (w : ByteArray) (ps off : Nat) (bo : Option Bool) (s1 s2 c1 c2 : Nat)
    (tx : Sqlite.TxFrames) (h : Sqlite.buildTxFrames w ps off bo s1 s2 c1 c2 = .ok (some tx)) :
    ∃ k, 1 ≤ k ∧ tx.endOffset = off + k * (24 + ps) ∧ tx.endOffset ≤ w.size ∧
      tx.commit = BA.be32 w (off + (k - 1) * (24 + ps) + 4) ∧ tx.commit ≠ 0 ∧
      (∀ j, j < k - 1 → BA.be32 w (off + j * (24 + ps) + 4) = 0) ∧
      (∀ j, j < k → BA.be32 w (off + j * (24 + ps) + 8) = s1 ∧ BA.be32 w (off + j * (24 + ps) + 12) = s2) ∧
      (∀ p o, tx.offsets.lookup p = some o →
        ∃ j, j < k ∧ o = off + j * (24 + ps) ∧ BA.be32 w o = p ∧
          ∀ j', j < j' → j' < k → BA.be32 w (off + j' * (24 + ps)) ≠ p) ∧
      (∀ p, tx.offsets.lookup p = none → ∀ j, j < k → BA.be32 w (off + j * (24 + ps)) ≠ p) := by
  obtain ⟨k, h1, h2, h3, h4, h5, h6, h7, h8⟩ := Sqlite.buildTxFrames_spec w ps off bo s1 s2 c1 c2 tx h
  refine ⟨k, h1, h2, h3, h4, h5, h6, h7, ?_, ?_⟩
  · intro p o hp
    rw [h8] at hp
    exact Sqlite.lastFrame_some w off (24 + ps) k p o hp
  · intro p hp
    rw [h8] at hp
    exact Sqlite.lastFrame_none w off (24 + ps) k p hp

/-- the control skeletons (branch conditions, loop heads, returns, order of calls and of state
    assignments) of `DB.WriteWALAt`, `DB.CommitWAL`, `DB.Unlock`, `DB.UnlockSHM`, `DB.UnlockDatabase`, regenerated from the current source on every run, are the ones the
    model was written and validated against (Model/ExpectedSkel.lean): a reordered, dropped or
    altered check or call in these functions breaks this theorem -/
theorem C03_source_skeletons :
    Gen.Skel.DB_WriteWALAt = Expected.Skel.DB_WriteWALAt ∧
    Gen.Skel.DB_CommitWAL = Expected.Skel.DB_CommitWAL ∧
    Gen.Skel.DB_Unlock = Expected.Skel.DB_Unlock ∧
    Gen.Skel.DB_UnlockSHM = Expected.Skel.DB_UnlockSHM ∧
    Gen.Skel.DB_UnlockDatabase = Expected.Skel.DB_UnlockDatabase :=
  ⟨rfl, rfl, rfl, rfl, rfl⟩

/-- further regenerated control skeletons (fifth round of seeded changes: code no earlier change had
    touched): SHMHandle_Flush, RootNode_createWAL, RootNode_createSHM, WALNode_Setattr, WALNode_Open, SHMNode_Open -/
theorem C03_source_skeletons_5 :
    Gen.Skel.SHMHandle_Flush = Expected.Skel.SHMHandle_Flush ∧
    Gen.Skel.RootNode_createWAL = Expected.Skel.RootNode_createWAL ∧
    Gen.Skel.RootNode_createSHM = Expected.Skel.RootNode_createSHM ∧
    Gen.Skel.WALNode_Setattr = Expected.Skel.WALNode_Setattr ∧
    Gen.Skel.WALNode_Open = Expected.Skel.WALNode_Open ∧
    Gen.Skel.SHMNode_Open = Expected.Skel.SHMNode_Open :=
  ⟨rfl, rfl, rfl, rfl, rfl, rfl⟩

/-- A checkpoint copies before it truncates — facts proved by `decide` about the skeleton of
    `CheckpointNoLock` regenerated from db.go: the WAL's page offsets are read first, pages are
    written to the database before it is truncated to the commit size, the WAL is truncated after
    both, and the shared-memory header is rewritten last. -/
theorem C03_checkpoint_copies_before_truncating_the_wal :
    let ix (sk : List (String × String)) (x : String × String) (d : Nat) := (sk.findIdx? (· == x)).getD d
    let t := Gen.Skel.DB_CheckpointNoLock
    ix t ("call", "db.readWALPageOffsets") 1000 < ix t ("call", "db.writeDatabasePage") 0 ∧
    ix t ("call", "db.writeDatabasePage") 1000 < ix t ("call", "db.truncateDatabase") 0 ∧
    ix t ("call", "db.truncateDatabase") 1000 < ix t ("call", "db.TruncateWAL") 0 ∧
    ix t ("call", "db.TruncateWAL") 1000 < ix t ("call", "db.updateSHM") 0 ∧
    (t.filter (· == ("call", "db.TruncateWAL"))).length = 1 := by
  decide

end LiteFSVerif.C03
