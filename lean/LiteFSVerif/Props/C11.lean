/-
  C11 — LiteFS's internal writers and SQLite connections exclude each other.

  Model: Model/Locks.lean — twelve RWMutexes built from the *generated* guard methods; the lock
  sequence of `TryAcquireWriteLock` is tied to db.go by a regenerated fact (`C11_source_plan`).
  Number of guard sets (lock owners) and length of histories are unbounded: the theorems are
  stated for every well-formed table.
-/
import LiteFSVerif.Proofs.Locks
import LiteFSVerif.Props.C03
import LiteFSVerif.Gen.Facts
import LiteFSVerif.Gen.Skel
import LiteFSVerif.Model.ExpectedSkel
import LiteFSVerif.Model.LockRange

namespace LiteFSVerif.C11
open LiteFSVerif LiteFSVerif.Locks LiteFSVerif.RWMutex

def lockField : LockType → String
  | .pending => "pending" | .reserved => "reserved" | .shared => "shared" | .write => "write" | .ckpt => "ckpt"
  | .recover => "recover" | .read0 => "read0" | .read1 => "read1" | .read2 => "read2" | .read3 => "read3"
  | .read4 => "read4" | .dms => "dms"

def planCalls (p : List (LockType × Bool)) : List (String × String) :=
  p.map fun s => (lockField s.1, if s.2 then "TryLock" else "TryRLock")

/-- the model's lock plan is the source's: the guard calls of `TryAcquireWriteLock` in db.go, in
    order, are the shared PENDING/SHARED probe, the PENDING release, the rollback-mode plan, the
    WAL-mode plan — and the function contains no loop that could hide or skip a lock -/
theorem C11_source_plan :
    Gen.Facts.writeLockSeq =
      planCalls [(.pending, false), (.shared, false)] ++ [("pending", "Unlock")] ++
      planCalls (writeLockPlan false) ++ planCalls (writeLockPlan true) ∧
    Gen.Facts.writeLockLoops = 0 := by decide

/-- when LiteFS obtains its internal write lock it holds, in rollback mode, RESERVED, PENDING and
    SHARED exclusively; in WAL mode, WRITE, CKPT, RECOVER and READ0..READ4 exclusively and DMS shared -/
theorem C11_bracket (t t' : Table) (hT : TInv t) (w : Bool) (i : Nat)
    (h : t.tryAcquireWriteLock w = (t', some i)) :
    ∀ p ∈ writeLockPlan w, t'.guardState p.1 i = (if p.2 then .exclusive else .shared) :=
  (tryAcquireWriteLock_holds t t' hT w i h).2.2

/-- ... hence no application connection holds any of those locks in any mode while LiteFS runs -/
theorem C11_exclusion (t t' : Table) (hT : TInv t) (w : Bool) (i : Nat)
    (h : t.tryAcquireWriteLock w = (t', some i)) (l : LockType) (hl : (l, true) ∈ writeLockPlan w)
    (j : Nat) (hj : j < t'.owners.length) (hne : j ≠ i) :
    t'.guardState l j = .unlocked := by
  have ⟨hT', hi, hall⟩ := tryAcquireWriteLock_holds t t' hT w i h
  have hex := hall (l, true) hl
  simp only [if_true] at hex
  have hi' : i < t'.owners.length := by
    -- guard i is exclusive on l, so it exists
    unfold Table.guardState at hex
    by_cases hlt : i < (t'.mu l).gs.length
    · rw [← hT'.gsl l]; exact hlt
    · rw [List.getD_eq_getElem?_getD, List.getElem?_eq_none (by omega)] at hex
      simp at hex
  exact exclusive_excludes t' hT' l i j hi' hj hne hex

/-- ... and none can begin: every shared or exclusive request by another guard set on one of those
    locks is refused until LiteFS releases -/
theorem C11_client_refused (t : Table) (hT : TInv t) (l : LockType) (i j : Nat)
    (hi : i < t.owners.length) (hj : j < t.owners.length) (hne : j ≠ i)
    (hex : t.guardState l i = .exclusive) (ex : Bool) :
    (t.call l (if ex then Op.tryLock else Op.tryRLock) j).2 = .bool false := by
  unfold Table.call
  simp only
  have hlen := hT.gsl l
  have hi' : i < (t.mu l).gs.length := by omega
  have hj' : j < (t.mu l).gs.length := by omega
  unfold Table.guardState at hex
  rw [getD_eq hi'] at hex
  have hnotS : Posix.canShared (t.mu l).gs j = false := by
    cases hc : Posix.canShared (t.mu l).gs j with
    | false => rfl
    | true =>
      unfold Posix.canShared at hc
      rw [others_iff] at hc
      have := hc i hi' (Ne.symm hne)
      rw [hex] at this; simp at this
  have hnotX : Posix.canExcl (t.mu l).gs j = false := by
    cases hc : Posix.canExcl (t.mu l).gs j with
    | false => rfl
    | true =>
      have := others_unlocked hc hi' (Ne.symm hne)
      rw [hex] at this; cases this
  cases ex with
  | true =>
    simp only [if_true]
    rw [(step_tryLock (hT.inv l) hj').2.2]
    simp [Posix.tryExcl, hnotX]
  | false =>
    simp only [Bool.false_eq_true, if_false]
    rw [(step_tryRLock (hT.inv l) hj').2.2]
    simp [Posix.tryShared, hnotS]

/-- conversely LiteFS never starts while an application holds a conflicting lock: if the attempt
    succeeds, no guard set that existed before held any of the exclusively requested locks -/
theorem C11_internal_refused (t t' : Table) (hT : TInv t) (w : Bool) (i : Nat)
    (h : t.tryAcquireWriteLock w = (t', some i)) (l : LockType) (hl : (l, true) ∈ writeLockPlan w)
    (j : Nat) (hj : j < t.owners.length) : t.guardState l j = .unlocked := by
  have ⟨hT', hi, hall⟩ := tryAcquireWriteLock_holds t t' hT w i h
  have hne : j ≠ i := by omega
  have hex := hall (l, true) hl
  simp only [if_true] at hex
  -- guard i exists in t' (it is exclusive), so t' has more than t.owners.length guard sets
  have hi' : i < t'.owners.length := by
    unfold Table.guardState at hex
    by_cases hlt : i < (t'.mu l).gs.length
    · rw [← hT'.gsl l]; exact hlt
    · rw [List.getD_eq_getElem?_getD, List.getElem?_eq_none (by omega)] at hex
      simp at hex
  have hj' : j < t'.owners.length := by omega
  rw [← tryAcquireWriteLock_others t t' hT w i h l j hj]
  exact exclusive_excludes t' hT' l i j hi' hj' hne hex

/-- the checkpoint gate: a checkpoint lock is never granted to one connection while another
    connection holds the WAL write lock (at call granularity); the request changes nothing -/
theorem C11_ckpt_gate (t : Table) (o : Nat)
    (hw : ((t.ensure o).1.state .write != .unlocked) = true)
    (hn : ((t.ensure o).1.guardState .write (t.ensure o).2 != .exclusive) = true) :
    t.tryLocks o [.ckpt] = ((t.ensure o).1, .bool false) := by
  unfold Table.tryLocks
  simp only
  unfold Table.tryLocks.go
  simp [hw, hn]

/-- WAL writes made without holding the WAL write lock exclusively are refused (engine model) -/
theorem C11_wal_write_needs_lock (s : Engine.Eng) (offset : Nat) (data : ByteArray)
    (hw : s.writeable = true) (hd : data.size ≠ 0) (hps : s.pageSize ≠ 0)
    (hl : (s.locks.state .write == .exclusive) = false) (hhdr : offset = 0 → data.size = 32) :
    Engine.writeWALAt s offset data = .error (s, .err) :=
  C03.C03_write_needs_lock s offset data hw hd hps hl hhdr

/-- the empty table (a database just opened) is well formed, and stays so under every request -/
theorem C11_table_inv_init : TInv {} := by
  refine ⟨by simp, ?_, ?_⟩
  · intro l
    have : ({} : Table).mu l = Mutex.init 0 := by
      unfold Table.mu; have := idx_lt l; cases l <;> rfl
    rw [this]; exact inv_init 0
  · intro l
    have : ({} : Table).mu l = Mutex.init 0 := by
      unfold Table.mu; cases l <;> rfl
    rw [this]; rfl

/-- further regenerated control skeletons (see Model/ExpectedSkel.lean): DB_Checkpoint, DB_AcquireWriteLock, DB_TryAcquireWriteLock -/
theorem C11_source_skeletons :
    Gen.Skel.DB_Checkpoint = Expected.Skel.DB_Checkpoint ∧
    Gen.Skel.DB_AcquireWriteLock = Expected.Skel.DB_AcquireWriteLock ∧
    Gen.Skel.DB_TryAcquireWriteLock = Expected.Skel.DB_TryAcquireWriteLock :=
  ⟨rfl, rfl, rfl⟩

/-! ### byte ranges of the mount's lock requests -/

open LiteFSVerif.LockRange LiteFSVerif.Gen.Facts in
/-- `ParseDatabaseLockRange` / `ParseSHMLockRange` as regenerated from litefs.go: a lock type is in
    the answer iff it is one of the file's lock types and its byte lies in the requested range —
    for every range.  (The tables' rows each test the byte of the type they append, and the types
    are exactly the file's; a row that tests another byte breaks this theorem.) -/
theorem C11_lock_range_exact (start end_ t : Nat) :
    (t ∈ parseDatabaseLockRange start end_ ↔ t ∈ dbTypes ∧ start ≤ t ∧ t ≤ end_) ∧
    (t ∈ parseSHMLockRange start end_ ↔ t ∈ shmTypes ∧ start ≤ t ∧ t ≤ end_) := by
  have hd : rowsExact dbLockRangeTable = true := by decide
  have hs : rowsExact shmLockRangeTable = true := by decide
  have ed : dbLockRangeTable.map (·.2.2) = dbTypes := by decide
  have es : shmLockRangeTable.map (·.2.2) = shmTypes := by decide
  constructor
  · rw [← ed]; exact parse_exact _ hd start end_ t
  · rw [← es]; exact parse_exact _ hs start end_ t

open LiteFSVerif.LockRange LiteFSVerif.Gen.Facts in
/-- the ranges SQLite locks name exactly the intended lock types: the PENDING byte, the RESERVED
    byte, the SHARED range (510 bytes), the whole lock area (unlock at close), each WAL lock
    byte; no range of the database file ever names LiteFS's own HALT byte, and all bytes are
    distinct (constants and tables regenerated from litefs.go) -/
theorem C11_lock_ranges_of_sqlite :
    parseDatabaseLockRange PENDING_BYTE PENDING_BYTE = [LockTypePending] ∧
    parseDatabaseLockRange RESERVED_BYTE RESERVED_BYTE = [LockTypeReserved] ∧
    parseDatabaseLockRange SHARED_FIRST (SHARED_FIRST + SHARED_SIZE - 1) = [LockTypeShared] ∧
    parseDatabaseLockRange PENDING_BYTE (SHARED_FIRST + SHARED_SIZE - 1) = dbTypes ∧
    parseDatabaseLockRange 0 LockTypeHalt = [] ∧
    (∀ i, i < 9 → parseSHMLockRange (WAL_WRITE_LOCK + i) (WAL_WRITE_LOCK + i) = [(shmTypes[i]?).getD 0]) ∧
    parseSHMLockRange WAL_READ_LOCK0 WAL_READ_LOCK4 = [LockTypeRead0, LockTypeRead1, LockTypeRead2, LockTypeRead3, LockTypeRead4] ∧
    (dbTypes ++ shmTypes ++ [LockTypeHalt]).Nodup := by
  refine ⟨by decide, by decide, by decide, by decide, by decide, ?_, by decide, by decide⟩
  intro i hi
  have : i = 0 ∨ i = 1 ∨ i = 2 ∨ i = 3 ∨ i = 4 ∨ i = 5 ∨ i = 6 ∨ i = 7 ∨ i = 8 := by omega
  rcases this with h | h | h | h | h | h | h | h | h <;> subst h <;> decide

/-- the handlers that carry the translation (regenerated from fuse/database_node.go and
    litefs.go): TryLocks / TryRLocks for write / read requests, EAGAIN on refusal, the blocking
    lock's kind reported by the query -/
theorem C11_source_skeletons_mount :
    Gen.Skel.fn_ParseDatabaseLockRange = Expected.Skel.fn_ParseDatabaseLockRange ∧
    Gen.Skel.fn_ParseSHMLockRange = Expected.Skel.fn_ParseSHMLockRange ∧
    Gen.Skel.fn_lock = Expected.Skel.fn_lock ∧
    Gen.Skel.fn_queryLock = Expected.Skel.fn_queryLock :=
  ⟨rfl, rfl, rfl, rfl⟩

/-- further regenerated control skeletons (fifth round of seeded changes: code no earlier change had
    touched): DatabaseHandle_Lock, DatabaseHandle_Unlock, DatabaseHandle_QueryLock, SHMHandle_Lock, SHMHandle_Unlock, SHMHandle_QueryLock -/
theorem C11_source_skeletons_5 :
    Gen.Skel.DatabaseHandle_Lock = Expected.Skel.DatabaseHandle_Lock ∧
    Gen.Skel.DatabaseHandle_Unlock = Expected.Skel.DatabaseHandle_Unlock ∧
    Gen.Skel.DatabaseHandle_QueryLock = Expected.Skel.DatabaseHandle_QueryLock ∧
    Gen.Skel.SHMHandle_Lock = Expected.Skel.SHMHandle_Lock ∧
    Gen.Skel.SHMHandle_Unlock = Expected.Skel.SHMHandle_Unlock ∧
    Gen.Skel.SHMHandle_QueryLock = Expected.Skel.SHMHandle_QueryLock :=
  ⟨rfl, rfl, rfl, rfl, rfl, rfl⟩

/-- The halt lock is granted under the write lock, after recovery, at the position read then —
    facts proved by `decide` about the skeleton of `AcquireHaltLock` regenerated from db.go: a
    zero lock id is refused first; the write lock is taken before `recover`, recovery comes before
    the position is read, the lock is installed (`CompareAndSwap`) after that and before the one
    grant; the guard set is released on the failure path. -/
theorem C11_halt_lock_is_granted_under_the_write_lock_after_recovery :
    let ix (sk : List (String × String)) (x : String × String) (d : Nat) := (sk.findIdx? (· == x)).getD d
    let t := Gen.Skel.DB_AcquireHaltLock
    ix t ("if", "lockID == 0") 1000 < ix t ("call", "db.AcquireWriteLock") 0 ∧
    ix t ("call", "db.AcquireWriteLock") 1000 < ix t ("call", "db.recover") 0 ∧
    ix t ("call", "db.recover") 1000 < ix t ("call", "db.Pos") 0 ∧
    ix t ("call", "db.Pos") 1000 < ix t ("call", "db.haltLockAndGuard.CompareAndSwap") 0 ∧
    ix t ("call", "db.haltLockAndGuard.CompareAndSwap") 1000 < ix t ("return", "return &other, nil") 0 ∧
    (t.filter (· == ("return", "return &other, nil"))).length = 1 ∧
    ix t ("if", "retErr != nil") 1000 < ix t ("call", "guardSet.Unlock") 0 := by
  decide

end LiteFSVerif.C11
