/-
  C13 — Write forwarding under a halt lock is exclusive, ordered and acknowledged.

  * exclusivity: the halt lock is the internal write-lock set (`TryAcquireWriteLock`) kept by the
    primary: while it is held no other guard set holds or obtains any lock of the plan, a second
    internal acquisition (a LiteFS checkpoint, the stream's apply) fails — from the C11 theorems
    over the generated RWMutex code.
  * only the holder publishes: the forwarding endpoint proceeds only for the id of the lock
    currently granted (Model/API.lean, validation order regenerated from http/server.go:
    `C20_source_validation`); a holder whose lock is gone gets its commit refused and publishes
    nothing (engine model).
  * acknowledged at the same (TXID, checksum): a commit under the lock creates exactly one file
    extending the position; applying that file moves the primary to the file's (max TXID,
    post-apply checksum), which is the holder's new position.
  * repeated acquire with the same id answers the same lock; a release with another id changes
    nothing (`haltGrant`, `haltRelease`).
  Partial: lock expiry racing a forwarded commit *inside* one /tx request and lost HTTP responses
  are runtime interleavings the model does not contain (DESIGN.md).
-/
import LiteFSVerif.Props.C11
import LiteFSVerif.Props.C20
import LiteFSVerif.Model.Cluster
import LiteFSVerif.Gen.Skel
import LiteFSVerif.Model.ExpectedSkel
import LiteFSVerif.Proofs.HaltHandle

namespace LiteFSVerif.C13
open LiteFSVerif LiteFSVerif.Locks LiteFSVerif.Engine LiteFSVerif.Cluster LiteFSVerif.RWMutex LiteFSVerif.API

/-- while the halt lock (= the write-lock set of guard set `i`) is held, every exclusively held
    lock of the plan is free of other owners and refused to them -/
theorem C13_halt_excludes_local_writers (t t' : Table) (hT : TInv t) (w : Bool) (i : Nat)
    (h : t.tryAcquireWriteLock w = (t', some i)) (l : LockType) (hl : (l, true) ∈ writeLockPlan w)
    (j : Nat) (hj : j < t'.owners.length) (hne : j ≠ i) (ex : Bool) :
    t'.guardState l j = .unlocked ∧
    (t'.call l (if ex then Op.tryLock else Op.tryRLock) j).2 = .bool false := by
  have ⟨hT', _, hall⟩ := tryAcquireWriteLock_holds t t' hT w i h
  refine ⟨C11.C11_exclusion t t' hT w i h l hl j hj hne, ?_⟩
  have hex : t'.guardState l i = .exclusive := by simpa using hall (l, true) hl
  have hi' : i < t'.owners.length := by
    have hex' := hex
    unfold Table.guardState at hex'
    by_cases hlt : i < (t'.mu l).gs.length
    · rw [← hT'.gsl l]; exact hlt
    · rw [List.getD_eq_getElem?_getD, List.getElem?_eq_none (by omega)] at hex'
      simp at hex'
  exact C11.C11_client_refused t' hT' l i j hi' hj hne hex ex

/-- the forwarding endpoint proceeds only with the id of the halt lock currently granted on an
    existing database, from another node -/
theorem C13_only_holder_publishes (p : Params) (isP cand ex : Bool) (held : Option Int)
    (hv : validate .postTx p isP cand ex held = .proceed) :
    ∃ l, p.lockID = some l ∧ held = some l :=
  (C20.C20_tx_needs_holder p isP cand ex held hv).2.2

/-- no lock granted: nothing is accepted -/
theorem C13_no_lock_no_publish (p : Params) (isP cand ex : Bool) :
    validate .postTx p isP cand ex none ≠ .proceed := by
  intro hv
  obtain ⟨l, _, h⟩ := C13_only_holder_publishes p isP cand ex none hv
  cases h

/-- a holder whose lock is no longer honoured by the primary cannot commit in rollback-journal
    mode: the commit fails -/
theorem C13_stale_holder_journal (s s' : Eng) (mode : Nat) (hh : s.remoteHalt = true) (hok : s.remoteOK = false) :
    commitJournalValid s mode ≠ .ok s' := by
  intro h
  unfold commitJournalValid at h
  obtain ⟨dbf, _, h⟩ := M_bind_ok h
  obtain ⟨_, _, h⟩ := M_bind_ok h
  obtain ⟨_, _, h⟩ := M_bind_ok h
  obtain ⟨lock, _, h⟩ := M_bind_ok h
  obtain ⟨r1, _, h⟩ := M_bind_ok h
  obtain ⟨ck, _, h⟩ := M_bind_ok h
  obtain ⟨r2, _, h⟩ := M_bind_ok h
  obtain ⟨_, he, _⟩ := M_bind_ok h
  have := ensure_ok he
  simp [hh, hok] at this

/-- ... and in WAL mode nothing is published (the body fails; the store then stops) -/
theorem C13_stale_holder_wal (s s' : Eng) (hh : s.remoteHalt = true) (hok : s.remoteOK = false)
    (h : commitWALBody s = .ok s') : s' = s := by
  unfold commitWALBody at h
  obtain ⟨wal, _, h⟩ := M_bind_ok h
  obtain ⟨tx, _, h⟩ := M_bind_ok h
  cases tx with
  | none => simpa [pure, Except.pure] using h.symm
  | some tx =>
    simp only at h
    obtain ⟨dbf, _, h⟩ := M_bind_ok h
    obtain ⟨_, _, h⟩ := M_bind_ok h
    obtain ⟨lock, _, h⟩ := M_bind_ok h
    obtain ⟨r1, _, h⟩ := M_bind_ok h
    obtain ⟨nc, _, h⟩ := M_bind_ok h
    obtain ⟨r2, _, h⟩ := M_bind_ok h
    obtain ⟨_, he, _⟩ := M_bind_ok h
    have := ensure_ok he
    simp [hh, hok] at this

/-- applying a file moves the node to the file's (max TXID, post-apply checksum) -/
theorem C13_applied_at_same_position (s s' : Eng) (f : LTXFile) (fatal : Bool) (h : applyLTX s f fatal = .ok s') :
    s'.posTxid = f.maxTxid ∧ s'.posChk = f.post := by
  unfold applyLTX at h
  simp only at h
  split at h
  · rename_i a heq
    injection h with h
    subst h
    obtain ⟨r1, _, h2⟩ := M_bind_ok heq
    obtain ⟨r2, _, h2⟩ := M_bind_ok h2
    obtain ⟨r3, _, h2⟩ := M_bind_ok h2
    obtain ⟨_, _, h2⟩ := M_bind_ok h2
    simp only [pure, Except.pure] at h2
    injection h2 with h2
    subst h2
    exact ⟨rfl, rfl⟩
  · cases h
  · cases h

/-- a commit under the lock and its application on the primary end at the same position -/
theorem C13_acknowledged (r r' p p' : Eng) (mode : Nat) (hc : commitJournalValid r mode = .ok r')
    (f : LTXFile) (hf : r'.ltx = addLTX r.ltx f) (hpos : r'.posTxid = f.maxTxid ∧ r'.posChk = f.post)
    (ha : applyLTX p f true = .ok p') : p'.posTxid = r'.posTxid ∧ p'.posChk = r'.posChk := by
  have := C13_applied_at_same_position p p' f true ha
  exact ⟨by rw [this.1, hpos.1], by rw [this.2, hpos.2]⟩

/-- repeated acquire requests with the same lock id return the same lock and change nothing -/
theorem C13_acquire_idempotent (cur : Option (Int × (Nat × Cks.Chk))) (id : Int) (pos pos' : Nat × Cks.Chk) (free free' : Bool)
    (g : Int × (Nat × Cks.Chk)) (h : (haltGrant cur id pos free).2 = some g) :
    haltGrant (haltGrant cur id pos free).1 id pos' free' = ((haltGrant cur id pos free).1, some g) := by
  unfold haltGrant at h ⊢
  cases cur with
  | none =>
    cases free <;> simp at h
    subst h; simp
  | some c =>
    obtain ⟨cid, cpos⟩ := c
    by_cases hc : cid = id
    · simp [hc] at h ⊢; exact h
    · cases free <;> simp [hc] at h
      subst h; simp [hc]

/-- a release with another id leaves the lock in place; the holder's id releases it -/
theorem C13_release (cid id : Int) (pos : Nat × Cks.Chk) :
    haltRelease (some (cid, pos)) id = (if cid = id then none else some (cid, pos)) := rfl

/-- at most one lock: a different id is refused while the write lock is not free (it is held by
    the current lock's guard set) -/
theorem C13_single_holder (cid id : Int) (cpos pos : Nat × Cks.Chk) (hne : cid ≠ id) :
    haltGrant (some (cid, cpos)) id pos false = (some (cid, cpos), none) := by
  simp [haltGrant, hne]

/-- the control skeletons (branch conditions, loop heads, returns, order of calls and of state
    assignments) of `DB.AcquireHaltLock`, `DB.ReleaseHaltLock`, `DB.AcquireRemoteHaltLock`, `DB.ReleaseRemoteHaltLock`, regenerated from the current source on every run, are the ones the
    model was written and validated against (Model/ExpectedSkel.lean): a reordered, dropped or
    altered check or call in these functions breaks this theorem -/
theorem C13_source_skeletons :
    Gen.Skel.DB_AcquireHaltLock = Expected.Skel.DB_AcquireHaltLock ∧
    Gen.Skel.DB_ReleaseHaltLock = Expected.Skel.DB_ReleaseHaltLock ∧
    Gen.Skel.DB_AcquireRemoteHaltLock = Expected.Skel.DB_AcquireRemoteHaltLock ∧
    Gen.Skel.DB_ReleaseRemoteHaltLock = Expected.Skel.DB_ReleaseRemoteHaltLock :=
  ⟨rfl, rfl, rfl, rfl⟩

/-- further regenerated control skeletons (see Model/ExpectedSkel.lean): DB_WaitPosExact, DB_unsetRemoteHaltLock, DB_HasHaltLock -/
theorem C13_source_skeletons_2 :
    Gen.Skel.DB_WaitPosExact = Expected.Skel.DB_WaitPosExact ∧
    Gen.Skel.DB_unsetRemoteHaltLock = Expected.Skel.DB_unsetRemoteHaltLock ∧
    Gen.Skel.DB_HasHaltLock = Expected.Skel.DB_HasHaltLock :=
  ⟨rfl, rfl, rfl⟩

/-- the mount side of the halt lock (fuse/lock_node.go: F_SETLKW / F_UNLCK / F_GETLK of the HALT
    byte on the `-lock` file): one byte per request, the handle's own lock id, acquisition through
    `AcquireRemoteHaltLock` (a primary needs no lock), release on unlock and on close (Flush);
    driven without a kernel by the halt suite with the `mount` argument -/
theorem C13_source_skeletons_mount :
    Gen.Skel.LockHandle_LockWait = Expected.Skel.LockHandle_LockWait ∧
    Gen.Skel.LockHandle_lockWaitHalt = Expected.Skel.LockHandle_lockWaitHalt ∧
    Gen.Skel.LockHandle_Unlock = Expected.Skel.LockHandle_Unlock ∧
    Gen.Skel.LockHandle_unlockHalt = Expected.Skel.LockHandle_unlockHalt ∧
    Gen.Skel.LockHandle_Flush = Expected.Skel.LockHandle_Flush ∧
    Gen.Skel.LockHandle_QueryLock = Expected.Skel.LockHandle_QueryLock :=
  ⟨rfl, rfl, rfl, rfl, rfl, rfl⟩

/-! ### the mount side: a release that is interrupted is completed by the retry or the close -/

/-- For a handle of the `-lock` file in any state the invariant allows (in particular: after it was
    granted the lock), after *any* sequence of release attempts interrupted at either point —
    while the holder's own recovery waits, or before the request reaches the primary — one
    uninterrupted `Unlock` (or the `Flush` at close) leaves nothing behind: the handle holds
    nothing, the replica has no local reference to this lock and the primary does not hold it, so
    "when the lock is released the primary can write again and the former holder can no longer
    publish".  (The handle keeps its lock on EINTR; forgetting it there makes the retry a no-op,
    seeded changes C13-4 / C07-4.) -/
theorem C13_interrupted_release_is_completed_by_retry (s : HaltHandle.St) (h : HaltHandle.Inv s)
    (is : List HaltHandle.Intr) :
    (HaltHandle.unlockHalt (HaltHandle.releases s is) .none).2 = .ok ∧
    (HaltHandle.unlockHalt (HaltHandle.releases s is) .none).1.handleHeld = false ∧
    (HaltHandle.unlockHalt (HaltHandle.releases s is) .none).1.local_ ≠ some s.id ∧
    (HaltHandle.unlockHalt (HaltHandle.releases s is) .none).1.primary ≠ some s.id := by
  obtain ⟨hinv, hid⟩ := HaltHandle.releases_inv is s h
  have := HaltHandle.unlockHalt_none_done (HaltHandle.releases s is) hinv
  rw [hid] at this
  exact this

/-- the invariant holds initially and is kept by acquisition and by every release attempt -/
theorem C13_handle_invariant :
    HaltHandle.Inv ({} : HaltHandle.St) ∧
    (∀ s : HaltHandle.St, HaltHandle.Inv s → HaltHandle.Inv (HaltHandle.lockWait s).1) ∧
    (∀ (s : HaltHandle.St) (i : HaltHandle.Intr), HaltHandle.Inv s → HaltHandle.Inv (HaltHandle.unlockHalt s i).1) := by
  refine ⟨⟨?_, ?_⟩, HaltHandle.lockWait_inv, fun s i h => HaltHandle.unlockHalt_inv s i h⟩
  · intro h; cases h
  · intro h; cases h

/-- non-vacuity: a granted lock, two interrupted releases (one at each point), then the retry -/
example :
    let s := (HaltHandle.lockWait ({} : HaltHandle.St)).1
    s.handleHeld = true ∧ s.primary = some 1 ∧
    (HaltHandle.releases s [.atRecovery, .beforeSend]).primary = some 1 ∧
    (HaltHandle.unlockHalt (HaltHandle.releases s [.atRecovery, .beforeSend]) .none).1.primary = none := by
  decide

/-- further regenerated control skeletons (fifth round of seeded changes: code no earlier change had
    touched): Client_AcquireHaltLock, Client_ReleaseHaltLock, Client_Commit, Store_EnforceHaltLockExpiration, DB_EnforceHaltLockExpiration -/
theorem C13_source_skeletons_5 :
    Gen.Skel.Client_AcquireHaltLock = Expected.Skel.Client_AcquireHaltLock ∧
    Gen.Skel.Client_ReleaseHaltLock = Expected.Skel.Client_ReleaseHaltLock ∧
    Gen.Skel.Client_Commit = Expected.Skel.Client_Commit ∧
    Gen.Skel.Store_EnforceHaltLockExpiration = Expected.Skel.Store_EnforceHaltLockExpiration ∧
    Gen.Skel.DB_EnforceHaltLockExpiration = Expected.Skel.DB_EnforceHaltLockExpiration :=
  ⟨rfl, rfl, rfl, rfl, rfl⟩

/-- A replica holds the halt lock only at the position it was granted — facts proved by `decide`
    about the skeleton of `AcquireRemoteHaltLock` regenerated from db.go: a zero lock id and a node
    that is itself primary are refused before the primary is asked; the lock is recorded after the
    primary's grant and the wait for the granted position (`WaitPosExact`) comes before the one
    successful return; a release is sent to the primary on the failure path. -/
theorem C13_remote_halt_lock_waits_for_the_granted_position :
    let ix (sk : List (String × String)) (x : String × String) (d : Nat) := (sk.findIdx? (· == x)).getD d
    let t := Gen.Skel.DB_AcquireRemoteHaltLock
    ix t ("if", "lockID == 0") 1000 < ix t ("call", "db.store.Client.AcquireHaltLock") 0 ∧
    ix t ("return", "return nil, ErrNoHaltPrimary") 1000 < ix t ("call", "db.store.Client.AcquireHaltLock") 0 ∧
    ix t ("call", "db.store.Client.AcquireHaltLock") 1000 < ix t ("call", "db.remoteHaltLock.Store") 0 ∧
    ix t ("call", "db.remoteHaltLock.Store") 1000 < ix t ("call", "db.WaitPosExact") 0 ∧
    ix t ("call", "db.WaitPosExact") 1000 < ix t ("return", "return &other, nil") 0 ∧
    (t.filter (· == ("return", "return &other, nil"))).length = 1 ∧
    ix t ("if", "retErr != nil") 1000 < ix t ("call", "db.store.Client.ReleaseHaltLock") 0 := by
  decide

/-- A forwarded commit is written only for the holder of the halt lock — facts proved by
    `decide` about the skeleton of `handlePostTx` regenerated from http/server.go: the node's own
    id, an unknown database and an unparsable lock id are answered before the halt lock is tested,
    the test of `HasHaltLock` comes before the file is written, and the file is written before it is
    applied. -/
theorem C13_forwarded_commit_requires_the_halt_lock :
    let ix (sk : List (String × String)) (x : String × String) (d : Nat) := (sk.findIdx? (· == x)).getD d
    let t := Gen.Skel.Server_handlePostTx
    ix t ("if", "id == s.store.ID()") 1000 < ix t ("if", "db == nil") 0 ∧
    ix t ("if", "db == nil") 1000 < ix t ("if", "!db.HasHaltLock(lockID)") 0 ∧
    ix t ("call", "strconv.ParseInt") 1000 < ix t ("if", "!db.HasHaltLock(lockID)") 0 ∧
    ix t ("if", "!db.HasHaltLock(lockID)") 1000 < ix t ("call", "db.WriteLTXFileAt") 0 ∧
    ix t ("call", "db.WriteLTXFileAt") 1000 < ix t ("call", "db.ApplyLTXNoLock") 0 ∧
    (t.filter (· == ("call", "db.WriteLTXFileAt"))).length = 1 ∧
    (t.filter (· == ("call", "db.ApplyLTXNoLock"))).length = 1 := by
  decide

end LiteFSVerif.C13
