/-
  C05 — Any crash point recovers to exactly the position of the newest LTX file.

  Spec level (Spec/Image.lean): journal rollback restores the pre-transaction image from any
  partially written image; re-applying the newest transaction file is idempotent; hence the
  recovered image is the image of the position named by the newest file — the one before or the one
  after the interrupted operation, never a mixture.
  Model level (Model/Recovery.lean): `maxLTXFile` picks the highest TXID.
  The byte-level recovery model is compared with `Store.Open` on clean restarts (engine suite); crash
  points inside operations are enumerated on the real code (crash suite) and judged by the spec.
-/
import LiteFSVerif.Proofs.Image
import LiteFSVerif.Model.Recovery
import LiteFSVerif.Proofs.RecoveryPos
import LiteFSVerif.Gen.Skel
import LiteFSVerif.Model.ExpectedSkel

set_option linter.unusedSimpArgs false

namespace LiteFSVerif.C05
open LiteFSVerif LiteFSVerif.Spec

/-- rollback of a hot journal: write back the journalled original pages, restore the original size -/
def rollback (cur pre : Img) (journaled : List Nat) : Img :=
  apply cur (capture pre journaled 0 0 0 0)

/-- whatever subset of the transaction's page writes and appends reached the database file before
    the crash, rollback yields exactly the pre-transaction image, provided every page that differs
    from it was journalled first (SQLite's journal protocol) -/
theorem C05_rollback_restores (cur pre : Img) (journaled : List Nat)
    (hproto : ∀ i, i < pre.length → pre.getD i 0 ≠ cur.getD i 0 → (i + 1) ∈ journaled) :
    rollback cur pre journaled = pre :=
  apply_capture cur pre journaled 0 0 0 0 hproto

/-- restart re-applies the newest transaction file; if the database already is the image after
    that file, nothing changes -/
theorem C05_reapply_idempotent (img : Img) (f : Tx) : apply (apply img f) f = apply img f :=
  apply_idempotent img f

/-- **atomicity** of a rollback-journal commit under a crash: the recovered image is `pre` if the
    new file had not been renamed into the log yet, and `post` if it had — never a mixture.
    `cur` is whatever reached the database file; `fOld` is the newest file before the transaction
    (whose application produced `pre`), `fNew` the file of the interrupted transaction. -/
theorem C05_atomic (prev pre post cur : Img) (fOld fNew : Tx) (journaled dirty : List Nat)
    (hpre : pre = apply prev fOld)
    (hjournal : ∀ i, i < pre.length → pre.getD i 0 ≠ cur.getD i 0 → (i + 1) ∈ journaled)
    (hnew : fNew = capture post dirty fNew.minTxid fNew.maxTxid fNew.pre fNew.post)
    (hdirty : ∀ i, i < post.length → post.getD i 0 ≠ pre.getD i 0 → (i + 1) ∈ dirty) :
    apply (rollback cur pre journaled) fOld = pre ∧ apply (rollback cur pre journaled) fNew = post := by
  rw [C05_rollback_restores cur pre journaled hjournal]
  constructor
  · rw [hpre]; exact apply_idempotent prev fOld
  · rw [hnew]; exact apply_capture pre post dirty _ _ _ _ hdirty

/-- the file recovery replays is the one with the highest transaction ID on disk -/
theorem C05_newest_file (l : List Engine.LTXFile) (f : Engine.LTXFile) (h : Recovery.maxLTXFile l = some f) :
    f ∈ l ∧ ∀ g ∈ l, g.maxTxid ≤ f.maxTxid := by
  unfold Recovery.maxLTXFile at h
  -- invariant of the fold: the accumulator is a member of the prefix and dominates it
  suffices H : ∀ (pre : List Engine.LTXFile) (acc : Option Engine.LTXFile),
      (∀ b, acc = some b → b ∈ pre ∧ 0 < b.maxTxid ∧ ∀ g ∈ pre, g.maxTxid ≤ b.maxTxid) →
      (acc = none → ∀ g ∈ pre, g.maxTxid = 0) →
      ∀ r, l.foldl (fun (best : Option Engine.LTXFile) f => match best with
        | none => if f.maxTxid > 0 then some f else none
        | some b => if f.maxTxid > b.maxTxid then some f else some b) acc = some r →
      r ∈ pre ++ l ∧ ∀ g ∈ pre ++ l, g.maxTxid ≤ r.maxTxid by
    simpa using H [] none (by simp) (by simp) f h
  clear h
  induction l with
  | nil =>
    intro pre acc h1 _ r hr
    simp only [List.foldl_nil] at hr
    have := h1 r hr
    simpa using ⟨this.1, this.2.2⟩
  | cons x xs ih =>
    intro pre acc h1 h2 r hr
    simp only [List.foldl_cons] at hr
    have key := ih (pre ++ [x]) _ ?_ ?_ r hr
    · simpa [List.append_assoc] using key
    · intro b hb
      cases acc with
      | none =>
        simp only at hb
        split at hb
        · injection hb with hb; subst hb
          refine ⟨by simp, by assumption, ?_⟩
          intro g hg
          rcases List.mem_append.mp hg with hg | hg
          · have := h2 rfl g hg; omega
          · simp at hg; subst hg; exact Nat.le_refl _
        · cases hb
      | some b0 =>
        have ⟨m0, p0, d0⟩ := h1 b0 rfl
        simp only at hb
        split at hb
        · rename_i hgt
          injection hb with hb; subst hb
          refine ⟨by simp, by omega, ?_⟩
          intro g hg
          rcases List.mem_append.mp hg with hg | hg
          · have := d0 g hg; omega
          · simp at hg; subst hg; exact Nat.le_refl _
        · rename_i hle
          injection hb with hb; subst hb
          refine ⟨by simp [m0], p0, ?_⟩
          intro g hg
          rcases List.mem_append.mp hg with hg | hg
          · exact d0 g hg
          · simp at hg; subst hg; omega
    · intro hnone
      cases acc with
      | none =>
        simp only at hnone
        split at hnone
        · cases hnone
        · rename_i hx
          intro g hg
          rcases List.mem_append.mp hg with hg | hg
          · exact h2 rfl g hg
          · simp at hg; subst hg; omega
      | some b0 =>
        simp only at hnone
        split at hnone <;> cases hnone

/-! ### non-vacuity: crash after two of three page writes of a grow transaction -/
example : rollback [11, 20, 31, 0] [10, 20, 30] [1, 3] = [10, 20, 30] := by decide

/-- engine level (`DB.Open`, model `Recovery.openDB`): whatever a crash left on disk — a hot
    journal, a WAL longer or shorter than the log knows, a database file that is any mixture of
    two positions —, when the restart succeeds the node's position is exactly (max TXID,
    post-apply checksum) of the newest transaction file on disk, the one `C05_newest_file`
    characterises (the log counts as empty when the database header is unreadable: `clean()`).
    That the image then is the image of that position is what the post-apply checksum verification
    inside `applyLTX` enforces (C04) and what the crash suite observes on the real code. -/
theorem C05_open_position_is_newest_file (d s : Engine.Eng) (h : Recovery.openDB d = .ok s) (f : Engine.LTXFile)
    (hf : Recovery.maxLTXFile (Recovery.cleanedLtx d) = some f) :
    s.posTxid = f.maxTxid ∧ s.posChk = f.post ∧ f ∈ Recovery.cleanedLtx d ∧
    ∀ g ∈ Recovery.cleanedLtx d, g.maxTxid ≤ f.maxTxid := by
  have hp := Recovery.openDB_position d s h f hf
  have hn := C05_newest_file _ f hf
  exact ⟨hp.1, hp.2, hn.1, hn.2⟩

/-- engine level (`DB.Open`): a successful restart keeps exactly the transaction files that were
    on disk (none, when the database header was unreadable) — recovery neither adds nor removes
    files, so the recovered position is the newest file of the log the node then has — and leaves
    no journal behind (a hot journal is rolled back and deleted) -/
theorem C05_open_keeps_log_no_journal (d s : Engine.Eng) (h : Recovery.openDB d = .ok s) :
    s.ltx = Recovery.cleanedLtx d ∧ s.journal = none :=
  Recovery.openDB_frame d s h

/-- both together: after a successful restart the position is that of the newest file *of the
    node's own log* -/
theorem C05_open_position_is_newest_of_own_log (d s : Engine.Eng) (h : Recovery.openDB d = .ok s)
    (f : Engine.LTXFile) (hf : Recovery.maxLTXFile s.ltx = some f) :
    s.posTxid = f.maxTxid ∧ s.posChk = f.post := by
  rw [(Recovery.openDB_frame d s h).1] at hf
  exact Recovery.openDB_position d s h f hf

/-- the control skeletons (branch conditions, loop heads, returns, order of calls and of state
    assignments) of `DB.recover`, `DB.rollbackJournal`, `DB.maxLTXFile`, `DB.CheckpointNoLock`, regenerated from the current source on every run, are the ones the
    model was written and validated against (Model/ExpectedSkel.lean): a reordered, dropped or
    altered check or call in these functions breaks this theorem -/
theorem C05_source_skeletons :
    Gen.Skel.DB_recover = Expected.Skel.DB_recover ∧
    Gen.Skel.DB_rollbackJournal = Expected.Skel.DB_rollbackJournal ∧
    Gen.Skel.DB_rollbackJournalSegment = Expected.Skel.DB_rollbackJournalSegment ∧
    Gen.Skel.DB_maxLTXFile = Expected.Skel.DB_maxLTXFile ∧
    Gen.Skel.DB_CheckpointNoLock = Expected.Skel.DB_CheckpointNoLock :=
  ⟨rfl, rfl, rfl, rfl, rfl⟩

/-- further regenerated control skeletons (see Model/ExpectedSkel.lean): DB_Open, DB_initFromDatabaseHeader, DB_initDatabaseFile, DB_syncWALToLTX -/
theorem C05_source_skeletons_2 :
    Gen.Skel.DB_Open = Expected.Skel.DB_Open ∧
    Gen.Skel.DB_initFromDatabaseHeader = Expected.Skel.DB_initFromDatabaseHeader ∧
    Gen.Skel.DB_initDatabaseFile = Expected.Skel.DB_initDatabaseFile ∧
    Gen.Skel.DB_syncWALToLTX = Expected.Skel.DB_syncWALToLTX :=
  ⟨rfl, rfl, rfl, rfl⟩

set_option maxRecDepth 20000 in
/-- A commit publishes a finished, synced and (under a halt lock) acknowledged transaction file
    before anything that depends on it — facts proved by `decide` about the skeletons of
    `CommitJournal` and `CommitWAL` regenerated from db.go: the encoder is closed and the file
    synced before the remote commit, the remote commit comes before the one `Rename` that
    publishes the file, and the position is set (once) only after that; in journal mode the
    database file is synced after the rename and the journal is invalidated after that sync and
    before the position is set; in WAL mode the WAL file is synced before the transaction file is
    created and the WAL bookkeeping moves only after the rename. -/
theorem C05_commit_publishes_a_synced_file :
    let ix (sk : List (String × String)) (x : String × String) (d : Nat) := (sk.findIdx? (· == x)).getD d
    let j := Gen.Skel.DB_CommitJournal
    let w := Gen.Skel.DB_CommitWAL
    ix j ("call", "enc.Close") 1000 < ix j ("call", "ltxFile.Sync") 0 ∧
    ix j ("call", "ltxFile.Sync") 1000 < ix j ("call", "db.store.Client.Commit") 0 ∧
    ix j ("call", "db.store.Client.Commit") 1000 < ix j ("call", "db.os.Rename") 0 ∧
    ix j ("call", "db.os.Rename") 1000 < ix j ("call", "dbFile.Sync") 0 ∧
    (j.drop (ix j ("call", "dbFile.Sync") 1000)).contains ("call", "db.invalidateJournal") = true ∧
    ((j.drop (ix j ("call", "dbFile.Sync") 1000)).dropWhile (· != ("call", "db.invalidateJournal"))).contains ("call", "db.setPos") = true ∧
    ix j ("call", "dbFile.Sync") 1000 < ix j ("call", "db.setPos") 0 ∧
    (j.filter (· == ("call", "db.os.Rename"))).length = 1 ∧
    (j.filter (· == ("call", "db.setPos"))).length = 1 ∧
    ix w ("call", "walFile.Sync") 1000 < ix w ("call", "db.os.Create") 0 ∧
    ix w ("call", "enc.Close") 1000 < ix w ("call", "ltxFile.Sync") 0 ∧
    ix w ("call", "ltxFile.Sync") 1000 < ix w ("call", "db.store.Client.Commit") 0 ∧
    ix w ("call", "db.store.Client.Commit") 1000 < ix w ("call", "db.os.Rename") 0 ∧
    ix w ("call", "db.os.Rename") 1000 < ix w ("set", "db.wal.offset = endOffset") 0 ∧
    ix w ("set", "db.wal.offset = endOffset") 1000 < ix w ("call", "db.setPos") 0 ∧
    (w.filter (· == ("call", "db.os.Rename"))).length = 1 ∧
    (w.filter (· == ("call", "db.setPos"))).length = 1 := by
  decide

end LiteFSVerif.C05
