/-
  C04 — The reported checksum always equals a from-scratch checksum of the database.

  Model: Model/Checksum.lean (the in-memory cache of db.go and `checksum`).  Spec:
  `Spec.checksum` (XOR over all pages except the lock page, flag set).
-/
import LiteFSVerif.Model.Checksum
import LiteFSVerif.Proofs.Image
import LiteFSVerif.Proofs.Checksum
import LiteFSVerif.Gen.Skel
import LiteFSVerif.Model.ExpectedSkel

set_option linter.unusedSimpArgs false

namespace LiteFSVerif.C04
open LiteFSVerif LiteFSVerif.Cks

/-- a dropped or empty database reports exactly the empty checksum, whatever the cache holds -/
theorem C04_empty (c : Cache) (w : WalCks) (ps : Nat) (newWAL : List (Nat × Chk)) :
    c.checksum w ps 0 newWAL = .ok (c, flag) := by
  unfold Cache.checksum
  simp [pure, Except.pure]

/-- the spec checksum of the empty image is the flag alone -/
theorem C04_spec_empty (lock : Nat) : Spec.checksum lock [] = Spec.flag := by
  simp [Spec.checksum, Spec.flag]

/-- `setDatabasePageChecksum` stores the value (0 for the lock page) at the page's slot -/
theorem C04_set_get (c c' : Cache) (ps pgno : Nat) (v : Chk) (lock : Nat)
    (hl : lockPgno ps = .ok lock) (h : c.set ps pgno v = .ok c') :
    c'.dbPage pgno = .ok (if pgno = lock then 0 else v) := by
  unfold Cache.set at h
  by_cases h0 : pgno = 0
  · simp [h0, bind, Except.bind, throw, throwThe, MonadExceptOf.throw] at h
  · simp only [h0, if_false, hl, bind, Except.bind, pure, Except.pure] at h
    injection h with h
    subst h
    unfold Cache.dbPage
    simp only [h0, if_false]
    have hlen : pgno - 1 < (padTo c.pages pgno).length := by
      unfold padTo; split
      · simp; omega
      · omega
    simp [List.getD_eq_getElem?_getD, hlen]

/-- `setDatabasePageChecksum` leaves every other page's checksum as it was -/
theorem C04_set_other (c c' : Cache) (ps pgno q : Nat) (v : Chk)
    (h : c.set ps pgno v = .ok c') (hq : q ≠ pgno) (hq0 : q ≠ 0) :
    c'.dbPage q = c.dbPage q := by
  unfold Cache.set at h
  by_cases h0 : pgno = 0
  · simp [h0, bind, Except.bind, throw, throwThe, MonadExceptOf.throw] at h
  · simp only [h0, if_false, bind, Except.bind, pure, Except.pure] at h
    cases hl : lockPgno ps with
    | error e => simp [hl] at h
    | ok lock =>
      simp only [hl] at h
      injection h with h
      subst h
      unfold Cache.dbPage
      simp only [hq0, if_false]
      congr 1
      have hne : pgno - 1 ≠ q - 1 := by omega
      simp only [List.getD_eq_getElem?_getD, List.getElem?_set_ne hne]
      unfold padTo
      split
      · rw [List.getElem?_append]
        split
        · rfl
        · rename_i hge
          have : c.pages[q - 1]? = none := by simp at hge; simp [hge]
          rw [this]
          simp [List.getElem?_replicate]
          split <;> rfl
      · rfl

/-- a write to a page invalidates the cached checksum of its block (and only uses the block list
    as it is: no block entry becomes non-zero by a page write) -/
theorem C04_set_invalidates_block (c c' : Cache) (ps pgno : Nat) (v : Chk)
    (h : c.set ps pgno v = .ok c') (hb : (pgno - 1) / blockSize < c.blocks.length) :
    c'.blocks.getD ((pgno - 1) / blockSize) 0 = 0 := by
  unfold Cache.set at h
  by_cases h0 : pgno = 0
  · simp [h0, bind, Except.bind, throw, throwThe, MonadExceptOf.throw] at h
  · simp only [h0, if_false, bind, Except.bind, pure, Except.pure] at h
    cases hl : lockPgno ps with
    | error e => simp [hl] at h
    | ok lock =>
      simp only [hl] at h
      injection h with h
      subst h
      simp [hb, List.getD_eq_getElem?_getD]

/-- MAIN THEOREM.  For every cache state, WAL checksum table, page size and database size
    (unbounded), whatever mixture of cached 256-page block sums and per-page sums `checksum` uses:
    if every cached block sum is current (`BlocksOK`, preserved by every page write:
    `C04_set_keeps_blocks_current`) and every block summed from the cache holds no WAL page, no
    stale checksum beyond the database size and a zero lock-page slot (`CachedBlockOK`), then the
    value `checksum` returns is the from-scratch checksum of the logical image: XOR of the newest
    checksum of every page 1..pageN except the lock page, with the flag. -/
theorem C04_checksum_is_from_scratch (c c' : Cache) (w : WalCks) (ps pageN lock : Nat) (newWAL : List (Nat × Chk)) (v : Chk)
    (hl : lockPgno ps = .ok lock) (hok : BlocksOK c) (hN : 1 ≤ pageN)
    (hcb : ∀ b, blockIgnored w newWAL b = false → b * blockSize + 1 ≤ pageN → CachedBlockOK c w newWAL lock pageN b)
    (h : c.checksum w ps pageN newWAL = .ok (c', v)) :
    v = specChecksum lock (effImage c w newWAL lock pageN) ∧ c'.pages = c.pages ∧ BlocksOK c' :=
  ⟨checksum_is_spec c c' w ps pageN lock newWAL v hl hok hN hcb h,
   (checksum_correct c c' w ps pageN lock newWAL v hl hok hN hcb h).2⟩

/-- every page write keeps the cached block sums current -/
theorem C04_set_keeps_blocks_current (c c' : Cache) (ps pgno : Nat) (v : Chk) (hok : BlocksOK c)
    (h : c.set ps pgno v = .ok c') : BlocksOK c' := set_blocksOK c c' ps pgno v hok h

/-- the empty cache satisfies the invariant -/
theorem C04_init_blocks_current : BlocksOK {} := by
  intro k hk; simp at hk

/- The size hypothesis of `CachedBlockOK` is necessary: with a stale page checksum beyond the
   database size inside a block that is summed from the cache the value differs from the
   from-scratch checksum (found as a model = implementation agreement on a history real SQLite
   cannot produce; DESIGN.md 11.4).  It is established by every truncation
   (`resetDatabasePageChecksumsAfter`) and, for WAL shrinks, by the zero entries the commit adds to
   the WAL table, which make the block "ignored". -/

/-- the lock page number exists exactly for non-zero page sizes (Go panics otherwise) -/
theorem C04_lock_defined (ps : Nat) (h : ps ≠ 0) : lockPgno ps = .ok (1073741824 / ps + 1) := by
  simp [lockPgno, h]

/-- the control skeletons (branch conditions, loop heads, returns, order of calls and of state
    assignments) of `DB.checksum`, `DB.setDatabasePageChecksum`, `DB.resetDatabasePageChecksumsAfter`, `DB.truncateDatabase`, regenerated from the current source on every run, are the ones the
    model was written and validated against (Model/ExpectedSkel.lean): a reordered, dropped or
    altered check or call in these functions breaks this theorem -/
theorem C04_source_skeletons :
    Gen.Skel.DB_checksum = Expected.Skel.DB_checksum ∧
    Gen.Skel.DB_setDatabasePageChecksum = Expected.Skel.DB_setDatabasePageChecksum ∧
    Gen.Skel.DB_resetDatabasePageChecksumsAfter = Expected.Skel.DB_resetDatabasePageChecksumsAfter ∧
    Gen.Skel.DB_truncateDatabase = Expected.Skel.DB_truncateDatabase :=
  ⟨rfl, rfl, rfl, rfl⟩

/-- The database checksum is computed under the cache's lock and never guesses a page — facts
    proved by `decide` about the skeleton of `(DB).checksum` regenerated from db.go: an empty
    database answers the bare flag before anything is locked; the cache mutex is taken, and its
    release deferred, before the block cache or a page checksum is read; blocks touched by the WAL
    are marked before the block loop; a page without a recorded checksum ends the computation
    with an error, and the one successful return comes last. -/
theorem C04_checksum_reads_the_cache_under_its_lock :
    let ix (sk : List (String × String)) (x : String × String) (d : Nat) := (sk.findIdx? (· == x)).getD d
    let t := Gen.Skel.DB_checksum
    ix t ("return", "return ltx.ChecksumFlag, nil") 1000 < ix t ("call", "db.chksums.mu.Lock") 0 ∧
    ix t ("call", "db.chksums.mu.Lock") 1000 < ix t ("defer", "db.chksums.mu.Unlock") 0 ∧
    ix t ("defer", "db.chksums.mu.Unlock") 1000 < ix t ("call", "db.blockChksum") 0 ∧
    ix t ("set", "ignoredBlocks[block] = true") 1000 < ix t ("call", "db.blockChksum") 0 ∧
    ix t ("call", "db.blockChksum") 1000 < ix t ("call", "db.pageChecksum") 0 ∧
    ix t ("call", "db.pageChecksum") 1000 < ix t ("if", "!ok") 0 ∧
    ix t ("if", "!ok") 1000 < ix t ("return", "return chksum, nil") 0 ∧
    (t.filter (· == ("return", "return chksum, nil"))).length = 1 ∧
    t.getLast? = some ("return", "return chksum, nil") := by
  decide

end LiteFSVerif.C04
