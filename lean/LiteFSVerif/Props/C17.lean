/-
  C17 — Journal rollback and WAL scanning follow SQLite's validity rules on any bytes.

  * integer helpers regenerated from db.go (`Gen/Ints.lean`): the next journal header is at the
    least sector multiple at or after the current offset (what SQLite writes), and the generated
    code agrees with the recovery model;
  * the journal reader model (`Recovery.JR`, mirrors `JournalReader`) never divides by zero and
    always advances by at least one sector per accepted header (the only error it can return is the
    page-size mismatch, which makes `Store.Open` fail cleanly) (termination of the rollback loop),
    for arbitrary journal bytes;
  * spec level: rollback restores the pre-transaction image (C05_rollback_restores).
  The byte-level readers are compared with the real `Store.Open` on interrupted, damaged and random
  journals / WALs (formats suite); the crash suite covers every interruption point of the pager.
-/
import LiteFSVerif.Gen.Ints
import LiteFSVerif.Model.Recovery
import LiteFSVerif.Props.C05
import LiteFSVerif.Proofs.Wal
import LiteFSVerif.Gen.Skel
import LiteFSVerif.Model.ExpectedSkel
import LiteFSVerif.Proofs.RecoveryPos
import LiteFSVerif.Proofs.NoPanic

set_option linter.unusedSimpArgs false

namespace LiteFSVerif.C17
open LiteFSVerif LiteFSVerif.Recovery

/-- `journalHeaderOffset` (generated from db.go): for a positive sector size the result is the
    least multiple of the sector size that is at or after `offset` -/
theorem C17_header_offset_spec (o s : Nat) (hs : 0 < s) :
    ∃ r : Nat, Gen.Ints.journalHeaderOffset o s = some (r : Int) ∧ s ∣ r ∧ o ≤ r ∧ r < o + s := by
  unfold Gen.Ints.journalHeaderOffset
  by_cases h0 : o = 0
  · subst h0; exact ⟨0, by simp, by simp, by simp, by simpa using hs⟩
  · have hne : ((o : Int) == 0) = false := by simp; omega
    simp only [hne, Bool.false_eq_true, if_false]
    have ho : ((o : Int) - 1) = ((o - 1 : Nat) : Int) := by omega
    refine ⟨((o - 1) / s + 1) * s, ?_, ?_, ?_, ?_⟩
    · rw [ho, ← Int.ofNat_tdiv]; simp
    · exact Nat.dvd_mul_left s _
    · have := Nat.div_add_mod (o - 1) s
      have hm := Nat.mod_lt (o - 1) hs
      rw [Nat.add_mul, Nat.one_mul]
      have : s * ((o - 1) / s) = (o - 1) / s * s := Nat.mul_comm _ _
      omega
    · have := Nat.div_add_mod (o - 1) s
      rw [Nat.add_mul, Nat.one_mul]
      have : s * ((o - 1) / s) = (o - 1) / s * s := Nat.mul_comm _ _
      omega

/-- the recovery model uses the same function as the code -/
theorem C17_header_offset_model (o s : Nat) (hs : 0 < s) :
    ∃ r : Nat, journalHeaderOffset o s = .ok r ∧ Gen.Ints.journalHeaderOffset o s = some (r : Int) := by
  unfold journalHeaderOffset Gen.Ints.journalHeaderOffset
  by_cases h0 : o = 0
  · subst h0; exact ⟨0, by simp, by simp⟩
  · have hne : ((o : Int) == 0) = false := by simp; omega
    have hs0 : ¬ s = 0 := by omega
    simp only [h0, hs0, hne, if_false, Bool.false_eq_true]
    have ho : ((o : Int) - 1) = ((o - 1 : Nat) : Int) := by omega
    exact ⟨_, rfl, by rw [ho, ← Int.ofNat_tdiv]; simp⟩

/-- `pageChksumBlock` (generated): asserts `pgno > 0`, then `(pgno - 1) / 256`, as the cache model -/
theorem C17_block_gen (p : Nat) :
    Gen.Ints.pageChksumBlock p = (match Cks.blockOf p with | .ok b => some (b : Int) | .error _ => none) := by
  unfold Gen.Ints.pageChksumBlock Cks.blockOf
  by_cases h0 : p = 0
  · subst h0; simp
  · have : ((p : Int) > 0) := by omega
    have ho : ((p : Int) - 1) = ((p - 1 : Nat) : Int) := by omega
    simp only [h0, this, decide_true, Bool.not_true, Bool.false_eq_true, if_false, Cks.blockSize]
    have h256 : (256 : Int) = ((256 : Nat) : Int) := rfl
    rw [ho, h256, ← Int.ofNat_tdiv]

/-- reader invariant: once the reader is past offset 0 its sector size is a real sector size -/
def JRInv (r : JR) : Prop := r.offset = 0 ∨ 32 ≤ r.sectorSize

/-- for ARBITRARY journal bytes, `Next` never panics (no division by zero), and when it accepts a
    header it moves the offset forward by at least 32 bytes and keeps the invariant -/
theorem jho_ge (o s r : Nat) (hs : 0 < s) (h : journalHeaderOffset o s = .ok r) : o ≤ r := by
  unfold journalHeaderOffset at h
  by_cases h0 : o = 0
  · subst h0; exact Nat.zero_le _
  · have hs0 : ¬ s = 0 := by omega
    simp only [h0, hs0, if_false] at h
    injection h with h
    subst h
    have := Nat.div_add_mod (o - 1) s
    have hm := Nat.mod_lt (o - 1) hs
    rw [Nat.add_mul, Nat.one_mul]
    have : s * ((o - 1) / s) = (o - 1) / s * s := Nat.mul_comm _ _
    omega

theorem badSector_false {n : Nat} (h : badSector n = false) : 32 ≤ n := by
  unfold badSector at h
  simp only [Bool.or_eq_false_iff, decide_eq_false_iff_not] at h
  omega

theorem C17_journal_next_total (r : JR) (j : ByteArray) (hinv : JRInv r) :
    (∃ r', r.next j = .ok (.eof r')) ∨ (r.next j = .error "journal header page size does not match database") ∨
    (∃ r', r.next j = .ok (.ok r') ∧ r.offset + 32 ≤ r'.offset ∧ JRInv r') := by
  unfold JR.next
  -- the header offset never panics under the invariant
  have hoff : ∃ off, journalHeaderOffset r.offset r.sectorSize = .ok off ∧ r.offset ≤ off ∧ (off = 0 ↔ r.offset = 0) := by
    rcases hinv with h0 | hs
    · rw [h0]; exact ⟨0, by simp [journalHeaderOffset], Nat.le_refl _, by simp⟩
    · by_cases h0 : r.offset = 0
      · rw [h0]; exact ⟨0, by simp [journalHeaderOffset], Nat.le_refl _, by simp⟩
      · have hs0 : ¬ r.sectorSize = 0 := by omega
        refine ⟨((r.offset - 1) / r.sectorSize + 1) * r.sectorSize, by simp [journalHeaderOffset, h0, hs0], ?_, ?_⟩
        · exact jho_ge r.offset r.sectorSize _ (by omega) (by simp [journalHeaderOffset, h0, hs0])
        · constructor
          · intro e
            have : 0 < ((r.offset - 1) / r.sectorSize + 1) * r.sectorSize := Nat.mul_pos (Nat.succ_pos _) (by omega)
            omega
          · intro e; exact absurd e h0
  obtain ⟨off, hoff, hge, hz⟩ := hoff
  rw [hoff]
  show (∃ r', r.nextAt j off = _) ∨ (r.nextAt j off = _) ∨ (∃ r', r.nextAt j off = _ ∧ _)
  unfold JR.nextAt
  lift_lets
  intro r0 hdr sector ps r1 r2
  by_cases h1 : j.size < off + 28
  · rw [if_pos h1]; exact Or.inl ⟨_, rfl⟩
  rw [if_neg h1]
  by_cases h2 : BA.isZero hdr = true
  · rw [if_pos h2]; exact Or.inl ⟨_, rfl⟩
  rw [if_neg h2]
  by_cases h3 : (decide (off > 0) && hdr.extract 0 8 != Engine.journalMagic) = true
  · rw [if_pos h3]; exact Or.inl ⟨_, rfl⟩
  rw [if_neg h3]
  by_cases h4 : (decide (off = 0) && badSector sector) = true
  · rw [if_pos h4]; exact Or.inl ⟨_, rfl⟩
  rw [if_neg h4]
  -- from here on the sector size in use is a real sector size
  have hsec : 32 ≤ r1.sectorSize := by
    by_cases h0 : off = 0
    · have hb : badSector sector = false := by
        cases hbs : badSector sector with
        | false => rfl
        | true => exact absurd (by simp [h0, hbs]) h4
      simp only [r1, h0, if_true]; exact badSector_false hb
    · have hrne : r.offset ≠ 0 := fun e => h0 (hz.mpr e)
      simp only [r1, h0, if_false, r0]
      rcases hinv with e | e
      · exact absurd e hrne
      · exact e
  split
  · exact Or.inr (Or.inl rfl)
  split
  · exact Or.inl ⟨_, rfl⟩
  split
  · exact Or.inl ⟨_, rfl⟩
  · refine Or.inr (Or.inr ⟨_, rfl, ?_, ?_⟩)
    · show r.offset + 32 ≤ off + r2.sectorSize
      have : r2.sectorSize = r1.sectorSize := rfl
      omega
    · right
      show 32 ≤ r2.sectorSize
      exact hsec

/-- reading frames keeps the invariant and never moves backwards (so the rollback loops terminate:
    every accepted header consumes at least 32 bytes, every accepted frame at least 8) -/
theorem C17_journal_frame_progress (r : JR) (j : ByteArray) (hinv : JRInv r) (hpos : 0 < r.offset) :
    JRInv (r.readFrame j).1 ∧ r.offset ≤ (r.readFrame j).1.offset ∧
    ((r.readFrame j).2.isSome → r.offset + 8 ≤ (r.readFrame j).1.offset) := by
  have hs : 32 ≤ r.sectorSize := by rcases hinv with e | e; omega; exact e
  unfold JR.readFrame
  split
  · exact ⟨Or.inr hs, Nat.le_refl _, by simp⟩
  dsimp only
  split
  · exact ⟨Or.inr hs, Nat.le_refl _, by simp⟩
  split
  · exact ⟨Or.inr hs, Nat.le_refl _, by simp⟩
  · exact ⟨Or.inr hs, by simp, by intro _; simp⟩

/-- rollback restores exactly the pre-transaction image (spec level; all interruption points) -/
theorem C17_journal_restore (cur pre : Spec.Img) (journaled : List Nat)
    (hproto : ∀ i, i < pre.length → pre.getD i 0 ≠ cur.getD i 0 → (i + 1) ∈ journaled) :
    C05.rollback cur pre journaled = pre :=
  C05.C05_rollback_restores cur pre journaled hproto

/-- WAL scan on ARBITRARY bytes (`readWALPageOffsets`: Open, checkpoint): for every database page
    size that is a multiple of 8 (every valid SQLite page size) the scan answers — it cannot fail,
    which for the Go code means no panic, no out-of-range slice, no misaligned checksum input,
    whatever the header, salts, frame checksums, page size field or length of the file are -/
theorem C17_wal_scan_total (w : ByteArray) (ps : Nat) (hps : ps % 8 = 0) :
    ∃ r, Sqlite.walPageOffsets w ps = .ok r :=
  Sqlite.walPageOffsets_total w ps hps

/-- the same for the commit-time scan (`buildTxFrameOffsets`) from any offset, once the byte order
    is known; with no byte order (WAL header never read) the Go code dereferences nil, which the
    model reports as a panic (`C03`/engine suite keep that case) -/
theorem C17_tx_scan_total (w : ByteArray) (ps off : Nat) (bigE : Bool) (s1 s2 c1 c2 : Nat) (hps : ps % 8 = 0) :
    ∃ r, Sqlite.buildTxFrames w ps off (some bigE) s1 s2 c1 c2 = .ok r :=
  Sqlite.buildTxFrames_total w ps off bigE s1 s2 c1 c2 hps

/-- every page size LiteFS accepts is a multiple of 8 (so the two theorems above apply) -/
theorem C17_valid_page_sizes_aligned (n : Nat) (h : Sqlite.validPageSize n = true) : n % 8 = 0 := by
  unfold Sqlite.validPageSize at h
  simp only [List.contains_cons, List.contains_nil, Bool.or_false, Bool.or_eq_true, beq_iff_eq] at h
  omega

/-- the reader state after playing back the frames of a segment: still consistent, validity flag
    untouched -/
theorem frames_reader (j : ByteArray) (liftM : Engine.M Engine.Eng → Except String Engine.Eng) :
    ∀ (fuel : Nat) (r : JR) (s : Engine.Eng) (out : JR × Engine.Eng), JRInv r → 0 < r.offset →
      rollbackJournal.segs.frames j liftM fuel r s = .ok out →
      JRInv out.1 ∧ 0 < out.1.offset ∧ out.1.isValid = r.isValid := by
  intro fuel
  induction fuel with
  | zero =>
    intro r s out hinv hpos h
    unfold rollbackJournal.segs.frames at h
    injection h with h; rw [← h]; exact ⟨hinv, hpos, rfl⟩
  | succ n ih =>
    intro r s out hinv hpos h
    have hp := C17_journal_frame_progress r j hinv hpos
    have hv := readFrame_isValid r j
    unfold rollbackJournal.segs.frames at h
    split at h
    · rename_i r1 heq
      rw [heq] at hp hv
      injection h with h; rw [← h]
      exact ⟨hp.1, by have := hp.2.1; simp only at this ⊢; omega, hv⟩
    · rename_i r1 pgno data heq
      rw [heq] at hp hv
      have hpos1 : 0 < r1.offset := by have := hp.2.1; simp only at this; omega
      by_cases hq : pgno = 0 ∨ pgno = 1073741824 / s.pageSize + 1
      · rw [if_pos hq] at h
        injection h with h; rw [← h]
        exact ⟨hp.1, hpos1, hv⟩
      · rw [if_neg hq] at h
        by_cases hc : pgno > r1.commit
        · rw [if_pos hc] at h
          obtain ⟨a, b, c⟩ := ih r1 s out hp.1 hpos1 h
          exact ⟨a, b, by rw [c]; exact hv⟩
        · rw [if_neg hc] at h
          obtain ⟨s1, _, h⟩ := Sqlite.except_bind_ok h
          obtain ⟨a, b, c⟩ := ih r1 s1 out hp.1 hpos1 h
          exact ⟨a, b, by rw [c]; exact hv⟩

/-- the segment loop on arbitrary journal bytes: it ends, and fails only with one of two ordinary
    errors; once a header was accepted the page size is known -/
theorem segs_no_panic (j : ByteArray) (liftM : Engine.M Engine.Eng → Except String Engine.Eng) (hl : LiftOK liftM) :
    ∀ (fuel : Nat) (r : JR) (s : Engine.Eng), JRInv r → (r.isValid = true → s.pageSize ≠ 0) →
      (∃ out, rollbackJournal.segs j liftM fuel r s = .ok out ∧ (out.1.isValid = true → out.2.pageSize ≠ 0)) ∨
      rollbackJournal.segs j liftM fuel r s = .error "write to database" ∨
      rollbackJournal.segs j liftM fuel r s = .error "journal header page size does not match database" := by
  intro fuel
  induction fuel with
  | zero =>
    intro r s _ hv
    unfold rollbackJournal.segs
    exact Or.inl ⟨_, rfl, hv⟩
  | succ n ih =>
    intro r s hinv hv
    unfold rollbackJournal.segs
    rcases C17_journal_next_total r j hinv with ⟨r', he⟩ | he | ⟨r', hok, _, hinv'⟩
    · simp only [bind, Except.bind, he, pure, Except.pure]
      refine Or.inl ⟨_, rfl, ?_⟩
      intro hval
      have := next_eof_isValid r j r' he
      simp only at hval
      rw [this] at hval
      exact hv hval
    · simp [bind, Except.bind, he]
    · simp only [bind, Except.bind, hok]
      have hps' : r'.pageSize ≠ 0 := next_ok_pageSize r j r' hok
      have hs1 : (if s.pageSize = 0 then { s with pageSize := r'.pageSize } else s).pageSize ≠ 0 := by
        split
        · exact hps'
        · assumption
      have hpos' : 0 < r'.offset := by
        rcases hinv' with e | e
        · -- offset 0 is impossible after an accepted header (it moved forward by at least 32 bytes)
          have := C17_journal_next_total r j hinv
          rcases this with ⟨x, hx⟩ | hx | ⟨x, hx, hge, _⟩
          · rw [hok] at hx; cases hx
          · rw [hok] at hx; cases hx
          · rw [hok] at hx; injection hx with hx; injection hx with hx; subst hx; omega
        · have := C17_journal_next_total r j hinv
          rcases this with ⟨x, hx⟩ | hx | ⟨x, hx, hge, _⟩
          · rw [hok] at hx; cases hx
          · rw [hok] at hx; cases hx
          · rw [hok] at hx; injection hx with hx; injection hx with hx; subst hx; omega
      rcases frames_no_panic j liftM hl (j.size + 1) r' _ hs1 with ⟨out, hf, hfp⟩ | hf
      · rw [hf]
        simp only
        obtain ⟨a, b, c⟩ := frames_reader j liftM _ r' _ out hinv' hpos' hf
        have hv1 : out.1.isValid = true → out.2.pageSize ≠ 0 := fun _ => by rw [hfp]; exact hs1
        exact ih out.1 out.2 a hv1
      · rw [hf]
        exact Or.inr (Or.inl rfl)

theorem segs_error (j : ByteArray) (liftM : Engine.M Engine.Eng → Except String Engine.Eng) (hl : LiftOK liftM)
    (fuel : Nat) (r : JR) (s : Engine.Eng) (hinv : JRInv r) (hv : r.isValid = true → s.pageSize ≠ 0) (m : String)
    (h : rollbackJournal.segs j liftM fuel r s = .error m) :
    m = "write to database" ∨ m = "journal header page size does not match database" := by
  rcases segs_no_panic j liftM hl fuel r s hinv hv with ⟨out, ho, _⟩ | he | he
  · rw [ho] at h; cases h
  · rw [he] at h; injection h with h; exact Or.inl h.symm
  · rw [he] at h; injection h with h; exact Or.inr h.symm

theorem segs_ok (j : ByteArray) (liftM : Engine.M Engine.Eng → Except String Engine.Eng) (hl : LiftOK liftM)
    (fuel : Nat) (r : JR) (s : Engine.Eng) (hinv : JRInv r) (hv : r.isValid = true → s.pageSize ≠ 0) (out : JR × Engine.Eng)
    (h : rollbackJournal.segs j liftM fuel r s = .ok out) : out.1.isValid = true → out.2.pageSize ≠ 0 := by
  rcases segs_no_panic j liftM hl fuel r s hinv hv with ⟨o, ho, hov⟩ | he | he
  · rw [ho] at h; injection h with h; rw [← h]; exact hov
  · rw [he] at h; cases h
  · rw [he] at h; cases h

theorem except_bind_error {ε α β} {x : Except ε α} {f : α → Except ε β} {e : ε} (h : (x >>= f) = .error e) :
    x = .error e ∨ ∃ a, x = .ok a ∧ f a = .error e := by
  cases x with
  | error e' => simp only [bind, Except.bind] at h; injection h with h; exact Or.inl (by rw [h])
  | ok a => exact Or.inr ⟨a, rfl, h⟩

/-- **journal rollback never panics**: whatever bytes the journal and the database file hold, a
    failing `rollbackJournal` fails with one of three ordinary errors (no database file, a write
    the database file refuses — e.g. a record whose data length is not the page size —, a header
    whose page size contradicts the database's) — never with one of the model's `panic` outcomes
    (Go: assertion failure, division by zero, negative offset) -/
theorem C17_rollback_never_panics (s : Engine.Eng) (m : String) (h : rollbackJournal s = .error m) :
    m = "open database: no such file" ∨ m = "write to database" ∨
    m = "journal header page size does not match database" := by
  unfold rollbackJournal at h
  cases hj : s.journal with
  | none => rw [hj] at h; simp [pure, Except.pure] at h
  | some j =>
    rw [hj] at h
    simp only at h
    by_cases hdb : s.dbFile.isNone = true
    · simp only [hdb, if_true, throw, throwThe, MonadExceptOf.throw, bind, Except.bind] at h
      injection h with h
      exact Or.inl h.symm
    · simp only [hdb, Bool.false_eq_true, if_false] at h
      have hinv0 : JRInv { pageSize := s.pageSize } := Or.inl rfl
      have hv0 : ({ pageSize := s.pageSize } : JR).isValid = true → s.pageSize ≠ 0 := by intro c; cases c
      rcases except_bind_error h with hx | ⟨out, hx, h2⟩
      · exact Or.inr (segs_error j _ ⟨fun _ => rfl, fun _ => rfl⟩ _ _ s hinv0 hv0 m hx)
      · have hov := segs_ok j _ ⟨fun _ => rfl, fun _ => rfl⟩ _ _ s hinv0 hv0 out hx
        rcases except_bind_error h2 with hy | ⟨s2, _, h3⟩
        · by_cases hval : out.1.isValid = true
          · obtain ⟨s', hs'⟩ := Recovery.truncateDatabaseFile_ok out.2 out.1.commit (hov hval)
            simp [hval, hs', pure, Except.pure, bind, Except.bind] at hy
          · simp [hval, pure, Except.pure] at hy
        · simp [pure, Except.pure] at h3

/-- **checkpointing never panics**: `CheckpointNoLock` (restart, halt-lock acquisition, role change)
    on ARBITRARY WAL bytes, for a database whose page size is a non-zero multiple of 8 (every valid
    page size), succeeds or fails with an ordinary error: the WAL scan is total
    (`C17_wal_scan_total`), a frame that names page zero is an ordinary write error, every other
    page write and the final truncations cannot panic -/
theorem C17_checkpoint_never_panics (s : Engine.Eng) (hps : s.pageSize ≠ 0) (h8 : s.pageSize % 8 = 0)
    (s' : Engine.Eng) (m : String) : Engine.checkpointNoLock s ≠ .error (s', .panic m) :=
  checkpointNoLock_no_panic s hps h8 s' m

/-- journal playback on ARBITRARY journal bytes writes only inside the database's pages: playing
    back one segment never extends the database file beyond the original size recorded in that
    segment's header.  A record that claims page zero or the lock page ends the segment, a record
    for a page above the original size is skipped (SQLite's `pager_playback_one_page` rules; the
    record checksum does not cover the page number, so a flipped bit there passes it). -/
theorem C17_rollback_segment_stays_inside (j : ByteArray) (liftM : Engine.M Engine.Eng → Except String Engine.Eng)
    (hl : ∀ x a, liftM x = .ok a → x = .ok a) (fuel : Nat) (r : JR) (s : Engine.Eng) (out : JR × Engine.Eng)
    (h : rollbackJournal.segs.frames j liftM fuel r s = .ok out) :
    out.2.pageSize = s.pageSize ∧ out.1.commit = r.commit ∧
    (Engine.dbBytes out.2).size ≤ max (Engine.dbBytes s).size (r.commit * s.pageSize) :=
  frames_size_bound j liftM hl fuel r s out h

/-- the control skeletons (branch conditions, loop heads, returns, order of calls and of state
    assignments) of `JournalReader.Next`, `JournalReader.ReadFrame`, regenerated from the current source on every run, are the ones the
    model was written and validated against (Model/ExpectedSkel.lean): a reordered, dropped or
    altered check or call in these functions breaks this theorem -/
theorem C17_source_skeletons :
    Gen.Skel.JournalReader_Next = Expected.Skel.JournalReader_Next ∧
    Gen.Skel.JournalReader_ReadFrame = Expected.Skel.JournalReader_ReadFrame :=
  ⟨rfl, rfl⟩

set_option maxRecDepth 20000 in
/-- A journal rollback is on disk before the journal goes — facts proved by `decide` about the
    skeleton of `rollbackJournal` regenerated from db.go: segments are rolled back before the
    database is truncated, the truncation is inside the test of the reader's validity, the database
    file is synced before the journal file is removed, and the kernel's entry is invalidated after
    the removal. -/
theorem C17_rollback_is_synced_before_the_journal_is_removed :
    let ix (sk : List (String × String)) (x : String × String) (d : Nat) := (sk.findIdx? (· == x)).getD d
    let t := Gen.Skel.DB_rollbackJournal
    ix t ("call", "r.Next") 1000 < ix t ("call", "db.rollbackJournalSegment") 0 ∧
    ix t ("call", "db.rollbackJournalSegment") 1000 < ix t ("if", "r.IsValid()") 0 ∧
    ix t ("if", "r.IsValid()") 1000 < ix t ("call", "db.truncateDatabase") 0 ∧
    ix t ("call", "db.truncateDatabase") 1000 < ix t ("call", "dbFile.Sync") 0 ∧
    ix t ("call", "dbFile.Sync") 1000 < ix t ("call", "db.os.Remove") 0 ∧
    ix t ("call", "db.os.Remove") 1000 < ix t ("call", "invalidator.InvalidateEntry") 0 ∧
    (t.filter (· == ("call", "db.os.Remove"))).length = 1 := by
  decide

end LiteFSVerif.C17
