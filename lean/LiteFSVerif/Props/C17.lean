/-
  C17 — Journal rollback and WAL scanning follow SQLite's validity rules on any bytes.

  * integer helpers regenerated from db.go (`Gen/Ints.lean`): the next journal header is at the
    least sector multiple at or after the current offset (what SQLite writes), and the generated
    code agrees with the recovery model;
  * the journal reader model (`Recovery.JR`, mirrors `JournalReader`) never divides by zero and
    always advances by at least one sector per accepted header (the only error it can return is the
    page-size mismatch, which makes `Store.Open` fail cleanly) (termination of the rollback loop),
    for arbitrary journal bytes;
  * spec level: rollback restores the pre-transaction image (C05_rollback_restores).
  The byte-level readers are compared with the real `Store.Open` on interrupted, damaged and random
  journals / WALs (formats suite); the crash suite covers every interruption point of the pager.
-/
import LiteFSVerif.Gen.Ints
import LiteFSVerif.Model.Recovery
import LiteFSVerif.Props.C05
import LiteFSVerif.Proofs.Wal
import LiteFSVerif.Gen.Skel
import LiteFSVerif.Model.ExpectedSkel
import LiteFSVerif.Proofs.RecoveryPos

set_option linter.unusedSimpArgs false

namespace LiteFSVerif.C17
open LiteFSVerif LiteFSVerif.Recovery

/-- `journalHeaderOffset` (generated from db.go): for a positive sector size the result is the
    least multiple of the sector size that is at or after `offset` -/
theorem C17_header_offset_spec (o s : Nat) (hs : 0 < s) :
    ∃ r : Nat, Gen.Ints.journalHeaderOffset o s = some (r : Int) ∧ s ∣ r ∧ o ≤ r ∧ r < o + s := by
  unfold Gen.Ints.journalHeaderOffset
  by_cases h0 : o = 0
  · subst h0; exact ⟨0, by simp, by simp, by simp, by simpa using hs⟩
  · have hne : ((o : Int) == 0) = false := by simp; omega
    simp only [hne, Bool.false_eq_true, if_false]
    have ho : ((o : Int) - 1) = ((o - 1 : Nat) : Int) := by omega
    refine ⟨((o - 1) / s + 1) * s, ?_, ?_, ?_, ?_⟩
    · rw [ho, ← Int.ofNat_tdiv]; simp
    · exact Nat.dvd_mul_left s _
    · have := Nat.div_add_mod (o - 1) s
      have hm := Nat.mod_lt (o - 1) hs
      rw [Nat.add_mul, Nat.one_mul]
      have : s * ((o - 1) / s) = (o - 1) / s * s := Nat.mul_comm _ _
      omega
    · have := Nat.div_add_mod (o - 1) s
      rw [Nat.add_mul, Nat.one_mul]
      have : s * ((o - 1) / s) = (o - 1) / s * s := Nat.mul_comm _ _
      omega

/-- the recovery model uses the same function as the code -/
theorem C17_header_offset_model (o s : Nat) (hs : 0 < s) :
    ∃ r : Nat, journalHeaderOffset o s = .ok r ∧ Gen.Ints.journalHeaderOffset o s = some (r : Int) := by
  unfold journalHeaderOffset Gen.Ints.journalHeaderOffset
  by_cases h0 : o = 0
  · subst h0; exact ⟨0, by simp, by simp⟩
  · have hne : ((o : Int) == 0) = false := by simp; omega
    have hs0 : ¬ s = 0 := by omega
    simp only [h0, hs0, hne, if_false, Bool.false_eq_true]
    have ho : ((o : Int) - 1) = ((o - 1 : Nat) : Int) := by omega
    exact ⟨_, rfl, by rw [ho, ← Int.ofNat_tdiv]; simp⟩

/-- `pageChksumBlock` (generated): asserts `pgno > 0`, then `(pgno - 1) / 256`, as the cache model -/
theorem C17_block_gen (p : Nat) :
    Gen.Ints.pageChksumBlock p = (match Cks.blockOf p with | .ok b => some (b : Int) | .error _ => none) := by
  unfold Gen.Ints.pageChksumBlock Cks.blockOf
  by_cases h0 : p = 0
  · subst h0; simp
  · have : ((p : Int) > 0) := by omega
    have ho : ((p : Int) - 1) = ((p - 1 : Nat) : Int) := by omega
    simp only [h0, this, decide_true, Bool.not_true, Bool.false_eq_true, if_false, Cks.blockSize]
    have h256 : (256 : Int) = ((256 : Nat) : Int) := rfl
    rw [ho, h256, ← Int.ofNat_tdiv]

/-- reader invariant: once the reader is past offset 0 its sector size is a real sector size -/
def JRInv (r : JR) : Prop := r.offset = 0 ∨ 32 ≤ r.sectorSize

/-- for ARBITRARY journal bytes, `Next` never panics (no division by zero), and when it accepts a
    header it moves the offset forward by at least 32 bytes and keeps the invariant -/
theorem jho_ge (o s r : Nat) (hs : 0 < s) (h : journalHeaderOffset o s = .ok r) : o ≤ r := by
  unfold journalHeaderOffset at h
  by_cases h0 : o = 0
  · subst h0; exact Nat.zero_le _
  · have hs0 : ¬ s = 0 := by omega
    simp only [h0, hs0, if_false] at h
    injection h with h
    subst h
    have := Nat.div_add_mod (o - 1) s
    have hm := Nat.mod_lt (o - 1) hs
    rw [Nat.add_mul, Nat.one_mul]
    have : s * ((o - 1) / s) = (o - 1) / s * s := Nat.mul_comm _ _
    omega

theorem badSector_false {n : Nat} (h : badSector n = false) : 32 ≤ n := by
  unfold badSector at h
  simp only [Bool.or_eq_false_iff, decide_eq_false_iff_not] at h
  omega

theorem C17_journal_next_total (r : JR) (j : ByteArray) (hinv : JRInv r) :
    (∃ r', r.next j = .ok (.eof r')) ∨ (r.next j = .error "journal header page size does not match database") ∨
    (∃ r', r.next j = .ok (.ok r') ∧ r.offset + 32 ≤ r'.offset ∧ JRInv r') := by
  unfold JR.next
  -- the header offset never panics under the invariant
  have hoff : ∃ off, journalHeaderOffset r.offset r.sectorSize = .ok off ∧ r.offset ≤ off ∧ (off = 0 ↔ r.offset = 0) := by
    rcases hinv with h0 | hs
    · rw [h0]; exact ⟨0, by simp [journalHeaderOffset], Nat.le_refl _, by simp⟩
    · by_cases h0 : r.offset = 0
      · rw [h0]; exact ⟨0, by simp [journalHeaderOffset], Nat.le_refl _, by simp⟩
      · have hs0 : ¬ r.sectorSize = 0 := by omega
        refine ⟨((r.offset - 1) / r.sectorSize + 1) * r.sectorSize, by simp [journalHeaderOffset, h0, hs0], ?_, ?_⟩
        · exact jho_ge r.offset r.sectorSize _ (by omega) (by simp [journalHeaderOffset, h0, hs0])
        · constructor
          · intro e
            have : 0 < ((r.offset - 1) / r.sectorSize + 1) * r.sectorSize := Nat.mul_pos (Nat.succ_pos _) (by omega)
            omega
          · intro e; exact absurd e h0
  obtain ⟨off, hoff, hge, hz⟩ := hoff
  rw [hoff]
  show (∃ r', r.nextAt j off = _) ∨ (r.nextAt j off = _) ∨ (∃ r', r.nextAt j off = _ ∧ _)
  unfold JR.nextAt
  lift_lets
  intro r0 hdr sector ps r1 r2
  by_cases h1 : j.size < off + 28
  · rw [if_pos h1]; exact Or.inl ⟨_, rfl⟩
  rw [if_neg h1]
  by_cases h2 : BA.isZero hdr = true
  · rw [if_pos h2]; exact Or.inl ⟨_, rfl⟩
  rw [if_neg h2]
  by_cases h3 : (decide (off > 0) && hdr.extract 0 8 != Engine.journalMagic) = true
  · rw [if_pos h3]; exact Or.inl ⟨_, rfl⟩
  rw [if_neg h3]
  by_cases h4 : (decide (off = 0) && badSector sector) = true
  · rw [if_pos h4]; exact Or.inl ⟨_, rfl⟩
  rw [if_neg h4]
  -- from here on the sector size in use is a real sector size
  have hsec : 32 ≤ r1.sectorSize := by
    by_cases h0 : off = 0
    · have hb : badSector sector = false := by
        cases hbs : badSector sector with
        | false => rfl
        | true => exact absurd (by simp [h0, hbs]) h4
      simp only [r1, h0, if_true]; exact badSector_false hb
    · have hrne : r.offset ≠ 0 := fun e => h0 (hz.mpr e)
      simp only [r1, h0, if_false, r0]
      rcases hinv with e | e
      · exact absurd e hrne
      · exact e
  split
  · exact Or.inr (Or.inl rfl)
  split
  · exact Or.inl ⟨_, rfl⟩
  split
  · exact Or.inl ⟨_, rfl⟩
  · refine Or.inr (Or.inr ⟨_, rfl, ?_, ?_⟩)
    · show r.offset + 32 ≤ off + r2.sectorSize
      have : r2.sectorSize = r1.sectorSize := rfl
      omega
    · right
      show 32 ≤ r2.sectorSize
      exact hsec

/-- reading frames keeps the invariant and never moves backwards (so the rollback loops terminate:
    every accepted header consumes at least 32 bytes, every accepted frame at least 8) -/
theorem C17_journal_frame_progress (r : JR) (j : ByteArray) (hinv : JRInv r) (hpos : 0 < r.offset) :
    JRInv (r.readFrame j).1 ∧ r.offset ≤ (r.readFrame j).1.offset ∧
    ((r.readFrame j).2.isSome → r.offset + 8 ≤ (r.readFrame j).1.offset) := by
  have hs : 32 ≤ r.sectorSize := by rcases hinv with e | e; omega; exact e
  unfold JR.readFrame
  split
  · exact ⟨Or.inr hs, Nat.le_refl _, by simp⟩
  dsimp only
  split
  · exact ⟨Or.inr hs, Nat.le_refl _, by simp⟩
  split
  · exact ⟨Or.inr hs, Nat.le_refl _, by simp⟩
  · exact ⟨Or.inr hs, by simp, by intro _; simp⟩

/-- rollback restores exactly the pre-transaction image (spec level; all interruption points) -/
theorem C17_journal_restore (cur pre : Spec.Img) (journaled : List Nat)
    (hproto : ∀ i, i < pre.length → pre.getD i 0 ≠ cur.getD i 0 → (i + 1) ∈ journaled) :
    C05.rollback cur pre journaled = pre :=
  C05.C05_rollback_restores cur pre journaled hproto

/-- WAL scan on ARBITRARY bytes (`readWALPageOffsets`: Open, checkpoint): for every database page
    size that is a multiple of 8 (every valid SQLite page size) the scan answers — it cannot fail,
    which for the Go code means no panic, no out-of-range slice, no misaligned checksum input,
    whatever the header, salts, frame checksums, page size field or length of the file are -/
theorem C17_wal_scan_total (w : ByteArray) (ps : Nat) (hps : ps % 8 = 0) :
    ∃ r, Sqlite.walPageOffsets w ps = .ok r :=
  Sqlite.walPageOffsets_total w ps hps

/-- the same for the commit-time scan (`buildTxFrameOffsets`) from any offset, once the byte order
    is known; with no byte order (WAL header never read) the Go code dereferences nil, which the
    model reports as a panic (`C03`/engine suite keep that case) -/
theorem C17_tx_scan_total (w : ByteArray) (ps off : Nat) (bigE : Bool) (s1 s2 c1 c2 : Nat) (hps : ps % 8 = 0) :
    ∃ r, Sqlite.buildTxFrames w ps off (some bigE) s1 s2 c1 c2 = .ok r :=
  Sqlite.buildTxFrames_total w ps off bigE s1 s2 c1 c2 hps

/-- every page size LiteFS accepts is a multiple of 8 (so the two theorems above apply) -/
theorem C17_valid_page_sizes_aligned (n : Nat) (h : Sqlite.validPageSize n = true) : n % 8 = 0 := by
  unfold Sqlite.validPageSize at h
  simp only [List.contains_cons, List.contains_nil, Bool.or_false, Bool.or_eq_true, beq_iff_eq] at h
  omega

/-- journal playback on ARBITRARY journal bytes writes only inside the database's pages: playing
    back one segment never extends the database file beyond the original size recorded in that
    segment's header.  A record that claims page zero or the lock page ends the segment, a record
    for a page above the original size is skipped (SQLite's `pager_playback_one_page` rules; the
    record checksum does not cover the page number, so a flipped bit there passes it). -/
theorem C17_rollback_segment_stays_inside (j : ByteArray) (liftM : Engine.M Engine.Eng → Except String Engine.Eng)
    (hl : ∀ x a, liftM x = .ok a → x = .ok a) (fuel : Nat) (r : JR) (s : Engine.Eng) (out : JR × Engine.Eng)
    (h : rollbackJournal.segs.frames j liftM fuel r s = .ok out) :
    out.2.pageSize = s.pageSize ∧ out.1.commit = r.commit ∧
    (Engine.dbBytes out.2).size ≤ max (Engine.dbBytes s).size (r.commit * s.pageSize) :=
  frames_size_bound j liftM hl fuel r s out h

/-- the control skeletons (branch conditions, loop heads, returns, order of calls and of state
    assignments) of `JournalReader.Next`, `JournalReader.ReadFrame`, regenerated from the current source on every run, are the ones the
    model was written and validated against (Model/ExpectedSkel.lean): a reordered, dropped or
    altered check or call in these functions breaks this theorem -/
theorem C17_source_skeletons :
    Gen.Skel.JournalReader_Next = Expected.Skel.JournalReader_Next ∧
    Gen.Skel.JournalReader_ReadFrame = Expected.Skel.JournalReader_ReadFrame :=
  ⟨rfl, rfl⟩

end LiteFSVerif.C17
