/-
  C08 — A node is primary only while it holds a live lease for its own cluster.

  Model: Model/Lease.lean (acquire, renew, release, handoff, the cluster-id gates of the lease
  loop), used by the cluster driver that is compared with real stores on a scripted lease service.
  * a free lease is taken only by a live candidate whose cluster id agrees with the service's;
  * cluster ids set on both sides and different: the node neither acquires nor attaches;
  * at every renewal a node keeps acting as primary only if the service still has it as holder of
    that very lease; a lease that is gone makes it stop without destroying anything; a service
    that cannot be reached for a TTL makes it stop and destroy its lease;
  * demotion / shutdown destroys the node's own lease only;
  * a handoff moves the lease, under the same id, only to the requested node and only if it is a
    connected replica; the lease is not destroyed.
  Partial: the TTL clock (renew every TTL/2, give up after TTL) is real time in the suite and one
  `renew` step in the model.
-/
import LiteFSVerif.Model.Lease
import LiteFSVerif.Gen.Skel
import LiteFSVerif.Model.ExpectedSkel

namespace LiteFSVerif.C08
open LiteFSVerif LiteFSVerif.Lease

/-- only a live candidate whose turn it is, with a compatible cluster id, takes a free lease -/
theorem C08_acquire_conditions (s s' : Svc) (k : Nat) (n n' : LNode) (fresh : String)
    (h : acquire s k n fresh = some (s', n')) :
    n.up = true ∧ n.cand = true ∧ s.holder = none ∧ s.allow = some k ∧ mayAcquire s.cid n.cid = true ∧
    s'.holder = some k ∧ n'.lease = some s'.leaseID := by
  unfold acquire at h
  split at h; · cases h
  rename_i h1
  split at h; · cases h
  rename_i h2
  split at h; · cases h
  rename_i h3
  simp only [Option.some.injEq, Prod.mk.injEq] at h
  obtain ⟨hs, hn⟩ := h
  subst hs; subst hn
  simp only [Bool.not_eq_true', Bool.and_eq_false_iff, not_or, Bool.not_eq_false] at h1
  simp only [Bool.or_eq_true, not_or, Bool.not_eq_true, bne_eq_false_iff_eq] at h2
  refine ⟨h1.1.1, h1.1.2, ?_, h2.2, by simpa using h3, rfl, rfl⟩
  have := h2.1
  cases hh : s.holder <;> simp [hh] at this ⊢

/-- a non-candidate never takes a free lease -/
theorem C08_non_candidate_never_acquires (s : Svc) (k : Nat) (n : LNode) (fresh : String) (hc : n.cand = false) :
    acquire s k n fresh = none := by
  simp [acquire, hc]

/-- cluster ids set on both sides and different: no acquisition, no attachment to any primary -/
theorem C08_foreign_cluster_refused (s : Svc) (k : Nat) (n : LNode) (fresh pc : String)
    (h1 : s.cid ≠ "") (h2 : n.cid ≠ "") (h3 : s.cid ≠ n.cid) :
    acquire s k n fresh = none ∧ attach s.cid n.cid pc = none := by
  have hm : mayAcquire s.cid n.cid = false := by simp [mayAcquire, h1, h3]
  have hl : mayLook s.cid n.cid = false := by simp [mayLook, h1, h2, h3]
  constructor
  · unfold acquire
    split; · rfl
    split; · rfl
    simp [hm]
  · simp [attach, hl]

/-- a node attaches only to a primary of its own cluster (adopting the id if it has none) -/
theorem C08_attach_same_cluster (lc nc pc c : String) (h : attach lc nc pc = some c) : c = pc := by
  unfold attach at h
  split at h; · cases h
  split at h
  · injection h with h; exact h.symm
  · split at h
    · rename_i heq
      injection h with h
      rw [← h]; simpa using heq
    · cases h

/-- after a renewal a node still acting as primary is the service's holder of that very lease -/
theorem C08_primary_implies_holder (s : Svc) (k : Nat) (n : LNode) (l : Nat)
    (h : (renew s k n).2.lease = some l) : (renew s k n).1.holder = some k ∧ (renew s k n).1.leaseID = l := by
  unfold renew at h ⊢
  cases hl : n.lease with
  | none => simp [hl] at h
  | some l0 =>
    simp only [hl] at h ⊢
    split at h
    · simp at h
    · rename_i hcond
      split at h
      · simp at h
      · simp only [hl, Option.some.injEq] at h
        subst h
        simp only [Bool.or_eq_true, bne_iff_ne, ne_eq, not_or, Decidable.not_not] at hcond
        simp_all

/-- the lease is gone (expired, or now someone else's): the node stops being primary at its next
    renewal and destroys nothing -/
theorem C08_lease_gone_stops (s : Svc) (k : Nat) (n : LNode) (l : Nat) (hl : n.lease = some l)
    (hg : s.holder ≠ some k ∨ s.leaseID ≠ l) : (renew s k n).2.lease = none ∧ (renew s k n).1 = s := by
  unfold renew
  simp only [hl]
  have : (s.holder != some k || s.leaseID != l) = true := by
    rcases hg with h | h <;> simp [h]
  simp [this]

/-- renewals failing for a full TTL: the node stops and destroys its own lease -/
theorem C08_renewal_failure_stops (s : Svc) (k : Nat) (n : LNode) (l : Nat) (hl : n.lease = some l)
    (hh : s.holder = some k) (hid : s.leaseID = l) (he : s.renewErr = true) :
    (renew s k n).2.lease = none ∧ (renew s k n).1.holder = none := by
  unfold renew
  simp [hl, hh, hid, he]

/-- manual demotion / shutdown: the node stops; only its own live lease is destroyed -/
theorem C08_release (s : Svc) (k : Nat) (n : LNode) :
    (release s k n).2.lease = none ∧
    ((release s k n).1.holder = s.holder ∨ (s.holder = some k ∧ (release s k n).1.holder = none)) := by
  unfold release
  cases hl : n.lease with
  | none => simp [hl]
  | some l =>
    simp only
    split
    · rename_i hc
      simp only [Bool.and_eq_true, beq_iff_eq] at hc
      exact ⟨rfl, Or.inr ⟨hc.1, rfl⟩⟩
    · exact ⟨rfl, Or.inl rfl⟩

/-- a handoff transfers the lease, unchanged, to the requested node, and only if that node is a
    connected replica; the old primary stops -/
theorem C08_handoff (s s' : Svc) (p k : Nat) (pn kn pn' kn' : LNode) (conn : Bool)
    (h : handoff s p pn k kn conn = some (s', pn', kn')) :
    conn = true ∧ s.holder = some p ∧ s'.holder = some k ∧ s'.leaseID = s.leaseID ∧
    pn'.lease = none ∧ kn'.lease = pn.lease := by
  unfold handoff at h
  cases hl : pn.lease with
  | none => simp [hl] at h
  | some l =>
    simp only [hl] at h
    split at h; · cases h
    rename_i hc
    simp only [Option.some.injEq, Prod.mk.injEq] at h
    obtain ⟨h1, h2, h3⟩ := h
    subst h1; subst h2; subst h3
    simp only [Bool.or_eq_true, Bool.not_eq_true', bne_iff_ne, ne_eq, not_or, Bool.not_eq_false, Decidable.not_not] at hc
    exact ⟨hc.1.1, hc.1.2, rfl, rfl, rfl, rfl⟩

theorem C08_handoff_needs_connection (s : Svc) (p k : Nat) (pn kn : LNode) :
    handoff s p pn k kn false = none := by
  unfold handoff; cases pn.lease <;> simp

example : (acquire { allow := some 0 } 0 { up := true } "G1").isSome = true ∧
    (acquire { allow := some 0, cid := "A" } 0 { up := true, cid := "B" } "G1").isNone = true ∧
    (renew { holder := some 1, leaseID := 2 } 0 { up := true, lease := some 1 }).2.lease = none := by decide

/-- the control skeletons (branch conditions, loop heads, returns, order of calls and of state
    assignments) of `Store.monitorLeaseAsPrimary`, regenerated from the current source on every run, are the ones the
    model was written and validated against (Model/ExpectedSkel.lean): a reordered, dropped or
    altered check or call in these functions breaks this theorem -/
theorem C08_source_skeletons :
    Gen.Skel.Store_monitorLeaseAsPrimary = Expected.Skel.Store_monitorLeaseAsPrimary :=
  rfl

/-- further regenerated control skeletons (see Model/ExpectedSkel.lean): Store_monitorLease, Store_acquireLeaseOrPrimaryInfo, Store_monitorLeaseAsReplica, Store_Recover -/
theorem C08_source_skeletons_2 :
    Gen.Skel.Store_monitorLease = Expected.Skel.Store_monitorLease ∧
    Gen.Skel.Store_acquireLeaseOrPrimaryInfo = Expected.Skel.Store_acquireLeaseOrPrimaryInfo ∧
    Gen.Skel.Store_monitorLeaseAsReplica = Expected.Skel.Store_monitorLeaseAsReplica ∧
    Gen.Skel.Store_Recover = Expected.Skel.Store_Recover :=
  ⟨rfl, rfl, rfl, rfl⟩

/-- the Consul leaser (consul/consul.go: driven by the lease suite's consul mode against a fake
    Consul server): regenerated control skeletons -/
theorem C08_source_skeletons_consul :
    Gen.Skel.Leaser_Acquire = Expected.Skel.Leaser_Acquire ∧
    Gen.Skel.Leaser_AcquireExisting = Expected.Skel.Leaser_AcquireExisting ∧
    Gen.Skel.Leaser_PrimaryInfo = Expected.Skel.Leaser_PrimaryInfo ∧
    Gen.Skel.Leaser_ClusterID = Expected.Skel.Leaser_ClusterID ∧
    Gen.Skel.Leaser_SetClusterID = Expected.Skel.Leaser_SetClusterID ∧
    Gen.Skel.Lease_Renew = Expected.Skel.Lease_Renew ∧
    Gen.Skel.Lease_Handoff = Expected.Skel.Lease_Handoff ∧
    Gen.Skel.Lease_Close = Expected.Skel.Lease_Close :=
  ⟨rfl, rfl, rfl, rfl, rfl, rfl, rfl, rfl⟩

/-- A hand-over target takes the lease only if the lease service granted its session the key: in
    the Consul leaser's `AcquireExisting` (skeleton regenerated from consul/consul.go) the renewal
    of the handed session comes first and its failure is returned, the key acquisition's answer
    is tested, a refusal returns `ErrPrimaryExists`, and the lease is returned only after both
    (facts proved by `decide` about the regenerated skeleton; seeded change C08-5 dropped the
    test of the answer). -/
theorem C08_handover_acquisition_checks_the_grant :
    let sk := Gen.Skel.Leaser_AcquireExisting
    ("if", "!acquired") ∈ sk ∧ ("return", "return nil, litefs.ErrPrimaryExists") ∈ sk ∧
    (sk.findIdx? (· == ("call", "lease.Renew"))).getD 1000 < (sk.findIdx? (· == ("call", "l.client.KV().Acquire"))).getD 0 ∧
    (sk.findIdx? (· == ("if", "!acquired"))).getD 1000 < (sk.findIdx? (· == ("return", "return lease, nil"))).getD 0 ∧
    (sk.filter (· == ("return", "return lease, nil"))).length = 1 := by
  decide

end LiteFSVerif.C08
