/-
  C20 — Every API request gets a response; invalid requests change nothing.

  Model: Model/API.lean — `route` (the path / method table of `serveHTTP`) and `validate` (the
  validation prefix of every handler, in source order).  In the driver (Driver/ApiD.lean) a refused
  request returns the state it was given; the api suite compares that with the real server and the
  spec (Driver/ApiSpecD.lean) checks the before / after observations of every answered error.
  `C20_source_routes` / `C20_source_validation`: table and validation order are regenerated from
  http/server.go on every run.
-/
import LiteFSVerif.Model.API
import LiteFSVerif.Gen.Facts
import LiteFSVerif.Gen.Skel
import LiteFSVerif.Model.ExpectedSkel

namespace LiteFSVerif.C20
open LiteFSVerif LiteFSVerif.API

def handlerName : Handler → String
  | .getExport => "handleGetExport" | .postHalt => "handlePostHalt" | .deleteHalt => "handleDeleteHalt"
  | .postHandoff => "handlePostHandoff" | .postImport => "handlePostImport" | .getInfo => "handleGetInfo"
  | .postPromote => "handlePostPromote" | .postStream => "handlePostStream" | .postTx => "handlePostTx"
  | .getEvents => "handleGetEvents"

def methodName (m : String) : String :=
  if m == "GET" then "Get" else if m == "POST" then "Post" else if m == "DELETE" then "Delete" else m

theorem C20_source_routes :
    Gen.Facts.apiRoutes = routes.map fun r => (r.1, r.2.map fun m => (methodName m.1, handlerName m.2)) := by decide

theorem C20_source_validation :
    Gen.Facts.api_handleGetExportConds =
      [("name == \"\"", "Error http.StatusBadRequest"),
       ("err: r.Context().Err()", "Error http.StatusServiceUnavailable"),
       ("db == nil", "Error http.StatusNotFound"),
       ("err: db.Export(r.Context(), w)", "Error http.StatusInternalServerError")] ∧
    Gen.Facts.api_handlePostHaltConds =
      [("err: strconv.ParseInt(q.Get(\"id\"), 10, 64)", "Error http.StatusBadRequest"),
       ("id == s.store.ID()", "Error http.StatusBadRequest"),
       ("lockID == 0", "Error http.StatusBadRequest"),
       ("!s.store.IsPrimary()", "Error http.StatusServiceUnavailable"),
       ("err: s.store.CreateDBIfNotExists(name)", "Error http.StatusInternalServerError"),
       ("err: db.AcquireHaltLock(r.Context(), lockID)", "Error http.StatusInternalServerError"),
       ("err: json.NewEncoder(w).Encode(haltLock)", "Error http.StatusInternalServerError")] ∧
    Gen.Facts.api_handleDeleteHaltConds =
      [("err: strconv.ParseInt(q.Get(\"id\"), 10, 64)", "Error http.StatusBadRequest"),
       ("id == s.store.ID()", "Error http.StatusBadRequest"),
       ("db == nil", "Error http.StatusNotFound")] ∧
    Gen.Facts.api_handlePostHandoffConds =
      [("err: litefs.ParseNodeID(q.Get(\"nodeID\"))", "Error http.StatusBadRequest"),
       ("err: s.store.Handoff(r.Context(), nodeID)", "Error http.StatusInternalServerError")] ∧
    Gen.Facts.api_handlePostImportConds =
      [("name == \"\"", "Error http.StatusBadRequest"),
       ("err: r.Context().Err()", "Error http.StatusServiceUnavailable"),
       ("err: s.store.CreateDBIfNotExists(name)", "Error http.StatusInternalServerError"),
       ("err: db.Import(r.Context(), r.Body)", "Error http.StatusInternalServerError")] ∧
    Gen.Facts.api_handlePostPromoteConds =
      [("!s.store.Candidate()", "Error http.StatusConflict"),
       ("isPrimary", "return"),
       ("info == nil", "Error http.StatusInternalServerError"),
       ("err: client.Handoff(r.Context(), info.AdvertiseURL, s.store.ID())", "Error http.StatusInternalServerError")] ∧
    Gen.Facts.api_handlePostTxConds =
      [("id == s.store.ID()", "Error http.StatusBadRequest"),
       ("db == nil", "Error http.StatusNotFound"),
       ("err: strconv.ParseInt(q.Get(\"lockID\"), 10, 64)", "Error http.StatusBadRequest"),
       ("!db.HasHaltLock(lockID)", "Error http.StatusConflict"),
       ("err: db.WriteLTXFileAt(r.Context(), r.Body)", "Error http.StatusInternalServerError"),
       ("call", "db.ApplyLTXNoLock(ltxPath, true)"),
       ("err: db.ApplyLTXNoLock(ltxPath, true)", "Error http.StatusInternalServerError")] := by decide

/-- every (path, method) pair is answered: unknown path, wrong method, or exactly one handler -/
theorem C20_route_total (path method : String) :
    route path method = .notFound ∨ route path method = .methodNotAllowed ∨ ∃ h, route path method = .handler h := by
  unfold route
  cases routes.lookup path with
  | none => exact Or.inl rfl
  | some ms =>
    cases hm : ms.lookup method with
    | none => right; left; simp [hm]
    | some h => right; right; exact ⟨h, by simp [hm]⟩

theorem C20_unknown_path (path method : String) (h : routes.lookup path = none) : route path method = .notFound := by
  simp [route, h]

/-- a refusal is an error status -/
theorem C20_refuse_is_error (h : Handler) (p : Params) (isP cand ex : Bool) (hh : Option Int) (n : Nat)
    (hv : validate h p isP cand ex hh = .refuse n) : 400 ≤ n := by
  cases h <;> simp only [validate] at hv
  all_goals (repeat' split at hv) <;> first | (injection hv with hv; omega) | cases hv

/-- a node that is not primary never proceeds with an import, a halt-lock grant or a stream -/
theorem C20_role_gate (p : Params) (cand ex : Bool) (hh : Option Int) :
    validate .postImport p false cand ex hh ≠ .proceed ∧
    validate .postHalt p false cand ex hh ≠ .proceed ∧
    validate .postStream p false cand ex hh ≠ .proceed := by
  refine ⟨?_, ?_, ?_⟩ <;> simp only [validate] <;> (repeat' split) <;> simp_all

/-- a forwarded transaction proceeds only for the holder of the database's halt lock, on a
    database that exists -/
theorem C20_tx_needs_holder (p : Params) (isP cand ex : Bool) (hh : Option Int)
    (hv : validate .postTx p isP cand ex hh = .proceed) :
    ex = true ∧ p.node ≠ .own ∧ ∃ l, p.lockID = some l ∧ hh = some l := by
  simp only [validate] at hv
  by_cases h1 : (p.node == NodeHdr.own) = true
  · simp [h1] at hv
  · by_cases h2 : (!ex) = true
    · simp [h1, h2] at hv
    · cases hl : p.lockID with
      | none => simp [h1, h2, hl] at hv
      | some l =>
        by_cases h3 : (hh == some l) = true
        · refine ⟨by simpa using h2, by simpa using h1, l, rfl, by simpa using h3⟩
        · simp [h1, h2, hl, h3] at hv

/-- a name that is not a single path element never reaches the store through /halt or /import -/
theorem C20_invalid_name (p : Params) (isP cand ex : Bool) (hh : Option Int) (hn : validDBName p.name = false) :
    validate .postImport p isP cand ex hh ≠ .proceed ∧ validate .postHalt p isP cand ex hh ≠ .proceed := by
  refine ⟨?_, ?_⟩ <;> simp only [validate, hn] <;> (repeat' split) <;> simp_all

example : validDBName "../x".toList = false ∧ validDBName [] = false ∧ validDBName "db".toList = true ∧
    parseNodeID "00000000000000000001" = some 1 ∧ parseNodeID "xyz" = none ∧
    route "/halt" "DELETE" = .handler .deleteHalt ∧ route "/halt/" "POST" = .notFound ∧ route "/tx" "GET" = .methodNotAllowed := by
  decide

/-- further regenerated control skeletons (see Model/ExpectedSkel.lean): Store_CreateDB, Store_CreateDBIfNotExists, Server_serveHTTP, Server_handlePostImport, Server_handleGetExport, Server_handlePostHalt, Server_handleDeleteHalt, Server_handlePostPromote, Server_handlePostHandoff, Server_handlePostTx, Server_handlePostStream -/
theorem C20_source_skeletons :
    Gen.Skel.Store_CreateDB = Expected.Skel.Store_CreateDB ∧
    Gen.Skel.Store_CreateDBIfNotExists = Expected.Skel.Store_CreateDBIfNotExists ∧
    Gen.Skel.Server_serveHTTP = Expected.Skel.Server_serveHTTP ∧
    Gen.Skel.Server_handlePostImport = Expected.Skel.Server_handlePostImport ∧
    Gen.Skel.Server_handleGetExport = Expected.Skel.Server_handleGetExport ∧
    Gen.Skel.Server_handlePostHalt = Expected.Skel.Server_handlePostHalt ∧
    Gen.Skel.Server_handleDeleteHalt = Expected.Skel.Server_handleDeleteHalt ∧
    Gen.Skel.Server_handlePostPromote = Expected.Skel.Server_handlePostPromote ∧
    Gen.Skel.Server_handlePostHandoff = Expected.Skel.Server_handlePostHandoff ∧
    Gen.Skel.Server_handlePostTx = Expected.Skel.Server_handlePostTx ∧
    Gen.Skel.Server_handlePostStream = Expected.Skel.Server_handlePostStream :=
  ⟨rfl, rfl, rfl, rfl, rfl, rfl, rfl, rfl, rfl, rfl, rfl⟩

/-- The request is checked before anything is created — facts proved by `decide` about the
    skeletons of `handlePostHalt` and `handlePostImport` regenerated from http/server.go: an
    unparsable lock id, the node's own id, a zero lock id and a node that is not primary are
    answered before the one `CreateDBIfNotExists`, which comes before `AcquireHaltLock`; an import
    without a name and an import on a node whose primary context has ended are answered before the
    database is created, and the creation comes before `Import` (what `Import` does with a body it
    rejects is the open finding C20-import-creates-db, not covered by this fact). -/
theorem C20_requests_are_checked_before_anything_is_created :
    let ix (sk : List (String × String)) (x : String × String) (d : Nat) := (sk.findIdx? (· == x)).getD d
    let h := Gen.Skel.Server_handlePostHalt
    let i := Gen.Skel.Server_handlePostImport
    ix h ("call", "strconv.ParseInt") 1000 < ix h ("call", "s.store.CreateDBIfNotExists") 0 ∧
    ix h ("if", "id == s.store.ID()") 1000 < ix h ("call", "s.store.CreateDBIfNotExists") 0 ∧
    ix h ("if", "lockID == 0") 1000 < ix h ("call", "s.store.CreateDBIfNotExists") 0 ∧
    ix h ("if", "!s.store.IsPrimary()") 1000 < ix h ("call", "s.store.CreateDBIfNotExists") 0 ∧
    ix h ("call", "s.store.CreateDBIfNotExists") 1000 < ix h ("call", "db.AcquireHaltLock") 0 ∧
    (h.filter (· == ("call", "s.store.CreateDBIfNotExists"))).length = 1 ∧
    ix i ("if", "name == \"\"") 1000 < ix i ("call", "s.store.CreateDBIfNotExists") 0 ∧
    ix i ("call", "s.store.PrimaryCtx") 1000 < ix i ("call", "r.Context().Err") 0 ∧
    ix i ("call", "r.Context().Err") 1000 < ix i ("call", "s.store.CreateDBIfNotExists") 0 ∧
    ix i ("call", "s.store.CreateDBIfNotExists") 1000 < ix i ("call", "db.Import") 0 := by
  decide

end LiteFSVerif.C20
