/-
  C16 — Import replaces a database atomically; export returns the exact current image.

  Spec level: an import is one transaction carrying every page of the new image, so applying it to
  ANY previous image (absent, empty, dropped, populated, larger or smaller) yields exactly the new
  image.  Engine model (`importDB`, after the fixes 3d82d11 / 35bdac4 / a1039c3): an import that is
  refused (not primary, unreadable header, other page size) changes neither database, WAL, journal,
  position nor log and does not stop the node.
-/
import LiteFSVerif.Proofs.Engine
import LiteFSVerif.Proofs.Image
import LiteFSVerif.Proofs.ImportBytes
import LiteFSVerif.Gen.Skel
import LiteFSVerif.Model.ExpectedSkel

set_option linter.unusedSimpArgs false

namespace LiteFSVerif.C16
open LiteFSVerif LiteFSVerif.Engine LiteFSVerif.Spec

/-- an import file lists every page of the imported image; applied to any previous image it yields
    exactly the imported image -/
theorem C16_import_replaces (prev new : Img) (txid : Nat) (pre post : Chk) :
    apply prev (capture new (List.range' 1 new.length) txid txid pre post) = new := by
  apply apply_capture
  intro i hi _
  rw [List.mem_range'_1]; omega

/-- the import is ONE new transaction extending the log -/
theorem C16_import_header (new : Img) (txid : Nat) (pre post : Chk) :
    let f := capture new (List.range' 1 new.length) txid txid pre post
    f.minTxid = txid ∧ f.maxTxid = txid ∧ f.pre = pre ∧ f.commit = new.length := by
  simp [capture]

/-- engine: on a node that is not primary, import is refused and nothing changes -/
theorem C16_import_readonly (s : Eng) (d : ByteArray) (h : s.primary = false) :
    importDB s d = .error (s, .readonly) := by
  unfold importDB; rw [ensure_neg (by simp [h])]; rfl

/-- what a refused import may differ in: only the lock table (an internal guard set that was taken
    and released again) -/
def sameData (a b : Eng) : Prop :=
  a.dbFile = b.dbFile ∧ a.wal = b.wal ∧ a.journal = b.journal ∧ a.posTxid = b.posTxid ∧ a.posChk = b.posChk ∧
  a.ltx = b.ltx ∧ a.pageN = b.pageN ∧ a.exit = b.exit

/-- engine: input that is not a database image (too short, wrong magic, empty) is refused before
    the journal, the WAL, the database or the log are touched, and the node keeps running -/
theorem C16_garbage_refused (s : Eng) (d : ByteArray) (hp : s.primary = true)
    (hbad : ∃ e, Sqlite.readDBHeader d = .error e) :
    ∃ s', importDB s d = .error (s', .err) ∧ sameData s' s ∨
          importDB s d = .error (s', .busy) ∧ sameData s' s := by
  obtain ⟨e, he⟩ := hbad
  unfold importDB
  rw [ensure_pos (by simp [hp])]
  simp only [M_ok_bind]
  cases hl : s.locks.tryAcquireWriteLock s.walMode with
  | mk t oi =>
    cases oi with
    | none =>
      refine ⟨{ s with locks := t }, Or.inr ⟨rfl, ?_⟩⟩
      simp [sameData]
    | some i =>
      simp only [he]
      refine ⟨{ s with locks := t.unlockAll i }, Or.inl ⟨rfl, ?_⟩⟩
      simp [sameData]

/-- engine: an image whose page size differs from the existing database's is refused the same way
    (before anything is written) -/
theorem C16_other_page_size_refused (s : Eng) (d : ByteArray) (h : Sqlite.DBHeader) (hp : s.primary = true)
    (hh : Sqlite.readDBHeader d = .ok h) (hps : s.pageSize ≠ 0 ∧ h.pageSize ≠ s.pageSize) :
    ∃ s', importDB s d = .error (s', .err) ∧ sameData s' s ∨
          importDB s d = .error (s', .busy) ∧ sameData s' s := by
  unfold importDB
  rw [ensure_pos (by simp [hp])]
  simp only [M_ok_bind]
  cases hl : s.locks.tryAcquireWriteLock s.walMode with
  | mk t oi =>
    cases oi with
    | none =>
      refine ⟨{ s with locks := t }, Or.inr ⟨rfl, ?_⟩⟩
      simp [sameData]
    | some i =>
      simp only [hh, M_pure_bind]
      rw [ensure_neg (by simpa using hps)]
      refine ⟨{ s with locks := t.unlockAll i }, Or.inl ⟨rfl, ?_⟩⟩
      simp [sameData]

theorem mapM_option_eq {α β} (f : α → Option β) (g : α → β) (l : List α) (h : ∀ x ∈ l, f x = some (g x)) :
    l.mapM f = some (l.map g) := by
  induction l with
  | nil => rfl
  | cons x xs ih =>
    simp only [List.mapM_cons, List.map_cons]
    rw [h x (by simp), ih (fun y hy => h y (by simp [hy]))]
    rfl

/-- engine: with no committed WAL frames, export reads exactly the first `pageN` pages of the
    database file -/
theorem C16_export_exact_no_wal (s : Eng) (dbf : ByteArray) (hdb : s.dbFile = some dbf)
    (hno : s.w.frameOffsets = []) (hsz : s.pageN * s.pageSize ≤ dbf.size) :
    logicalPages s = some ((List.range s.pageN).map fun i => dbf.extract (i * s.pageSize) ((i + 1) * s.pageSize)) := by
  unfold logicalPages
  simp only [hdb, Option.getD_some, hno, List.lookup_nil]
  apply mapM_option_eq
  intro i hi
  have hi' : i < s.pageN := List.mem_range.mp hi
  have : ¬ dbf.size < i * s.pageSize + s.pageSize := by
    have : (i + 1) * s.pageSize ≤ s.pageN * s.pageSize := Nat.mul_le_mul_right _ hi'
    rw [Nat.add_mul, Nat.one_mul] at this
    omega
  simp only [this, if_false]
  rw [Nat.add_mul, Nat.one_mul]

/-- engine, byte level: a successful `Import` of an image smaller than 1 GiB (below the lock
    page) leaves a database file of exactly the image's size in which every byte is the image's
    byte, except bytes 24..27 (change counter) and 40..43 (schema cookie) of the header page, which
    are zero — independently of what the database, journal or WAL held before.  (`Export` then
    returns these bytes: engine model + import suite.) -/
theorem C16_import_bytes (s s' : Engine.Eng) (data : ByteArray) (h : Engine.importDB s data = .ok s') :
    ∃ hd, Sqlite.readDBHeader data = .ok hd ∧
      (hd.pageN > 0 → hd.pageN < 1073741824 / hd.pageSize + 1 →
        ∃ d', s'.dbFile = some d' ∧ d'.size = hd.pageN * hd.pageSize ∧
          ∀ b, b < d'.size → BA.getD d' b = Engine.importedByte data b) :=
  Engine.import_bytes s s' data h

/-- the control skeletons (branch conditions, loop heads, returns, order of calls and of state
    assignments) of `DB.Import`, `DB.importToLTX`, regenerated from the current source on every run, are the ones the
    model was written and validated against (Model/ExpectedSkel.lean): a reordered, dropped or
    altered check or call in these functions breaks this theorem -/
theorem C16_source_skeletons :
    Gen.Skel.DB_Import = Expected.Skel.DB_Import ∧
    Gen.Skel.DB_importToLTX = Expected.Skel.DB_importToLTX :=
  ⟨rfl, rfl⟩

/-- The import publishes a finished file, under the write lock, on the primary only — facts proved
    by `decide` about the skeletons regenerated from db.go (not about their equality with the
    frozen ones): `importToLTX` reads and checks the SQLite header before it creates anything,
    closes the encoder and syncs the temporary file before the one `Rename` that publishes it, and
    answers the new position only after that; `Import` tests `IsPrimary` first, takes the write
    lock before `importToLTX`, and applies the file after the journal was invalidated. -/
theorem C16_import_publishes_a_finished_file :
    let ix (sk : List (String × String)) (x : String × String) (d : Nat) := (sk.findIdx? (· == x)).getD d
    let t := Gen.Skel.DB_importToLTX
    let i := Gen.Skel.DB_Import
    ix t ("call", "readSQLiteDatabaseHeader") 1000 < ix t ("call", "db.os.Create") 0 ∧
    ix t ("if", "db.pageSize != 0 && hdr.PageSize != db.pageSize") 1000 < ix t ("call", "db.os.Create") 0 ∧
    ix t ("call", "enc.Close") 1000 < ix t ("call", "f.Sync") 0 ∧
    ix t ("call", "f.Sync") 1000 < ix t ("call", "db.os.Rename") 0 ∧
    (t.filter (· == ("call", "db.os.Rename"))).length = 1 ∧
    ix t ("call", "db.os.Rename") 1000 < ix t ("return", "return pos, nil") 0 ∧
    (t.filter (· == ("return", "return pos, nil"))).length = 1 ∧
    ix i ("if", "!db.store.IsPrimary()") 1000 < ix i ("call", "db.AcquireWriteLock") 0 ∧
    ix i ("call", "db.AcquireWriteLock") 1000 < ix i ("call", "db.importToLTX") 0 ∧
    ix i ("call", "db.importToLTX") 1000 < ix i ("call", "db.invalidateJournal") 0 ∧
    ix i ("call", "db.invalidateJournal") 1000 < ix i ("call", "db.ApplyLTXNoLock") 0 := by
  decide

end LiteFSVerif.C16
