/-
  C07 — A node without write authority cannot change a replicated database.

  `writeable = primary ∨ holds the database's halt lock`.  Engine model (Model/Engine.lean):
  every mount-reachable mutating entry point either refuses with the read-only error leaving the
  state as it was, or (truncate-to-committed-size, WAL create/remove/truncate) cannot touch the
  position or the log.  The presence of the refusal at the head of each Go entry point is a fact
  regenerated from db.go on every run (`Gen.Facts.gateTable`).
-/
import LiteFSVerif.Proofs.Engine
import LiteFSVerif.Gen.Facts
import LiteFSVerif.Proofs.ApplyBytes
import LiteFSVerif.Gen.Skel
import LiteFSVerif.Model.ExpectedSkel
import LiteFSVerif.Proofs.GoCtx

set_option linter.unusedSimpArgs false

namespace LiteFSVerif.C07
open LiteFSVerif LiteFSVerif.Engine

/-- the Go entry points that write replicated state begin with the write-authority refusal
    (regenerated from the source: removing a gate from db.go breaks this theorem) -/
theorem C07_all_gated :
    ∀ name ∈ ["WriteDatabaseAt", "CreateJournal", "WriteJournalAt", "CommitJournal", "WriteWALAt", "Import"],
      Gen.Facts.gateTable.lookup name = some true := by decide

/-- database page writes are refused with the read-only error; nothing changes -/
theorem C07_db_write (s : Eng) (off : Nat) (d : ByteArray) (h : s.writeable = false) :
    writeDatabaseAt s off d = .error (s, .readonly) := by
  unfold writeDatabaseAt; simp [h, ensure, fail, bind, Except.bind]

/-- journal writes (including the zeroed header that finalises a PERSIST transaction) are refused -/
theorem C07_journal_write (s : Eng) (off : Nat) (d : ByteArray) (h : s.writeable = false) :
    writeJournalAt s off d = .error (s, .readonly) := by
  unfold writeJournalAt; simp [h, ensure, fail, bind, Except.bind]

/-- journal deletion / truncation (= commit attempts) are refused -/
theorem C07_journal_finalise (s : Eng) (mode : Nat) (h : s.writeable = false) :
    commitJournal s mode = .error (s, .readonly) := by
  unfold commitJournal; simp [h, ensure, fail, bind, Except.bind]

/-- WAL writes are refused -/
theorem C07_wal_write (s : Eng) (off : Nat) (d : ByteArray) (h : s.writeable = false) :
    writeWALAt s off d = .error (s, .readonly) := by
  unfold writeWALAt; simp [h, ensure, fail, bind, Except.bind]

/-- database removal through the mount is refused on a non-primary -/
theorem C07_drop (s : Eng) (h : s.primary = false) : drop s = .error (s, .readonly) := by
  unfold drop; simp [h, ensure, fail, bind, Except.bind]

/-- import is refused on a non-primary -/
theorem C07_import (s : Eng) (d : ByteArray) (h : s.primary = false) : importDB s d = .error (s, .readonly) := by
  unfold importDB; simp [h, ensure, fail, bind, Except.bind]

/-- truncating the database file is only possible to the committed size and never changes the
    position, the size in pages or the log -/
theorem C07_truncate_frame (s s' : Eng) (size : Nat) (h : truncateDatabase s size = .ok s') :
    s'.posTxid = s.posTxid ∧ s'.posChk = s.posChk ∧ s'.ltx = s.ltx ∧ s'.pageN = s.pageN ∧ size = s.pageN * s.pageSize := by
  unfold truncateDatabase at h
  obtain ⟨_, h1, h⟩ := M_bind_ok h
  obtain ⟨_, h2, h⟩ := M_bind_ok h
  obtain ⟨_, h3, h⟩ := M_bind_ok h
  obtain ⟨_, _, h⟩ := M_bind_ok h
  have hps := ensure_ok h1
  have hal := ensure_ok h2
  have hn := ensure_ok h3
  unfold truncateDatabaseFile at h
  obtain ⟨ck, _, h⟩ := M_bind_ok h
  simp only [pure, Except.pure] at h
  injection h with h
  subst h
  have hn' : size / s.pageSize = s.pageN := by simpa using hn
  have hal' : size % s.pageSize = 0 := by simpa using hal
  refine ⟨rfl, rfl, rfl, rfl, ?_⟩
  rw [← hn']
  have := Nat.div_add_mod size s.pageSize
  rw [hal'] at this
  rw [Nat.mul_comm]; omega

/-- ... and byte level: the only truncation `TruncateDatabase` accepts (on any node: it has no
    write-authority gate of its own) leaves every byte of the committed image in place — the file
    afterwards has exactly `pageN` pages and each of its bytes is the byte that was there -/
theorem C07_truncate_keeps_image_bytes (s s' : Eng) (size : Nat) (h : truncateDatabase s size = .ok s') :
    ∃ d', s'.dbFile = some d' ∧ d'.size = s.pageN * s.pageSize ∧
      ∀ i, i < d'.size → BA.getD d' i = BA.getD (Engine.dbBytes s) i := by
  have hsz := (C07_truncate_frame s s' size h).2.2.2.2
  unfold truncateDatabase at h
  obtain ⟨_, _, h⟩ := M_bind_ok h
  obtain ⟨_, _, h⟩ := M_bind_ok h
  obtain ⟨_, h3, h⟩ := M_bind_ok h
  obtain ⟨_, _, h⟩ := M_bind_ok h
  have hn := ensure_ok h3
  have hn' : size / s.pageSize = s.pageN := by simpa using hn
  unfold truncateDatabaseFile at h
  obtain ⟨ck, _, h⟩ := M_bind_ok h
  simp only [pure, Except.pure] at h
  injection h with h
  subst h
  refine ⟨_, rfl, ?_, ?_⟩
  · rw [BA.size_truncate, hn']
  · intro i hi
    rw [BA.size_truncate] at hi
    rw [BA.getD_truncate, if_pos hi]
    rfl

/-- WAL truncation and removal never touch the database file, the position or the log -/
theorem C07_wal_truncate_frame (s s' : Eng) (size : Nat) (h : truncateWAL s size = .ok s') :
    s'.posTxid = s.posTxid ∧ s'.posChk = s.posChk ∧ s'.ltx = s.ltx ∧ s'.dbFile = s.dbFile ∧ s'.pageN = s.pageN := by
  unfold truncateWAL at h
  obtain ⟨_, _, h⟩ := M_bind_ok h
  obtain ⟨_, _, h⟩ := M_bind_ok h
  simp only [pure, Except.pure] at h
  injection h with h; subst h; simp

theorem C07_wal_remove_frame (s s' : Eng) (h : removeWAL s = .ok s') :
    s'.posTxid = s.posTxid ∧ s'.posChk = s.posChk ∧ s'.ltx = s.ltx ∧ s'.dbFile = s.dbFile ∧ s'.pageN = s.pageN := by
  unfold removeWAL at h
  obtain ⟨_, _, h⟩ := M_bind_ok h
  simp only [pure, Except.pure] at h
  injection h with h; subst h; simp

/-- a WAL transaction whose commit step begins after the node lost write authority (demotion
    between the frame writes and the release of the write lock) is refused, not published -/
theorem C07_mid_transaction (s s' : Eng) (hw : s.writeable = false) (h : commitWALBody s = .ok s') : s' = s :=
  commitWAL_lost_authority s s' hw h

/-- the control skeletons (branch conditions, loop heads, returns, order of calls and of state
    assignments) of `DB.TruncateDatabase`, regenerated from the current source on every run, are the ones the
    model was written and validated against (Model/ExpectedSkel.lean): a reordered, dropped or
    altered check or call in these functions breaks this theorem -/
theorem C07_source_skeletons :
    Gen.Skel.DB_TruncateDatabase = Expected.Skel.DB_TruncateDatabase :=
  rfl

/-- further regenerated control skeletons (see Model/ExpectedSkel.lean): DB_TruncateWAL, DB_RemoveWAL, DB_CreateJournal, DB_WriteJournalAt -/
theorem C07_source_skeletons_2 :
    Gen.Skel.DB_TruncateWAL = Expected.Skel.DB_TruncateWAL ∧
    Gen.Skel.DB_RemoveWAL = Expected.Skel.DB_RemoveWAL ∧
    Gen.Skel.DB_CreateJournal = Expected.Skel.DB_CreateJournal ∧
    Gen.Skel.DB_WriteJournalAt = Expected.Skel.DB_WriteJournalAt :=
  ⟨rfl, rfl, rfl, rfl⟩

/-- the pieces that carry "a request scoped to the node's term as primary is refused once the
    lease is lost" (fix 55d1f52): the primary-scoped context cancels a derived context with
    `ErrLeaseExpired` (so `context.Cause` reports it), the blocking lock operations return that
    cause, and the import handler runs the import under such a context. -/
theorem C07_source_skeletons_3 :
    Gen.Skel.fn_newPrimaryCtx = Expected.Skel.fn_newPrimaryCtx ∧
    Gen.Skel.primaryCtx_Err = Expected.Skel.primaryCtx_Err ∧
    Gen.Skel.RWMutexGuard_Lock = Expected.Skel.RWMutexGuard_Lock ∧
    Gen.Skel.RWMutexGuard_RLock = Expected.Skel.RWMutexGuard_RLock ∧
    Gen.Skel.DB_AcquireWriteLock = Expected.Skel.DB_AcquireWriteLock ∧
    Gen.Skel.Server_handlePostImport = Expected.Skel.Server_handlePostImport :=
  ⟨rfl, rfl, rfl, rfl, rfl, rfl⟩

/-! ### a request scoped to the node's term as primary ends with an error once the lease is lost

  Model/GoCtx.lean models Go's `context.Cause` on trees of standard cancelable contexts and
  LiteFS's primary-scoped context; the `goctx` suite runs the same scripts on the real types. -/

/-- For every script of context constructions, cancellations and lease losses, in the world it
    reaches: a (fixed, 55d1f52) primary-scoped context that is done has a non-nil cause, so a
    blocked `AcquireWriteLock` / `RWMutexGuard.Lock` under it returns an error — it cannot return
    "acquired" without the lock.  (`lockWaitError = none` is Go's nil error.) -/
theorem C07_lost_lease_ends_lock_wait_with_error (cs : List GoCtx.Cmd) (w : GoCtx.World)
    (hr : GoCtx.run {} cs = some w) (i inner : Nat) (p : Option Nat)
    (hn : w.nodes[i]? = some (GoCtx.Node.mk (.primary inner) p)) (hd : w.done i = true) :
    (GoCtx.lockWaitError w i).isSome = true := by
  obtain ⟨hwf, hs⟩ := GoCtx.run_wf_settled cs {} w GoCtx.wf_empty GoCtx.settled_empty hr
  exact GoCtx.fixed_primary_done_has_cause w i inner p hwf hs hn hd

/-- the defect 55d1f52 repaired, as a witness in the same model: the primary-scoped context as it
    was before (wrapping the request's context directly) is done with a nil cause when the lease
    is lost while the request's context is alive: the lock wait returned nil -/
theorem C07_old_primary_ctx_nil_cause :
    ∃ w, GoCtx.run {} [.mkCancel none, .mkPrimaryOld (some 0), .close 1] = some w ∧
      w.done 1 = true ∧ GoCtx.lockWaitError w 1 = none := by
  refine ⟨_, rfl, ?_, ?_⟩ <;> decide

/-- non-vacuity of `C07_lost_lease_ends_lock_wait_with_error`: the same script with the fixed
    context reaches a world where the context is done, and the cause is the lost lease; when the
    request's context is canceled first, its cause is reported -/
example :
    ∃ w, GoCtx.run {} [.mkCancel none, .mkPrimary (some 0), .close 2] = some w ∧
      w.nodes[2]? = some (GoCtx.Node.mk (.primary 1) (some 0)) ∧ w.done 2 = true ∧
      GoCtx.lockWaitError w 2 = some .leaseExpired := by
  refine ⟨_, rfl, ?_, ?_, ?_⟩ <;> decide

example :
    ∃ w, GoCtx.run {} [.mkCancel none, .mkPrimary (some 0), .cancel 0 (some 7), .close 2] = some w ∧
      w.done 2 = true ∧ GoCtx.lockWaitError w 2 = some (.user 7) := by
  refine ⟨_, rfl, ?_, ?_⟩ <;> decide

/-- the mount layer's side of the refusals: the page, journal and WAL write handlers and the
    create handlers convert the read-only refusal to a permission errno (`ToError`; page writes
    since fix 04a19f9), database removal is gated on the primary role (regenerated from fuse/*.go;
    driven without a kernel by the suites with the `mount` argument) -/
theorem C07_source_skeletons_mount :
    Gen.Skel.fn_ToError = Expected.Skel.fn_ToError ∧
    Gen.Skel.DatabaseHandle_Write = Expected.Skel.DatabaseHandle_Write ∧
    Gen.Skel.JournalHandle_Write = Expected.Skel.JournalHandle_Write ∧
    Gen.Skel.WALHandle_Write = Expected.Skel.WALHandle_Write ∧
    Gen.Skel.DatabaseNode_Setattr = Expected.Skel.DatabaseNode_Setattr ∧
    Gen.Skel.JournalNode_Setattr = Expected.Skel.JournalNode_Setattr ∧
    Gen.Skel.RootNode_Lookup = Expected.Skel.RootNode_Lookup ∧
    Gen.Skel.RootNode_Create = Expected.Skel.RootNode_Create ∧
    Gen.Skel.RootNode_Remove = Expected.Skel.RootNode_Remove :=
  ⟨rfl, rfl, rfl, rfl, rfl, rfl, rfl, rfl, rfl⟩

/-- every error return of a skeleton goes through `ToError` -/
def errorsConverted (sk : List (String × String)) : Bool :=
  (sk.filter (·.1 == "return")).all fun r => r.2 == "return nil" || r.2 == "return ToError(err)"

/-- Through the mount, the refusal of a page, journal or WAL write on a node without write
    authority reaches the kernel as a permission error: the three write handlers return nothing but
    `nil` or `ToError(err)`, and `ToError` maps the read-only refusal to EACCES (facts about the
    skeletons regenerated from fuse/*.go on every run; before fix 04a19f9 the first conjunct was
    false for the database handle, which returned the error unconverted: EIO). -/
theorem C07_mount_write_refusals_are_permission_errors :
    errorsConverted Gen.Skel.DatabaseHandle_Write = true ∧
    errorsConverted Gen.Skel.JournalHandle_Write = true ∧
    errorsConverted Gen.Skel.WALHandle_Write = true ∧
    ("if", "err == litefs.ErrReadOnlyReplica") ∈ Gen.Skel.fn_ToError ∧
    ("return", "return &Error{err: err, errno: fuse.ToErrno(syscall.EACCES)}") ∈ Gen.Skel.fn_ToError := by
  decide

end LiteFSVerif.C07
