/-
  C06 — Divergent or stale replicas are resnapshotted, never patched.

  * `C06_source_decisions`: the comparisons of `streamDB` / `streamLTX` / `processLTXStreamFrame`
    and what each branch does, regenerated from the source on every run, are the ones
    `Cluster.streamDecide`, `Protocol.accepts` and `Protocol.skips` implement.
  * decision theorems: a client that is ahead, at the same TXID with another checksum, behind a gap
    or whose checksum does not match the next file's pre-apply checksum gets a snapshot; an
    incremental file is sent only when it is the file `t+1` whose pre-apply checksum is the
    client's checksum.
  * `C06_never_patched`: in every reachable world of the protocol model (any interleaving of
    commits on any node, file deliveries between any nodes, snapshots, retention, restarts), an
    incremental file is applied only to a node whose image is the very image the file was created
    from; `C06_reject_unchanged*`: anything else is refused without touching the node.
-/
import LiteFSVerif.Proofs.Protocol
import LiteFSVerif.Props.C09
import LiteFSVerif.Gen.Facts
import LiteFSVerif.Proofs.ApplyBytes
import LiteFSVerif.Gen.Skel
import LiteFSVerif.Model.ExpectedSkel

namespace LiteFSVerif.C06
open LiteFSVerif LiteFSVerif.Cks LiteFSVerif.Cluster LiteFSVerif.Protocol LiteFSVerif.Engine

/-- the source's comparisons, in order (regenerated; `decide` compares with what the model encodes) -/
theorem C06_source_decisions :
    Gen.Facts.streamDBConds =
      [("db == nil", "error"),
       ("clientPos.TXID > dbPos.TXID", "clear"),
       ("clientPos.TXID == dbPos.TXID && clientPos.PostApplyChecksum != dbPos.PostApplyChecksum", "clear"),
       ("clientPos.TXID >= dbPos.TXID", "return-nil"),
       ("call", "s.streamLTX(ctx, w, db, clientPos.TXID+1, clientPos.PostApplyChecksum)")] ∧
    Gen.Facts.streamLTXConds =
      [("txID == 1", "snapshot"),
       ("call", "db.OpenLTXFile(txID)"),
       ("os.IsNotExist(err)", "snapshot"),
       ("dec.Header().PreApplyChecksum != preApplyChecksum", "snapshot")] ∧
    Gen.Facts.processFrameConds =
      [("hdr.NodeID == s.ID() && db.Pos().TXID >= hdr.MaxTXID", "skip"),
       ("haltLock != nil && hdr.MaxTXID > haltLock.Pos.TXID", "error"),
       ("!hdr.IsSnapshot()", "error"),
       ("expectedPos", "ltx.Pos{ TXID: hdr.MinTXID - 1, PostApplyChecksum: hdr.PreApplyChecksum, }"),
       ("pos != expectedPos", "error"),
       ("hdr.IsSnapshot()", "error"),
       ("call", "db.ApplyLTXNoLock(path, true)"),
       ("s.isReady()", "other")] := by decide

variable {F : Type}

/-- a client ahead of the primary is never sent an incremental file -/
theorem C06_ahead_gets_snapshot (pre : F → Chk) (c db : Pos) (file : Nat → Option F)
    (h : c.1 > db.1) (h1 : 1 ≤ db.1) : streamDecide pre c db file = .snapshot := sd_ahead pre c db file h h1

/-- same TXID, different checksum (a fork of equal length) -/
theorem C06_fork_gets_snapshot (pre : F → Chk) (c db : Pos) (file : Nat → Option F)
    (h : c.1 = db.1) (hc : c.2 ≠ db.2) (h1 : 1 ≤ db.1) : streamDecide pre c db file = .snapshot :=
  sd_fork pre c db file h hc h1

/-- behind, and the next file is gone (retention) or was never a single-transaction file -/
theorem C06_gap_gets_snapshot (pre : F → Chk) (c db : Pos) (file : Nat → Option F)
    (h : c.1 < db.1) (hf : file (c.1 + 1) = none) : streamDecide pre c db file = .snapshot := by
  rw [sd_behind pre c db file h, hf]; split <;> rfl

/-- behind on another branch: the next file does not start from the client's checksum -/
theorem C06_prechecksum_mismatch_gets_snapshot (pre : F → Chk) (c db : Pos) (file : Nat → Option F) (f : F)
    (h : c.1 < db.1) (hf : file (c.1 + 1) = some f) (hp : pre f ≠ c.2) : streamDecide pre c db file = .snapshot := by
  rw [sd_behind pre c db file h, hf]; simp [hp]

/-- an incremental file is sent only as the exact successor of the client's position -/
theorem C06_incremental_sound (pre : F → Chk) (c db : Pos) (file : Nat → Option F) (f : F)
    (h : streamDecide pre c db file = .file f) :
    c.1 < db.1 ∧ 1 ≤ c.1 ∧ file (c.1 + 1) = some f ∧ pre f = c.2 := by
  rcases Nat.lt_trichotomy c.1 db.1 with hlt | heq | hgt
  · rw [sd_behind pre c db file hlt] at h
    by_cases h0 : c.1 = 0
    · simp [h0] at h
    · simp only [h0, if_false] at h
      cases hf : file (c.1 + 1) with
      | none => simp [hf] at h
      | some g =>
        simp only [hf] at h
        by_cases hp : pre g ≠ c.2
        · simp [hp] at h
        · simp only [hp, if_false] at h
          injection h with h
          subst h
          exact ⟨hlt, by omega, rfl, by simpa using hp⟩
  · by_cases hc : c.2 = db.2
    · have : c = db := Prod.ext heq hc
      rw [this, sd_caught_up] at h; cases h
    · by_cases h1 : 1 ≤ db.1
      · rw [sd_fork pre c db file heq hc h1] at h; cases h
      · have h0 : db.1 = 0 := by omega
        have hc0 : c.1 = 0 := by omega
        simp [streamDecide, h0, hc0] at h
  · by_cases h1 : 1 ≤ db.1
    · rw [sd_ahead pre c db file hgt h1] at h; cases h
    · have h0 : db.1 = 0 := by omega
      simp [streamDecide, h0] at h

variable {I : Type}

/-- never patched: whenever an incremental file is applied to a node of a reachable world, that
    node's position is exactly the file's predecessor and its image is the image the file was
    created from (so the result is the image the creator obtained) -/
theorem C06_never_patched (H : I → Chk) (e0 : I) (n : Nat) (ops : List (Op I))
    (hcf : CollisionFree (run H (init e0 n) ops).hist)
    (s d : ANode I) (hs : s ∈ (run H (init e0 n) ops).nodes) (hd : d ∈ (run H (init e0 n) ops).nodes)
    (f : AFile I) (hf : f ∈ s.log) (hinc : f.min ≠ 1) (happ : (Protocol.deliver H d f).2 = .applied) :
    d.pos = (f.min - 1, f.pre) ∧
    ∃ a, ((f.min - 1, f.pre), a) ∈ (run H (init e0 n) ops).hist ∧ d.img = a ∧
         ((f.max, f.post), f.app a) ∈ (run H (init e0 n) ops).hist := by
  have hi := run_inv H ops (init e0 n) (init_inv H e0 n) hcf
  obtain ⟨_, _, h3⟩ := hi.files s hs f hf
  obtain ⟨a, ha1, ha2⟩ := h3 hinc
  have hacc : accepts d f = true := by
    unfold Protocol.deliver at happ
    split at happ
    · cases happ
    · split at happ
      · cases happ
      · rename_i _ hna; simpa using hna
  simp only [accepts, Bool.or_eq_true, beq_iff_eq, Bool.and_eq_true] at hacc
  rcases hacc with h | ⟨hp1, hp2⟩
  · exact absurd h hinc
  · have hpos : d.pos = (f.min - 1, f.pre) := by
      apply Prod.ext
      · show d.pos.1 = f.min - 1; omega
      · exact hp2
    refine ⟨hpos, a, ha1, ?_, ha2⟩
    have := hi.node d hd
    rw [hpos] at this
    exact hcf _ _ _ this ha1

/-- any file (arbitrary header, arbitrary effect) that is not a snapshot and does not extend the
    node's exact (TXID, checksum) leaves the node as it is -/
theorem C06_reject_unchanged (H : I → Chk) (d : ANode I) (f : AFile I) (hinc : f.min ≠ 1)
    (hbad : d.pos.1 + 1 ≠ f.min ∨ d.pos.2 ≠ f.pre) : (Protocol.deliver H d f).1 = d := by
  have hacc : accepts d f = false := by
    simp only [accepts, Bool.or_eq_false_iff, beq_eq_false_iff_ne, Bool.and_eq_false_iff]
    exact ⟨hinc, hbad⟩
  unfold Protocol.deliver
  split
  · rfl
  · simp [hacc]

/-- engine model (byte level): the stream path refuses such a file and changes nothing but the
    lock table it passed through -/
theorem C06_reject_unchanged_engine (s : Eng) (self : Nat) (f : LTXFile) (hdb : s.hasDB = true)
    (hnh : s.remoteHalt = false)   -- a node holding a stale remote halt lock first recovers (rollback / checkpoint)
    (hinc : f.minTxid ≠ 1) (hbad : f.minTxid ≠ s.posTxid + 1 ∨ f.pre ≠ s.posChk) :
    let r := (Cluster.deliver s self f).1
    r.dbFile = s.dbFile ∧ r.wal = s.wal ∧ r.journal = s.journal ∧ r.posTxid = s.posTxid ∧ r.posChk = s.posChk ∧
    r.ltx = s.ltx ∧ r.pageN = s.pageN ∧ r.exit = s.exit := by
  simp only [Cluster.deliver, hdb, hnh, if_true, Bool.false_eq_true, false_and, if_false]
  split
  · exact ⟨rfl, rfl, rfl, rfl, rfl, rfl, rfl, rfl⟩
  · unfold receiveLTX
    cases hl : s.locks.tryAcquireWriteLock s.walMode with
    | mk t oi =>
      cases oi with
      | none => simp [fail]
      | some i =>
        have hrej : writeLTXFile { s with locks := t } f = .error ({ s with locks := t }, .rejected) :=
          C09.C09_writeLTX_rejected_unchanged { s with locks := t } f hinc hbad
        simp [hrej, fail, bind, Except.bind]

/-- premises are satisfiable: a two-node world where the second node is behind on the chain -/
example : ∃ w : World Nat, w = run (fun x => x.toUInt64) (init 0 2) [.commit 0 (· + 1), .commit 0 (· + 1), .send 0 1 0] ∧
    (w.nodes.map (·.pos.1)) = [2, 1] := ⟨_, rfl, by decide⟩


/-- engine, byte level: a snapshot replaces, it does not patch.  If the page frames of a file
    cover every byte below `commit * pageSize` (what a snapshot holds: every page of the image —
    beyond 1 GiB all but the lock page, for which `hcover` would have to be weakened), then the
    database file after a successful apply is the same whatever two replicas held before — stale,
    divergent, longer, shorter or empty — as long as they use the same page size. -/
theorem C06_snapshot_replaces_any_state (a a' b b' : Engine.Eng) (f : Engine.LTXFile) (fa fb : Bool)
    (ha : Engine.applyLTX a f fa = .ok a') (hb : Engine.applyLTX b f fb = .ok b') (hc : f.commit > 0)
    (hps : (if a.pageSize = 0 then f.pageSize else a.pageSize) = (if b.pageSize = 0 then f.pageSize else b.pageSize))
    (hcover : ∀ i, i < f.commit * (if a.pageSize = 0 then f.pageSize else a.pageSize) →
      ∃ p ∈ f.pages, (p.1 - 1) * (if a.pageSize = 0 then f.pageSize else a.pageSize) ≤ i ∧
        i < (p.1 - 1) * (if a.pageSize = 0 then f.pageSize else a.pageSize) + (if a.pageSize = 0 then f.pageSize else a.pageSize)) :
    a'.dbFile = b'.dbFile := by
  obtain ⟨da, h1, h2, _, h4, h5⟩ := Engine.applyLTX_bytes a a' f fa ha hc
  obtain ⟨db, g1, g2, _, g4, g5⟩ := Engine.applyLTX_bytes b b' f fb hb hc
  have hpe : a'.pageSize = b'.pageSize := by rw [h2, g2, hps]
  have hsz : da.size = db.size := by rw [h4, g4, hpe]
  rw [h1, g1]
  congr 1
  apply ByteArray.ext_getElem hsz
  intro i hi hi'
  have e1 := h5 i hi
  have e2 := g5 i hi'
  rw [BA.getD_lt hi] at e1
  rw [BA.getD_lt hi'] at e2
  rw [e1, e2, ← hpe]
  apply Engine.byteAfterFrom_covered
  rw [h2]
  apply hcover
  rw [h4, h2] at hi
  exact hi

/-- engine, byte level: an incremental file changes only the bytes its page frames cover -/
theorem C06_incremental_touches_only_its_pages (s s' : Engine.Eng) (f : Engine.LTXFile) (fatal : Bool)
    (h : Engine.applyLTX s f fatal = .ok s') (hc : f.commit > 0) (i : Nat)
    (hi : i < f.commit * s'.pageSize)
    (hunc : ∀ p ∈ f.pages, ¬ ((p.1 - 1) * s'.pageSize ≤ i ∧ i < (p.1 - 1) * s'.pageSize + s'.pageSize)) :
    BA.getD (Engine.dbBytes s') i = BA.getD (Engine.dbBytes s) i := by
  obtain ⟨d, h1, _, _, h4, h5⟩ := Engine.applyLTX_bytes s s' f fatal h hc
  have : Engine.dbBytes s' = d := by unfold Engine.dbBytes; rw [h1]; rfl
  rw [this, h5 i (by rw [h4]; exact hi)]
  exact Engine.byteAfterFrom_uncovered _ _ _ _ hunc

/-- the control skeletons (branch conditions, loop heads, returns, order of calls and of state
    assignments) of `DB.WriteLTXFileAt`, `Store.processLTXStreamFrame`, regenerated from the current source on every run, are the ones the
    model was written and validated against (Model/ExpectedSkel.lean): a reordered, dropped or
    altered check or call in these functions breaks this theorem -/
theorem C06_source_skeletons :
    Gen.Skel.DB_WriteLTXFileAt = Expected.Skel.DB_WriteLTXFileAt ∧
    Gen.Skel.Store_processLTXStreamFrame = Expected.Skel.Store_processLTXStreamFrame :=
  ⟨rfl, rfl⟩

/-- further regenerated control skeletons (see Model/ExpectedSkel.lean): Server_streamDB, Server_streamLTX -/
theorem C06_source_skeletons_2 :
    Gen.Skel.Server_streamDB = Expected.Skel.Server_streamDB ∧
    Gen.Skel.Server_streamLTX = Expected.Skel.Server_streamLTX :=
  ⟨rfl, rfl⟩

/-! ### the byte-level engine model refines the abstract protocol model on position and log

  The unbounded C01 / C06 theorems above are about `Protocol.deliver` on abstract nodes; the
  correspondence suites compare real nodes with the byte-level engine model (`Engine.receiveLTX`
  inside `Cluster.deliver`).  The two are connected here: whenever the engine model accepts a file
  on the stream path, the protocol's acceptance rule holds for the abstracted node and file, and the
  abstracted node moves exactly as `Protocol.deliver` moves it (position and log); what the file does
  to the bytes is `C01_apply_bytes`.  A refusal by the position rule leaves the engine state as it
  was, as `Protocol.deliver` leaves the abstract node. -/

/-- header view of a transaction file (the image effect is kept abstract: `C01_apply_bytes`) -/
def absFile (f : LTXFile) : AFile Unit :=
  { min := f.minTxid, max := f.maxTxid, pre := f.pre, post := f.post, nodeID := f.nodeID, app := id }

/-- position / log view of an engine-model node -/
def absNode (ident : Nat) (s : Eng) : ANode Unit :=
  { ident := ident, pos := (s.posTxid, s.posChk), img := (), log := s.ltx.map absFile }

/-- engine accepts ⇒ protocol accepts, and both move the node to the same position and log -/
theorem C06_engine_receive_refines_protocol (ident : Nat) (s s' : Eng) (f : LTXFile) (hinv : LogInv s)
    (h : receiveLTX s f = .ok s') :
    accepts (absNode ident s) (absFile f) = true ∧
    (absNode ident s').pos = (f.maxTxid, f.post) ∧
    (absNode ident s').log = (if f.minTxid = 1 then [absFile f] else (absNode ident s).log ++ [absFile f]) := by
  unfold receiveLTX at h
  cases hl : s.locks.tryAcquireWriteLock s.walMode with
  | mk t oi =>
    rw [hl] at h
    cases oi with
    | none => simp [fail] at h
    | some i =>
      simp only at h
      cases hr1 : (do let s1 ← writeLTXFile { s with locks := t } f; applyLTX s1 f true : M Eng) with
      | error e => rw [hr1] at h; simp [fail] at h
      | ok s2 =>
        rw [hr1] at h
        simp only [pure, Except.pure] at h
        injection h with h
        subst h
        obtain ⟨s1, hw, ha⟩ := M_bind_ok hr1
        obtain ⟨hl2, hp1, hp2⟩ := applyLTX_frame s1 s2 f true ha
        by_cases hs : f.minTxid = 1
        · have hlog := C09.C09_writeLTX_snapshot { s with locks := t } s1 f hw hs
          refine ⟨by simp [accepts, absFile, hs], by simp [absNode, hp1, hp2], ?_⟩
          simp only [absNode, hs, if_true]
          rw [hl2, hlog]; rfl
        · obtain ⟨h1, h2, h3⟩ := C09.C09_writeLTX_extends { s with locks := t } s1 f hw hs
          have hinv0 : LogInv { s with locks := t } := ⟨hinv.chain, hinv.ranges, hinv.last⟩
          have happ := addLTX_append s.ltx f (hinv.below f h1)
          refine ⟨?_, by simp [absNode, hp1, hp2], ?_⟩
          · simp only [accepts, absFile, absNode, Bool.or_eq_true, beq_iff_eq, Bool.and_eq_true]
            right
            exact ⟨by simpa using h1.symm, by simpa using h2.symm⟩
          · simp only [absNode, hs, if_false]
            rw [hl2, h3]
            show (addLTX s.ltx f).map absFile = s.ltx.map absFile ++ [absFile f]
            rw [happ]; simp

/-- engine refuses by the position rule ⇔ the protocol refuses; the engine state is what it was
    (but for the lock bracket), like the abstract node -/
theorem C06_engine_refusal_refines_protocol (ident : Nat) (s : Eng) (f : LTXFile) (hn : f.minTxid ≠ 1)
    (hbad : f.minTxid ≠ s.posTxid + 1 ∨ f.pre ≠ s.posChk) :
    accepts (absNode ident s) (absFile f) = false ∧ writeLTXFile s f = .error (s, .rejected) := by
  refine ⟨?_, C09.C09_writeLTX_rejected_unchanged s f hn hbad⟩
  simp only [accepts, absFile, absNode, Bool.or_eq_false_iff, beq_eq_false_iff_ne, ne_eq, Bool.and_eq_false_iff]
  refine ⟨hn, ?_⟩
  rcases hbad with h | h
  · left; intro e; exact h e.symm
  · right; intro e; exact h e.symm

/-- a local commit of the engine model (rollback-journal or WAL) moves the abstracted node as
    `Protocol.commit` does: one file `pos+1 .. pos+1` whose pre-checksum is the old position's
    checksum and whose post-checksum is the new one, appended to the log -/
theorem C06_engine_commit_refines_protocol (ident : Nat) (s s' : Eng) (hinv : LogInv s)
    (h : (∃ mode, commitJournalValid s mode = .ok s') ∨ (commitWALBody s = .ok s' ∧ s' ≠ s)) :
    ∃ f : LTXFile, f.minTxid = s.posTxid + 1 ∧ f.maxTxid = s.posTxid + 1 ∧ f.pre = s.posChk ∧ f.post = s'.posChk ∧
      (absNode ident s').pos = (s.posTxid + 1, s'.posChk) ∧
      (absNode ident s').log = (absNode ident s).log ++ [absFile f] := by
  have key : ∃ f : LTXFile, s'.ltx = addLTX s.ltx f ∧ f.minTxid = s.posTxid + 1 ∧ f.maxTxid = s.posTxid + 1 ∧
      f.pre = s.posChk ∧ f.post = s'.posChk ∧ s'.posTxid = s.posTxid + 1 := by
    rcases h with ⟨mode, h⟩ | ⟨h, hne⟩
    · obtain ⟨f, h1, h2, h3, h4, h5, h6, _⟩ := commitJournalValid_shape s s' mode h
      exact ⟨f, h1, h2, h3, h4, h5, h6⟩
    · rcases commitWAL_shape s s' h with e | ⟨f, h1, h2, h3, h4, h5, h6, _⟩
      · exact absurd e hne
      · exact ⟨f, h1, h2, h3, h4, h5, h6⟩
  obtain ⟨f, h1, h2, h3, h4, h5, h6⟩ := key
  have happ := addLTX_append s.ltx f (hinv.below f h2)
  refine ⟨f, h2, h3, h4, h5, by simp [absNode, h6], ?_⟩
  simp only [absNode]
  rw [h1, happ]; simp

/-- the own-file skip of `Cluster.deliver` (engine level) is the protocol's `skips` for every node
    with a non-zero identity (identity 0 = "unset" never skips), and a skipped file changes nothing
    but the creation of the database entry -/
theorem C06_engine_skip_refines_protocol (self : Nat) (s : Eng) (f : LTXFile) (hs : self ≠ 0) (hdb : s.hasDB = true) :
    (skips (absNode self s) (absFile f) = true ↔ (f.nodeID = self ∧ self ≠ 0 ∧ s.posTxid ≥ f.maxTxid)) ∧
    (skips (absNode self s) (absFile f) = true → Cluster.deliver s self f = (s, true)) := by
  have hiff : skips (absNode self s) (absFile f) = true ↔ (f.nodeID = self ∧ self ≠ 0 ∧ s.posTxid ≥ f.maxTxid) := by
    simp only [skips, absNode, absFile, Bool.and_eq_true, beq_iff_eq]
    constructor
    · rintro ⟨a, b⟩; exact ⟨a, hs, of_decide_eq_true b⟩
    · rintro ⟨a, _, b⟩; exact ⟨a, decide_eq_true b⟩
  refine ⟨hiff, ?_⟩
  intro h
  have hc := hiff.mp h
  unfold Cluster.deliver
  simp only [hdb, if_true]
  rw [if_pos hc]

set_option maxRecDepth 20000 in
/-- Applying a transaction file moves the position last and once — facts proved by `decide`
    about the skeleton of `ApplyLTXNoLock` regenerated from db.go: the file is opened before any
    page is written, pages are written before the database is truncated to the commit size,
    and the one `setPos` comes after both and before the store is told about the change. -/
theorem C06_apply_sets_the_position_last :
    let ix (sk : List (String × String)) (x : String × String) (d : Nat) := (sk.findIdx? (· == x)).getD d
    let t := Gen.Skel.DB_ApplyLTXNoLock
    ix t ("call", "db.os.OpenFile") 1000 < ix t ("call", "db.writeDatabasePage") 0 ∧
    ix t ("call", "db.writeDatabasePage") 1000 < ix t ("call", "db.truncateDatabase") 0 ∧
    ix t ("call", "db.truncateDatabase") 1000 < ix t ("call", "db.setPos") 0 ∧
    ix t ("call", "db.setPos") 1000 < ix t ("call", "db.store.MarkDirty") 0 ∧
    (t.filter (· == ("call", "db.setPos"))).length = 1 := by
  decide

end LiteFSVerif.C06
