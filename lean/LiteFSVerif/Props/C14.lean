/-
  C14 — Backup sync uploads a gap-free chain and treats the backup as authoritative.

  Model: Model/Backup.lean — `decide` (the decision of `streamBackupDB`), `svcAccept` (the
  service's acceptance rule `WriteTx`), `compact`.  The byte-level driver (Driver/BackupD.lean,
  an engine-model primary + a list of service files) is compared with a real primary using the
  file-based backup client.
  * the service's chain stays contiguous under every accepted upload, whatever is offered;
  * the primary never uploads over a service that is ahead of it or on another history: the
    decision is `restore` (the primary adopts the service's snapshot);
  * an upload is the exact run of single-transaction files following the service's position, at
    most 256 of them, all present; a missing file means `restore`;
  * on an idle primary every sync of a service that is behind on the chain shortens the gap by
    min(gap, 256): ⌈gap / 256⌉ syncs reach the primary's position;
  * the high-water mark set after an accepted upload is the service's new position.
-/
import LiteFSVerif.Model.Backup
import LiteFSVerif.Gen.Facts
import LiteFSVerif.Gen.Skel
import LiteFSVerif.Model.ExpectedSkel

namespace LiteFSVerif.C14
open LiteFSVerif LiteFSVerif.Cks LiteFSVerif.Backup

theorem C14_batch_limit_from_source : Gen.Facts.MaxBackupLTXFileN = maxBatch := by decide

/-- contiguity of two adjacent files -/
def Contig : List Hdr → Prop
  | [] => True
  | [_] => True
  | a :: b :: rest => b.min = a.max + 1 ∧ b.pre = a.post ∧ Contig (b :: rest)

theorem contig_append (l : List Hdr) (f : Hdr) (hl : Contig l)
    (hx : ∀ z, l.getLast? = some z → f.min = z.max + 1 ∧ f.pre = z.post) : Contig (l ++ [f]) := by
  induction l with
  | nil => simp [Contig]
  | cons a rest ih =>
    cases rest with
    | nil =>
      have := hx a (by simp)
      simp [Contig, this.1, this.2]
    | cons b rest' =>
      simp only [Contig] at hl
      simp only [List.cons_append, Contig]
      refine ⟨hl.1, hl.2.1, ?_⟩
      apply ih hl.2.2
      intro z hz
      apply hx z
      simpa using hz

/-- whatever file is offered, the service either refuses it or its chain stays contiguous -/
theorem C14_service_chain (svc svc' : List Hdr) (f : Hdr) (hc : Contig svc) (h : svcAccept svc f = some svc') :
    Contig svc' ∧ svcPos svc' = (f.max, f.post) := by
  unfold svcAccept at h
  split at h
  · rename_i hcond
    injection h with h
    subst h
    refine ⟨?_, by simp [svcPos]⟩
    apply contig_append svc f hc
    intro z hz
    simp only [svcPos, hz] at hcond
    exact ⟨hcond.1.symm, hcond.2.symm⟩
  · cases h

/-- a file that does not extend the service's exact position is refused (position mismatch) -/
theorem C14_service_rejects (svc : List Hdr) (f : Hdr)
    (h : (svcPos svc).1 + 1 ≠ f.min ∨ (svcPos svc).2 ≠ f.pre) : svcAccept svc f = none := by
  unfold svcAccept
  split
  · rename_i hc; rcases h with h | h
    · exact absurd hc.1 h
    · exact absurd hc.2 h
  · rfl

/-- the service is ahead: never overwritten, the primary adopts its snapshot -/
theorem C14_ahead_restores (l remote : Nat × Chk) (have_ : Nat → Bool) (hl : ¬ (l.1 = 0 ∧ l.2 = 0))
    (hr : ¬ (remote.1 = 0 ∧ remote.2 = 0)) (h : remote.1 > l.1) : syncDecide (some l) remote have_ = .restore := by
  simp [syncDecide, hl, hr, h]

/-- same TXID, other checksum (another history): restore -/
theorem C14_fork_restores (l remote : Nat × Chk) (have_ : Nat → Bool) (hl : ¬ (l.1 = 0 ∧ l.2 = 0))
    (hr : ¬ (remote.1 = 0 ∧ remote.2 = 0)) (h : remote.1 = l.1) (hc : remote.2 ≠ l.2) :
    syncDecide (some l) remote have_ = .restore := by
  have h1 : ¬ remote.1 > l.1 := by omega
  unfold syncDecide
  simp only [hl, if_false]
  rw [if_neg hr, if_neg h1, if_pos h, if_pos hc]

/-- the database does not exist locally but the service has it: restore -/
theorem C14_no_local_restores (remote : Nat × Chk) (have_ : Nat → Bool) : syncDecide none remote have_ = .restore := rfl

/-- an upload is the exact successor run: starts right after the service's position, ends at the
    primary's position or 256 files later, every file of the run is present -/
theorem C14_upload_sound (l remote : Nat × Chk) (have_ : Nat → Bool) (a b : Nat)
    (h : syncDecide (some l) remote have_ = .upload a b) :
    a = remote.1 + 1 ∧ b = min l.1 (remote.1 + maxBatch) ∧ remote.1 < l.1 ∧
    ∀ t, a ≤ t → t ≤ b → have_ t = true := by
  unfold syncDecide at h
  simp only at h
  split at h; · cases h
  split at h; · cases h
  split at h; · cases h
  split at h
  · split at h <;> cases h
  · rename_i h1 h2 h3 h4
    split at h
    · rename_i hall
      injection h with ha hb
      subst ha; subst hb
      refine ⟨rfl, rfl, by omega, ?_⟩
      intro t ht1 ht2
      rw [List.all_eq_true] at hall
      have := hall (t - (remote.1 + 1)) (by simp [List.mem_range]; omega)
      have e : remote.1 + 1 + (t - (remote.1 + 1)) = t := by omega
      rw [e] at this
      exact this
    · cases h

/-- a missing file in the run means restore, never a gap on the service -/
theorem C14_gap_restores (l remote : Nat × Chk) (have_ : Nat → Bool) (hl : ¬ (l.1 = 0 ∧ l.2 = 0))
    (hr : ¬ (remote.1 = 0 ∧ remote.2 = 0)) (hlt : remote.1 < l.1) (t : Nat)
    (ht1 : remote.1 + 1 ≤ t) (ht2 : t ≤ min l.1 (remote.1 + maxBatch)) (hmiss : have_ t = false) :
    syncDecide (some l) remote have_ = .restore := by
  have h1 : ¬ remote.1 > l.1 := by omega
  have h2 : ¬ remote.1 = l.1 := by omega
  have hall : (List.range (min l.1 (remote.1 + maxBatch) - remote.1)).all (fun i => have_ (remote.1 + 1 + i)) = false := by
    rw [List.all_eq_false]
    refine ⟨t - (remote.1 + 1), by simp [List.mem_range]; omega, ?_⟩
    have e : remote.1 + 1 + (t - (remote.1 + 1)) = t := by omega
    rw [e, hmiss]; simp
  simp [syncDecide, hl, hr, h1, h2, hall]

/-- progress on an idle primary: an accepted upload leaves min(gap, 256) fewer transactions
    outstanding; in sync means no upload -/
theorem C14_progress (l remote : Nat × Chk) (have_ : Nat → Bool) (a b : Nat)
    (h : syncDecide (some l) remote have_ = .upload a b) :
    l.1 - b = (l.1 - remote.1) - min (l.1 - remote.1) maxBatch := by
  obtain ⟨_, hb, hlt, _⟩ := C14_upload_sound l remote have_ a b h
  subst hb
  simp only [maxBatch] at *
  omega

theorem C14_in_sync_no_upload (l : Nat × Chk) (have_ : Nat → Bool) (hl : ¬ (l.1 = 0 ∧ l.2 = 0)) :
    syncDecide (some l) l have_ = .inSync := by
  simp [syncDecide, hl]

/-- the high-water mark after an accepted upload (the file's max TXID, as `WriteTx` returns it) is
    the service's new position -/
theorem C14_hwm_acknowledged (svc svc' : List Hdr) (f : Hdr) (h : svcAccept svc f = some svc') :
    f.max = (svcPos svc').1 := by
  unfold svcAccept at h
  split at h
  · injection h with h; subst h; simp [svcPos]
  · cases h

example : syncDecide (some (5, 7)) (2, 3) (fun _ => true) = .upload 3 5 ∧
    syncDecide (some (5, 7)) (2, 3) (fun t => t != 4) = .restore ∧
    syncDecide (some (5, 7)) (9, 3) (fun _ => true) = .restore := by decide

/-- the control skeletons (branch conditions, loop heads, returns, order of calls and of state
    assignments) of `Store.streamBackupDB`, `Store.restoreDBFromBackup`, regenerated from the current source on every run, are the ones the
    model was written and validated against (Model/ExpectedSkel.lean): a reordered, dropped or
    altered check or call in these functions breaks this theorem -/
theorem C14_source_skeletons :
    Gen.Skel.Store_streamBackupDB = Expected.Skel.Store_streamBackupDB ∧
    Gen.Skel.Store_restoreDBFromBackup = Expected.Skel.Store_restoreDBFromBackup :=
  ⟨rfl, rfl⟩

/-- further regenerated control skeletons (see Model/ExpectedSkel.lean): Store_streamBackup, Store_streamBackupDBSnapshot, FileBackupClient_PosMap, FileBackupClient_pos, FileBackupClient_WriteTx, FileBackupClient_FetchSnapshot -/
theorem C14_source_skeletons_2 :
    Gen.Skel.Store_streamBackup = Expected.Skel.Store_streamBackup ∧
    Gen.Skel.Store_streamBackupDBSnapshot = Expected.Skel.Store_streamBackupDBSnapshot ∧
    Gen.Skel.FileBackupClient_PosMap = Expected.Skel.FileBackupClient_PosMap ∧
    Gen.Skel.FileBackupClient_pos = Expected.Skel.FileBackupClient_pos ∧
    Gen.Skel.FileBackupClient_WriteTx = Expected.Skel.FileBackupClient_WriteTx ∧
    Gen.Skel.FileBackupClient_FetchSnapshot = Expected.Skel.FileBackupClient_FetchSnapshot :=
  ⟨rfl, rfl, rfl, rfl, rfl, rfl⟩

/-- the LiteFS Cloud client (lfsc/backup_client.go), driven against a local server on the same
    service state as the file client: requests, the EPOSMISMATCH mapping, the high-water-mark header -/
theorem C14_source_skeletons_lfsc :
    Gen.Skel.BackupClient_PosMap = Expected.Skel.BackupClient_PosMap ∧
    Gen.Skel.BackupClient_WriteTx = Expected.Skel.BackupClient_WriteTx ∧
    Gen.Skel.BackupClient_FetchSnapshot = Expected.Skel.BackupClient_FetchSnapshot ∧
    Gen.Skel.BackupClient_doRequest = Expected.Skel.BackupClient_doRequest ∧
    Gen.Skel.fn_readResponseError = Expected.Skel.fn_readResponseError :=
  ⟨rfl, rfl, rfl, rfl, rfl⟩

/-- further regenerated control skeletons (fifth round of seeded changes: code no earlier change had
    touched): Store_monitorPrimaryBackup, Store_SyncBackup -/
theorem C14_source_skeletons_5 :
    Gen.Skel.Store_monitorPrimaryBackup = Expected.Skel.Store_monitorPrimaryBackup ∧
    Gen.Skel.Store_SyncBackup = Expected.Skel.Store_SyncBackup :=
  ⟨rfl, rfl⟩

/-- A restore from the backup replaces the database under its write lock — facts proved by
    `decide` about the skeleton of `restoreDBFromBackup` regenerated from store.go: the snapshot is
    fetched first, the write lock is taken before recovery, recovery before the snapshot file is
    written, the file is written before it is applied, and the high-water mark moves after that. -/
theorem C14_restore_applies_the_snapshot_under_the_write_lock :
    let ix (sk : List (String × String)) (x : String × String) (d : Nat) := (sk.findIdx? (· == x)).getD d
    let t := Gen.Skel.Store_restoreDBFromBackup
    ix t ("call", "s.BackupClient.FetchSnapshot") 1000 < ix t ("call", "s.CreateDBIfNotExists") 0 ∧
    ix t ("call", "s.CreateDBIfNotExists") 1000 < ix t ("call", "db.AcquireWriteLock") 0 ∧
    ix t ("call", "db.AcquireWriteLock") 1000 < ix t ("defer", "guard.Unlock") 0 ∧
    ix t ("defer", "guard.Unlock") 1000 < ix t ("call", "db.recover") 0 ∧
    ix t ("call", "db.recover") 1000 < ix t ("call", "db.WriteLTXFileAt") 0 ∧
    ix t ("call", "db.WriteLTXFileAt") 1000 < ix t ("call", "db.ApplyLTXNoLock") 0 ∧
    ix t ("call", "db.ApplyLTXNoLock") 1000 < ix t ("call", "db.SetHWM") 0 ∧
    ix t ("call", "db.SetHWM") 1000 < ix t ("return", "return newPos, nil") 0 := by
  decide

end LiteFSVerif.C14
