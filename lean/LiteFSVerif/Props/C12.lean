/-
  C12 — Each advisory lock obeys reader/writer semantics with upgrade and downgrade.

  All theorems are about `RWMutex.step`, whose guard methods are `Gen.RWMutex.*`,
  i.e. the code regenerated from /repo/rwmutex.go on this run.  `n` (number of
  owners) and the operation list are unbounded.
-/
import LiteFSVerif.Proofs.RWMutex
import LiteFSVerif.Proofs.GoCtx

namespace LiteFSVerif.C12
open LiteFSVerif LiteFSVerif.RWMutex

/-- One step refines the POSIX specification and preserves the invariant. -/
theorem C12_refines (m : Mutex) (op : Op) (h : RWMutex.Inv m) (hi : op.owner < m.gs.length) :
    RWMutex.Inv (step m op).1 ∧
    (step m op).1.gs = (Posix.specStep m.gs op).1 ∧
    (step m op).2 = (Posix.specStep m.gs op).2 := by
  cases op with
  | tryLock i => exact step_tryLock h (i := i) hi
  | tryRLock i => exact step_tryRLock h (i := i) hi
  | unlock i => exact step_unlock h (i := i) hi
  | canLock i =>
    have ⟨a, b⟩ := step_canLock h (i := i) hi
    exact ⟨a.symm ▸ h, by rw [a]; rfl, by rw [b]; rfl⟩
  | canRLock i =>
    have ⟨a, b⟩ := step_canRLock h (i := i) hi
    exact ⟨a.symm ▸ h, by rw [a]; rfl, by rw [b]; rfl⟩

/-- A call naming a guard that does not exist changes nothing (model plumbing). -/
theorem step_badOwner (m : Mutex) (op : Op) (hi : ¬ op.owner < m.gs.length) :
    step m op = (m, .badOwner) := by
  unfold step; simp [Nat.not_lt.mp hi]

theorem step_inv (m : Mutex) (op : Op) (h : RWMutex.Inv m) : RWMutex.Inv (step m op).1 := by
  by_cases hi : op.owner < m.gs.length
  · exact (C12_refines m op h hi).1
  · rw [step_badOwner m op hi]; exact h

theorem step_length (m : Mutex) (op : Op) (h : RWMutex.Inv m) : (step m op).1.gs.length = m.gs.length := by
  by_cases hi : op.owner < m.gs.length
  · rw [(C12_refines m op h hi).2.1]
    cases op <;> simp [Posix.specStep, Posix.tryExcl, Posix.tryShared, Posix.release] <;> split <;> simp
  · rw [step_badOwner m op hi]

/-- The invariant holds in every reachable state, for any number of owners and any op sequence. -/
theorem C12_inv (n : Nat) (ops : List Op) : RWMutex.Inv (run (Mutex.init n) ops) := by
  suffices H : ∀ m, RWMutex.Inv m → RWMutex.Inv (run m ops) from H _ (inv_init n)
  induction ops with
  | nil => intro m h; exact h
  | cons op ops ih => intro m h; exact ih _ (step_inv m op h)

/-- No reachable state triggers one of the `assert`s (Go panics) of rwmutex.go. -/
theorem C12_no_panic (n : Nat) (ops : List Op) (op : Op) (s : String) :
    (step (run (Mutex.init n) ops) op).2 ≠ .panic s := by
  have h := C12_inv n ops
  by_cases hi : op.owner < (run (Mutex.init n) ops).gs.length
  · rw [(C12_refines _ op h hi).2.2]
    cases op <;> simp [Posix.specStep]
  · rw [step_badOwner _ op hi]; simp

/-- At each instant: nobody, one or more shared holders, or exactly one exclusive holder. -/
theorem C12_trichotomy (n : Nat) (ops : List Op) :
    let m := run (Mutex.init n) ops
    (∀ j (hj : j < m.gs.length), m.gs[j] = .unlocked) ∨
    ((∃ j, ∃ hj : j < m.gs.length, m.gs[j] = .shared) ∧ ∀ j (hj : j < m.gs.length), m.gs[j] ≠ .exclusive) ∨
    (∃ i, ∃ hi : i < m.gs.length, m.gs[i] = .exclusive ∧
        ∀ j (hj : j < m.gs.length), j ≠ i → m.gs[j] = .unlocked) := by
  intro m
  have h : RWMutex.Inv m := C12_inv n ops
  cases hx : m.excl with
  | some i =>
    right; right
    have hi := h.excl_lt i hx
    have e := (h.excl_iff i hi).mpr hx
    have ⟨hc, _⟩ := excl_holder_alone h hi e
    exact ⟨i, hi, e, fun j hj hne => others_unlocked hc hj hne⟩
  | none =>
    by_cases hs : GS.shared ∈ m.gs
    · right; left
      obtain ⟨j, hj, hjv⟩ := List.getElem_of_mem hs
      exact ⟨⟨j, hj, hjv⟩, fun j hj => no_excl_of_none h hx hj⟩
    · left
      intro j hj
      have a : m.gs[j] ≠ .shared := fun e => hs (e ▸ List.getElem_mem hj)
      have b := no_excl_of_none h hx hj
      cases hg : m.gs[j] <;> simp_all

/-- A failed attempt changes nothing (whole concrete state, not just the holders). -/
theorem C12_failed_unchanged (n : Nat) (ops : List Op) (op : Op)
    (hf : (step (run (Mutex.init n) ops) op).2 = .bool false)
    (hq : ∀ i, op ≠ .canRLock i) :
    (step (run (Mutex.init n) ops) op).1 = run (Mutex.init n) ops := by
  have h := C12_inv n ops
  by_cases hi : op.owner < (run (Mutex.init n) ops).gs.length
  · have ⟨hinv, hgs, hres⟩ := C12_refines _ op h hi
    apply inv_ext hinv h
    rw [hgs]
    rw [hres] at hf
    cases op with
    | tryLock i =>
      simp only [Posix.specStep, Posix.tryExcl] at hf ⊢
      split <;> simp_all
    | tryRLock i =>
      simp only [Posix.specStep, Posix.tryShared] at hf ⊢
      split <;> simp_all
    | unlock i => simp [Posix.specStep] at hf
    | canLock i => simp [Posix.specStep] at hf
    | canRLock i => exact absurd rfl (hq i)
  · rw [step_badOwner _ op hi]

/-- Queries never change the state. -/
theorem C12_query_pure (n : Nat) (ops : List Op) (i : Nat) :
    (step (run (Mutex.init n) ops) (.canLock i)).1 = run (Mutex.init n) ops ∧
    (step (run (Mutex.init n) ops) (.canRLock i)).1 = run (Mutex.init n) ops := by
  have h := C12_inv n ops
  by_cases hi : i < (run (Mutex.init n) ops).gs.length
  · exact ⟨(step_canLock h hi).1, (step_canRLock h hi).1⟩
  · exact ⟨by rw [step_badOwner _ _ (by simpa [Op.owner] using hi)],
           by rw [step_badOwner _ _ (by simpa [Op.owner] using hi)]⟩

/-- `CanLock` / `CanRLock` answer exactly what the corresponding try would return, and the
    reported blocking state is the state of the lock. -/
theorem C12_queries (n : Nat) (ops : List Op) (i : Nat)
    (hi : i < (run (Mutex.init n) ops).gs.length) :
    let m := run (Mutex.init n) ops
    (∃ b, (step m (.canLock i)).2 = .query b (Posix.state m.gs) ∧ (step m (.tryLock i)).2 = .bool b) ∧
    (∃ b, (step m (.canRLock i)).2 = .bool b ∧ (step m (.tryRLock i)).2 = .bool b) := by
  intro m
  have h : RWMutex.Inv m := C12_inv n ops
  refine ⟨⟨Posix.canExcl m.gs i, (step_canLock h hi).2, ?_⟩, ⟨Posix.canShared m.gs i, (step_canRLock h hi).2, ?_⟩⟩
  · rw [(step_tryLock h hi).2.2]; simp only [Posix.tryExcl]; split <;> simp_all
  · rw [(step_tryRLock h hi).2.2]; simp only [Posix.tryShared]; split <;> simp_all

/-- Releasing a lock that is not held is a no-op. -/
theorem C12_unlock_noop (n : Nat) (ops : List Op) (i : Nat)
    (hi : i < (run (Mutex.init n) ops).gs.length)
    (hu : (run (Mutex.init n) ops).gs[i] = .unlocked) :
    (step (run (Mutex.init n) ops) (.unlock i)).1 = run (Mutex.init n) ops := by
  have h := C12_inv n ops
  have ⟨hinv, hgs, _⟩ := step_unlock h hi
  apply inv_ext hinv h
  rw [hgs, Posix.release, ← hu, List.set_getElem_self]

/-- The whole-lock state reported by `RWMutex.State()` is the POSIX state of the holders. -/
theorem C12_state (n : Nat) (ops : List Op) :
    (run (Mutex.init n) ops).state = Posix.state (run (Mutex.init n) ops).gs := by
  have h := C12_inv n ops
  unfold Mutex.state Mutex.cell
  exact mutexState_eq h _

/-! ### blocking variants (partial: ticks are abstract, not 10 µs of wall clock) -/

/-- `Lock(ctx)`: try now, then once per tick; between two attempts other owners run `ops`.
    Returns the final state and `some k` if the `k`-th attempt succeeded, `none` if the context
    ended first. -/
def lockLoop (try_ : Nat → Op) (i : Nat) (m : Mutex) : List (List Op) → Mutex × Option Nat
  | [] => (m, none)
  | between :: rest =>
    let m1 := run m between
    let r := step m1 (try_ i)
    if r.2 = .bool true then (r.1, some 0)
    else match lockLoop try_ i r.1 rest with
      | (m', some k) => (m', some (k + 1))
      | (m', none) => (m', none)

/-- The blocking acquire returns at the *first* attempt at which the POSIX rule allows it. -/
theorem C12_blocking_partial (i : Nat) (m : Mutex) (h : RWMutex.Inv m) (hi : i < m.gs.length)
    (sched : List (List Op)) (k : Nat) (m' : Mutex)
    (hr : lockLoop .tryLock i m sched = (m', some k)) :
    RWMutex.Inv m' ∧ ∃ hi' : i < m'.gs.length, m'.gs[i] = .exclusive := by
  induction sched generalizing m k with
  | nil => simp [lockLoop] at hr
  | cons between rest ih =>
    have hinv1 : ∀ (ops : List Op) (m0 : Mutex), RWMutex.Inv m0 → RWMutex.Inv (run m0 ops) ∧ (run m0 ops).gs.length = m0.gs.length := by
      intro ops
      induction ops with
      | nil => intro m0 h0; exact ⟨h0, rfl⟩
      | cons op ops ih2 =>
        intro m0 h0
        have := ih2 _ (step_inv m0 op h0)
        exact ⟨this.1, by show (run (step m0 op).1 ops).gs.length = _; rw [this.2, step_length m0 op h0]⟩
    have ⟨hI1, hL1⟩ := hinv1 between m h
    have hi1 : i < (run m between).gs.length := by omega
    have ⟨hI2, hG2, hR2⟩ := step_tryLock hI1 hi1
    simp only [lockLoop] at hr
    split at hr
    · rename_i hsucc
      injection hr with e1 e2
      subst e1
      refine ⟨hI2, ?_⟩
      rw [hR2] at hsucc
      simp only [Posix.tryExcl] at hG2 hsucc
      split at hsucc
      · rename_i hc
        simp only [hc, if_true] at hG2
        have hl : i < (step (run m between) (.tryLock i)).1.gs.length := by rw [hG2]; simpa using hi1
        exact ⟨hl, by simp [hG2]⟩
      · simp at hsucc
    · have hL2 : (step (run m between) (.tryLock i)).1.gs.length = m.gs.length := by
        rw [step_length _ _ hI1, hL1]
      split at hr
      · rename_i m2 k2 heq
        injection hr with e1 e2
        subst e1
        exact ih _ hI2 (by omega) k2 heq
      · cases hr

/-- the blocking variants retry with the matching try-function only: `Lock` with `TryLock`,
    `RLock` with `TryRLock`, on the fast path and in the ticker loop (facts regenerated from
    rwmutex.go) — so `lockLoop` above is their model -/
theorem C12_blocking_facts :
    Gen.RWMutex.blockingCalls_Lock = ["TryLock", "TryLock"] ∧
    Gen.RWMutex.blockingCalls_RLock = ["TryRLock", "TryRLock"] ∧
    Gen.RWMutex.wrapperCalls_TryLock = 1 ∧ Gen.RWMutex.wrapperCalls_TryRLock = 1 ∧
    Gen.RWMutex.wrapperCalls_Unlock = 1 := by decide

/-- "... or their context ends": when the wait ends because the context is done, what `Lock` /
    `RLock` return (`context.Cause(ctx)`, Model/GoCtx.lean) is a non-nil error — for every standard
    cancelable context and for LiteFS's primary-scoped context (after fix 55d1f52; before it the
    cause was nil while the request's context was alive, `C07_old_primary_ctx_nil_cause`), in
    every world a script of constructions, cancellations and lease losses can reach.  The `goctx`
    suite compares the model with the real contexts and the real `RWMutexGuard.Lock`. -/
theorem C12_blocking_context_end_is_an_error (cs : List GoCtx.Cmd) (w : GoCtx.World)
    (hr : GoCtx.run {} cs = some w) (i : Nat) (k : GoCtx.Kind) (p : Option Nat)
    (hn : w.nodes[i]? = some (GoCtx.Node.mk k p)) (hk : k ≠ .primaryOld) (hd : w.done i = true) :
    (GoCtx.lockWaitError w i).isSome = true := by
  obtain ⟨hwf, hs⟩ := GoCtx.run_wf_settled cs {} w GoCtx.wf_empty GoCtx.settled_empty hr
  cases k with
  | cancel => exact GoCtx.cancel_done_has_cause w i p hn hd
  | primaryOld => exact absurd rfl hk
  | primary inner => exact GoCtx.fixed_primary_done_has_cause w i inner p hwf hs hn hd

/-! ### non-vacuity: a concrete reachable state with both readers and an upgrade refusal -/
example :
    let ops := [Op.tryRLock 0, .tryRLock 1, .tryLock 0, .unlock 1, .tryLock 0]
    (run (Mutex.init 3) ops).gs = [.exclusive, .unlocked, .unlocked] ∧
    (step (run (Mutex.init 3) [Op.tryRLock 0, .tryRLock 1]) (.tryLock 0)).2 = .bool false := by
  decide

end LiteFSVerif.C12
