/- Lemmas about the engine model (Model/Engine.lean): stepping through its do-blocks. -/
import LiteFSVerif.Model.Engine

set_option linter.unusedSimpArgs false

namespace LiteFSVerif.Engine
open LiteFSVerif LiteFSVerif.BA LiteFSVerif.Cks LiteFSVerif.Locks LiteFSVerif.Sqlite

theorem M_bind_ok {α β} {x : M α} {f : α → M β} {b : β} (h : (x >>= f) = .ok b) :
    ∃ a, x = .ok a ∧ f a = .ok b := by
  cases x with
  | error e => simp [bind, Except.bind] at h
  | ok a => exact ⟨a, rfl, by simpa [bind, Except.bind] using h⟩

theorem ensure_ok {s : Eng} {p : Prop} [Decidable p] {r : Res} {u : Unit} (h : ensure s p r = .ok u) : p := by
  unfold ensure at h
  by_cases hp : p
  · exact hp
  · simp [hp, fail] at h

theorem ensure_pos {s : Eng} {p : Prop} [Decidable p] {r : Res} (h : p) : ensure s p r = .ok () := by
  simp [ensure, h, pure, Except.pure]

theorem ensure_neg {s : Eng} {p : Prop} [Decidable p] {r : Res} (h : ¬ p) : ensure s p r = .error (s, r) := by
  simp [ensure, h, fail]

@[simp] theorem M_ok_bind {α β} (a : α) (f : α → M β) : ((Except.ok a : M α) >>= f) = f a := rfl
@[simp] theorem M_err_bind {α β} (e : Eng × Res) (f : α → M β) : ((Except.error e : M α) >>= f) = Except.error e := rfl
@[simp] theorem M_pure_bind {α β} (a : α) (f : α → M β) : ((pure a : M α) >>= f) = f a := rfl

/-- `liftCk` passes the value through and never changes the state it carries -/
theorem liftCk_ok {α} {s : Eng} {x : Except String α} {a : α} (h : liftCk s x = .ok a) : x = .ok a := by
  unfold liftCk at h
  cases x with
  | ok v => simpa [pure, Except.pure] using h
  | error m => simp only at h; split at h <;> simp [fail] at h

/-- a WAL commit whose final step begins after write authority was lost publishes nothing -/
theorem commitWAL_lost_authority (s s' : Eng) (hw : s.writeable = false) (h : commitWALBody s = .ok s') :
    s' = s := by
  unfold commitWALBody at h
  obtain ⟨wal, _, h⟩ := M_bind_ok h
  obtain ⟨tx, _, h⟩ := M_bind_ok h
  cases tx with
  | none => simpa [pure, Except.pure] using h.symm
  | some tx =>
    simp only at h
    obtain ⟨dbf, _, h⟩ := M_bind_ok h
    obtain ⟨_, _, h⟩ := M_bind_ok h
    obtain ⟨lock, _, h⟩ := M_bind_ok h
    obtain ⟨r1, _, h⟩ := M_bind_ok h
    obtain ⟨nc, _, h⟩ := M_bind_ok h
    obtain ⟨r2, _, h⟩ := M_bind_ok h
    obtain ⟨_, _, h⟩ := M_bind_ok h
    obtain ⟨_, he, _⟩ := M_bind_ok h
    exfalso
    simp [ensure, Eng.writeable] at he hw
    simp [hw, fail] at he

/-- a WAL commit either captures nothing (state unchanged) or appends exactly one file that
    extends the position by one transaction, and moves the position to it -/
theorem commitWAL_shape (s s' : Eng) (h : commitWALBody s = .ok s') :
    s' = s ∨ ∃ f : LTXFile, s'.ltx = addLTX s.ltx f ∧ f.minTxid = s.posTxid + 1 ∧ f.maxTxid = s.posTxid + 1 ∧
      f.pre = s.posChk ∧ f.post = s'.posChk ∧ s'.posTxid = s.posTxid + 1 ∧ s'.pageN = f.commit ∧
      s'.dbFile = s.dbFile ∧ s'.wal = s.wal := by
  unfold commitWALBody at h
  obtain ⟨wal, _, h⟩ := M_bind_ok h
  obtain ⟨tx, _, h⟩ := M_bind_ok h
  cases tx with
  | none => left; simpa [pure, Except.pure] using h.symm
  | some tx =>
    right
    simp only at h
    obtain ⟨dbf, _, h⟩ := M_bind_ok h
    obtain ⟨_, _, h⟩ := M_bind_ok h
    obtain ⟨lock, _, h⟩ := M_bind_ok h
    obtain ⟨r1, _, h⟩ := M_bind_ok h
    obtain ⟨nc, _, h⟩ := M_bind_ok h
    obtain ⟨r2, _, h⟩ := M_bind_ok h
    obtain ⟨_, _, h⟩ := M_bind_ok h
    obtain ⟨_, _, h⟩ := M_bind_ok h
    simp only [pure, Except.pure] at h
    injection h with h
    subst h
    exact ⟨_, rfl, rfl, rfl, rfl, rfl, rfl, rfl, rfl, rfl⟩

/-- `invalidateJournal` frame: only the journal and the dirty set change -/
theorem invalidateJournal_frame (s s' : Eng) (mode : Nat) (h : invalidateJournal s mode = .ok s') :
    s'.dbFile = s.dbFile ∧ s'.posTxid = s.posTxid ∧ s'.posChk = s.posChk ∧ s'.ltx = s.ltx ∧ s'.pageN = s.pageN ∧
    s'.wal = s.wal ∧ s'.dirty = [] ∧ s'.walMode = s.walMode := by
  unfold invalidateJournal at h
  match mode, h with
  | 0, h =>
    simp only [bind, Except.bind, pure, Except.pure] at h
    cases hj : s.journal <;> simp [hj, fail] at h
    rw [← h]; simp
  | 1, h =>
    simp only [bind, Except.bind, pure, Except.pure] at h
    cases hj : s.journal <;> simp [hj, fail] at h
    rw [← h]; simp
  | n + 2, h =>
    simp only [bind, Except.bind, pure, Except.pure] at h
    cases hj : s.journal <;> simp [hj] at h <;> (rw [← h]; simp)

/-- a journal commit with a valid header appends exactly one file that extends the position by one
    transaction, and moves the position to it; the database file is not written by the commit -/
theorem commitJournalValid_shape (s s' : Eng) (mode : Nat) (h : commitJournalValid s mode = .ok s') :
    ∃ f : LTXFile, s'.ltx = addLTX s.ltx f ∧ f.minTxid = s.posTxid + 1 ∧ f.maxTxid = s.posTxid + 1 ∧
      f.pre = s.posChk ∧ f.post = s'.posChk ∧ s'.posTxid = s.posTxid + 1 ∧ s'.pageN = f.commit ∧
      s'.dbFile = s.dbFile := by
  unfold commitJournalValid at h
  obtain ⟨dbf, _, h⟩ := M_bind_ok h
  obtain ⟨_, _, h⟩ := M_bind_ok h
  obtain ⟨_, _, h⟩ := M_bind_ok h
  obtain ⟨lock, _, h⟩ := M_bind_ok h
  obtain ⟨r1, hloop, h⟩ := M_bind_ok h
  obtain ⟨ck, _, h⟩ := M_bind_ok h
  obtain ⟨r2, _, h⟩ := M_bind_ok h
  obtain ⟨_, _, h⟩ := M_bind_ok h
  obtain ⟨s2, hinv, h⟩ := M_bind_ok h
  simp only [pure, Except.pure] at h
  injection h with h
  subst h
  have hf := invalidateJournal_frame _ _ _ hinv
  have e1 := hf.2.2.2.1
  have e2 := hf.1
  simp only at e1 e2
  refine Exists.intro ?f (And.intro ?a ?rest)
  case a => show s2.ltx = _; rw [e1]
  case rest => exact ⟨rfl, rfl, rfl, rfl, rfl, rfl, by show s2.dbFile = _; rw [e2]⟩

end LiteFSVerif.Engine
