/-
  Characterisation of `buildTxFrameOffsets` (model: `Sqlite.buildTxFrames`): when it finds a
  transaction, that transaction is the run of `k ≥ 1` consecutive frames starting at the given
  WAL offset, all inside the file, of which exactly the last is a commit frame, and the offset map
  sends each page to its *last* frame within the run.
-/
import LiteFSVerif.Model.Sqlite

namespace LiteFSVerif.Sqlite
open LiteFSVerif LiteFSVerif.BA

theorem lookup_none_of_not_any {β} (m : List (Nat × β)) (k : Nat) (h : m.any (·.1 == k) = false) :
    m.lookup k = none := by
  induction m with
  | nil => rfl
  | cons e rest ih =>
    simp only [List.any_cons, Bool.or_eq_false_iff] at h
    have h1 : (k == e.1) = false := by
      have := h.1
      simp only [beq_eq_false_iff_ne, ne_eq] at this ⊢
      exact fun c => this c.symm
    obtain ⟨a, b⟩ := e
    simp only [List.lookup_cons]
    simp only at h1
    rw [h1]
    exact ih h.2

theorem lookup_map_set {β} (m : List (Nat × β)) (k p : Nat) (v : β) :
    (m.map fun e => if e.1 == k then (k, v) else e).lookup p =
      if p = k then (if m.any (·.1 == k) then some v else none) else m.lookup p := by
  induction m with
  | nil => simp
  | cons e rest ih =>
    obtain ⟨a, b⟩ := e
    simp only [List.map_cons, List.any_cons]
    by_cases hak : a = k
    · subst hak
      simp only [beq_self_eq_true, if_true, Bool.true_or, List.lookup_cons]
      by_cases hp : p = a
      · subst hp; simp
      · have : (p == a) = false := by simpa using hp
        rw [this, ih]
        simp [hp]
    · have hak' : (a == k) = false := by simpa using hak
      simp only [hak', Bool.false_or, List.lookup_cons]
      by_cases hp : p = a
      · subst hp
        simp [hak]
      · have : (p == a) = false := by simpa using hp
        simp only [Bool.false_eq_true, if_false, List.lookup_cons, this]
        rw [ih]

theorem mapSet_lookup {β} (m : List (Nat × β)) (k p : Nat) (v : β) :
    (mapSet m k v).lookup p = if p = k then some v else m.lookup p := by
  unfold mapSet
  by_cases h : m.any (·.1 == k) = true
  · rw [if_pos h, lookup_map_set, h]
    simp
  · have h' : m.any (·.1 == k) = false := by
      cases hh : m.any (·.1 == k) with
      | false => rfl
      | true => exact absurd hh h
    rw [if_neg h]
    by_cases hp : p = k
    · subst hp
      simp [List.lookup_append, lookup_none_of_not_any m p h']
    · have : (p == k) = false := by simpa using hp
      simp [List.lookup_append, List.lookup_cons, this, hp]

/-- offset of the last of the first `n` frames (from `base`, frame size `fsz`) that carries page `p` -/
def lastFrame (w : ByteArray) (base fsz : Nat) : Nat → Nat → Option Nat
  | 0, _ => none
  | i + 1, p => if be32 w (base + i * fsz) = p then some (base + i * fsz) else lastFrame w base fsz i p

/-- what the scan has established after the first `n` frames -/
def ScanInv (w : ByteArray) (pageSize walOffset salt1 salt2 : Nat) (n : Nat) (st : TxScan) : Prop :=
  match st.2.2.2 with
  | none => (∀ p, st.1.lookup p = lastFrame w walOffset (24 + pageSize) n p) ∧
            (∀ j, j < n → be32 w (walOffset + j * (24 + pageSize) + 4) = 0) ∧
            (∀ j, j < n → be32 w (walOffset + j * (24 + pageSize) + 8) = salt1 ∧ be32 w (walOffset + j * (24 + pageSize) + 12) = salt2)
  | some none => True
  | some (some tx) => ∃ k, 1 ≤ k ∧ k ≤ n ∧ tx.endOffset = walOffset + k * (24 + pageSize) ∧
      tx.commit = be32 w (walOffset + (k - 1) * (24 + pageSize) + 4) ∧ tx.commit ≠ 0 ∧
      (∀ j, j < k - 1 → be32 w (walOffset + j * (24 + pageSize) + 4) = 0) ∧
      (∀ j, j < k → be32 w (walOffset + j * (24 + pageSize) + 8) = salt1 ∧ be32 w (walOffset + j * (24 + pageSize) + 12) = salt2) ∧
      (∀ p, tx.offsets.lookup p = lastFrame w walOffset (24 + pageSize) k p)

theorem except_bind_ok {ε α β} {x : Except ε α} {f : α → Except ε β} {b : β} (h : (x >>= f) = .ok b) :
    ∃ a, x = .ok a ∧ f a = .ok b := by
  cases x with
  | error e => simp [bind, Except.bind] at h
  | ok a => exact ⟨a, rfl, h⟩


theorem scan_weaken {w : ByteArray} {ps off s1 s2 n : Nat} {st : TxScan}
    (hd : st.2.2.2.isSome = true) (h : ScanInv w ps off s1 s2 n st) : ScanInv w ps off s1 s2 (n + 1) st := by
  unfold ScanInv at *
  match hst : st.2.2.2 with
  | none => rw [hst] at hd; simp at hd
  | some none => trivial
  | some (some tx) =>
    rw [hst] at h
    obtain ⟨k, h1, h2, rest⟩ := h
    exact ⟨k, h1, by omega, rest⟩

theorem scan_step (w : ByteArray) (ps off : Nat) (bo : Option Bool) (s1 s2 n : Nat) (st st' : TxScan)
    (hinv : ScanInv w ps off s1 s2 n st)
    (h : txFrameStep w ps off bo s1 s2 st n = .ok st') : ScanInv w ps off s1 s2 (n + 1) st' := by
  obtain ⟨m, c1, c2, done⟩ := st
  unfold txFrameStep at h
  simp only at h
  by_cases hd : done.isSome = true
  · rw [if_pos hd] at h
    simp only [pure, Except.pure] at h
    injection h with h
    subst h
    exact scan_weaken hd hinv
  · rw [if_neg hd] at h
    have hdn : done = none := by cases done <;> simp_all
    subst hdn
    by_cases hs : be32 w (off + n * (24 + ps) + 8) ≠ s1 ∨ be32 w (off + n * (24 + ps) + 12) ≠ s2
    · rw [if_pos hs] at h
      simp only [pure, Except.pure] at h
      injection h with h
      subst h
      trivial
    · rw [if_neg hs] at h
      cases bo with
      | none => simp [throw, throwThe, MonadExceptOf.throw] at h
      | some bigE =>
        simp only at h
        obtain ⟨d, _, h⟩ := except_bind_ok h
        obtain ⟨d1, d2⟩ := d
        simp only at h
        obtain ⟨e, _, h⟩ := except_bind_ok h
        obtain ⟨e1, e2⟩ := e
        simp only at h
        by_cases hc : e1 ≠ be32 w (off + n * (24 + ps) + 16) ∨ e2 ≠ be32 w (off + n * (24 + ps) + 20)
        · rw [if_pos hc] at h
          simp only [pure, Except.pure] at h
          injection h with h
          subst h
          trivial
        · rw [if_neg hc] at h
          unfold ScanInv at hinv
          simp only at hinv
          obtain ⟨hlook, hzero, hsalt⟩ := hinv
          have hlook' : ∀ p, (mapSet m (be32 w (off + n * (24 + ps))) (off + n * (24 + ps))).lookup p =
              lastFrame w off (24 + ps) (n + 1) p := by
            intro p
            rw [mapSet_lookup]
            show _ = (if be32 w (off + n * (24 + ps)) = p then some (off + n * (24 + ps)) else lastFrame w off (24 + ps) n p)
            by_cases hp : p = be32 w (off + n * (24 + ps))
            · rw [if_pos hp, if_pos hp.symm]
            · rw [if_neg hp, if_neg (fun c => hp c.symm)]
              exact hlook p
          have hsalt' : ∀ j, j < n + 1 → be32 w (off + j * (24 + ps) + 8) = s1 ∧ be32 w (off + j * (24 + ps) + 12) = s2 := by
            intro j hj
            by_cases hjn : j = n
            · subst hjn
              constructor
              · exact Classical.byContradiction fun c => hs (Or.inl c)
              · exact Classical.byContradiction fun c => hs (Or.inr c)
            · exact hsalt j (by omega)
          by_cases hcm : be32 w (off + n * (24 + ps) + 4) ≠ 0
          · rw [if_pos hcm] at h
            simp only [pure, Except.pure] at h
            injection h with h
            subst h
            unfold ScanInv
            simp only
            refine ⟨n + 1, by omega, by omega, ?_, ?_, hcm, ?_, ?_, hlook'⟩
            · show off + n * (24 + ps) + (24 + ps) = off + (n + 1) * (24 + ps)
              rw [Nat.add_mul]; omega
            · show be32 w (off + n * (24 + ps) + 4) = be32 w (off + (n + 1 - 1) * (24 + ps) + 4)
              rfl
            · intro j hj
              exact hzero j (by omega)
            · exact hsalt'
          · rw [if_neg hcm] at h
            simp only [pure, Except.pure] at h
            injection h with h
            subst h
            unfold ScanInv
            simp only
            refine ⟨hlook', ?_, hsalt'⟩
            intro j hj
            by_cases hjn : j = n
            · subst hjn
              simpa using hcm
            · exact hzero j (by omega)

theorem scan_fold (w : ByteArray) (ps off : Nat) (bo : Option Bool) (s1 s2 : Nat) (st0 : TxScan)
    (h0 : ScanInv w ps off s1 s2 0 st0) :
    ∀ n st, (List.range n).foldlM (txFrameStep w ps off bo s1 s2) st0 = .ok st → ScanInv w ps off s1 s2 n st := by
  intro n
  induction n with
  | zero =>
    intro st h
    simp only [List.range_zero, List.foldlM_nil, pure, Except.pure] at h
    injection h with h
    subst h
    exact h0
  | succ n ih =>
    intro st h
    rw [List.range_succ, List.foldlM_append] at h
    obtain ⟨mid, hm, h⟩ := except_bind_ok h
    simp only [List.foldlM_cons, List.foldlM_nil] at h
    obtain ⟨st1, h1, h⟩ := except_bind_ok h
    simp only [pure, Except.pure] at h
    injection h with h
    subst h
    exact scan_step w ps off bo s1 s2 n mid st1 (ih mid hm) h1

/-- `buildTxFrameOffsets` finds exactly the next transaction: `k ≥ 1` consecutive frames from the
    given offset, all inside the file and carrying the expected salts, of which only the last is a
    commit frame; each page is mapped to its last frame within those `k` -/
theorem buildTxFrames_spec (w : ByteArray) (ps off : Nat) (bo : Option Bool) (s1 s2 c1 c2 : Nat) (tx : TxFrames)
    (h : buildTxFrames w ps off bo s1 s2 c1 c2 = .ok (some tx)) :
    ∃ k, 1 ≤ k ∧ tx.endOffset = off + k * (24 + ps) ∧ tx.endOffset ≤ w.size ∧
      tx.commit = be32 w (off + (k - 1) * (24 + ps) + 4) ∧ tx.commit ≠ 0 ∧
      (∀ j, j < k - 1 → be32 w (off + j * (24 + ps) + 4) = 0) ∧
      (∀ j, j < k → be32 w (off + j * (24 + ps) + 8) = s1 ∧ be32 w (off + j * (24 + ps) + 12) = s2) ∧
      (∀ p, tx.offsets.lookup p = lastFrame w off (24 + ps) k p) := by
  unfold buildTxFrames at h
  obtain ⟨r, hr, h⟩ := except_bind_ok h
  have h0 : ScanInv w ps off s1 s2 0 (([], c1, c2, none) : TxScan) := by
    unfold ScanInv
    simp only
    refine ⟨fun p => rfl, fun j hj => absurd hj (Nat.not_lt_zero j), fun j hj => absurd hj (Nat.not_lt_zero j)⟩
  have hinv := scan_fold w ps off bo s1 s2 _ h0 _ r hr
  match hd : r.2.2.2 with
  | none =>
    rw [hd] at h
    simp [pure, Except.pure] at h
  | some res =>
    rw [hd] at h
    simp only [pure, Except.pure] at h
    injection h with h
    subst h
    unfold ScanInv at hinv
    rw [hd] at hinv
    obtain ⟨k, hk1, hkn, hend, rest⟩ := hinv
    refine ⟨k, hk1, hend, ?_, rest⟩
    rw [hend]
    by_cases hsz : w.size ≥ off + (24 + ps)
    · rw [if_pos hsz] at hkn
      have h1 : (w.size - off) / (24 + ps) * (24 + ps) ≤ w.size - off := Nat.div_mul_le_self _ _
      have h2 : k * (24 + ps) ≤ (w.size - off) / (24 + ps) * (24 + ps) := Nat.mul_le_mul_right _ hkn
      omega
    · rw [if_neg hsz] at hkn
      omega

theorem lastFrame_some (w : ByteArray) (base fsz : Nat) : ∀ n p o, lastFrame w base fsz n p = some o →
    ∃ j, j < n ∧ o = base + j * fsz ∧ be32 w o = p ∧ ∀ j', j < j' → j' < n → be32 w (base + j' * fsz) ≠ p := by
  intro n
  induction n with
  | zero => intro p o h; simp [lastFrame] at h
  | succ n ih =>
    intro p o h
    unfold lastFrame at h
    by_cases hp : be32 w (base + n * fsz) = p
    · rw [if_pos hp] at h
      injection h with h
      subst h
      exact ⟨n, by omega, rfl, hp, fun j' h1 h2 => by omega⟩
    · rw [if_neg hp] at h
      obtain ⟨j, hj, ho, hb, hlast⟩ := ih p o h
      refine ⟨j, by omega, ho, hb, ?_⟩
      intro j' h1 h2
      by_cases hjn : j' = n
      · subst hjn; exact hp
      · exact hlast j' h1 (by omega)

theorem lastFrame_none (w : ByteArray) (base fsz : Nat) : ∀ n p, lastFrame w base fsz n p = none →
    ∀ j, j < n → be32 w (base + j * fsz) ≠ p := by
  intro n
  induction n with
  | zero => intro p _ j hj; omega
  | succ n ih =>
    intro p h j hj
    unfold lastFrame at h
    by_cases hp : be32 w (base + n * fsz) = p
    · rw [if_pos hp] at h; simp at h
    · rw [if_neg hp] at h
      by_cases hjn : j = n
      · subst hjn; exact hp
      · exact ih p h j (by omega)

end LiteFSVerif.Sqlite

namespace LiteFSVerif.Sqlite
open LiteFSVerif LiteFSVerif.BA

/-! ### the WAL scanners are total: no input makes them fail (in Go: panic) -/

theorem foldlM_total {σ α : Type} (step : σ → α → Except String σ) :
    ∀ (l : List α) (st : σ), (∀ st, ∀ i ∈ l, ∃ st', step st i = .ok st') → ∃ r, l.foldlM step st = .ok r := by
  intro l
  induction l with
  | nil => intro st _; exact ⟨st, rfl⟩
  | cons a rest ih =>
    intro st h
    obtain ⟨st', hs⟩ := h st a (List.mem_cons_self ..)
    obtain ⟨r, hr⟩ := ih st' (fun st i hi => h st i (List.mem_cons_of_mem _ hi))
    refine ⟨r, ?_⟩
    simp only [List.foldlM_cons, bind, Except.bind, hs]
    exact hr

theorem walChecksum_ok (bigE : Bool) (s0 s1 : Nat) (b : ByteArray) (h : b.size % 8 = 0) :
    ∃ r, walChecksum bigE s0 s1 b = .ok r := by
  unfold walChecksum
  rw [if_neg (by omega)]
  exact ⟨_, rfl⟩

theorem readWalHeader_total (w : ByteArray) : ∃ r, readWalHeader w = .ok r := by
  unfold readWalHeader
  by_cases h : w.size < 32
  · simp only [h, if_true, pure, Except.pure, bind, Except.bind]; exact ⟨_, rfl⟩
  · simp only [h, if_false]
    by_cases hm : be32 w 0 ≠ walMagicLE ∧ be32 w 0 ≠ walMagicBE
    · rw [if_pos hm]; exact ⟨_, rfl⟩
    · rw [if_neg hm]
      have hsz : (w.extract 0 24).size % 8 = 0 := by rw [ByteArray.size_extract]; omega
      obtain ⟨c, hc⟩ := walChecksum_ok (decide (be32 w 0 = walMagicBE)) 0 0 (w.extract 0 24) hsz
      simp only [bind, Except.bind, hc, pure, Except.pure]
      split
      · exact ⟨_, rfl⟩
      · split <;> exact ⟨_, rfl⟩

/-- `readWALPageOffsets` answers on ARBITRARY bytes — garbage headers, foreign page sizes, torn
    or misaligned tails — for every database page size that is a multiple of 8 (all valid SQLite
    page sizes are): it never fails (in the Go code: never panics, never indexes out of range) -/
theorem walPageOffsets_total (w : ByteArray) (ps : Nat) (hps : ps % 8 = 0) :
    ∃ r, walPageOffsets w ps = .ok r := by
  unfold walPageOffsets
  obtain ⟨hr, hh⟩ := readWalHeader_total w
  simp only [bind, Except.bind, hh]
  cases hr with
  | eof => exact ⟨_, rfl⟩
  | err m => exact ⟨_, rfl⟩
  | ok h =>
    simp only
    by_cases hpe : h.pageSize ≠ ps
    · rw [if_pos hpe]; exact ⟨_, rfl⟩
    · rw [if_neg hpe]
      have hpe' : h.pageSize = ps := Classical.byContradiction hpe
      have key := foldlM_total (σ := List (Nat × Nat) × List (Nat × Nat) × Nat × Nat × Nat × Bool) (α := Nat)
        (fun st i => do
          let (offs, tx, commit, c1, c2, stop) := st
          if stop then pure st else
          let off := 32 + i * (24 + h.pageSize)
          if be32 w (off + 8) ≠ h.salt1 ∨ be32 w (off + 12) ≠ h.salt2 then pure (offs, tx, commit, c1, c2, true) else
          let (d1, d2) ← walChecksum h.bigEndian c1 c2 (w.extract off (off + 8))
          let (d1, d2) ← walChecksum h.bigEndian d1 d2 (w.extract (off + 24) (off + (24 + h.pageSize)))
          if d1 ≠ be32 w (off + 16) ∨ d2 ≠ be32 w (off + 20) then pure (offs, tx, commit, c1, c2, true) else
          let tx := mapSet tx (be32 w off) off
          let cm := be32 w (off + 4)
          if cm = 0 then pure (offs, tx, commit, d1, d2, false)
          else pure (tx.foldl (fun o e => mapSet o e.1 e.2) offs, [], cm, d1, d2, false))
        (List.range ((w.size - 32) / (24 + h.pageSize))) ([], [], 0, h.chk1, h.chk2, false) ?_
      · obtain ⟨r, hr⟩ := key
        simp only [bind, Except.bind] at hr
        rw [hr]
        exact ⟨_, rfl⟩
      · intro st i hi
        obtain ⟨offs, tx, commit, c1, c2, stop⟩ := st
        have hi' : i < (w.size - 32) / (24 + h.pageSize) := List.mem_range.mp hi
        have hfit : 32 + i * (24 + h.pageSize) + (24 + h.pageSize) ≤ w.size := by
          have h1 : (i + 1) * (24 + h.pageSize) ≤ (w.size - 32) / (24 + h.pageSize) * (24 + h.pageSize) :=
            Nat.mul_le_mul_right _ hi'
          have h2 := Nat.div_mul_le_self (w.size - 32) (24 + h.pageSize)
          rw [Nat.add_mul, Nat.one_mul] at h1
          have h3 : 24 + h.pageSize ≤ w.size - 32 := by
            have : 0 < (w.size - 32) / (24 + h.pageSize) := by omega
            exact Nat.le_of_lt_succ (Nat.lt_succ_of_le ((Nat.div_pos_iff.mp this).2))
          omega
        simp only
        cases stop with
        | true => exact ⟨_, rfl⟩
        | false =>
          simp only [Bool.false_eq_true, if_false]
          split
          · exact ⟨_, rfl⟩
          · have hs1 : (w.extract (32 + i * (24 + h.pageSize)) (32 + i * (24 + h.pageSize) + 8)).size % 8 = 0 := by
              rw [ByteArray.size_extract]; omega
            obtain ⟨d, hd⟩ := walChecksum_ok h.bigEndian c1 c2 _ hs1
            have hs2 : (w.extract (32 + i * (24 + h.pageSize) + 24) (32 + i * (24 + h.pageSize) + (24 + h.pageSize))).size % 8 = 0 := by
              rw [ByteArray.size_extract, hpe']; rw [hpe'] at hfit; omega
            obtain ⟨e, he⟩ := walChecksum_ok h.bigEndian d.1 d.2 _ hs2
            simp only [bind, Except.bind, hd, he]
            split
            · exact ⟨_, rfl⟩
            · split <;> exact ⟨_, rfl⟩

/-- `buildTxFrameOffsets` answers on arbitrary WAL bytes from any offset once the byte order is
    known (the WAL header was read) and the page size is a multiple of 8 -/
theorem buildTxFrames_total (w : ByteArray) (ps off : Nat) (bigE : Bool) (s1 s2 c1 c2 : Nat) (hps : ps % 8 = 0) :
    ∃ r, buildTxFrames w ps off (some bigE) s1 s2 c1 c2 = .ok r := by
  unfold buildTxFrames
  have key := foldlM_total (txFrameStep w ps off (some bigE) s1 s2)
    (List.range (if w.size ≥ off + (24 + ps) then (w.size - off) / (24 + ps) else 0)) ([], c1, c2, none) ?_
  · obtain ⟨r, hr⟩ := key
    simp only [bind, Except.bind, hr]
    split <;> exact ⟨_, rfl⟩
  · intro st i hi
    obtain ⟨m, d1, d2, done⟩ := st
    have hi' := List.mem_range.mp hi
    have hfit : off + i * (24 + ps) + (24 + ps) ≤ w.size := by
      by_cases hsz : w.size ≥ off + (24 + ps)
      · rw [if_pos hsz] at hi'
        have h1 : (i + 1) * (24 + ps) ≤ (w.size - off) / (24 + ps) * (24 + ps) := Nat.mul_le_mul_right _ hi'
        have h2 := Nat.div_mul_le_self (w.size - off) (24 + ps)
        rw [Nat.add_mul, Nat.one_mul] at h1
        omega
      · rw [if_neg hsz] at hi'; omega
    unfold txFrameStep
    simp only
    cases hd : done.isSome with
    | true => simp only [if_true]; exact ⟨_, rfl⟩
    | false =>
      simp only [Bool.false_eq_true, if_false]
      split
      · exact ⟨_, rfl⟩
      · have hs1 : (w.extract (off + i * (24 + ps)) (off + i * (24 + ps) + 8)).size % 8 = 0 := by
          rw [ByteArray.size_extract]; omega
        obtain ⟨d, hd⟩ := walChecksum_ok bigE d1 d2 _ hs1
        have hs2 : (w.extract (off + i * (24 + ps) + 24) (off + i * (24 + ps) + (24 + ps))).size % 8 = 0 := by
          rw [ByteArray.size_extract]; omega
        obtain ⟨e, he⟩ := walChecksum_ok bigE d.1 d.2 _ hs2
        simp only [bind, Except.bind, hd, he]
        split
        · exact ⟨_, rfl⟩
        · split <;> exact ⟨_, rfl⟩

end LiteFSVerif.Sqlite
