/-
  Invariants of the abstract replication protocol (Model/Protocol.lean): every node sits on the
  history, every file in any log was created on the history, checksums in the history are the
  checksums of their images.
-/
import LiteFSVerif.Model.Protocol

namespace LiteFSVerif.Protocol
open LiteFSVerif LiteFSVerif.Cks

variable {I : Type}

/-- two images that were ever committed under the same (TXID, checksum) are equal — the code
    itself identifies history points by checksum -/
def CollisionFree (hist : List (Pos × I)) : Prop :=
  ∀ p a b, (p, a) ∈ hist → (p, b) ∈ hist → a = b

/-- the file was created on the history: a snapshot yields a history image from anything, an
    incremental file maps the history image it was created from to the one it created -/
def FileOK (hist : List (Pos × I)) (f : AFile I) : Prop :=
  1 ≤ f.min ∧
  (f.min = 1 → ∀ x, ((f.max, f.post), f.app x) ∈ hist) ∧
  (f.min ≠ 1 → ∃ a, ((f.min - 1, f.pre), a) ∈ hist ∧ ((f.max, f.post), f.app a) ∈ hist)

structure Inv (H : I → Chk) (w : World I) : Prop where
  node : ∀ n ∈ w.nodes, (n.pos, n.img) ∈ w.hist
  files : ∀ n ∈ w.nodes, ∀ f ∈ n.log, FileOK w.hist f
  chk : ∀ p img, (p, img) ∈ w.hist → 1 ≤ p.1 → p.2 = H img

theorem FileOK.mono {h h' : List (Pos × I)} (hsub : ∀ x, x ∈ h → x ∈ h') {f : AFile I} (hf : FileOK h f) : FileOK h' f := by
  obtain ⟨h1, h2, h3⟩ := hf
  refine ⟨h1, fun e x => hsub _ (h2 e x), fun e => ?_⟩
  obtain ⟨a, ha, hb⟩ := h3 e
  exact ⟨a, hsub _ ha, hsub _ hb⟩

theorem CollisionFree.mono {h h' : List (Pos × I)} (hsub : ∀ x, x ∈ h → x ∈ h') (hc : CollisionFree h') : CollisionFree h :=
  fun p a b ha hb => hc p a b (hsub _ ha) (hsub _ hb)

theorem hist_mono (H : I → Chk) (w : World I) (op : Op I) : ∀ x, x ∈ w.hist → x ∈ (step H w op).hist := by
  intro x hx
  cases op with
  | commit k app =>
    simp only [step]
    cases w.nodes[k]? with
    | none => exact hx
    | some n => simp [setNode, hx]
  | send src dst i =>
    simp only [step]
    repeat' split
    all_goals simp [setNode, hx]
  | snap src dst =>
    simp only [step]
    cases w.nodes[src]? <;> cases w.nodes[dst]? <;> simp [setNode, hx]
  | trim k j =>
    simp only [step]
    cases w.nodes[k]? <;> simp [setNode, hx]
  | restart k id =>
    simp only [step]
    cases w.nodes[k]? <;> simp [setNode, hx]

theorem run_hist_mono (H : I → Chk) (ops : List (Op I)) (w : World I) : ∀ x, x ∈ w.hist → x ∈ (run H w ops).hist := by
  induction ops generalizing w with
  | nil => intro x hx; exact hx
  | cons op ops ih => intro x hx; exact ih (step H w op) x (hist_mono H w op x hx)

/-- delivery of a history file to a history node yields a history node -/
theorem deliver_inv (H : I → Chk) (hist : List (Pos × I)) (hcf : CollisionFree hist)
    (d : ANode I) (f : AFile I) (hd : (d.pos, d.img) ∈ hist) (hf : FileOK hist f)
    (hdl : ∀ g ∈ d.log, FileOK hist g) :
    (((deliver H d f).1.pos, (deliver H d f).1.img) ∈ hist) ∧ (∀ g ∈ (deliver H d f).1.log, FileOK hist g) := by
  unfold deliver
  split
  · exact ⟨hd, hdl⟩
  · split
    · exact ⟨hd, hdl⟩
    · rename_i hs hna
      have ha : accepts d f = true := by simpa using hna
      split
      · exact ⟨hd, hdl⟩
      · obtain ⟨h1, h2, h3⟩ := hf
        constructor
        · by_cases hm : f.min = 1
          · exact h2 hm d.img
          · obtain ⟨a, ha1, ha2⟩ := h3 hm
            simp only [accepts, Bool.or_eq_true, beq_iff_eq, Bool.and_eq_true] at ha
            rcases ha with ha | ⟨hp1, hp2⟩
            · exact absurd ha hm
            · have hpos : d.pos = (f.min - 1, f.pre) := by
                apply Prod.ext
                · show d.pos.1 = f.min - 1; omega
                · exact hp2
              rw [hpos] at hd
              have := hcf _ _ _ hd ha1
              show ((f.max, f.post), f.app d.img) ∈ hist
              rw [this]; exact ha2
        · intro g hg
          by_cases hm : f.min = 1
          · simp only [hm, if_true, List.mem_singleton] at hg
            rw [hg]; exact ⟨h1, h2, h3⟩
          · simp only [hm, if_false, List.mem_append, List.mem_singleton] at hg
            rcases hg with hg | hg
            · exact hdl g hg
            · rw [hg]; exact ⟨h1, h2, h3⟩

theorem snapshotOf_ok (hist : List (Pos × I)) (s : ANode I) (hs : (s.pos, s.img) ∈ hist) : FileOK hist (snapshotOf s) := by
  refine ⟨Nat.le_refl _, fun _ x => ?_, fun h => absurd rfl h⟩
  simpa [snapshotOf] using hs

theorem mem_set_cases {α} {l : List α} {k : Nat} {a b : α} (h : a ∈ l.set k b) : a ∈ l ∨ a = b :=
  List.mem_or_eq_of_mem_set h

theorem getElem?_mem' {α} {l : List α} {k : Nat} {a : α} (h : l[k]? = some a) : a ∈ l :=
  List.mem_of_getElem? h

/-- one step preserves the invariant (collision-freedom of the history after the step) -/
theorem step_inv (H : I → Chk) (w : World I) (op : Op I) (hi : Inv H w)
    (hcf : CollisionFree (step H w op).hist) : Inv H (step H w op) := by
  have hcf0 : CollisionFree w.hist := CollisionFree.mono (hist_mono H w op) hcf
  cases op with
  | commit k app =>
    simp only [step] at hcf ⊢
    cases hk : w.nodes[k]? with
    | none => simpa [hk] using hi
    | some n =>
      have hn : n ∈ w.nodes := getElem?_mem' hk
      have hnh := hi.node n hn
      refine ⟨?_, ?_, ?_⟩
      · intro m hm
        simp only [setNode] at hm
        rcases mem_set_cases hm with hm | hm
        · exact List.mem_cons_of_mem _ (hi.node m hm)
        · rw [hm]; simp [commit]
      · intro m hm f hf
        simp only [setNode] at hm
        have hsub : ∀ x, x ∈ w.hist → x ∈ ((n.pos.1 + 1, H (app n.img)), app n.img) :: w.hist :=
          fun x hx => List.mem_cons_of_mem _ hx
        rcases mem_set_cases hm with hm | hm
        · exact (hi.files m hm f hf).mono hsub
        · rw [hm] at hf
          simp only [commit, List.mem_append, List.mem_singleton] at hf
          rcases hf with hf | hf
          · exact (hi.files n hn f hf).mono hsub
          · rw [hf]
            refine ⟨by simp, ?_, ?_⟩
            · intro h1 x
              have h0 : n.pos.1 = 0 := by simpa using h1
              simp [h0]
            · intro h1
              have h0 : n.pos.1 ≠ 0 := by intro h; apply h1; simp [h]
              refine ⟨n.img, ?_, ?_⟩
              · simp only [Nat.add_sub_cancel]
                exact List.mem_cons_of_mem _ hnh
              · simp [h0]
      · intro p img hp h1
        simp only [setNode, List.mem_cons] at hp
        rcases hp with hp | hp
        · cases hp; rfl
        · exact hi.chk p img hp h1
  | send src dst i =>
    simp only [step] at hcf ⊢
    cases hs : w.nodes[src]? with
    | none => simpa [hs] using hi
    | some s =>
      cases hd : w.nodes[dst]? with
      | none => simpa [hs, hd] using hi
      | some d =>
        cases hf : s.log[i]? with
        | none => simpa [hs, hd, hf] using hi
        | some f =>
          simp only [hs, hd, hf] at hcf ⊢
          have hsm := getElem?_mem' hs
          have hdm := getElem?_mem' hd
          have hfm : f ∈ s.log := getElem?_mem' hf
          have := deliver_inv H w.hist hcf0 d f (hi.node d hdm) (hi.files s hsm f hfm) (hi.files d hdm)
          refine ⟨?_, ?_, hi.chk⟩
          · intro m hm
            rcases mem_set_cases hm with hm | hm
            · exact hi.node m hm
            · rw [hm]; exact this.1
          · intro m hm g hg
            rcases mem_set_cases hm with hm | hm
            · exact hi.files m hm g hg
            · rw [hm] at hg; exact this.2 g hg
  | snap src dst =>
    simp only [step] at hcf ⊢
    cases hs : w.nodes[src]? with
    | none => simpa [hs] using hi
    | some s =>
      cases hd : w.nodes[dst]? with
      | none => simpa [hs, hd] using hi
      | some d =>
        simp only [hs, hd] at hcf ⊢
        have hsm := getElem?_mem' hs
        have hdm := getElem?_mem' hd
        have := deliver_inv H w.hist hcf0 d (snapshotOf s) (hi.node d hdm) (snapshotOf_ok w.hist s (hi.node s hsm)) (hi.files d hdm)
        refine ⟨?_, ?_, hi.chk⟩
        · intro m hm
          rcases mem_set_cases hm with hm | hm
          · exact hi.node m hm
          · rw [hm]; exact this.1
        · intro m hm g hg
          rcases mem_set_cases hm with hm | hm
          · exact hi.files m hm g hg
          · rw [hm] at hg; exact this.2 g hg
  | trim k j =>
    simp only [step] at hcf ⊢
    cases hk : w.nodes[k]? with
    | none => simpa [hk] using hi
    | some n =>
      have hn := getElem?_mem' hk
      refine ⟨?_, ?_, hi.chk⟩
      · intro m hm
        rcases mem_set_cases hm with hm | hm
        · exact hi.node m hm
        · rw [hm]; exact hi.node n hn
      · intro m hm g hg
        rcases mem_set_cases hm with hm | hm
        · exact hi.files m hm g hg
        · rw [hm] at hg; exact hi.files n hn g (List.mem_of_mem_drop hg)
  | restart k id =>
    simp only [step] at hcf ⊢
    cases hk : w.nodes[k]? with
    | none => simpa [hk] using hi
    | some n =>
      have hn := getElem?_mem' hk
      refine ⟨?_, ?_, hi.chk⟩
      · intro m hm
        rcases mem_set_cases hm with hm | hm
        · exact hi.node m hm
        · rw [hm]; exact hi.node n hn
      · intro m hm g hg
        rcases mem_set_cases hm with hm | hm
        · exact hi.files m hm g hg
        · rw [hm] at hg; exact hi.files n hn g hg

theorem run_inv (H : I → Chk) (ops : List (Op I)) (w : World I) (hi : Inv H w)
    (hcf : CollisionFree (run H w ops).hist) : Inv H (run H w ops) := by
  induction ops generalizing w with
  | nil => exact hi
  | cons op ops ih =>
    have h1 : CollisionFree (step H w op).hist :=
      CollisionFree.mono (run_hist_mono H ops (step H w op)) hcf
    exact ih (step H w op) (step_inv H w op hi h1) hcf

theorem init_inv (H : I → Chk) (e0 : I) (n : Nat) : Inv H (init e0 n) := by
  refine ⟨?_, ?_, ?_⟩
  · intro m hm
    simp only [init, List.mem_map] at hm
    obtain ⟨i, _, rfl⟩ := hm
    simp [init]
  · intro m hm f hf
    simp only [init, List.mem_map] at hm
    obtain ⟨i, _, rfl⟩ := hm
    simp at hf
  · intro p img hp h1
    simp only [init, List.mem_singleton] at hp
    cases hp
    simp at h1

end LiteFSVerif.Protocol

namespace LiteFSVerif.Protocol
open LiteFSVerif LiteFSVerif.Cks LiteFSVerif.Cluster

variable {I : Type}

/-! ### the primary's decision function -/

theorem sd_caught_up {F} (pre : F → Chk) (c : Pos) (file : Nat → Option F) :
    streamDecide pre c c file = .done := by
  simp [streamDecide]

theorem sd_ahead {F} (pre : F → Chk) (c db : Pos) (file : Nat → Option F) (h : c.1 > db.1) (h1 : 1 ≤ db.1) :
    streamDecide pre c db file = .snapshot := by
  have h0 : ¬ (0 = db.1) := by omega
  have h2 : ¬ (0 ≥ db.1) := by omega
  simp [streamDecide, h, h0, h2]

theorem sd_fork {F} (pre : F → Chk) (c db : Pos) (file : Nat → Option F) (h : c.1 = db.1) (hc : c.2 ≠ db.2) (h1 : 1 ≤ db.1) :
    streamDecide pre c db file = .snapshot := by
  have hgt : ¬ (c.1 > db.1) := by omega
  have h0 : ¬ (0 = db.1) := by omega
  have h2 : ¬ (0 ≥ db.1) := by omega
  simp [streamDecide, hgt, h, hc, h0, h2]

theorem sd_behind {F} (pre : F → Chk) (c db : Pos) (file : Nat → Option F) (h : c.1 < db.1) :
    streamDecide pre c db file =
      if c.1 = 0 then .snapshot else
      match file (c.1 + 1) with
      | none => .snapshot
      | some f => if pre f ≠ c.2 then .snapshot else .file f := by
  have hgt : ¬ (c.1 > db.1) := by omega
  have hne : ¬ (c.1 = db.1) := by omega
  have hge : ¬ (c.1 ≥ db.1) := by omega
  simp only [streamDecide, hgt, hne, hge, if_false, false_and, Nat.add_eq_right]
  rfl

theorem openFile_spec (log : List (AFile I)) (t : Nat) (f : AFile I) (h : openFile log t = some f) :
    f ∈ log ∧ f.min = t ∧ f.max = t := by
  unfold openFile at h
  have hm := List.mem_of_find?_eq_some h
  have hp := List.find?_some h
  simp only [Bool.and_eq_true, beq_iff_eq] at hp
  exact ⟨hm, hp.1, hp.2⟩

/-- steps the session still needs -/
def need (p r : ANode I) : Nat := if r.pos = p.pos then 1 else (p.pos.1 - r.pos.1) + 2

theorem need_le (p r : ANode I) : need p r ≤ p.pos.1 - r.pos.1 + 2 := by
  unfold need; split <;> omega

/-- C01 (convergence, message level): from any history node, with enough iterations, a session
    against a primary at TXID ≥ 1 ends with the replica at the primary's position -/
theorem session_converges (H : I → Chk) (hist : List (Pos × I)) (hcf : CollisionFree hist)
    (hchk : ∀ p img, (p, img) ∈ hist → 1 ≤ p.1 → p.2 = H img)
    (p : ANode I) (hp : (p.pos, p.img) ∈ hist) (hpl : ∀ f ∈ p.log, FileOK hist f) (hp1 : 1 ≤ p.pos.1) :
    ∀ (fuel : Nat) (r : ANode I), (r.pos, r.img) ∈ hist → r.ident ≠ p.ident → need p r ≤ fuel →
      ∃ r', session H p r fuel r.pos = (r', true) ∧ r'.pos = p.pos ∧ (r'.pos, r'.img) ∈ hist := by
  -- delivering the snapshot of `p` to any other node applies it
  have hsnap : ∀ r : ANode I, r.ident ≠ p.ident →
      deliver H r (snapshotOf p) = ({ r with pos := (p.pos.1, p.pos.2), img := p.img, log := [snapshotOf p] }, .applied) := by
    intro r hne
    have hs : skips r (snapshotOf p) = false := by
      simp only [skips, snapshotOf, Bool.and_eq_false_iff, beq_eq_false_iff_ne]
      exact Or.inl (Ne.symm hne)
    have hv : H p.img = p.pos.2 := (hchk p.pos p.img hp hp1).symm
    unfold deliver
    simp only [hs, Bool.false_eq_true, if_false]
    simp [accepts, snapshotOf, hv]
  intro fuel
  induction fuel with
  | zero =>
    intro r _ _ hn
    unfold need at hn
    split at hn <;> omega
  | succ fuel ih =>
    intro r hr hne hn
    by_cases heq : r.pos = p.pos
    · refine ⟨r, ?_, heq, hr⟩
      simp only [session]
      rw [heq, sd_caught_up]
    · have hneed : need p r = (p.pos.1 - r.pos.1) + 2 := by simp [need, heq]
      -- after a snapshot one more iteration ends the session
      have afterSnap : ∃ r', session H p { r with pos := (p.pos.1, p.pos.2), img := p.img, log := [snapshotOf p] } fuel (p.pos.1, p.pos.2) = (r', true) ∧
          r'.pos = p.pos ∧ (r'.pos, r'.img) ∈ hist := by
        have := ih { r with pos := (p.pos.1, p.pos.2), img := p.img, log := [snapshotOf p] } (by simpa using hp) hne
          (by simp [need]; omega)
        simpa using this
      have viaSnap : streamDecide (·.pre) r.pos p.pos (openFile p.log) = .snapshot →
          ∃ r', session H p r (fuel + 1) r.pos = (r', true) ∧ r'.pos = p.pos ∧ (r'.pos, r'.img) ∈ hist := by
        intro hd
        simp only [session, hd, hsnap r hne]
        simpa [snapshotOf] using afterSnap
      rcases Nat.lt_trichotomy r.pos.1 p.pos.1 with hlt | heq1 | hgt
      · -- behind
        have hsd := sd_behind (·.pre) r.pos p.pos (openFile p.log) hlt
        by_cases h0 : r.pos.1 = 0
        · exact viaSnap (by rw [hsd]; simp [h0])
        · cases hf : openFile p.log (r.pos.1 + 1) with
          | none => exact viaSnap (by rw [hsd]; simp [h0, hf])
          | some f =>
            by_cases hpre : f.pre ≠ r.pos.2
            · exact viaSnap (by rw [hsd]; simp [h0, hf, hpre])
            · have hpre' : f.pre = r.pos.2 := by simpa using hpre
              have hdec : streamDecide (·.pre) r.pos p.pos (openFile p.log) = .file f := by
                rw [hsd]; simp [h0, hf, hpre']
              obtain ⟨hfm, hmin, hmax⟩ := openFile_spec p.log _ f hf
              obtain ⟨_, _, hok3⟩ := hpl f hfm
              have hmin1 : f.min ≠ 1 := by omega
              obtain ⟨a, ha1, ha2⟩ := hok3 hmin1
              have hposr : r.pos = (f.min - 1, f.pre) := by
                apply Prod.ext
                · show r.pos.1 = f.min - 1; omega
                · exact hpre'.symm
              have himg : r.img = a := by
                rw [hposr] at hr; exact hcf _ _ _ hr ha1
              have hver : H (f.app r.img) = f.post := by
                rw [himg]; exact (hchk (f.max, f.post) (f.app a) ha2 (by show 1 ≤ f.max; omega)).symm
              have hs : skips r f = false := by
                simp only [skips, Bool.and_eq_false_iff, decide_eq_false_iff_not]
                right; omega
              have hacc : accepts r f = true := by
                simp only [accepts, Bool.or_eq_true, beq_iff_eq, Bool.and_eq_true]
                right; exact ⟨by omega, hpre'.symm⟩
              have hdel : deliver H r f =
                  (⟨r.ident, (f.max, f.post), f.app r.img, if f.min = 1 then [f] else r.log ++ [f]⟩, .applied) := by
                simp [deliver, hs, hacc, hver]
              have hr' : ((f.max, f.post), f.app r.img) ∈ hist := by rw [himg]; exact ha2
              have := ih ⟨r.ident, (f.max, f.post), f.app r.img, if f.min = 1 then [f] else r.log ++ [f]⟩
                hr' hne (Nat.le_trans (need_le p _) (by show p.pos.1 - f.max + 2 ≤ fuel; omega))
              simp only [session, hdec, hdel]
              exact this
      · -- same TXID, other checksum
        have hc : r.pos.2 ≠ p.pos.2 := by
          intro h; exact heq (Prod.ext heq1 h)
        exact viaSnap (sd_fork _ _ _ _ heq1 hc hp1)
      · exact viaSnap (sd_ahead _ _ _ _ hgt hp1)

end LiteFSVerif.Protocol
