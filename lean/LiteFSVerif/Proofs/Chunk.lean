import LiteFSVerif.Model.Chunk
import LiteFSVerif.Proofs.Bytes

namespace LiteFSVerif.Chunk
open LiteFSVerif

/-- a chunk the writer can emit -/
def GoodChunk (c : Bytes) : Prop := 0 < c.length ∧ c.length ≤ maxChunk

theorem splitChunks_flatten (p : Bytes) : (splitChunks p).flatten = p := by
  induction p using splitChunks.induct with
  | case1 => rw [splitChunks]; simp
  | case2 p h ih =>
    rw [splitChunks]; simp only [h, dite_false, List.flatten_cons]
    rw [ih, List.take_append_drop]

theorem splitChunks_good (p : Bytes) : ∀ c ∈ splitChunks p, GoodChunk c := by
  induction p using splitChunks.induct with
  | case1 => rw [splitChunks]; simp
  | case2 p h ih =>
    rw [splitChunks]; simp only [h, dite_false, List.mem_cons]
    intro c hc
    rcases hc with rfl | hc
    · have : 0 < p.length := List.length_pos_iff.mpr h
      constructor
      · simp [maxChunk]; omega
      · simp [maxChunk]; omega
    · exact ih c hc

/-- the byte stream for a list of chunks followed by the terminator -/
def stream (cs : List Bytes) : Bytes := cs.flatMap encodeChunk ++ chunkClose

theorem decodeChunks_close (rest : Bytes) : decodeChunks (chunkClose ++ rest) = .ok [] rest := by
  rw [decodeChunks]
  have : readUint 2 (chunkClose ++ rest) = .ok 0 rest := readUint_be (by decide) rest
  split
  · rename_i e he; rw [this] at he; cases he
  · rename_i n r he; rw [this] at he; injection he with h1 h2; subst h1 h2; simp

theorem decodeChunks_cons {c : Bytes} (hc : GoodChunk c) (tail : Bytes) :
    decodeChunks (encodeChunk c ++ tail) =
      match decodeChunks tail with
      | .err e => .err e
      | .ok cs rest => .ok (c ++ cs) rest := by
  rw [decodeChunks]
  have hlt : c.length < 256 ^ 2 := by have := hc.2; simp [maxChunk] at this; omega
  have h1 : readUint 2 (encodeChunk c ++ tail) = .ok c.length (c ++ tail) := by
    unfold encodeChunk; rw [List.append_assoc]; exact readUint_be hlt _
  split
  · rename_i e he; rw [h1] at he; cases he
  · rename_i n r he
    rw [h1] at he; injection he with e1 e2; subst e1 e2
    have hne : ¬ c.length = 0 := by have := hc.1; omega
    simp only [hne, if_false]
    have h2 : readFull c.length (c ++ tail) = .ok c tail := readFull_append rfl
    split
    · rename_i e he2; rw [h2] at he2; cases he2
    · rename_i c' r2 he2; rw [h2] at he2; injection he2 with e3 e4; subst e3 e4; rfl

theorem decodeChunks_stream (cs : List Bytes) (hcs : ∀ c ∈ cs, GoodChunk c) (rest : Bytes) :
    decodeChunks (stream cs ++ rest) = .ok cs.flatten rest := by
  induction cs with
  | nil => simpa [stream] using decodeChunks_close rest
  | cons c cs ih =>
    have hc := hcs c (by simp)
    have ih' := ih (fun c' h => hcs c' (by simp [h]))
    have : stream (c :: cs) ++ rest = encodeChunk c ++ (stream cs ++ rest) := by
      simp [stream, List.append_assoc]
    rw [this, decodeChunks_cons hc, ih']
    simp

/-- truncations: every proper prefix is an *unexpected* EOF, never a clean end and never a value -/
theorem decodeChunks_close_prefix (k : Nat) (hk : k < chunkClose.length) :
    decodeChunks (chunkClose.take k) = .err .unexpectedEOF := by
  rw [decodeChunks]
  have h := prefErr_readUint 2 0 k (by simpa [chunkClose] using hk)
  have h' : readUint 2 (List.take k chunkClose) = .err (if k = 0 then .eof else .unexpectedEOF) := h
  split
  · rename_i e he; rw [h'] at he; injection he with he; subst he
    by_cases h0 : k = 0 <;> simp [h0, DecErr.noEOF]
  · rename_i n r he; rw [h'] at he; cases he

theorem encodeChunk_length (c : Bytes) : (encodeChunk c).length = 2 + c.length := by
  simp [encodeChunk]

theorem decodeChunks_chunk_prefix {c : Bytes} (hc : GoodChunk c) (k : Nat) (hk : k < (encodeChunk c).length) :
    decodeChunks ((encodeChunk c).take k) = .err .unexpectedEOF := by
  rw [decodeChunks]
  have hlt : c.length < 256 ^ 2 := by have := hc.2; simp [maxChunk] at this; omega
  by_cases h2 : k < 2
  · have h' : readUint 2 ((encodeChunk c).take k) = .err (if k = 0 then .eof else .unexpectedEOF) := by
      unfold encodeChunk
      rw [take_append_lt (by simpa using h2)]
      exact prefErr_readUint 2 c.length k (by simpa using h2)
    split
    · rename_i e he; rw [h'] at he; injection he with he; subst he
      by_cases h0 : k = 0 <;> simp [h0, DecErr.noEOF]
    · rename_i n r he; rw [h'] at he; cases he
  · have hge : (be 2 c.length).length ≤ k := by simp; omega
    have h' : readUint 2 ((encodeChunk c).take k) = .ok c.length (c.take (k - 2)) := by
      unfold encodeChunk
      rw [take_append_ge hge]
      simpa using readUint_be hlt (c.take (k - 2))
    split
    · rename_i e he; rw [h'] at he; cases he
    · rename_i n r he
      rw [h'] at he; injection he with e1 e2; subst e1 e2
      have hne : ¬ c.length = 0 := by have := hc.1; omega
      simp only [hne, if_false]
      have hshort : (c.take (k - 2)).length < c.length := by
        rw [encodeChunk_length] at hk; simp; omega
      have h3 := readFull_short hshort
      split
      · rename_i e he2; rw [h3] at he2; injection he2 with he2; subst he2
        split <;> rfl
      · rename_i c' r2 he2; rw [h3] at he2; cases he2

theorem decodeChunks_stream_prefix (cs : List Bytes) (hcs : ∀ c ∈ cs, GoodChunk c) (k : Nat)
    (hk : k < (stream cs).length) : decodeChunks ((stream cs).take k) = .err .unexpectedEOF := by
  induction cs generalizing k with
  | nil => simpa [stream] using decodeChunks_close_prefix k (by simpa [stream] using hk)
  | cons c cs ih =>
    have hc := hcs c (by simp)
    have hs : stream (c :: cs) = encodeChunk c ++ stream cs := by simp [stream, List.append_assoc]
    rw [hs] at hk ⊢
    by_cases h : k < (encodeChunk c).length
    · rw [take_append_lt h]; exact decodeChunks_chunk_prefix hc k h
    · have hge : (encodeChunk c).length ≤ k := by omega
      rw [take_append_ge hge, decodeChunks_cons hc]
      rw [ih (fun c' h => hcs c' (by simp [h])) (k - (encodeChunk c).length) (by simp at hk; omega)]

/-! ### position maps -/

theorem enc_decodeEntry (e : Entry) (h : e.WF) : Enc decodeEntry (encodeEntry e) e := by
  obtain ⟨h1, h2, h3⟩ := h
  have := enc_bind (f := fun n => (readFull n).bind fun name => (readUint 8).bind fun t => (readUint 8).bind fun c => Parser.pure (Entry.mk name t c))
    (enc_readUint h1)
    (enc_bind (f := fun name => (readUint 8).bind fun t => (readUint 8).bind fun c => Parser.pure (Entry.mk name t c))
      (enc_readFull (b := e.name) rfl)
      (enc_bind (f := fun t => (readUint 8).bind fun c => Parser.pure (Entry.mk e.name t c)) (enc_readUint h2)
        (enc_bind (f := fun c => Parser.pure (Entry.mk e.name e.txid c)) (enc_readUint h3) (enc_pure _))))
  simpa [decodeEntry, encodeEntry, List.append_assoc] using this

theorem enc_decodeEntries (m : List Entry) (h : ∀ e ∈ m, e.WF) :
    Enc (decodeEntries m.length) (m.flatMap encodeEntry) m := by
  induction m with
  | nil => exact enc_pure _
  | cons e m ih =>
    have he := enc_decodeEntry e (h e (by simp))
    have ih' := ih (fun e' h' => h e' (by simp [h']))
    have := enc_bind (f := fun e => (decodeEntries m.length).bind fun es => Parser.pure (e :: es)) he
      (enc_bind (f := fun es => Parser.pure (e :: es)) ih' (enc_pure _))
    simpa [decodeEntries] using this

/-- a truncated input is rejected with io.EOF or io.ErrUnexpectedEOF (an error either way) -/
def Short {α} (d : Dec α) : Prop := d = .err .eof ∨ d = .err .unexpectedEOF

def PrefShort {α} (p : Parser α) (x : Bytes) : Prop := ∀ k, k < x.length → Short (p (x.take k))

theorem prefShort_of_prefErr {α} {p : Parser α} {x : Bytes} (h : PrefErr p x) : PrefShort p x := by
  intro k hk; rw [h k hk]; by_cases h0 : k = 0 <;> simp [h0, Short]

theorem prefShort_nil {α} (p : Parser α) : PrefShort p [] := by intro k hk; simp at hk

theorem prefShort_bind {α β} {p : Parser α} {f : α → Parser β} {x y : Bytes} {a : α}
    (he : Enc p x a) (hp : PrefShort p x) (hf : PrefShort (f a) y) : PrefShort (p.bind f) (x ++ y) := by
  intro k hk
  unfold Parser.bind
  by_cases h : k < x.length
  · rw [take_append_lt h]
    rcases hp k h with e | e <;> rw [e] <;> simp [Short]
  · have h' : x.length ≤ k := by omega
    rw [take_append_ge h', he]
    exact hf (k - x.length) (by simp at hk; omega)

theorem prefShort_decodeEntry (e : Entry) (h : e.WF) : PrefShort decodeEntry (encodeEntry e) := by
  obtain ⟨h1, h2, h3⟩ := h
  have := prefShort_bind (f := fun n => (readFull n).bind fun name => (readUint 8).bind fun t => (readUint 8).bind fun c => Parser.pure (Entry.mk name t c))
    (enc_readUint h1) (prefShort_of_prefErr (prefErr_readUint 4 _))
    (prefShort_bind (f := fun name => (readUint 8).bind fun t => (readUint 8).bind fun c => Parser.pure (Entry.mk name t c))
      (enc_readFull (b := e.name) rfl) (prefShort_of_prefErr (prefErr_readFull rfl))
      (prefShort_bind (f := fun t => (readUint 8).bind fun c => Parser.pure (Entry.mk e.name t c)) (enc_readUint h2)
        (prefShort_of_prefErr (prefErr_readUint 8 _))
        (prefShort_bind (f := fun c => Parser.pure (Entry.mk e.name e.txid c)) (enc_readUint h3)
          (prefShort_of_prefErr (prefErr_readUint 8 _)) (prefShort_nil _))))
  simpa [decodeEntry, encodeEntry, List.append_assoc] using this

theorem prefShort_decodeEntries (m : List Entry) (h : ∀ e ∈ m, e.WF) :
    PrefShort (decodeEntries m.length) (m.flatMap encodeEntry) := by
  induction m with
  | nil => exact prefShort_nil _
  | cons e m ih =>
    have hwf := h e (by simp)
    have ih' := ih (fun e' h' => h e' (by simp [h']))
    have := prefShort_bind (f := fun e => (decodeEntries m.length).bind fun es => Parser.pure (e :: es))
      (enc_decodeEntry e hwf) (prefShort_decodeEntry e hwf)
      (prefShort_bind (f := fun es => Parser.pure (e :: es)) (enc_decodeEntries m (fun e' h' => h e' (by simp [h']))) ih' (prefShort_nil _))
    simpa [decodeEntries] using this

end LiteFSVerif.Chunk
