/-
  `DB.Open` (model: `Recovery.openDB`): when it succeeds, the position is that of the newest
  transaction file on disk (highest max TXID), whatever else the crash left behind.
-/
import LiteFSVerif.Model.Recovery
import LiteFSVerif.Proofs.Log
import LiteFSVerif.Proofs.Wal
import LiteFSVerif.Proofs.ApplyBytes

namespace LiteFSVerif.Recovery
open LiteFSVerif LiteFSVerif.Engine LiteFSVerif.Sqlite

/-- the log `Open` works with: everything on disk, or nothing when the database header is
    unreadable (`clean()` removes the database's files) -/
def cleanedLtx (d : Eng) : List LTXFile :=
  match d.dbFile with
  | none => d.ltx
  | some f => match readDBHeader f with
    | .error .invalid => []
    | _ => d.ltx

theorem openDB_position (d s : Eng) (h : openDB d = .ok s) (f : LTXFile)
    (hf : maxLTXFile (cleanedLtx d) = some f) : s.posTxid = f.maxTxid ∧ s.posChk = f.post := by
  unfold openDB at h
  simp only at h
  obtain ⟨s1, h1, h⟩ := except_bind_ok h
  have hl : s1.ltx = cleanedLtx d := by
    unfold cleanedLtx
    cases hd : d.dbFile with
    | none =>
      rw [hd] at h1; simp only [pure, Except.pure] at h1; injection h1 with h1; rw [← h1]
    | some b =>
      rw [hd] at h1
      simp only at h1 ⊢
      cases hh : readDBHeader b with
      | error e =>
        rw [hh] at h1
        cases e with
        | eof => simp only [pure, Except.pure] at h1; injection h1 with h1; rw [← h1]
        | invalid => simp only [pure, Except.pure] at h1; injection h1 with h1; rw [← h1]
      | ok hd' =>
        rw [hh] at h1
        simp only [pure, Except.pure] at h1; injection h1 with h1; rw [← h1]
  rw [← hl] at hf
  rw [hf] at h
  simp only at h
  obtain ⟨s2, _, h⟩ := except_bind_ok h
  obtain ⟨s3, _, h⟩ := except_bind_ok h
  obtain ⟨s4, _, h⟩ := except_bind_ok h
  obtain ⟨s5, _, h⟩ := except_bind_ok h
  cases ha : applyLTX s5 f false with
  | ok s6 =>
    rw [ha] at h
    simp only [pure, Except.pure] at h
    injection h with h
    subst h
    exact (applyLTX_frame s5 s6 f false ha).2
  | error e =>
    rw [ha] at h
    obtain ⟨e1, e2⟩ := e
    cases e2 <;> simp [throw, throwThe, MonadExceptOf.throw] at h

end LiteFSVerif.Recovery

namespace LiteFSVerif.Recovery
open LiteFSVerif LiteFSVerif.Engine LiteFSVerif.Sqlite

/-! ### recovery does not touch the log -/

theorem frames_ltx (j : ByteArray) (liftM : M Eng → Except String Eng)
    (hl : ∀ x a, liftM x = .ok a → x = .ok a) :
    ∀ (fuel : Nat) (r : JR) (s : Eng) (out : JR × Eng),
      rollbackJournal.segs.frames j liftM fuel r s = .ok out → out.2.ltx = s.ltx := by
  intro fuel
  induction fuel with
  | zero =>
    intro r s out h
    unfold rollbackJournal.segs.frames at h
    injection h with h; rw [← h]
  | succ n ih =>
    intro r s out h
    unfold rollbackJournal.segs.frames at h
    split at h
    · injection h with h; rw [← h]
    · rename_i r1 pgno data _
      by_cases hp : pgno = 0 ∨ pgno = 1073741824 / s.pageSize + 1
      · rw [if_pos hp] at h
        injection h with h; rw [← h]
      · rw [if_neg hp] at h
        by_cases hc : pgno > r1.commit
        · rw [if_pos hc] at h
          exact ih _ _ _ h
        · rw [if_neg hc] at h
          obtain ⟨s1, h1, h⟩ := except_bind_ok h
          have := ih _ _ _ h
          rw [this]
          exact writeDatabasePage_ltx _ _ _ _ (hl _ _ h1)

theorem segs_ltx (j : ByteArray) (liftM : M Eng → Except String Eng)
    (hl : ∀ x a, liftM x = .ok a → x = .ok a) :
    ∀ (fuel : Nat) (r : JR) (s : Eng) (out : JR × Eng),
      rollbackJournal.segs j liftM fuel r s = .ok out → out.2.ltx = s.ltx := by
  intro fuel
  induction fuel with
  | zero =>
    intro r s out h
    unfold rollbackJournal.segs at h
    injection h with h; rw [← h]
  | succ n ih =>
    intro r s out h
    unfold rollbackJournal.segs at h
    obtain ⟨nr, _, h⟩ := except_bind_ok h
    cases nr with
    | eof r' => simp only [pure, Except.pure] at h; injection h with h; rw [← h]
    | err m => simp [throw, throwThe, MonadExceptOf.throw] at h
    | ok r' =>
      simp only at h
      obtain ⟨o1, h1, h⟩ := except_bind_ok h
      have e1 := frames_ltx j liftM hl _ _ _ _ h1
      have e2 := ih _ _ _ h
      rw [e2, e1]
      split <;> rfl

theorem rollbackJournal_frame (s s' : Eng) (h : rollbackJournal s = .ok s') :
    s'.ltx = s.ltx ∧ s'.journal = none := by
  unfold rollbackJournal at h
  cases hj : s.journal with
  | none =>
    rw [hj] at h
    simp only [pure, Except.pure] at h
    injection h with h
    rw [← h]
    exact ⟨rfl, hj⟩
  | some j =>
    rw [hj] at h
    simp only at h
    by_cases hdb : s.dbFile.isNone = true
    · simp [hdb, throw, throwThe, MonadExceptOf.throw, bind, Except.bind] at h
    · simp only [hdb, Bool.false_eq_true, if_false] at h
      have hl : ∀ (x : M Eng) (a : Eng), (match x with
          | .ok a => (.ok a : Except String Eng)
          | .error (_, .panic m) => .error m
          | .error (_, _) => .error "write to database") = .ok a → x = .ok a := by
        intro x a hx
        cases x with
        | ok b => simp only at hx; injection hx with hx; rw [hx]
        | error e => obtain ⟨e1, e2⟩ := e; cases e2 <;> simp at hx
      obtain ⟨o1, h1, h⟩ := except_bind_ok h
      have e1 := segs_ltx j _ hl _ _ _ _ h1
      obtain ⟨s2, h2, h⟩ := except_bind_ok h
      simp only [pure, Except.pure] at h
      injection h with h
      subst h
      refine ⟨?_, rfl⟩
      show s2.ltx = s.ltx
      rw [← e1]
      split at h2
      · obtain ⟨s3, h3, h2⟩ := except_bind_ok h2
        simp only [pure, Except.pure] at h2
        injection h2 with h2
        subst h2
        show s3.ltx = _
        exact truncateDatabaseFile_ltx _ _ _ (hl _ _ h3)
      · simp only [pure, Except.pure] at h2
        injection h2 with h2
        rw [← h2]

end LiteFSVerif.Recovery

namespace LiteFSVerif.Recovery
open LiteFSVerif LiteFSVerif.Engine LiteFSVerif.Sqlite

theorem writeDatabasePage_journal (s s' : Eng) (pgno : Nat) (d : ByteArray) (h : writeDatabasePage s pgno d = .ok s') :
    s'.journal = s.journal := by
  unfold writeDatabasePage at h
  obtain ⟨_, _, h⟩ := M_bind_ok h
  obtain ⟨_, _, h⟩ := M_bind_ok h
  obtain ⟨_, _, h⟩ := M_bind_ok h
  obtain ⟨_, _, h⟩ := M_bind_ok h
  simp only [pure, Except.pure] at h
  injection h with h
  subst h
  rfl

theorem truncateDatabaseFile_journal (s s' : Eng) (n : Nat) (h : truncateDatabaseFile s n = .ok s') :
    s'.journal = s.journal := by
  unfold truncateDatabaseFile at h
  obtain ⟨_, _, h⟩ := M_bind_ok h
  simp only [pure, Except.pure] at h
  injection h with h
  subst h
  rfl

theorem foldlM_offs_frame (wal : ByteArray) : ∀ (offs : List (Nat × Nat)) (s s' : Eng),
    offs.foldlM (fun (s : Eng) e => writeDatabasePage s e.1 (wal.extract (e.2 + 24) (e.2 + 24 + s.pageSize))) s = (.ok s' : M Eng) →
    s'.ltx = s.ltx ∧ s'.journal = s.journal := by
  intro offs
  induction offs with
  | nil =>
    intro s s' h
    simp only [List.foldlM_nil, pure, Except.pure] at h
    injection h with h; rw [h]; exact ⟨rfl, rfl⟩
  | cons e rest ih =>
    intro s s' h
    simp only [List.foldlM_cons] at h
    obtain ⟨s1, h1, h2⟩ := M_bind_ok h
    obtain ⟨a, b⟩ := ih s1 s' h2
    rw [a, b]
    exact ⟨writeDatabasePage_ltx _ _ _ _ h1, writeDatabasePage_journal _ _ _ _ h1⟩

theorem checkpointNoLock_frame (s s' : Eng) (h : checkpointNoLock s = .ok s') :
    s'.ltx = s.ltx ∧ s'.journal = s.journal := by
  unfold checkpointNoLock at h
  by_cases h1 : s.dbFile.isNone = true
  · simp only [h1, if_true, pure, Except.pure] at h
    injection h with h; rw [← h]; exact ⟨rfl, rfl⟩
  · simp only [h1, Bool.false_eq_true, if_false] at h
    by_cases h2 : s.wal.isNone = true
    · simp only [h2, if_true, pure, Except.pure] at h
      injection h with h; rw [← h]; exact ⟨rfl, rfl⟩
    · simp only [h2, Bool.false_eq_true, if_false] at h
      obtain ⟨oc, _, h⟩ := M_bind_ok h
      obtain ⟨offs, commit⟩ := oc
      simp only at h
      obtain ⟨s1, hs1, h⟩ := M_bind_ok h
      have e1 : s1.ltx = s.ltx ∧ s1.journal = s.journal := by
        split at hs1
        · simp only [pure, Except.pure] at hs1
          injection hs1 with hs1; rw [← hs1]; exact ⟨rfl, rfl⟩
        · obtain ⟨sa, ha, hs1⟩ := M_bind_ok hs1
          obtain ⟨sb, hb, hs1⟩ := M_bind_ok hs1
          simp only [pure, Except.pure] at hs1
          injection hs1 with hs1
          subst hs1
          obtain ⟨a1, a2⟩ := foldlM_offs_frame _ _ _ _ ha
          refine ⟨?_, ?_⟩
          · show sb.ltx = _
            rw [truncateDatabaseFile_ltx _ _ _ hb, a1]
          · show sb.journal = _
            rw [truncateDatabaseFile_journal _ _ _ hb, a2]
      obtain ⟨s2, hs2, h⟩ := M_bind_ok h
      simp only [pure, Except.pure] at h
      injection h with h
      subst h
      unfold truncateWAL at hs2
      obtain ⟨_, _, hs2⟩ := M_bind_ok hs2
      obtain ⟨_, _, hs2⟩ := M_bind_ok hs2
      simp only [pure, Except.pure] at hs2
      injection hs2 with hs2
      subst hs2
      exact e1

theorem syncWALToLTX_frame (s s' : Eng) (f : LTXFile) (h : syncWALToLTX s f = .ok s') :
    s'.ltx = s.ltx ∧ s'.journal = s.journal := by
  unfold syncWALToLTX at h
  cases hw : s.wal with
  | none => rw [hw] at h; simp only [pure, Except.pure] at h; injection h with h; rw [← h]; exact ⟨rfl, rfl⟩
  | some w =>
    rw [hw] at h
    simp only at h
    split at h
    · simp only [pure, Except.pure] at h; injection h with h; rw [← h]; exact ⟨rfl, rfl⟩
    · split at h
      · simp only [pure, Except.pure] at h; injection h with h; rw [← h]; exact ⟨rfl, rfl⟩
      · split at h
        · simp [throw, throwThe, MonadExceptOf.throw, bind, Except.bind] at h
        · simp only [bind, Except.bind, pure, Except.pure] at h
          split at h
          · injection h with h; rw [← h]; exact ⟨rfl, rfl⟩
          · injection h with h; rw [← h]; exact ⟨rfl, rfl⟩

end LiteFSVerif.Recovery

namespace LiteFSVerif.Recovery
open LiteFSVerif LiteFSVerif.Engine LiteFSVerif.Sqlite

theorem foldlM_pages_journal (f : LTXFile) : ∀ (pages : List (Nat × ByteArray)) (st st' : Eng × Bool),
    pages.foldlM (fun (st : Eng × Bool) p => do
      let (s, wm) := st
      ensure s (¬ (p.2.size ≠ f.pageSize)) .err
      let wm := if p.1 = 1 then (BA.getD p.2 18 == 2 && BA.getD p.2 19 == 2) else wm
      let s ← writeDatabasePage s p.1 p.2
      pure (s, wm)) st = (.ok st' : M (Eng × Bool)) → st'.1.journal = st.1.journal := by
  intro pages
  induction pages with
  | nil =>
    intro st st' h
    simp only [List.foldlM_nil, pure, Except.pure] at h
    injection h with h; rw [h]
  | cons p rest ih =>
    intro st st' h
    simp only [List.foldlM_cons] at h
    obtain ⟨st1, h1, h2⟩ := M_bind_ok h
    have := ih st1 st' h2
    rw [this]
    obtain ⟨_, _, h1⟩ := M_bind_ok h1
    obtain ⟨s1, hw, h1⟩ := M_bind_ok h1
    simp only [pure, Except.pure] at h1
    injection h1 with h1
    subst h1
    exact writeDatabasePage_journal _ _ _ _ hw

/-- `ApplyLTXNoLock` never creates a journal -/
theorem applyLTX_journal_none (s s' : Eng) (f : LTXFile) (fatal : Bool) (h : applyLTX s f fatal = .ok s')
    (hj : s.journal = none) : s'.journal = none := by
  unfold applyLTX at h
  simp only at h
  split at h
  · rename_i a heq
    injection h with h
    subst h
    obtain ⟨r1, hfold, h2⟩ := M_bind_ok heq
    have hl1 := foldlM_pages_journal f f.pages _ r1 hfold
    obtain ⟨r2, hbr, h2⟩ := M_bind_ok h2
    obtain ⟨r3, _, h2⟩ := M_bind_ok h2
    obtain ⟨_, _, h2⟩ := M_bind_ok h2
    simp only [pure, Except.pure] at h2
    injection h2 with h2
    subst h2
    show r2.1.journal = none
    split at hbr
    · obtain ⟨s2, ht, hbr⟩ := M_bind_ok hbr
      simp only [pure, Except.pure] at hbr
      injection hbr with hbr
      subst hbr
      show s2.journal = none
      rw [truncateDatabaseFile_journal _ _ _ ht, hl1]
      split <;> (split <;> exact hj)
    · simp only [pure, Except.pure] at hbr
      injection hbr with hbr
      subst hbr
      rfl
  · cases h
  · cases h

/-- `DB.Open`: when it succeeds the log is what was on disk (nothing, if the database header was
    unreadable) and no journal is left -/
theorem openDB_frame (d s : Eng) (h : openDB d = .ok s) : s.ltx = cleanedLtx d ∧ s.journal = none := by
  unfold openDB at h
  simp only at h
  obtain ⟨s1, h1, h⟩ := except_bind_ok h
  have hl : s1.ltx = cleanedLtx d := by
    unfold cleanedLtx
    cases hd : d.dbFile with
    | none =>
      rw [hd] at h1; simp only [pure, Except.pure] at h1; injection h1 with h1; rw [← h1]
    | some b =>
      rw [hd] at h1
      simp only at h1 ⊢
      cases hh : readDBHeader b with
      | error e =>
        rw [hh] at h1
        cases e with
        | eof => simp only [pure, Except.pure] at h1; injection h1 with h1; rw [← h1]
        | invalid => simp only [pure, Except.pure] at h1; injection h1 with h1; rw [← h1]
      | ok hd' =>
        rw [hh] at h1
        simp only [pure, Except.pure] at h1; injection h1 with h1; rw [← h1]
  obtain ⟨s2, h2, h⟩ := except_bind_ok h
  have e2 : s2.ltx = s1.ltx := by
    split at h2
    · exact (syncWALToLTX_frame _ _ _ h2).1
    · simp only [pure, Except.pure] at h2; injection h2 with h2; rw [← h2]
  obtain ⟨s3, h3, h⟩ := except_bind_ok h
  obtain ⟨e3, j3⟩ := rollbackJournal_frame _ _ h3
  obtain ⟨s4, h4, h⟩ := except_bind_ok h
  have e4 : s4.ltx = s3.ltx ∧ s4.journal = s3.journal := by
    cases hc : checkpointNoLock s3 with
    | ok x =>
      rw [hc] at h4
      simp only [pure, Except.pure] at h4
      injection h4 with h4
      subst h4
      exact checkpointNoLock_frame _ _ hc
    | error e =>
      rw [hc] at h4
      obtain ⟨e1, e2⟩ := e
      cases e2 <;> simp [throw, throwThe, MonadExceptOf.throw] at h4
  obtain ⟨s5, h5, h⟩ := except_bind_ok h
  have e5 : s5.ltx = s4.ltx ∧ s5.journal = s4.journal := by
    split at h5
    · simp only [pure, Except.pure] at h5; injection h5 with h5; rw [← h5]; exact ⟨rfl, rfl⟩
    · split at h5
      · simp only [pure, Except.pure] at h5; injection h5 with h5; rw [← h5]; exact ⟨rfl, rfl⟩
      · simp [throw, throwThe, MonadExceptOf.throw] at h5
      · split at h5
        · simp [throw, throwThe, MonadExceptOf.throw, bind, Except.bind] at h5
        · simp only [bind, Except.bind, pure, Except.pure] at h5
          injection h5 with h5; rw [← h5]; exact ⟨rfl, rfl⟩
  have hltx5 : s5.ltx = cleanedLtx d := by rw [e5.1, e4.1, e3, e2, hl]
  have hj5 : s5.journal = none := by rw [e5.2, e4.2, j3]
  split at h
  · simp only [pure, Except.pure] at h
    injection h with h
    rw [← h]
    exact ⟨hltx5, hj5⟩
  · rename_i f _
    cases ha : applyLTX s5 f false with
    | ok s6 =>
      rw [ha] at h
      simp only [pure, Except.pure] at h
      injection h with h
      subst h
      exact ⟨by rw [(applyLTX_frame s5 s6 f false ha).1, hltx5], applyLTX_journal_none _ _ _ _ ha hj5⟩
    | error e =>
      rw [ha] at h
      obtain ⟨e1, e2⟩ := e
      cases e2 <;> simp [throw, throwThe, MonadExceptOf.throw] at h

end LiteFSVerif.Recovery

namespace LiteFSVerif.Recovery
open LiteFSVerif LiteFSVerif.Engine LiteFSVerif.Sqlite LiteFSVerif.BA

theorem readFrame_commit (r : JR) (j : ByteArray) : (r.readFrame j).1.commit = r.commit := by
  unfold JR.readFrame
  by_cases h1 : r.frameN = 0
  · rw [if_pos h1]
  · rw [if_neg h1]
    simp only
    by_cases h2 : j.size < r.offset + (r.pageSize + 8)
    · rw [if_pos h2]
    · rw [if_neg h2]
      split <;> rfl

/-- playing back one journal segment never extends the database file beyond the original size the
    segment's header records: every record for a page above that size — or for page zero or the
    lock page — is left unwritten, whatever bytes the journal holds -/
theorem frames_size_bound (j : ByteArray) (liftM : M Eng → Except String Eng)
    (hl : ∀ x a, liftM x = .ok a → x = .ok a) :
    ∀ (fuel : Nat) (r : JR) (s : Eng) (out : JR × Eng),
      rollbackJournal.segs.frames j liftM fuel r s = .ok out →
      out.2.pageSize = s.pageSize ∧ out.1.commit = r.commit ∧
      (dbBytes out.2).size ≤ max (dbBytes s).size (r.commit * s.pageSize) := by
  intro fuel
  induction fuel with
  | zero =>
    intro r s out h
    unfold rollbackJournal.segs.frames at h
    injection h with h; rw [← h]
    exact ⟨rfl, rfl, Nat.le_max_left _ _⟩
  | succ n ih =>
    intro r s out h
    unfold rollbackJournal.segs.frames at h
    split at h
    · rename_i r1 heq
      injection h with h; rw [← h]
      have : r1.commit = r.commit := by
        have := readFrame_commit r j; rw [heq] at this; exact this
      exact ⟨rfl, this, Nat.le_max_left _ _⟩
    · rename_i r1 pgno data heq
      have hrc : r1.commit = r.commit := by
        have := readFrame_commit r j; rw [heq] at this; exact this
      by_cases hp : pgno = 0 ∨ pgno = 1073741824 / s.pageSize + 1
      · rw [if_pos hp] at h
        injection h with h; rw [← h]
        exact ⟨rfl, hrc, Nat.le_max_left _ _⟩
      · rw [if_neg hp] at h
        by_cases hc : pgno > r1.commit
        · rw [if_pos hc] at h
          obtain ⟨a, b, c⟩ := ih _ _ _ h
          exact ⟨a, by rw [b, hrc], by rw [hrc] at c; exact c⟩
        · rw [if_neg hc] at h
          obtain ⟨s1, h1, h⟩ := except_bind_ok h
          obtain ⟨a, b, c⟩ := ih _ _ _ h
          obtain ⟨w1, w2, w3⟩ := writeDatabasePage_bytes _ _ _ _ (hl _ _ h1)
          refine ⟨by rw [a, w1], by rw [b, hrc], ?_⟩
          rw [w1, hrc] at c
          have hs1 : (dbBytes s1).size ≤ max (dbBytes s).size (r.commit * s.pageSize) := by
            unfold dbBytes
            rw [w3]
            simp only [Option.getD_some]
            rw [size_writeAt, w2]
            have hpg : pgno ≤ r.commit := by rw [← hrc]; omega
            have hp0 : pgno ≠ 0 := fun e => hp (Or.inl e)
            have : (pgno - 1) * s.pageSize + s.pageSize ≤ r.commit * s.pageSize := by
              have h1 : (pgno - 1 + 1) * s.pageSize ≤ r.commit * s.pageSize := Nat.mul_le_mul_right _ (by omega)
              rw [Nat.add_mul, Nat.one_mul] at h1
              exact h1
            unfold dbBytes
            omega
          omega

end LiteFSVerif.Recovery
