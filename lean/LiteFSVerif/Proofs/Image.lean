/- Lemmas about the image-level specification (Spec/Image.lean). -/
import LiteFSVerif.Spec.Image

namespace LiteFSVerif.Spec

theorem apply_length (img : Img) (tx : Tx) : (apply img tx).length = tx.commit := by
  simp [apply]

theorem apply_getD (img : Img) (tx : Tx) (i : Nat) (h : i < tx.commit) :
    (apply img tx).getD i 0 = (tx.pages.lookup (i + 1)).getD (img.getD i 0) := by
  simp only [apply, List.getD_eq_getElem?_getD, List.getElem?_map, List.getElem?_range h, Option.map_some, Option.getD_some]

/-- what a commit must record: the new content of every page in `dirty` that survives -/
def capture (new : Img) (dirty : List Nat) (minTxid maxTxid : Nat) (pre post : Chk) : Tx :=
  { minTxid, maxTxid, pre, post, commit := new.length,
    pages := (dirty.filter fun p => 1 ≤ p && p ≤ new.length).map fun p => (p, new.getD (p - 1) 0) }

theorem lookup_capture_some {new : Img} {dirty : List Nat} {a b : Nat} {pre post : Chk} {p : Nat}
    (hp : p ∈ dirty) (h1 : 1 ≤ p) (h2 : p ≤ new.length) :
    (capture new dirty a b pre post).pages.lookup p = some (new.getD (p - 1) 0) := by
  unfold capture
  simp only
  induction dirty with
  | nil => cases hp
  | cons d ds ih =>
    by_cases hd : (1 ≤ d && d ≤ new.length) = true
    · simp only [List.filter_cons, hd, if_true, List.map_cons, List.lookup_cons]
      by_cases e : p = d
      · subst e; simp
      · have : (p == d) = false := by simp [e]
        rw [this]
        rcases List.mem_cons.mp hp with h | h
        · exact absurd h e
        · exact ih h
    · simp only [List.filter_cons, hd]
      rcases List.mem_cons.mp hp with h | h
      · subst h; simp [h1, h2] at hd
      · simpa using ih h

theorem lookup_capture_none {new : Img} {dirty : List Nat} {a b : Nat} {pre post : Chk} {p : Nat}
    (hp : p ∉ dirty) : (capture new dirty a b pre post).pages.lookup p = none := by
  unfold capture
  simp only
  induction dirty with
  | nil => rfl
  | cons d ds ih =>
    have hne : p ≠ d := fun e => hp (e ▸ List.mem_cons_self)
    have hnd : p ∉ ds := fun h => hp (List.mem_cons_of_mem _ h)
    by_cases hd : (1 ≤ d && d ≤ new.length) = true
    · simp only [List.filter_cons, hd, if_true, List.map_cons, List.lookup_cons]
      have : (p == d) = false := by simp [hne]
      rw [this]; exact ih hnd
    · simp only [List.filter_cons, hd]; simpa using ih hnd

/-- **capture exactness**: if every page whose content changed (or that is new) is in the dirty
    set, applying the captured file to the previous image yields exactly the new image -/
theorem apply_capture (prev new : Img) (dirty : List Nat) (a b : Nat) (pre post : Chk)
    (hcover : ∀ i, i < new.length → new.getD i 0 ≠ prev.getD i 0 → (i + 1) ∈ dirty) :
    apply prev (capture new dirty a b pre post) = new := by
  apply List.ext_getElem
  · simp [apply, capture]
  · intro i h1 h2
    have hi : i < new.length := h2
    have hc : i < (capture new dirty a b pre post).commit := by simpa [capture] using hi
    have := apply_getD prev (capture new dirty a b pre post) i hc
    rw [List.getD_eq_getElem?_getD, List.getElem?_eq_getElem h1] at this
    simp only [Option.getD_some] at this
    rw [this]
    by_cases hm : (i + 1) ∈ dirty
    · rw [lookup_capture_some hm (by omega) (by omega)]
      simp [List.getD_eq_getElem?_getD, hi]
    · rw [lookup_capture_none hm, Option.getD_none]
      have : ¬ new.getD i 0 ≠ prev.getD i 0 := fun hne => hm (hcover i hi hne)
      have e : new.getD i 0 = prev.getD i 0 := by
        by_cases h : new.getD i 0 = prev.getD i 0
        · exact h
        · exact absurd h this
      rw [← e]; simp [List.getD_eq_getElem?_getD, hi]

/-! ### chains -/

theorem chainOK_cons_cons (a b : Tx) (rest : List Tx) :
    chainOK (a :: b :: rest) = (b.minTxid == a.maxTxid + 1 && b.pre == a.post && chainOK (b :: rest)) := rfl

/-- appending a file that extends the last one keeps the chain -/
theorem chainOK_append (l : List Tx) (last t : Tx) (h : chainOK (l ++ [last]) = true)
    (h1 : t.minTxid = last.maxTxid + 1) (h2 : t.pre = last.post) :
    chainOK (l ++ [last, t]) = true := by
  induction l with
  | nil => simp [chainOK, h1, h2]
  | cons a l ih =>
    cases l with
    | nil =>
      simp only [List.cons_append, List.nil_append, chainOK_cons_cons, Bool.and_eq_true] at h ⊢
      exact ⟨h.1, by simp [chainOK, h1, h2]⟩
    | cons b l' =>
      simp only [List.cons_append, chainOK_cons_cons, Bool.and_eq_true] at h ⊢
      exact ⟨h.1, ih h.2⟩

/-- removing a prefix (retention) keeps the chain -/
theorem chainOK_drop (l : List Tx) (k : Nat) (h : chainOK l = true) : chainOK (l.drop k) = true := by
  induction k generalizing l with
  | zero => simpa using h
  | succ k ih =>
    cases l with
    | nil => simp [chainOK]
    | cons a l =>
      simp only [List.drop_succ_cons]
      apply ih
      cases l with
      | nil => simp [chainOK]
      | cons b l' =>
        simp only [chainOK_cons_cons, Bool.and_eq_true] at h
        exact h.2

/-- a snapshot replaces the whole chain: a single file is a chain -/
theorem chainOK_single (t : Tx) : chainOK [t] = true := rfl

/-- positions along a chain are strictly increasing when each file is internally ordered -/
theorem chain_txid_increasing (a b : Tx) (rest : List Tx) (h : chainOK (a :: b :: rest) = true)
    (_ : a.minTxid ≤ a.maxTxid) : a.maxTxid < b.minTxid := by
  simp only [chainOK_cons_cons, Bool.and_eq_true, beq_iff_eq] at h
  omega

end LiteFSVerif.Spec

namespace LiteFSVerif.Spec

/-- applying the same file twice is the same as applying it once (restart re-applies the newest file) -/
theorem apply_idempotent (img : Img) (tx : Tx) : apply (apply img tx) tx = apply img tx := by
  apply List.ext_getElem
  · simp [apply]
  · intro i h1 h2
    have hi : i < tx.commit := by simpa [apply] using h2
    have a := apply_getD (apply img tx) tx i hi
    have b := apply_getD img tx i hi
    rw [List.getD_eq_getElem?_getD, List.getElem?_eq_getElem h1] at a
    rw [List.getD_eq_getElem?_getD, List.getElem?_eq_getElem h2] at b
    simp only [Option.getD_some] at a b
    rw [a, b]
    cases hl : tx.pages.lookup (i + 1) with
    | some c => simp
    | none =>
      simp only [Option.getD_none]
      have := apply_getD img tx i hi
      rw [hl] at this
      simpa using this

end LiteFSVerif.Spec
