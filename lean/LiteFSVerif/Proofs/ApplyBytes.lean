/-
  Byte-level meaning of the two file primitives the engine uses on the database file
  (`pwrite` = `BA.writeAt`, `ftruncate` = `BA.truncate`) and, from them, of `applyLTX`:
  after a successful apply the database file has exactly `commit` pages and every byte is the
  byte of the last page frame in the file that covers it, or else the byte that was there before
  (zero beyond the old end).
-/
import LiteFSVerif.Model.Engine
import LiteFSVerif.Proofs.Engine

namespace LiteFSVerif.BA

theorem getD_lt {b : ByteArray} {i : Nat} (h : i < b.size) : getD b i = b[i] := by
  unfold getD; rw [dif_pos h]

theorem getD_ge {b : ByteArray} {i : Nat} (h : b.size ≤ i) : getD b i = 0 := by
  unfold getD; rw [dif_neg (by omega)]

theorem getD_append (a b : ByteArray) (i : Nat) :
    getD (a ++ b) i = if i < a.size then getD a i else getD b (i - a.size) := by
  by_cases h : i < a.size
  · rw [if_pos h, getD_lt h, getD_lt (by rw [ByteArray.size_append]; omega)]
    exact ByteArray.getElem_append_left h
  · rw [if_neg h]
    by_cases h2 : i < (a ++ b).size
    · have h3 : i - a.size < b.size := by rw [ByteArray.size_append] at h2; omega
      rw [getD_lt h2, getD_lt h3]
      exact ByteArray.getElem_append_right (by omega)
    · have h3 : b.size ≤ i - a.size := by rw [ByteArray.size_append] at h2; omega
      rw [getD_ge (by omega), getD_ge h3]

theorem getD_extract (b : ByteArray) (s e i : Nat) :
    getD (b.extract s e) i = if s + i < e then getD b (s + i) else 0 := by
  by_cases h : i < (b.extract s e).size
  · have h' := h
    rw [ByteArray.size_extract] at h'
    have h1 : s + i < e := by omega
    have h2 : s + i < b.size := by omega
    rw [if_pos h1, getD_lt h, getD_lt h2]
    exact ByteArray.getElem_extract h
  · rw [getD_ge (by omega)]
    rw [ByteArray.size_extract] at h
    by_cases h1 : s + i < e
    · rw [if_pos h1, getD_ge (by omega)]
    · rw [if_neg h1]

theorem size_zeros (n : Nat) : (zeros n).size = n := by
  simp [zeros, ByteArray.size]

theorem getD_zeros (n i : Nat) : getD (zeros n) i = 0 := by
  by_cases h : i < (zeros n).size
  · rw [getD_lt h]
    simp [zeros, ByteArray.getElem_eq_getElem_data]
  · exact getD_ge (by omega)

/-- `pwrite`: size -/
theorem size_writeAt (f : ByteArray) (off : Nat) (data : ByteArray) :
    (writeAt f off data).size = max f.size (off + data.size) := by
  unfold writeAt
  by_cases h : f.size < off
  · simp only [h, if_true, ByteArray.size_append, ByteArray.size_extract, size_zeros]
    omega
  · simp only [h, if_false, ByteArray.size_append, ByteArray.size_extract]
    omega

theorem getD_pad (f : ByteArray) (k i : Nat) : getD (f ++ zeros k) i = getD f i := by
  rw [getD_append]
  by_cases h : i < f.size
  · rw [if_pos h]
  · rw [if_neg h, getD_zeros, getD_ge (by omega)]

theorem getD_splice (g data : ByteArray) (off i : Nat) (hg : off ≤ g.size) :
    getD (g.extract 0 off ++ data ++ g.extract (off + data.size) g.size) i =
      if off ≤ i ∧ i < off + data.size then getD data (i - off) else getD g i := by
  rw [getD_append, getD_append]
  simp only [ByteArray.size_append, ByteArray.size_extract]
  have e1 : min off g.size - 0 = off := by omega
  rw [e1]
  by_cases h1 : i < off
  · have : i < off + data.size := by omega
    rw [if_pos this, if_pos h1, if_neg (by omega), getD_extract, Nat.zero_add, if_pos h1]
  · by_cases h2 : i < off + data.size
    · rw [if_pos h2, if_neg h1, if_pos ⟨by omega, h2⟩]
    · rw [if_neg h2, if_neg (by omega), getD_extract]
      have e2 : off + data.size + (i - (off + data.size)) = i := by omega
      rw [e2]
      by_cases h3 : i < g.size
      · rw [if_pos h3]
      · rw [if_neg h3, getD_ge (by omega)]

/-- `pwrite`: every byte (reads beyond the end are 0, so the zero fill needs no special case) -/
theorem getD_writeAt (f : ByteArray) (off : Nat) (data : ByteArray) (i : Nat) :
    getD (writeAt f off data) i =
      if off ≤ i ∧ i < off + data.size then getD data (i - off) else getD f i := by
  unfold writeAt
  by_cases h : f.size < off
  · simp only [h, if_true]
    rw [getD_splice _ _ _ _ (by rw [ByteArray.size_append, size_zeros]; omega), getD_pad]
  · simp only [h, if_false]
    exact getD_splice _ _ _ _ (by omega)

theorem size_truncate (f : ByteArray) (n : Nat) : (truncate f n).size = n := by
  unfold truncate
  split
  · rw [ByteArray.size_extract]; omega
  · rw [ByteArray.size_append, size_zeros]; omega

theorem getD_truncate (f : ByteArray) (n i : Nat) :
    getD (truncate f n) i = if i < n then getD f i else 0 := by
  unfold truncate
  split
  · rw [getD_extract]; simp
  · rw [getD_append]
    by_cases h : i < f.size
    · rw [if_pos h, if_pos (by omega)]
    · rw [if_neg h, getD_zeros, getD_ge (by omega)]
      simp

end LiteFSVerif.BA

namespace LiteFSVerif.Engine
open LiteFSVerif LiteFSVerif.BA

/-- the byte at offset `i` after the page frames `pages` (page size `ps`) are written over a
    file whose byte there was `v`: the last frame that covers `i` wins -/
def byteAfterFrom (ps : Nat) (pages : List (Nat × ByteArray)) (i : Nat) (v : UInt8) : UInt8 :=
  pages.foldl (fun v p => if (p.1 - 1) * ps ≤ i ∧ i < (p.1 - 1) * ps + ps then getD p.2 (i - (p.1 - 1) * ps) else v) v

def dbBytes (s : Eng) : ByteArray := s.dbFile.getD ByteArray.empty

theorem writeDatabasePage_bytes (s s' : Eng) (pgno : Nat) (d : ByteArray) (h : writeDatabasePage s pgno d = .ok s') :
    s'.pageSize = s.pageSize ∧ d.size = s.pageSize ∧
    s'.dbFile = some (writeAt (dbBytes s) ((pgno - 1) * s.pageSize) d) := by
  unfold writeDatabasePage at h
  obtain ⟨_, _, h⟩ := M_bind_ok h
  obtain ⟨_, hsz, h⟩ := M_bind_ok h
  have hsz := ensure_ok hsz
  obtain ⟨_, _, h⟩ := M_bind_ok h
  obtain ⟨_, _, h⟩ := M_bind_ok h
  simp only [pure, Except.pure] at h
  injection h with h
  subst h
  exact ⟨rfl, Classical.byContradiction fun c => hsz c, rfl⟩

theorem foldlM_pages_bytes (f : LTXFile) : ∀ (pages : List (Nat × ByteArray)) (st st' : Eng × Bool),
    pages.foldlM (fun (st : Eng × Bool) p => do
      let (s, wm) := st
      ensure s (¬ (p.2.size ≠ f.pageSize)) .err
      let wm := if p.1 = 1 then (BA.getD p.2 18 == 2 && BA.getD p.2 19 == 2) else wm
      let s ← writeDatabasePage s p.1 p.2
      pure (s, wm)) st = (.ok st' : M (Eng × Bool)) →
    st'.1.pageSize = st.1.pageSize ∧
    (pages ≠ [] → st'.1.dbFile.isSome = true) ∧
    (pages = [] → st'.1.dbFile = st.1.dbFile) ∧
    ∀ i, getD (dbBytes st'.1) i = byteAfterFrom st.1.pageSize pages i (getD (dbBytes st.1) i) := by
  intro pages
  induction pages with
  | nil =>
    intro st st' h
    simp only [List.foldlM_nil, pure, Except.pure] at h
    injection h with h
    subst h
    exact ⟨rfl, fun c => absurd rfl c, fun _ => rfl, fun i => rfl⟩
  | cons p rest ih =>
    intro st st' h
    simp only [List.foldlM_cons] at h
    obtain ⟨st1, h1, h2⟩ := M_bind_ok h
    obtain ⟨ihps, ihsome, ihnil, ihb⟩ := ih st1 st' h2
    obtain ⟨_, _, h1⟩ := M_bind_ok h1
    obtain ⟨s1, hw, h1⟩ := M_bind_ok h1
    simp only [pure, Except.pure] at h1
    injection h1 with h1
    subst h1
    obtain ⟨hps, hsz, hdb⟩ := writeDatabasePage_bytes _ _ _ _ hw
    refine ⟨by rw [ihps]; exact hps, ?_, (fun c => by cases c), ?_⟩
    · intro _
      cases rest with
      | nil => rw [ihnil rfl]; show s1.dbFile.isSome = true; rw [hdb]; rfl
      | cons q r => exact ihsome (by simp)
    · intro i
      rw [ihb i]
      show byteAfterFrom s1.pageSize rest i (getD (dbBytes s1) i) = _
      unfold byteAfterFrom
      simp only [List.foldl_cons]
      rw [hps]
      congr 1
      unfold dbBytes
      rw [hdb]
      simp only [Option.getD_some]
      rw [getD_writeAt, hsz]
      rfl

theorem dbBytes_ps (s : Eng) (ps : Nat) : dbBytes (if s.pageSize = 0 then { s with pageSize := ps } else s) = dbBytes s := by
  split <;> rfl

theorem pageSize_ps (s : Eng) (ps : Nat) :
    (if s.pageSize = 0 then { s with pageSize := ps } else s).pageSize = if s.pageSize = 0 then ps else s.pageSize := by
  split <;> rfl

theorem dbBytes_mk (s0 : Eng) (b : Bool) :
    dbBytes (if (b && s0.dbFile.isNone) = true then { s0 with dbFile := some ByteArray.empty } else s0) = dbBytes s0 := by
  unfold dbBytes
  cases h : s0.dbFile <;> cases b <;> simp [h]

theorem pageSize_mk (s0 : Eng) (c : Prop) [Decidable c] (x : Option ByteArray) :
    (if c then { s0 with dbFile := x } else s0).pageSize = s0.pageSize := by
  split <;> rfl

/-- `ApplyLTXNoLock`, byte level: a successful apply of a file with a non-zero size leaves a
    database file of exactly `commit` pages in which every byte is the byte of the last page
    frame that covers it, or else the byte the file held before (zero beyond its old end) -/
theorem applyLTX_bytes (s s' : Eng) (f : LTXFile) (fatal : Bool) (h : applyLTX s f fatal = .ok s')
    (hc : f.commit > 0) :
    ∃ d', s'.dbFile = some d' ∧ s'.pageSize = (if s.pageSize = 0 then f.pageSize else s.pageSize) ∧
      s'.pageN = f.commit ∧ d'.size = f.commit * s'.pageSize ∧
      ∀ i, i < d'.size → getD d' i = byteAfterFrom s'.pageSize f.pages i (getD (dbBytes s) i) := by
  unfold applyLTX at h
  simp only at h
  split at h
  · rename_i a heq
    injection h with h
    subst h
    obtain ⟨r1, hfold, h2⟩ := M_bind_ok heq
    obtain ⟨hps1, _, _, hb1⟩ := foldlM_pages_bytes f f.pages _ r1 hfold
    obtain ⟨r2, hbr, h2⟩ := M_bind_ok h2
    obtain ⟨r3, _, h2⟩ := M_bind_ok h2
    obtain ⟨_, _, h2⟩ := M_bind_ok h2
    simp only [pure, Except.pure] at h2
    injection h2 with h2
    subst h2
    rw [if_pos hc] at hbr
    obtain ⟨s2, ht, hbr⟩ := M_bind_ok hbr
    simp only [pure, Except.pure] at hbr
    injection hbr with hbr
    subst hbr
    unfold truncateDatabaseFile at ht
    obtain ⟨_, _, ht⟩ := M_bind_ok ht
    simp only [pure, Except.pure] at ht
    injection ht with ht
    subst ht
    have hps0 : r1.1.pageSize = (if s.pageSize = 0 then f.pageSize else s.pageSize) := by
      rw [hps1, pageSize_mk, pageSize_ps]
    refine ⟨_, rfl, hps0, rfl, ?_, ?_⟩
    · rw [size_truncate]
    · intro i hi
      rw [size_truncate] at hi
      rw [getD_truncate, if_pos hi]
      have := hb1 i
      rw [dbBytes_mk, dbBytes_ps] at this
      unfold dbBytes at this
      rw [this, ← hps1]
      rfl
  · cases h
  · cases h

end LiteFSVerif.Engine

namespace LiteFSVerif.Engine
open LiteFSVerif LiteFSVerif.BA

/-- a byte covered by some page frame of the file does not depend on what was there before -/
theorem byteAfterFrom_covered (ps : Nat) : ∀ (pages : List (Nat × ByteArray)) (i : Nat) (v w : UInt8),
    (∃ p ∈ pages, (p.1 - 1) * ps ≤ i ∧ i < (p.1 - 1) * ps + ps) →
    byteAfterFrom ps pages i v = byteAfterFrom ps pages i w := by
  intro pages
  induction pages with
  | nil => intro i v w h; obtain ⟨p, hp, _⟩ := h; cases hp
  | cons q rest ih =>
    intro i v w h
    unfold byteAfterFrom
    simp only [List.foldl_cons]
    by_cases hq : (q.1 - 1) * ps ≤ i ∧ i < (q.1 - 1) * ps + ps
    · rw [if_pos hq, if_pos hq]
    · rw [if_neg hq, if_neg hq]
      obtain ⟨p, hp, hcov⟩ := h
      cases hp with
      | head => exact absurd hcov hq
      | tail _ hmem => exact ih i v w ⟨p, hmem, hcov⟩

/-- a byte covered by no page frame keeps its old value -/
theorem byteAfterFrom_uncovered (ps : Nat) : ∀ (pages : List (Nat × ByteArray)) (i : Nat) (v : UInt8),
    (∀ p ∈ pages, ¬ ((p.1 - 1) * ps ≤ i ∧ i < (p.1 - 1) * ps + ps)) →
    byteAfterFrom ps pages i v = v := by
  intro pages
  induction pages with
  | nil => intro i v _; rfl
  | cons q rest ih =>
    intro i v h
    unfold byteAfterFrom
    simp only [List.foldl_cons]
    rw [if_neg (h q (List.mem_cons_self ..))]
    exact ih i v (fun p hp => h p (List.mem_cons_of_mem _ hp))

end LiteFSVerif.Engine

namespace LiteFSVerif.Engine
open LiteFSVerif LiteFSVerif.BA

/-- `ApplyLTXNoLock` of a deletion marker (size 0): database, journal and WAL are gone, the
    database has no pages, the position is the marker's -/
theorem applyLTX_tombstone (s s' : Eng) (f : LTXFile) (fatal : Bool) (h : applyLTX s f fatal = .ok s')
    (hc : f.commit = 0) :
    s'.dbFile = none ∧ s'.journal = none ∧ s'.wal = none ∧ s'.pageN = 0 ∧ s'.walMode = false ∧
    s'.posTxid = f.maxTxid ∧ s'.posChk = f.post := by
  unfold applyLTX at h
  simp only at h
  split at h
  · rename_i a heq
    injection h with h
    subst h
    obtain ⟨r1, hfold, h2⟩ := M_bind_ok heq
    obtain ⟨r2, hbr, h2⟩ := M_bind_ok h2
    obtain ⟨r3, _, h2⟩ := M_bind_ok h2
    obtain ⟨_, _, h2⟩ := M_bind_ok h2
    simp only [pure, Except.pure] at h2
    injection h2 with h2
    subst h2
    have hn : ¬ (f.commit > 0) := by omega
    rw [if_neg hn] at hbr
    simp only [pure, Except.pure] at hbr
    injection hbr with hbr
    subst hbr
    exact ⟨rfl, rfl, rfl, hc, rfl, rfl, rfl⟩
  · cases h
  · cases h

end LiteFSVerif.Engine

namespace LiteFSVerif.BA
/-! concrete instances of the two file primitives (overwrite inside, write past the end with a
    zero-filled gap, shrink, grow) -/
example : (writeAt ⟨#[1, 2, 3]⟩ 1 ⟨#[9]⟩).data = #[1, 9, 3] := by decide
example : (writeAt ⟨#[1]⟩ 3 ⟨#[9]⟩).data = #[1, 0, 0, 9] := by decide
example : (truncate ⟨#[1, 2, 3]⟩ 2).data = #[1, 2] := by decide
example : (truncate ⟨#[1]⟩ 3).data = #[1, 0, 0] := by decide
example : Engine.byteAfterFrom 2 [(1, ⟨#[7, 8]⟩), (2, ⟨#[5, 6]⟩), (1, ⟨#[3, 4]⟩)] 1 0 = 4 := by decide
end LiteFSVerif.BA
