import LiteFSVerif.Model.Frames
import LiteFSVerif.Proofs.Bytes

namespace LiteFSVerif.Frames
open LiteFSVerif

theorem prefErrU_mapErr_noEOF' {α} {p : Parser α} {x : Bytes} (hp : PrefErrU p x) :
    PrefErrU (p.mapErr DecErr.noEOF) x := by
  intro k hk
  unfold Parser.mapErr
  rw [hp k hk]; rfl

theorem enc_decodeStr {s : Bytes} (h : s.length < 256 ^ 4) : Enc decodeStr (encodeStr s) s :=
  enc_bind (enc_mapErr (enc_readUint h)) (enc_mapErr (enc_readFull rfl))

theorem prefErrU_decodeStr {s : Bytes} (h : s.length < 256 ^ 4) : PrefErrU decodeStr (encodeStr s) :=
  prefErrU_bind (enc_mapErr (enc_readUint h)) (prefErrU_mapErr_noEOF (prefErr_readUint 4 _))
    (prefErrU_mapErr_noEOF (prefErr_readFull rfl))

theorem enc_decodeU64 {n : Nat} (h : n < 256 ^ 8) : Enc decodeU64 (be 8 n) n :=
  enc_mapErr (enc_readUint h)

theorem prefErrU_decodeU64 (n : Nat) : PrefErrU decodeU64 (be 8 n) :=
  prefErrU_mapErr_noEOF (prefErr_readUint 8 n)

theorem append_nil' (x : Bytes) : x = x ++ [] := by simp

theorem enc_payload (f : Frame) (h : f.WF) : Enc (decodePayload f.typeCode) (encodePayload f) f := by
  cases f with
  | ltx size name =>
    obtain ⟨h1, h2⟩ := h
    have := enc_bind (f := fun size => decodeStr.bind fun name => Parser.pure (Frame.ltx size name)) (enc_decodeU64 h1)
      (enc_bind (f := fun name => Parser.pure (Frame.ltx size name)) (enc_decodeStr h2) (enc_pure _))
    simpa [decodePayload, Frame.typeCode, encodePayload] using this
  | ready => exact enc_pure _
  | end_ => exact enc_pure _
  | dropDB name =>
    have := enc_bind (f := fun name => Parser.pure (Frame.dropDB name)) (enc_decodeStr h) (enc_pure _)
    simpa [decodePayload, Frame.typeCode, encodePayload] using this
  | handoff id =>
    have := enc_bind (f := fun id => Parser.pure (Frame.handoff id)) (enc_decodeStr h) (enc_pure _)
    simpa [decodePayload, Frame.typeCode, encodePayload] using this
  | hwm txid name =>
    obtain ⟨h1, h2⟩ := h
    have := enc_bind (f := fun txid => decodeStr.bind fun name => Parser.pure (Frame.hwm txid name)) (enc_decodeU64 h1)
      (enc_bind (f := fun name => Parser.pure (Frame.hwm txid name)) (enc_decodeStr h2) (enc_pure _))
    simpa [decodePayload, Frame.typeCode, encodePayload] using this
  | heartbeat ts =>
    have := enc_bind (f := fun ts => Parser.pure (Frame.heartbeat ts)) (enc_decodeU64 h) (enc_pure _)
    simpa [decodePayload, Frame.typeCode, encodePayload] using this

theorem prefErrU_payload (f : Frame) (h : f.WF) : PrefErrU (decodePayload f.typeCode) (encodePayload f) := by
  cases f with
  | ltx size name =>
    obtain ⟨h1, h2⟩ := h
    have := prefErrU_bind (f := fun size => decodeStr.bind fun name => Parser.pure (Frame.ltx size name)) (enc_decodeU64 h1) (prefErrU_decodeU64 size)
      (prefErrU_bind (f := fun name => Parser.pure (Frame.ltx size name)) (enc_decodeStr h2) (prefErrU_decodeStr h2) (prefErrU_nil _))
    simpa [decodePayload, Frame.typeCode, encodePayload] using this
  | ready => exact prefErrU_nil _
  | end_ => exact prefErrU_nil _
  | dropDB name =>
    have := prefErrU_bind (f := fun name => Parser.pure (Frame.dropDB name)) (enc_decodeStr h) (prefErrU_decodeStr h) (prefErrU_nil _)
    simpa [decodePayload, Frame.typeCode, encodePayload] using this
  | handoff id =>
    have := prefErrU_bind (f := fun id => Parser.pure (Frame.handoff id)) (enc_decodeStr h) (prefErrU_decodeStr h) (prefErrU_nil _)
    simpa [decodePayload, Frame.typeCode, encodePayload] using this
  | hwm txid name =>
    obtain ⟨h1, h2⟩ := h
    have := prefErrU_bind (f := fun txid => decodeStr.bind fun name => Parser.pure (Frame.hwm txid name)) (enc_decodeU64 h1) (prefErrU_decodeU64 txid)
      (prefErrU_bind (f := fun name => Parser.pure (Frame.hwm txid name)) (enc_decodeStr h2) (prefErrU_decodeStr h2) (prefErrU_nil _))
    simpa [decodePayload, Frame.typeCode, encodePayload] using this
  | heartbeat ts =>
    have := prefErrU_bind (f := fun ts => Parser.pure (Frame.heartbeat ts)) (enc_decodeU64 h) (prefErrU_decodeU64 ts) (prefErrU_nil _)
    simpa [decodePayload, Frame.typeCode, encodePayload] using this

theorem typeCode_lt (f : Frame) : f.typeCode < 256 ^ 4 := by cases f <;> simp [Frame.typeCode]

theorem be4_ne_nil (n : Nat) : be 4 n ≠ [] := by
  intro h; have := be_length 4 n; rw [h] at this; simp at this


theorem readFull_sound {n : Nat} {r b rest : Bytes} (h : readFull n r = .ok b rest) :
    r = b ++ rest ∧ b.length = n := by
  unfold readFull at h
  split at h
  · injection h with h1 h2; subst h1 h2
    exact ⟨(List.take_append_drop n r).symm, by simp; omega⟩
  · split at h <;> cases h

theorem readUint_sound {w : Nat} {r rest : Bytes} {v : Nat} (h : readUint w r = .ok v rest) :
    r = be w v ++ rest ∧ v < 256 ^ w := by
  unfold readUint at h
  split at h
  · rename_i b rest' heq
    injection h with h1 h2; subst h1 h2
    have ⟨e, hl⟩ := readFull_sound heq
    refine ⟨?_, hl ▸ unbe_lt b⟩
    rw [e, ← hl, be_unbe]
  · cases h

theorem mapErr_ok {α} {p : Parser α} {g : DecErr → DecErr} {r rest : Bytes} {v : α}
    (h : p.mapErr g r = .ok v rest) : p r = .ok v rest := by
  unfold Parser.mapErr at h
  split at h
  · cases h
  · rename_i a rest' heq; injection h with h1 h2; subst h1 h2; exact heq

theorem bind_ok {α β} {p : Parser α} {f : α → Parser β} {r rest : Bytes} {b : β}
    (h : p.bind f r = .ok b rest) : ∃ a mid, p r = .ok a mid ∧ f a mid = .ok b rest := by
  unfold Parser.bind at h
  split at h
  · cases h
  · rename_i a mid heq; exact ⟨a, mid, heq, h⟩

theorem pure_ok {α} {a v : α} {r rest : Bytes} (h : Parser.pure a r = .ok v rest) : v = a ∧ rest = r := by
  unfold Parser.pure at h; injection h with h1 h2; exact ⟨h1.symm, h2.symm⟩

theorem decodeStr_sound {r rest s : Bytes} (h : decodeStr r = .ok s rest) :
    r = encodeStr s ++ rest ∧ s.length < 256 ^ 4 := by
  unfold decodeStr at h
  obtain ⟨n, mid, h1, h2⟩ := bind_ok h
  have ⟨e1, hn⟩ := readUint_sound (mapErr_ok h1)
  have ⟨e2, hl⟩ := readFull_sound (mapErr_ok h2)
  subst hl
  exact ⟨by rw [e1, e2, encodeStr, List.append_assoc], hn⟩

theorem decodeU64_sound {r rest : Bytes} {v : Nat} (h : decodeU64 r = .ok v rest) :
    r = be 8 v ++ rest ∧ v < 256 ^ 8 :=
  readUint_sound (mapErr_ok h)

theorem decodePayload_sound {t : Nat} {r rest : Bytes} {f : Frame} (h : decodePayload t r = .ok f rest) :
    r = encodePayload f ++ rest ∧ f.WF ∧ f.typeCode = t := by
  unfold decodePayload at h
  split at h
  · rename_i ht
    obtain ⟨size, m1, h1, h2⟩ := bind_ok h
    obtain ⟨name, m2, h3, h4⟩ := bind_ok h2
    have ⟨e1, w1⟩ := decodeU64_sound h1
    have ⟨e2, w2⟩ := decodeStr_sound h3
    have ⟨e3, e4⟩ := pure_ok h4
    subst e3 e4
    exact ⟨by rw [e1, e2]; simp [encodePayload, List.append_assoc], ⟨w1, w2⟩, ht.symm⟩
  split at h
  · rename_i ht; have ⟨e3, e4⟩ := pure_ok h; subst e3 e4; exact ⟨rfl, trivial, ht.symm⟩
  split at h
  · rename_i ht; have ⟨e3, e4⟩ := pure_ok h; subst e3 e4; exact ⟨rfl, trivial, ht.symm⟩
  split at h
  · rename_i ht
    obtain ⟨name, m2, h3, h4⟩ := bind_ok h
    have ⟨e2, w2⟩ := decodeStr_sound h3
    have ⟨e3, e4⟩ := pure_ok h4
    subst e3 e4
    exact ⟨by rw [e2]; simp [encodePayload], w2, ht.symm⟩
  split at h
  · rename_i ht
    obtain ⟨name, m2, h3, h4⟩ := bind_ok h
    have ⟨e2, w2⟩ := decodeStr_sound h3
    have ⟨e3, e4⟩ := pure_ok h4
    subst e3 e4
    exact ⟨by rw [e2]; simp [encodePayload], w2, ht.symm⟩
  split at h
  · rename_i ht
    obtain ⟨size, m1, h1, h2⟩ := bind_ok h
    obtain ⟨name, m2, h3, h4⟩ := bind_ok h2
    have ⟨e1, w1⟩ := decodeU64_sound h1
    have ⟨e2, w2⟩ := decodeStr_sound h3
    have ⟨e3, e4⟩ := pure_ok h4
    subst e3 e4
    exact ⟨by rw [e1, e2]; simp [encodePayload, List.append_assoc], ⟨w1, w2⟩, ht.symm⟩
  split at h
  · rename_i ht
    obtain ⟨ts, m1, h1, h2⟩ := bind_ok h
    have ⟨e1, w1⟩ := decodeU64_sound h1
    have ⟨e3, e4⟩ := pure_ok h2
    subst e3 e4
    exact ⟨by rw [e1]; simp [encodePayload], w1, ht.symm⟩
  · cases h

theorem decodeFrame_sound {r rest : Bytes} {f : Frame} (h : decodeFrame r = .ok f rest) :
    r = encodeFrame f ++ rest ∧ f.WF := by
  unfold decodeFrame at h
  obtain ⟨t, mid, h1, h2⟩ := bind_ok h
  have ⟨e1, _⟩ := readUint_sound h1
  have ⟨e2, wf, ht⟩ := decodePayload_sound (mapErr_ok h2)
  exact ⟨by rw [e1, e2, encodeFrame, ht, List.append_assoc], wf⟩


end LiteFSVerif.Frames
