/-
  Helper lemmas for C12 (RWMutex).  Property statements live in Props/C12.lean.
-/
import LiteFSVerif.Model.RWMutex
import LiteFSVerif.Spec.Posix

namespace LiteFSVerif.RWMutex
open LiteFSVerif

/-! ### list counting lemmas -/

theorem count_set_same {l : List GS} {i : Nat} (h : i < l.length) (a b : GS)
    (h1 : (l[i] = b) ↔ (a = b)) : (l.set i a).count b = l.count b := by
  induction l generalizing i with
  | nil => simp at h
  | cons x l ih =>
    cases i with
    | zero =>
      simp only [List.set_cons_zero, List.count_cons, List.getElem_cons_zero] at *
      by_cases hx : x = b
      · have : a = b := h1.mp hx
        simp [hx, this]
      · have : ¬ a = b := fun e => hx (h1.mpr e)
        simp [hx, this]
    | succ i =>
      simp only [List.set_cons_succ, List.count_cons, List.getElem_cons_succ] at *
      rw [ih (by simpa using h) h1]

theorem count_set_to {l : List GS} {i : Nat} (h : i < l.length) (b : GS)
    (h1 : l[i] ≠ b) : (l.set i b).count b = l.count b + 1 := by
  induction l generalizing i with
  | nil => simp at h
  | cons x l ih =>
    cases i with
    | zero =>
      simp only [List.set_cons_zero, List.count_cons, List.getElem_cons_zero] at *
      simp [h1]
    | succ i =>
      simp only [List.set_cons_succ, List.count_cons, List.getElem_cons_succ] at *
      rw [ih (by simpa using h) h1]; omega

theorem count_set_from {l : List GS} {i : Nat} (h : i < l.length) (a b : GS)
    (h1 : l[i] = b) (h2 : a ≠ b) : (l.set i a).count b + 1 = l.count b := by
  induction l generalizing i with
  | nil => simp at h
  | cons x l ih =>
    cases i with
    | zero =>
      simp only [List.set_cons_zero, List.count_cons, List.getElem_cons_zero] at *
      simp [h1, h2]
    | succ i =>
      simp only [List.set_cons_succ, List.count_cons, List.getElem_cons_succ] at *
      have := ih (by simpa using h) h1
      omega

theorem getD_eq {l : List GS} {i : Nat} (h : i < l.length) : l.getD i .unlocked = l[i] := by
  simp [List.getD_eq_getElem?_getD, h]

theorem count_pos_of_getElem {l : List GS} {i : Nat} (h : i < l.length) : 0 < l.count l[i] :=
  List.count_pos_iff.mpr (List.getElem_mem h)

/-- if exactly one element equals `b` and it sits at `i`, every other index differs -/
theorem count_one_unique {l : List GS} {i j : Nat} (hi : i < l.length) (hj : j < l.length) (b : GS)
    (h1 : l[i] = b) (hc : l.count b = 1) (hne : j ≠ i) : l[j] ≠ b := by
  intro hjb
  -- setting position i to something else leaves count 0 but j still equals b
  cases b with
  | unlocked =>
    have := count_set_from hi .shared .unlocked h1 (by decide)
    have h0 : (l.set i .shared).count .unlocked = 0 := by omega
    have hmem : GS.unlocked ∈ l.set i .shared := by
      have : (l.set i .shared)[j]'(by simpa using hj) = .unlocked := by
        rw [List.getElem_set_ne (Ne.symm hne)]; exact hjb
      exact this ▸ List.getElem_mem _
    exact (List.count_eq_zero.mp h0) hmem
  | shared =>
    have := count_set_from hi .unlocked .shared h1 (by decide)
    have h0 : (l.set i .unlocked).count .shared = 0 := by omega
    have hmem : GS.shared ∈ l.set i .unlocked := by
      have : (l.set i .unlocked)[j]'(by simpa using hj) = .shared := by
        rw [List.getElem_set_ne (Ne.symm hne)]; exact hjb
      exact this ▸ List.getElem_mem _
    exact (List.count_eq_zero.mp h0) hmem
  | exclusive =>
    have := count_set_from hi .unlocked .exclusive h1 (by decide)
    have h0 : (l.set i .unlocked).count .exclusive = 0 := by omega
    have hmem : GS.exclusive ∈ l.set i .unlocked := by
      have : (l.set i .unlocked)[j]'(by simpa using hj) = .exclusive := by
        rw [List.getElem_set_ne (Ne.symm hne)]; exact hjb
      exact this ▸ List.getElem_mem _
    exact (List.count_eq_zero.mp h0) hmem

/-! ### the invariant -/

structure Inv (m : Mutex) : Prop where
  /-- guard `i` is in state exclusive iff the mutex's `excl` pointer is guard `i` -/
  excl_iff  : ∀ i (h : i < m.gs.length), (m.gs[i] = .exclusive ↔ m.excl = some i)
  excl_lt   : ∀ i, m.excl = some i → i < m.gs.length
  /-- an exclusive holder excludes shared holders -/
  excl_zero : m.excl ≠ none → m.sharedN = 0
  /-- the counter is exactly the number of guards in state shared -/
  count     : m.sharedN = ((m.gs.count .shared : Nat) : Int)

theorem inv_init (n : Nat) : Inv (Mutex.init n) := by
  refine ⟨?_, ?_, ?_, ?_⟩
  · intro i h; simp [Mutex.init] at *
  · intro i h; simp [Mutex.init] at h
  · intro h; simp [Mutex.init]
  · simp [Mutex.init, List.count_replicate]

end LiteFSVerif.RWMutex

namespace LiteFSVerif.RWMutex
open LiteFSVerif

theorem others_iff (h : Posix.Holders) (i : Nat) (p : GS → Bool) :
    Posix.others h i p = true ↔ ∀ j (hj : j < h.length), j ≠ i → p h[j] = true := by
  unfold Posix.others
  simp only [List.all_eq_true, List.mem_range, Bool.or_eq_true, beq_iff_eq]
  constructor
  · intro H j hj hne
    have := H j hj
    rcases this with e | e
    · exact absurd e hne
    · rw [getD_eq hj] at e; exact e
  · intro H j hj
    by_cases e : j = i
    · exact Or.inl e
    · right; rw [getD_eq hj]; exact H j hj e

/-- under the invariant the concrete state is a function of the holders -/
theorem inv_ext {m m' : Mutex} (h : Inv m) (h' : Inv m') (e : m.gs = m'.gs) : m = m' := by
  have hs : m.sharedN = m'.sharedN := by rw [h.count, h'.count, e]
  have hx : m.excl = m'.excl := by
    cases hm : m.excl with
    | none =>
      cases hm' : m'.excl with
      | none => rfl
      | some j =>
        have hj := h'.excl_lt j hm'
        have : m'.gs[j] = .exclusive := (h'.excl_iff j hj).mpr hm'
        have hj2 : j < m.gs.length := e ▸ hj
        have : m.gs[j] = .exclusive := by simpa [e] using this
        have := (h.excl_iff j hj2).mp this
        rw [hm] at this; cases this
    | some i =>
      have hi := h.excl_lt i hm
      have : m.gs[i] = .exclusive := (h.excl_iff i hi).mpr hm
      have hi2 : i < m'.gs.length := e ▸ hi
      have : m'.gs[i] = .exclusive := by simpa [← e] using this
      exact ((h'.excl_iff i hi2).mp this).symm
  cases m; cases m'; simp_all

theorem no_shared_of_count_zero {l : List GS} (h : l.count .shared = 0) {j : Nat} (hj : j < l.length) :
    l[j] ≠ .shared := by
  intro e
  have := count_pos_of_getElem hj
  rw [e] at this; omega

theorem no_excl_of_none {m : Mutex} (h : Inv m) (hx : m.excl = none) {j : Nat} (hj : j < m.gs.length) :
    m.gs[j] ≠ .exclusive := by
  intro e
  have := (h.excl_iff j hj).mp e
  rw [hx] at this; cases this

theorem sharedN_pos_of_shared {m : Mutex} (h : Inv m) {i : Nat} (hi : i < m.gs.length)
    (e : m.gs[i] = .shared) : 0 < m.sharedN ∧ m.excl = none := by
  have hc := count_pos_of_getElem hi
  rw [e] at hc
  have hpos : 0 < m.sharedN := by rw [h.count]; omega
  refine ⟨hpos, ?_⟩
  by_cases hx : m.excl = none
  · exact hx
  · have := h.excl_zero hx; omega

/-- guard `i` unlocked: the Go test `sharedN == 0 && excl == nil` is the POSIX rule -/
theorem unlocked_free_iff {m : Mutex} (h : Inv m) {i : Nat} (hi : i < m.gs.length)
    (e : m.gs[i] = .unlocked) :
    (m.sharedN = 0 ∧ m.excl = none) ↔ Posix.canExcl m.gs i = true := by
  unfold Posix.canExcl
  rw [others_iff]
  constructor
  · rintro ⟨h0, hx⟩ j hj _
    have hc : m.gs.count .shared = 0 := by have := h.count; omega
    have a := no_shared_of_count_zero hc hj
    have b := no_excl_of_none h hx hj
    cases hg : m.gs[j] <;> simp_all
  · intro H
    have hall : ∀ j (hj : j < m.gs.length), m.gs[j] = .unlocked := by
      intro j hj
      by_cases hji : j = i
      · subst hji; exact e
      · simpa using H j hj hji
    constructor
    · have : m.gs.count .shared = 0 := by
        apply List.count_eq_zero.mpr
        intro hm
        obtain ⟨j, hj, hjv⟩ := List.getElem_of_mem hm
        have := hall j hj; rw [hjv] at this; cases this
      rw [h.count, this]; rfl
    · cases hx : m.excl with
      | none => rfl
      | some j =>
        have hj := h.excl_lt j hx
        have := (h.excl_iff j hj).mpr hx
        rw [hall j hj] at this; cases this

/-- guard `i` shared: the Go test `sharedN == 1` is the POSIX upgrade rule -/
theorem shared_upgrade_iff {m : Mutex} (h : Inv m) {i : Nat} (hi : i < m.gs.length)
    (e : m.gs[i] = .shared) :
    (m.sharedN = 1) ↔ Posix.canExcl m.gs i = true := by
  unfold Posix.canExcl
  rw [others_iff]
  have ⟨_, hx⟩ := sharedN_pos_of_shared h hi e
  constructor
  · intro h1 j hj hne
    have hc : m.gs.count .shared = 1 := by have := h.count; omega
    have a := count_one_unique hi hj .shared e hc hne
    have b := no_excl_of_none h hx hj
    cases hg : m.gs[j] <;> simp_all
  · intro H
    have hc := count_set_from hi .unlocked .shared e (by decide)
    have h0 : (m.gs.set i .unlocked).count .shared = 0 := by
      apply List.count_eq_zero.mpr
      intro hm
      obtain ⟨j, hj, hjv⟩ := List.getElem_of_mem hm
      have hj' : j < m.gs.length := by simpa using hj
      by_cases hji : j = i
      · subst hji; simp at hjv
      · rw [List.getElem_set_ne (Ne.symm hji)] at hjv
        have := H j hj' hji
        rw [hjv] at this; simp at this
    rw [h.count]; omega

/-- guard `i` not exclusive: `excl == nil` is the POSIX rule for a shared lock -/
theorem excl_none_iff {m : Mutex} (h : Inv m) {i : Nat} (hi : i < m.gs.length)
    (e : m.gs[i] ≠ .exclusive) :
    (m.excl = none) ↔ Posix.canShared m.gs i = true := by
  unfold Posix.canShared
  rw [others_iff]
  constructor
  · intro hx j hj _
    have := no_excl_of_none h hx hj
    simpa using this
  · intro H
    cases hx : m.excl with
    | none => rfl
    | some j =>
      have hj := h.excl_lt j hx
      have hje := (h.excl_iff j hj).mpr hx
      by_cases hji : j = i
      · subst hji; exact absurd hje e
      · have := H j hj hji
        rw [hje] at this; simp at this

/-- holder of the exclusive lock: everybody else is unlocked -/
theorem excl_holder_alone {m : Mutex} (h : Inv m) {i : Nat} (hi : i < m.gs.length)
    (e : m.gs[i] = .exclusive) : Posix.canExcl m.gs i = true ∧ Posix.canShared m.gs i = true := by
  have hx := (h.excl_iff i hi).mp e
  have h0 : m.sharedN = 0 := h.excl_zero (by rw [hx]; simp)
  have hc : m.gs.count .shared = 0 := by have := h.count; omega
  have key : ∀ j (hj : j < m.gs.length), j ≠ i → m.gs[j] = .unlocked := by
    intro j hj hne
    have a := no_shared_of_count_zero hc hj
    have b : m.gs[j] ≠ .exclusive := by
      intro ej
      have := (h.excl_iff j hj).mp ej
      rw [hx] at this; injection this with this; exact hne this.symm
    cases hg : m.gs[j] <;> simp_all
  unfold Posix.canExcl Posix.canShared
  rw [others_iff, others_iff]
  exact ⟨fun j hj hne => by simp [key j hj hne], fun j hj hne => by simp [key j hj hne]⟩

end LiteFSVerif.RWMutex

namespace LiteFSVerif.RWMutex
open LiteFSVerif

theorem cell_eq (m : Mutex) {i : Nat} (hi : i < m.gs.length) :
    m.cell i = { sharedN := m.sharedN, excl := m.excl, gstate := m.gs[i] } := by
  unfold Mutex.cell; rw [getD_eq hi]

theorem put_self (m : Mutex) {i : Nat} (hi : i < m.gs.length) :
    m.put i { sharedN := m.sharedN, excl := m.excl, gstate := m.gs[i] } = m := by
  cases m; simp [Mutex.put]

theorem others_unlocked {m : Mutex} {i : Nat} (hc : Posix.canExcl m.gs i = true)
    {j : Nat} (hj : j < m.gs.length) (hne : j ≠ i) : m.gs[j] = .unlocked := by
  unfold Posix.canExcl at hc; rw [others_iff] at hc
  simpa using hc j hj hne

theorem inv_acquire_excl {m : Mutex} {i : Nat} (hi : i < m.gs.length)
    (hc : Posix.canExcl m.gs i = true) :
    Inv { sharedN := 0, excl := some i, gs := m.gs.set i .exclusive } := by
  refine ⟨?_, ?_, ?_, ?_⟩
  · intro j hj
    have hj' : j < m.gs.length := by simpa using hj
    by_cases e : j = i
    · subst e; simp
    · simp only [List.getElem_set_ne (Ne.symm e)]
      rw [others_unlocked hc hj' e]
      constructor
      · intro h; cases h
      · intro h; injection h with h; exact absurd h.symm e
  · intro j h; injection h with h; subst h; simpa using hi
  · intro _; rfl
  · have : (m.gs.set i .exclusive).count .shared = 0 := by
      apply List.count_eq_zero.mpr
      intro hm
      obtain ⟨j, hj, hjv⟩ := List.getElem_of_mem hm
      have hj' : j < m.gs.length := by simpa using hj
      by_cases e : j = i
      · subst e; simp at hjv
      · rw [List.getElem_set_ne (Ne.symm e), others_unlocked hc hj' e] at hjv; cases hjv
    simp [this]

theorem inv_acquire_shared {m : Mutex} (h : Inv m) {i : Nat} (hi : i < m.gs.length)
    (e : m.gs[i] = .unlocked) (hx : m.excl = none) :
    Inv { sharedN := m.sharedN + 1, excl := none, gs := m.gs.set i .shared } := by
  refine ⟨?_, ?_, ?_, ?_⟩
  · intro j hj
    have hj' : j < m.gs.length := by simpa using hj
    constructor
    · intro hje
      by_cases eji : j = i
      · subst eji; simp at hje
      · rw [List.getElem_set_ne (Ne.symm eji)] at hje
        exact absurd hje (no_excl_of_none h hx hj')
    · intro hh; cases hh
  · intro j hh; cases hh
  · intro hh; exact absurd rfl hh
  · have := count_set_to hi .shared (by rw [e]; decide)
    simp only [this, h.count]; omega

theorem inv_downgrade {m : Mutex} (h : Inv m) {i : Nat} (hi : i < m.gs.length)
    (e : m.gs[i] = .exclusive) :
    Inv { sharedN := 1, excl := none, gs := m.gs.set i .shared } := by
  have ⟨hc, _⟩ := excl_holder_alone h hi e
  have hx := (h.excl_iff i hi).mp e
  have h0 : m.sharedN = 0 := h.excl_zero (by rw [hx]; simp)
  refine ⟨?_, ?_, ?_, ?_⟩
  · intro j hj
    have hj' : j < m.gs.length := by simpa using hj
    constructor
    · intro hje
      by_cases eji : j = i
      · subst eji; simp at hje
      · rw [List.getElem_set_ne (Ne.symm eji), others_unlocked hc hj' eji] at hje; cases hje
    · intro hh; cases hh
  · intro j hh; cases hh
  · intro hh; exact absurd rfl hh
  · have := count_set_to hi .shared (by rw [e]; decide)
    have hcnt := h.count
    simp only [this]; omega

theorem inv_release_shared {m : Mutex} (h : Inv m) {i : Nat} (hi : i < m.gs.length)
    (e : m.gs[i] = .shared) :
    Inv { sharedN := m.sharedN - 1, excl := m.excl, gs := m.gs.set i .unlocked } := by
  have ⟨_, hx⟩ := sharedN_pos_of_shared h hi e
  refine ⟨?_, ?_, ?_, ?_⟩
  · intro j hj
    have hj' : j < m.gs.length := by simpa using hj
    simp only [hx]
    constructor
    · intro hje
      by_cases eji : j = i
      · subst eji; simp at hje
      · rw [List.getElem_set_ne (Ne.symm eji)] at hje
        exact absurd hje (no_excl_of_none h hx hj')
    · intro hh; cases hh
  · intro j hh; simp only [hx] at hh; cases hh
  · intro hh; exact absurd hx hh
  · have := count_set_from hi .unlocked .shared e (by decide)
    have hcnt := h.count
    simp only; omega

theorem inv_release_excl {m : Mutex} (h : Inv m) {i : Nat} (hi : i < m.gs.length)
    (e : m.gs[i] = .exclusive) :
    Inv { sharedN := 0, excl := none, gs := m.gs.set i .unlocked } := by
  have ⟨hc, _⟩ := excl_holder_alone h hi e
  refine ⟨?_, ?_, ?_, ?_⟩
  · intro j hj
    have hj' : j < m.gs.length := by simpa using hj
    constructor
    · intro hje
      by_cases eji : j = i
      · subst eji; simp at hje
      · rw [List.getElem_set_ne (Ne.symm eji), others_unlocked hc hj' eji] at hje; cases hje
    · intro hh; cases hh
  · intro j hh; cases hh
  · intro hh; exact absurd rfl hh
  · have : (m.gs.set i .unlocked).count .shared = 0 := by
      apply List.count_eq_zero.mpr
      intro hm
      obtain ⟨j, hj, hjv⟩ := List.getElem_of_mem hm
      have hj' : j < m.gs.length := by simpa using hj
      by_cases eji : j = i
      · subst eji; simp at hjv
      · rw [List.getElem_set_ne (Ne.symm eji), others_unlocked hc hj' eji] at hjv; cases hjv
    simp [this]

end LiteFSVerif.RWMutex

namespace LiteFSVerif.RWMutex
open LiteFSVerif

theorem step_tryLock {m : Mutex} (h : Inv m) {i : Nat} (hi : i < m.gs.length) :
    Inv (step m (.tryLock i)).1 ∧ (step m (.tryLock i)).1.gs = (Posix.tryExcl m.gs i).1 ∧
    (step m (.tryLock i)).2 = .bool (Posix.tryExcl m.gs i).2 := by
  have hge : ¬ (i ≥ m.gs.length) := by omega
  simp only [step, Op.owner, hge, if_false, cell_eq m hi, Gen.RWMutex.tryLock]
  cases e : m.gs[i] with
  | unlocked =>
    simp only
    by_cases hfree : Posix.canExcl m.gs i = true
    · have ⟨h0, hx⟩ := (unlocked_free_iff h hi e).mpr hfree
      simp only [h0, hx, Posix.tryExcl, hfree, Mutex.put]
      simp
      exact inv_acquire_excl hi hfree
    · have hn : ¬ (m.sharedN = 0 ∧ m.excl = none) := fun hh => hfree ((unlocked_free_iff h hi e).mp hh)
      have hc : ((m.sharedN != 0) || (m.excl != none)) = true := by
        simp only [Bool.or_eq_true, bne_iff_ne, ne_eq]
        by_cases a : m.sharedN = 0
        · right; exact fun b => hn ⟨a, b⟩
        · left; exact a
      simp only [hc, if_true, Posix.tryExcl, hfree]
      rw [← e, put_self m hi]
      exact ⟨h, rfl, by simp⟩
  | shared =>
    simp only
    have ⟨hpos, hx⟩ := sharedN_pos_of_shared h hi e
    by_cases hfree : Posix.canExcl m.gs i = true
    · have h1 := (shared_upgrade_iff h hi e).mpr hfree
      simp only [h1, hx, Posix.tryExcl, hfree, Mutex.put]
      simp
      exact inv_acquire_excl hi hfree
    · have hn : ¬ m.sharedN = 1 := fun hh => hfree ((shared_upgrade_iff h hi e).mp hh)
      have hgt : m.sharedN > 1 := by omega
      simp only [Posix.tryExcl, hfree]
      simp [hgt, hx]
      have hp := put_self m hi
      rw [hx] at hp
      rw [← e, hp]
      exact ⟨h, rfl⟩
  | exclusive =>
    simp only
    have ⟨hc, _⟩ := excl_holder_alone h hi e
    simp only [Posix.tryExcl, hc, if_true]
    rw [← e, put_self m hi]
    refine ⟨h, ?_, ?_⟩ <;> simp [List.set_getElem_self]

theorem step_tryRLock {m : Mutex} (h : Inv m) {i : Nat} (hi : i < m.gs.length) :
    Inv (step m (.tryRLock i)).1 ∧ (step m (.tryRLock i)).1.gs = (Posix.tryShared m.gs i).1 ∧
    (step m (.tryRLock i)).2 = .bool (Posix.tryShared m.gs i).2 := by
  have hge : ¬ (i ≥ m.gs.length) := by omega
  simp only [step, Op.owner, hge, if_false, cell_eq m hi, Gen.RWMutex.tryRLock]
  cases e : m.gs[i] with
  | unlocked =>
    simp only
    have hne : m.gs[i] ≠ .exclusive := by rw [e]; decide
    by_cases hfree : Posix.canShared m.gs i = true
    · have hx := (excl_none_iff h hi hne).mpr hfree
      simp only [hx, Posix.tryShared, hfree, Mutex.put]
      simp
      exact inv_acquire_shared h hi e hx
    · have hn : ¬ m.excl = none := fun hh => hfree ((excl_none_iff h hi hne).mp hh)
      simp only [Posix.tryShared, hfree]
      simp [hn]
      rw [← e, put_self m hi]
      exact ⟨h, rfl⟩
  | shared =>
    simp only
    have hne : m.gs[i] ≠ .exclusive := by rw [e]; decide
    have ⟨_, hx⟩ := sharedN_pos_of_shared h hi e
    have hfree := (excl_none_iff h hi hne).mp hx
    simp only [Posix.tryShared, hfree, if_true]
    rw [← e, put_self m hi]
    refine ⟨h, ?_, ?_⟩ <;> simp [List.set_getElem_self]
  | exclusive =>
    simp only
    have ⟨_, hc⟩ := excl_holder_alone h hi e
    have hx := (h.excl_iff i hi).mp e
    simp only [Posix.tryShared, hc, if_true, hx, Mutex.put]
    simp
    exact inv_downgrade h hi e

theorem step_unlock {m : Mutex} (h : Inv m) {i : Nat} (hi : i < m.gs.length) :
    Inv (step m (.unlock i)).1 ∧ (step m (.unlock i)).1.gs = Posix.release m.gs i ∧
    (step m (.unlock i)).2 = .unit := by
  have hge : ¬ (i ≥ m.gs.length) := by omega
  simp only [step, Op.owner, hge, if_false, cell_eq m hi, Gen.RWMutex.unlock, Posix.release]
  cases e : m.gs[i] with
  | unlocked =>
    simp only
    rw [← e, put_self m hi]
    refine ⟨h, ?_, ?_⟩ <;> simp [List.set_getElem_self]
  | shared =>
    simp only
    have ⟨hpos, hx⟩ := sharedN_pos_of_shared h hi e
    simp [hpos, Mutex.put]
    exact inv_release_shared h hi e
  | exclusive =>
    simp only
    have hx := (h.excl_iff i hi).mp e
    simp [hx, Mutex.put]
    exact inv_release_excl h hi e

end LiteFSVerif.RWMutex

namespace LiteFSVerif.RWMutex
open LiteFSVerif

theorem mutexState_eq {m : Mutex} (h : Inv m) (g : GS) :
    Gen.RWMutex.mutexState { sharedN := m.sharedN, excl := m.excl, gstate := g } = Posix.state m.gs := by
  unfold Gen.RWMutex.mutexState Posix.state
  have hx : (m.excl != none) = m.gs.contains .exclusive := by
    cases hm : m.excl with
    | none =>
      have : GS.exclusive ∉ m.gs := by
        intro hmem
        obtain ⟨j, hj, hjv⟩ := List.getElem_of_mem hmem
        exact no_excl_of_none h hm hj hjv
      simp [this]
    | some j =>
      have hj := h.excl_lt j hm
      have := (h.excl_iff j hj).mpr hm
      have : GS.exclusive ∈ m.gs := this ▸ List.getElem_mem hj
      simp [this]
  have hs : decide (m.sharedN > 0) = m.gs.contains .shared := by
    have hc := h.count
    by_cases hmem : GS.shared ∈ m.gs
    · have := List.count_pos_iff.mpr hmem
      have : m.sharedN > 0 := by omega
      simp [hmem, this]
    · have := List.count_eq_zero.mpr hmem
      have : ¬ m.sharedN > 0 := by omega
      simp [hmem, this]
  simp only [hx, hs]

theorem step_canLock {m : Mutex} (h : Inv m) {i : Nat} (hi : i < m.gs.length) :
    (step m (.canLock i)).1 = m ∧
    (step m (.canLock i)).2 = .query (Posix.canExcl m.gs i) (Posix.state m.gs) := by
  have hge : ¬ (i ≥ m.gs.length) := by omega
  simp only [step, Op.owner, hge, if_false, cell_eq m hi, Gen.RWMutex.canLock]
  cases e : m.gs[i] with
  | unlocked =>
    simp only [mutexState_eq h]
    rw [← e, put_self m hi]
    refine ⟨rfl, ?_⟩
    congr 1
    have := unlocked_free_iff h hi e
    by_cases hf : Posix.canExcl m.gs i = true
    · have ⟨a, b⟩ := this.mpr hf; simp [a, b, hf]
    · have hn : ¬ (m.sharedN = 0 ∧ m.excl = none) := fun hh => hf (this.mp hh)
      have hf' : Posix.canExcl m.gs i = false := by simpa using hf
      rw [hf']
      by_cases a : m.sharedN = 0
      · have : m.excl ≠ none := fun b => hn ⟨a, b⟩
        simp [a, Option.isSome_iff_ne_none.mpr this]
      · simp [a]
  | shared =>
    simp only [mutexState_eq h]
    rw [← e, put_self m hi]
    refine ⟨rfl, ?_⟩
    congr 1
    have := shared_upgrade_iff h hi e
    by_cases hf : Posix.canExcl m.gs i = true
    · have a := this.mpr hf; simp [a, hf]
    · have hn : ¬ m.sharedN = 1 := fun hh => hf (this.mp hh)
      have hf' : Posix.canExcl m.gs i = false := by simpa using hf
      rw [hf']; simp [hn]
  | exclusive =>
    simp only [mutexState_eq h]
    rw [← e, put_self m hi]
    have ⟨hc, _⟩ := excl_holder_alone h hi e
    exact ⟨rfl, by rw [hc]⟩

theorem step_canRLock {m : Mutex} (h : Inv m) {i : Nat} (hi : i < m.gs.length) :
    (step m (.canRLock i)).1 = m ∧
    (step m (.canRLock i)).2 = .bool (Posix.canShared m.gs i) := by
  have hge : ¬ (i ≥ m.gs.length) := by omega
  simp only [step, Op.owner, hge, if_false, cell_eq m hi, Gen.RWMutex.canRLock]
  cases e : m.gs[i] with
  | unlocked =>
    simp only
    rw [← e, put_self m hi]
    refine ⟨rfl, ?_⟩
    congr 1
    have hne : m.gs[i] ≠ .exclusive := by rw [e]; decide
    have := excl_none_iff h hi hne
    by_cases hf : Posix.canShared m.gs i = true
    · have a := this.mpr hf; simp [a, hf]
    · have hn : ¬ m.excl = none := fun hh => hf (this.mp hh)
      have hf' : Posix.canShared m.gs i = false := by simpa using hf
      rw [hf']; simp [Option.isSome_iff_ne_none.mpr hn]
  | shared =>
    simp only
    rw [← e, put_self m hi]
    have hne : m.gs[i] ≠ .exclusive := by rw [e]; decide
    have ⟨_, hx⟩ := sharedN_pos_of_shared h hi e
    have hfree := (excl_none_iff h hi hne).mp hx
    exact ⟨rfl, by rw [hfree]⟩
  | exclusive =>
    simp only
    rw [← e, put_self m hi]
    have ⟨_, hc⟩ := excl_holder_alone h hi e
    exact ⟨rfl, by rw [hc]⟩

end LiteFSVerif.RWMutex
