/- Lemmas about big-endian integers, `readFull`, and the parser combinators. -/
import LiteFSVerif.Base.Bytes

namespace LiteFSVerif

@[simp] theorem be_length (w n : Nat) : (be w n).length = w := by
  induction w with
  | zero => rfl
  | succ w ih => simp [be, ih]

theorem unbeAux_be (w n acc : Nat) : unbeAux acc (be w n) = acc * 256 ^ w + n % 256 ^ w := by
  induction w generalizing acc with
  | zero => simp [be, unbeAux, Nat.mod_one]
  | succ w ih =>
    simp only [be, unbeAux]
    rw [ih]
    have h1 : (UInt8.ofNat (n / 256 ^ w % 256)).toNat = n / 256 ^ w % 256 := by
      simp [UInt8.toNat_ofNat']
    rw [h1, Nat.mod_pow_succ, Nat.pow_succ]
    rw [Nat.add_mul, Nat.mul_assoc, Nat.mul_comm 256 (256 ^ w)]
    have : n / 256 ^ w % 256 * 256 ^ w = 256 ^ w * (n / 256 ^ w % 256) := Nat.mul_comm _ _
    omega

theorem unbe_be {w n : Nat} (h : n < 256 ^ w) : unbe (be w n) = n := by
  unfold unbe; rw [unbeAux_be]; simp [Nat.mod_eq_of_lt h]

theorem readFull_append {n : Nat} {b rest : Bytes} (h : b.length = n) :
    readFull n (b ++ rest) = .ok b rest := by
  unfold readFull
  have : n ≤ (b ++ rest).length := by simp; omega
  simp [← h]

theorem readUint_be {w n : Nat} (h : n < 256 ^ w) (rest : Bytes) :
    readUint w (be w n ++ rest) = .ok n rest := by
  unfold readUint
  rw [readFull_append (be_length w n)]
  simp [unbe_be h]

/-- reading `n` bytes from fewer than `n` bytes -/
theorem readFull_short {n : Nat} {r : Bytes} (h : r.length < n) :
    readFull n r = .err (if r.length = 0 then .eof else .unexpectedEOF) := by
  unfold readFull
  have : ¬ n ≤ r.length := by omega
  simp only [this, if_false]
  split <;> rfl

/-! ### encodings, prefixes -/

/-- `x` is a complete encoding of `v` for parser `p` (whatever follows) -/
def Enc {α} (p : Parser α) (x : Bytes) (v : α) : Prop := ∀ rest, p (x ++ rest) = .ok v rest

/-- every proper prefix of `x` is rejected with io.EOF (only for the empty prefix) or
    io.ErrUnexpectedEOF -/
def PrefErr {α} (p : Parser α) (x : Bytes) : Prop :=
  ∀ k, k < x.length → p (x.take k) = .err (if k = 0 then .eof else .unexpectedEOF)

/-- every proper prefix of `x` is rejected with io.ErrUnexpectedEOF (never a clean end) -/
def PrefErrU {α} (p : Parser α) (x : Bytes) : Prop :=
  ∀ k, k < x.length → p (x.take k) = .err .unexpectedEOF

theorem enc_pure {α} (a : α) : Enc (Parser.pure a) [] a := by intro rest; rfl

theorem prefErrU_nil {α} (p : Parser α) : PrefErrU p [] := by intro k hk; simp at hk

theorem enc_bind {α β} {p : Parser α} {f : α → Parser β} {x y : Bytes} {a : α} {b : β}
    (hp : Enc p x a) (hf : Enc (f a) y b) : Enc (p.bind f) (x ++ y) b := by
  intro rest
  unfold Parser.bind
  rw [List.append_assoc, hp]
  exact hf rest

theorem enc_mapErr {α} {p : Parser α} {g : DecErr → DecErr} {x : Bytes} {a : α}
    (hp : Enc p x a) : Enc (p.mapErr g) x a := by
  intro rest; unfold Parser.mapErr; rw [hp]

theorem prefErrU_mapErr_noEOF {α} {p : Parser α} {x : Bytes} (hp : PrefErr p x) :
    PrefErrU (p.mapErr DecErr.noEOF) x := by
  intro k hk
  unfold Parser.mapErr
  rw [hp k hk]
  by_cases h0 : k = 0 <;> simp [h0, DecErr.noEOF]

theorem take_append_lt {x y : Bytes} {k : Nat} (h : k < x.length) : (x ++ y).take k = x.take k := by
  rw [List.take_append_of_le_length (by omega)]

theorem take_append_ge {x y : Bytes} {k : Nat} (h : x.length ≤ k) :
    (x ++ y).take k = x ++ y.take (k - x.length) := by
  rw [List.take_append]
  simp [List.take_of_length_le h]

theorem prefErrU_bind {α β} {p : Parser α} {f : α → Parser β} {x y : Bytes} {a : α}
    (he : Enc p x a) (hp : PrefErrU p x) (hf : PrefErrU (f a) y) : PrefErrU (p.bind f) (x ++ y) := by
  intro k hk
  unfold Parser.bind
  by_cases h : k < x.length
  · rw [take_append_lt h, hp k h]
  · have h' : x.length ≤ k := by omega
    rw [take_append_ge h', he]
    exact hf (k - x.length) (by simp at hk; omega)

/-- first component may end cleanly (only on the empty prefix); it is non-empty, so every later
    truncation is unexpected -/
theorem prefErr_bind {α β} {p : Parser α} {f : α → Parser β} {x y : Bytes} {a : α}
    (he : Enc p x a) (hp : PrefErr p x) (hx : x ≠ []) (hf : PrefErrU (f a) y) :
    PrefErr (p.bind f) (x ++ y) := by
  intro k hk
  unfold Parser.bind
  by_cases h : k < x.length
  · rw [take_append_lt h, hp k h]
  · have h' : x.length ≤ k := by omega
    have hxl : 0 < x.length := List.length_pos_iff.mpr hx
    rw [take_append_ge h', he]
    have : ¬ k = 0 := by omega
    simp only [this, if_false]
    exact hf (k - x.length) (by simp at hk; omega)

theorem enc_readFull {n : Nat} {b : Bytes} (h : b.length = n) : Enc (readFull n) b b :=
  fun _ => readFull_append h

theorem prefErr_readFull {n : Nat} {b : Bytes} (h : b.length = n) : PrefErr (readFull n) b := by
  intro k hk
  have hl : (b.take k).length = k := by simp; omega
  rw [readFull_short (by omega), hl]

theorem enc_readUint {w n : Nat} (h : n < 256 ^ w) : Enc (readUint w) (be w n) n :=
  fun rest => readUint_be h rest

theorem prefErr_readUint (w n : Nat) : PrefErr (readUint w) (be w n) := by
  intro k hk
  unfold readUint
  rw [prefErr_readFull (be_length w n) k hk]


theorem unbeAux_eq (acc : Nat) (b : Bytes) : unbeAux acc b = acc * 256 ^ b.length + unbeAux 0 b := by
  induction b generalizing acc with
  | nil => simp [unbeAux]
  | cons x xs ih =>
    simp only [unbeAux, List.length_cons]
    rw [ih (acc * 256 + x.toNat), ih (0 * 256 + x.toNat)]
    rw [Nat.pow_succ, Nat.add_mul]
    simp [Nat.mul_assoc, Nat.mul_comm 256]
    omega

theorem unbe_lt (b : Bytes) : unbe b < 256 ^ b.length := by
  unfold unbe
  induction b with
  | nil => simp [unbeAux]
  | cons x xs ih =>
    simp only [unbeAux, List.length_cons]
    rw [unbeAux_eq]
    have hx : x.toNat < 256 := x.toNat_lt
    rw [Nat.pow_succ]
    have : (0 * 256 + x.toNat) * 256 ^ xs.length ≤ 255 * 256 ^ xs.length := Nat.mul_le_mul_right _ (by omega)
    omega

theorem be_mod (w n : Nat) : be w (n % 256 ^ w) = be w n := by
  suffices H : ∀ w' , w' ≤ w → be w' (n % 256 ^ w) = be w' n from H w (Nat.le_refl _)
  intro w' hw
  induction w' with
  | zero => rfl
  | succ v ih =>
    simp only [be]
    rw [ih (by omega)]
    congr 2
    -- (n % 256^w) / 256^v % 256 = n / 256^v % 256   since v+1 ≤ w
    have : 256 ^ w = 256 ^ v * 256 ^ (w - v) := by rw [← Nat.pow_add]; congr 1; omega
    rw [this, Nat.mod_mul_right_div_self]
    have h2 : 256 ^ (w - v) = 256 * 256 ^ (w - v - 1) := by
      rw [← Nat.pow_succ']; congr 1; omega
    rw [h2, Nat.mod_mul_right_mod]

theorem be_unbe (b : Bytes) : be b.length (unbe b) = b := by
  induction b with
  | nil => rfl
  | cons x xs ih =>
    have hlt := unbe_lt xs
    have hx : x.toNat < 256 := x.toNat_lt
    have hval : unbe (x :: xs) = x.toNat * 256 ^ xs.length + unbe xs := by
      unfold unbe; simp only [unbeAux]; rw [unbeAux_eq]; simp
    simp only [List.length_cons, be]
    rw [hval]
    have h1 : (x.toNat * 256 ^ xs.length + unbe xs) / 256 ^ xs.length = x.toNat := by
      rw [Nat.add_comm, Nat.add_mul_div_right _ _ (Nat.pow_pos (by decide))]
      rw [Nat.div_eq_of_lt hlt]; simp
    rw [h1, Nat.mod_eq_of_lt hx]
    have h2 : be xs.length (x.toNat * 256 ^ xs.length + unbe xs) = be xs.length (unbe xs) := by
      rw [← be_mod, Nat.add_comm, Nat.add_mul_mod_self_right, Nat.mod_eq_of_lt hlt]
    rw [h2, ih]
    simp


end LiteFSVerif
