/-
  Journal rollback on arbitrary bytes never panics: every failure of `rollbackJournal` (model of
  `DB.rollbackJournal`) is one of three ordinary errors.
-/
import LiteFSVerif.Proofs.RecoveryPos

namespace LiteFSVerif.Recovery
open LiteFSVerif LiteFSVerif.Engine LiteFSVerif.Sqlite LiteFSVerif.BA LiteFSVerif.Cks

theorem nextAt_ok_pageSize (r : JR) (j : ByteArray) (off : Nat) :
    ∀ r' : JR, r.nextAt j off = .ok (.ok r') → r'.pageSize ≠ 0 := by
  unfold JR.nextAt
  lift_lets
  intro r0 hdr sector ps r1 r2
  by_cases h1 : j.size < off + 28
  · rw [if_pos h1]; intro r' h; cases h
  rw [if_neg h1]
  by_cases h2 : BA.isZero hdr = true
  · rw [if_pos h2]; intro r' h; cases h
  rw [if_neg h2]
  by_cases h3 : (decide (off > 0) && hdr.extract 0 8 != Engine.journalMagic) = true
  · rw [if_pos h3]; intro r' h; cases h
  rw [if_neg h3]
  by_cases h4 : (decide (off = 0) && badSector sector) = true
  · rw [if_pos h4]; intro r' h; cases h
  rw [if_neg h4]
  by_cases h5 : (decide (off = 0) && decide (ps ≠ r1.pageSize)) = true
  · rw [if_pos h5]; intro r' h; cases h
  rw [if_neg h5]
  by_cases h6 : r1.pageSize = 0
  · rw [if_pos h6]; intro r' h; cases h
  rw [if_neg h6]
  by_cases h7 : off + r2.sectorSize > j.size
  · rw [if_pos h7]; intro r' h; cases h
  rw [if_neg h7]
  intro r' h
  injection h with h
  injection h with h
  rw [← h]
  exact h6

theorem next_ok_pageSize (r : JR) (j : ByteArray) (r' : JR) (h : r.next j = .ok (.ok r')) : r'.pageSize ≠ 0 := by
  unfold JR.next at h
  split at h
  · cases h
  · exact nextAt_ok_pageSize r j _ r' h

theorem lockPgno_ok (ps : Nat) (h : ps ≠ 0) : lockPgno ps = .ok (1073741824 / ps + 1) := by
  unfold lockPgno; rw [if_neg h]

theorem cacheSet_ok (c : Cache) (ps pgno : Nat) (chk : Chk) (hps : ps ≠ 0) (hp : pgno ≠ 0) :
    ∃ c', c.set ps pgno chk = .ok c' := by
  unfold Cache.set
  simp only [hp, if_false, lockPgno_ok ps hps, bind, Except.bind, pure, Except.pure]
  exact ⟨_, rfl⟩

/-- `writeDatabasePage` cannot panic when the page size is known and the page number is not zero
    (a wrong data length is an ordinary error) -/
theorem writeDatabasePage_no_panic (s : Eng) (pgno : Nat) (d : ByteArray) (hps : s.pageSize ≠ 0) (hp : pgno ≠ 0) :
    (∃ s', writeDatabasePage s pgno d = .ok s') ∨ (∃ s', writeDatabasePage s pgno d = .error (s', .err)) := by
  unfold writeDatabasePage
  rw [ensure_pos (by simpa using hps)]
  by_cases hsz : d.size ≠ s.pageSize
  · right
    simp only [bind, Except.bind, ensure_neg (show ¬ ¬ (d.size ≠ s.pageSize) from fun c => c hsz)]
    exact ⟨_, rfl⟩
  · left
    obtain ⟨c', hc⟩ := cacheSet_ok s.ck s.pageSize pgno (pageChk pgno d) hps hp
    simp only [bind, Except.bind, ensure_pos hsz, ensure_pos (show ¬ (pgno = 0) from hp), hc, liftCk, pure, Except.pure]
    exact ⟨_, rfl⟩

/-- what the rollback's error mapping does with a result that is not a panic -/
def LiftOK (liftM : M Eng → Except String Eng) : Prop :=
  (∀ a, liftM (.ok a) = .ok a) ∧ (∀ s', liftM (.error (s', .err)) = .error "write to database")

theorem frames_no_panic (j : ByteArray) (liftM : M Eng → Except String Eng) (hl : LiftOK liftM) :
    ∀ (fuel : Nat) (r : JR) (s : Eng), s.pageSize ≠ 0 →
      (∃ out, rollbackJournal.segs.frames j liftM fuel r s = .ok out ∧ out.2.pageSize = s.pageSize) ∨
      rollbackJournal.segs.frames j liftM fuel r s = .error "write to database" := by
  intro fuel
  induction fuel with
  | zero =>
    intro r s _
    unfold rollbackJournal.segs.frames
    exact Or.inl ⟨_, rfl, rfl⟩
  | succ n ih =>
    intro r s hps
    unfold rollbackJournal.segs.frames
    split
    · exact Or.inl ⟨_, rfl, rfl⟩
    · rename_i r1 pgno data _
      by_cases hp : pgno = 0 ∨ pgno = 1073741824 / s.pageSize + 1
      · rw [if_pos hp]; exact Or.inl ⟨_, rfl, rfl⟩
      · rw [if_neg hp]
        by_cases hc : pgno > r1.commit
        · rw [if_pos hc]; exact ih r1 s hps
        · rw [if_neg hc]
          have hp0 : pgno ≠ 0 := fun e => hp (Or.inl e)
          rcases writeDatabasePage_no_panic s pgno data hps hp0 with ⟨s1, h1⟩ | ⟨s1, h1⟩
          · have hps1 : s1.pageSize = s.pageSize := (writeDatabasePage_bytes _ _ _ _ h1).1
            simp only [bind, Except.bind, h1, hl.1]
            rcases ih r1 s1 (by rw [hps1]; exact hps) with ⟨out, ho, hop⟩ | he
            · exact Or.inl ⟨out, ho, by rw [hop, hps1]⟩
            · exact Or.inr he
          · right
            simp only [bind, Except.bind, h1, hl.2]

theorem nextAt_eof_isValid (r : JR) (j : ByteArray) (off : Nat) :
    ∀ r' : JR, r.nextAt j off = .ok (.eof r') → r'.isValid = r.isValid := by
  unfold JR.nextAt
  lift_lets
  intro r0 hdr sector ps r1 r2
  have hr1 : r1.isValid = r.isValid := by
    show (if off = 0 then _ else r0).isValid = _
    split <;> rfl
  by_cases h1 : j.size < off + 28
  · rw [if_pos h1]; intro r' h; injection h with h; injection h with h; rw [← h]
  rw [if_neg h1]
  by_cases h2 : BA.isZero hdr = true
  · rw [if_pos h2]; intro r' h; injection h with h; injection h with h; rw [← h]
  rw [if_neg h2]
  by_cases h3 : (decide (off > 0) && hdr.extract 0 8 != Engine.journalMagic) = true
  · rw [if_pos h3]; intro r' h; injection h with h; injection h with h; rw [← h]
  rw [if_neg h3]
  by_cases h4 : (decide (off = 0) && badSector sector) = true
  · rw [if_pos h4]; intro r' h; injection h with h; injection h with h; rw [← h]
  rw [if_neg h4]
  by_cases h5 : (decide (off = 0) && decide (ps ≠ r1.pageSize)) = true
  · rw [if_pos h5]; intro r' h; cases h
  rw [if_neg h5]
  by_cases h6 : r1.pageSize = 0
  · rw [if_pos h6]; intro r' h; injection h with h; injection h with h; rw [← h]; exact hr1
  rw [if_neg h6]
  by_cases h7 : off + r2.sectorSize > j.size
  · rw [if_pos h7]; intro r' h; injection h with h; injection h with h; rw [← h]; exact hr1
  rw [if_neg h7]
  intro r' h
  cases h

theorem next_eof_isValid (r : JR) (j : ByteArray) (r' : JR) (h : r.next j = .ok (.eof r')) : r'.isValid = r.isValid := by
  unfold JR.next at h
  split at h
  · cases h
  · exact nextAt_eof_isValid r j _ r' h

theorem readFrame_isValid (r : JR) (j : ByteArray) : (r.readFrame j).1.isValid = r.isValid := by
  unfold JR.readFrame
  by_cases h1 : r.frameN = 0
  · rw [if_pos h1]
  · rw [if_neg h1]
    simp only
    by_cases h2 : j.size < r.offset + (r.pageSize + 8)
    · rw [if_pos h2]
    · rw [if_neg h2]
      split <;> rfl

theorem resetAfter_ok (c : Cache) (ps commit : Nat) (hps : ps ≠ 0) : ∃ c', c.resetAfter ps commit = .ok c' := by
  unfold Cache.resetAfter
  generalize (List.range (c.pages.length - commit)) = l
  induction l generalizing c with
  | nil => exact ⟨c, rfl⟩
  | cons i rest ih =>
    obtain ⟨c1, h1⟩ := cacheSet_ok c ps (commit + i + 1) 0 hps (by omega)
    obtain ⟨c2, h2⟩ := ih c1
    refine ⟨c2, ?_⟩
    simp only [List.foldlM_cons, bind, Except.bind, h1]
    exact h2

theorem truncateDatabaseFile_ok (s : Eng) (n : Nat) (hps : s.pageSize ≠ 0) :
    ∃ s', truncateDatabaseFile s n = .ok s' := by
  unfold truncateDatabaseFile
  obtain ⟨c', hc⟩ := resetAfter_ok s.ck s.pageSize n hps
  simp only [bind, Except.bind, hc, liftCk, pure, Except.pure]
  exact ⟨_, rfl⟩

end LiteFSVerif.Recovery

namespace LiteFSVerif.Recovery
open LiteFSVerif LiteFSVerif.Engine LiteFSVerif.Sqlite LiteFSVerif.BA LiteFSVerif.Cks

/-- an engine result that is not a panic -/
def NoPanic {α} (x : M α) : Prop := ∀ s' m, x ≠ .error (s', .panic m)

theorem writeDatabasePage_any (s : Eng) (pgno : Nat) (d : ByteArray) (hps : s.pageSize ≠ 0) :
    (∃ s', writeDatabasePage s pgno d = .ok s' ∧ s'.pageSize = s.pageSize) ∨
    (∃ s', writeDatabasePage s pgno d = .error (s', .err)) := by
  by_cases hp : pgno = 0
  · right
    unfold writeDatabasePage
    rw [ensure_pos (by simpa using hps)]
    by_cases hsz : d.size ≠ s.pageSize
    · simp only [bind, Except.bind, ensure_neg (show ¬ ¬ (d.size ≠ s.pageSize) from fun c => c hsz)]
      exact ⟨_, rfl⟩
    · simp only [bind, Except.bind, ensure_pos hsz, ensure_neg (show ¬ ¬ (pgno = 0) from fun c => c hp)]
      exact ⟨_, rfl⟩
  · rcases writeDatabasePage_no_panic s pgno d hps hp with ⟨s', h⟩ | h
    · exact Or.inl ⟨s', h, (writeDatabasePage_bytes _ _ _ _ h).1⟩
    · exact Or.inr h

theorem foldlM_offs_no_panic (wal : ByteArray) : ∀ (offs : List (Nat × Nat)) (s : Eng), s.pageSize ≠ 0 →
    (∃ s', offs.foldlM (fun (s : Eng) e => writeDatabasePage s e.1 (wal.extract (e.2 + 24) (e.2 + 24 + s.pageSize))) s = (.ok s' : M Eng) ∧
        s'.pageSize = s.pageSize) ∨
    (∃ s', offs.foldlM (fun (s : Eng) e => writeDatabasePage s e.1 (wal.extract (e.2 + 24) (e.2 + 24 + s.pageSize))) s = (.error (s', .err) : M Eng)) := by
  intro offs
  induction offs with
  | nil => intro s _; exact Or.inl ⟨s, rfl, rfl⟩
  | cons e rest ih =>
    intro s hps
    simp only [List.foldlM_cons]
    rcases writeDatabasePage_any s e.1 (wal.extract (e.2 + 24) (e.2 + 24 + s.pageSize)) hps with ⟨s1, h1, hp1⟩ | ⟨s1, h1⟩
    · simp only [bind, Except.bind, h1]
      rcases ih s1 (by rw [hp1]; exact hps) with ⟨s2, h2, hp2⟩ | ⟨s2, h2⟩
      · exact Or.inl ⟨s2, h2, by rw [hp2, hp1]⟩
      · exact Or.inr ⟨s2, h2⟩
    · right
      simp only [bind, Except.bind, h1]
      exact ⟨_, rfl⟩

theorem M_bind_error {α β} {x : M α} {f : α → M β} {e : Eng × Res} (h : (x >>= f) = .error e) :
    x = .error e ∨ ∃ a, x = .ok a ∧ f a = .error e := by
  cases x with
  | error e' => simp only [bind, Except.bind] at h; injection h with h; exact Or.inl (by rw [h])
  | ok a => exact Or.inr ⟨a, rfl, h⟩

theorem truncateWAL_no_panic (s : Eng) (n : Nat) : NoPanic (truncateWAL s n) := by
  intro s' m h
  unfold truncateWAL at h
  by_cases h1 : n ≠ 0
  · simp [ensure, h1, fail, bind, Except.bind] at h
  · by_cases h2 : s.wal.isNone = true
    · simp [ensure, h1, h2, fail, bind, Except.bind, pure, Except.pure] at h
    · simp [ensure, h1, h2, fail, bind, Except.bind, pure, Except.pure] at h

/-- `CheckpointNoLock` on ARBITRARY WAL bytes never panics when the database's page size is a
    non-zero multiple of 8 (every valid page size): it succeeds or fails with an ordinary error -/
theorem checkpointNoLock_no_panic (s : Eng) (hps : s.pageSize ≠ 0) (h8 : s.pageSize % 8 = 0) :
    NoPanic (checkpointNoLock s) := by
  intro s' m h
  unfold checkpointNoLock at h
  by_cases h1 : s.dbFile.isNone = true
  · simp [h1, pure, Except.pure] at h
  · simp only [h1, Bool.false_eq_true, if_false] at h
    by_cases h2 : s.wal.isNone = true
    · simp [h2, pure, Except.pure] at h
    · simp only [h2, Bool.false_eq_true, if_false] at h
      obtain ⟨oc, hoc⟩ := walPageOffsets_total (s.wal.getD ByteArray.empty) s.pageSize h8
      obtain ⟨offs, commit⟩ := oc
      simp only [bind, Except.bind, hoc, liftCk, pure, Except.pure] at h
      by_cases he : offs.isEmpty = true
      · simp only [he, if_true] at h
        rcases M_bind_error h with hx | ⟨a, _, hx⟩
        · exact truncateWAL_no_panic _ _ _ _ hx
        · simp [pure, Except.pure] at hx
      · simp only [he, Bool.false_eq_true, if_false] at h
        rcases foldlM_offs_no_panic (s.wal.getD ByteArray.empty) offs s hps with ⟨s1, hf, hp1⟩ | ⟨s1, hf⟩
        · simp only [hf] at h
          obtain ⟨s2, ht⟩ := truncateDatabaseFile_ok s1 commit (by rw [hp1]; exact hps)
          simp only [ht] at h
          rcases M_bind_error h with hx | ⟨a, _, hx⟩
          · exact truncateWAL_no_panic _ _ _ _ hx
          · simp [pure, Except.pure] at hx
        · simp only [hf] at h
          cases h

end LiteFSVerif.Recovery
