/-
  The transaction log of an engine state as an invariant: one chain of files that ends at the
  node's position, with the files marked old forming a prefix.  Preserved by every operation that
  touches the log: an extending file (journal commit, WAL commit, drop tombstone, received
  incremental file, import), a snapshot replacing the log, retention.
-/
import LiteFSVerif.Proofs.Engine

namespace LiteFSVerif.Engine
open LiteFSVerif

/-- adjacent files: next.min = prev.max + 1 and next.pre = prev.post -/
def ChainL : List LTXFile → Prop
  | [] => True
  | [_] => True
  | a :: b :: rest => b.minTxid = a.maxTxid + 1 ∧ b.pre = a.post ∧ ChainL (b :: rest)

/-- every file covers a non-empty TXID range -/
def RangesOK (l : List LTXFile) : Prop := ∀ f ∈ l, 1 ≤ f.minTxid ∧ f.minTxid ≤ f.maxTxid

structure LogInv (s : Eng) : Prop where
  chain : ChainL s.ltx
  ranges : RangesOK s.ltx
  last : ∀ f, s.ltx.getLast? = some f → f.maxTxid = s.posTxid ∧ f.post = s.posChk

theorem chainL_tail {a : LTXFile} {l : List LTXFile} (h : ChainL (a :: l)) : ChainL l := by
  cases l with
  | nil => trivial
  | cons b rest => exact h.2.2

/-- along a chain with non-empty ranges every file's max is at most the last file's max, and
    mins are below any later min -/
theorem chain_max_le_last : ∀ (l : List LTXFile), ChainL l → RangesOK l →
    ∀ z, l.getLast? = some z → ∀ f ∈ l, f.maxTxid ≤ z.maxTxid := by
  intro l
  induction l with
  | nil => intro _ _ z hz; simp at hz
  | cons a rest ih =>
    intro hc hr z hz f hf
    cases rest with
    | nil =>
      simp at hz hf
      subst hz; subst hf; exact Nat.le_refl _
    | cons b rest' =>
      have hz' : (b :: rest').getLast? = some z := by simpa using hz
      have hr' : RangesOK (b :: rest') := fun g hg => hr g (by simp [hg])
      have hrest := ih (chainL_tail hc) hr' z hz'
      rcases List.mem_cons.mp hf with e | e
      · subst e
        have hb := hrest b (by simp)
        have := hc.1
        have := (hr b (by simp)).2
        omega
      · exact hrest f e

theorem chainL_append (l : List LTXFile) (f : LTXFile) (hc : ChainL l)
    (hx : ∀ z, l.getLast? = some z → f.minTxid = z.maxTxid + 1 ∧ f.pre = z.post) : ChainL (l ++ [f]) := by
  induction l with
  | nil => trivial
  | cons a rest ih =>
    cases rest with
    | nil =>
      have := hx a (by simp)
      exact ⟨this.1, this.2, trivial⟩
    | cons b rest' =>
      refine ⟨hc.1, hc.2.1, ?_⟩
      apply ih hc.2.2
      intro z hz
      apply hx z
      simpa using hz

/-- inserting a file whose minimum TXID is above every file of the log appends it -/
theorem addLTX_append (l : List LTXFile) (f : LTXFile) (h : ∀ g ∈ l, g.minTxid < f.minTxid) :
    addLTX l f = l ++ [f] := by
  unfold addLTX
  have hfilter : l.filter (fun g => !(g.minTxid == f.minTxid && g.maxTxid == f.maxTxid)) = l := by
    apply List.filter_eq_self.mpr
    intro g hg
    have := h g hg
    have hne : (g.minTxid == f.minTxid) = false := by simp; omega
    simp [hne]
  rw [hfilter]
  clear hfilter
  induction l with
  | nil => rfl
  | cons a rest ih =>
    have ha := h a (by simp)
    have h1 : ¬ (f.minTxid < a.minTxid) := by omega
    have h2 : (f.minTxid == a.minTxid) = false := by simp; omega
    simp only [addLTX.ins, h1, h2, decide_false, Bool.false_and, Bool.or_false, Bool.false_eq_true, if_false, List.cons_append]
    rw [ih (fun g hg => h g (by simp [hg]))]

/-- a file that extends the position keeps the invariant -/
theorem LogInv.extend {s s' : Eng} (hinv : LogInv s) (f : LTXFile)
    (h1 : s'.ltx = addLTX s.ltx f) (h2 : f.minTxid = s.posTxid + 1) (h3 : f.pre = s.posChk)
    (h4 : s'.posTxid = f.maxTxid) (h5 : s'.posChk = f.post) (h6 : f.minTxid ≤ f.maxTxid) : LogInv s' := by
  have hbelow : ∀ g ∈ s.ltx, g.minTxid < f.minTxid := by
    intro g hg
    cases hl : s.ltx.getLast? with
    | none =>
      have : s.ltx = [] := by simpa using hl
      rw [this] at hg; simp at hg
    | some z =>
      have hz := hinv.last z hl
      have hmax := chain_max_le_last s.ltx hinv.chain hinv.ranges z hl g hg
      have := (hinv.ranges g hg).2
      omega
  have happ := addLTX_append s.ltx f hbelow
  refine ⟨?_, ?_, ?_⟩
  · rw [h1, happ]
    apply chainL_append s.ltx f hinv.chain
    intro z hz
    have := hinv.last z hz
    exact ⟨by omega, by rw [h3, this.2]⟩
  · rw [h1, happ]
    intro g hg
    rcases List.mem_append.mp hg with e | e
    · exact hinv.ranges g e
    · simp at e; subst e; exact ⟨by omega, h6⟩
  · intro g hg
    rw [h1, happ] at hg
    simp at hg
    subst hg
    exact ⟨h4.symm, h5.symm⟩

/-- every file of a log that satisfies the invariant lies below a file that extends the position -/
theorem LogInv.below {s : Eng} (hinv : LogInv s) (f : LTXFile) (h2 : f.minTxid = s.posTxid + 1) :
    ∀ g ∈ s.ltx, g.minTxid < f.minTxid := by
  intro g hg
  cases hl : s.ltx.getLast? with
  | none =>
    have : s.ltx = [] := by simpa using hl
    rw [this] at hg; simp at hg
  | some z =>
    have hz := hinv.last z hl
    have hmax := chain_max_le_last s.ltx hinv.chain hinv.ranges z hl g hg
    have := (hinv.ranges g hg).2
    omega

/-- a snapshot replacing the log keeps the invariant -/
theorem LogInv.snapshot {s' : Eng} (f : LTXFile) (h1 : s'.ltx = [f]) (h2 : 1 ≤ f.minTxid) (h3 : f.minTxid ≤ f.maxTxid)
    (h4 : s'.posTxid = f.maxTxid) (h5 : s'.posChk = f.post) : LogInv s' := by
  refine ⟨by rw [h1]; trivial, ?_, ?_⟩
  · rw [h1]; intro g hg; simp at hg; subst hg; exact ⟨h2, h3⟩
  · intro g hg; rw [h1] at hg; simp at hg; subst hg; exact ⟨h4.symm, h5.symm⟩

theorem chainL_drop (l : List LTXFile) (k : Nat) (h : ChainL l) : ChainL (l.drop k) := by
  induction k generalizing l with
  | zero => simpa using h
  | succ k ih =>
    cases l with
    | nil => trivial
    | cons a rest => simpa using ih rest (chainL_tail h)

/-- removing a prefix that leaves the newest file keeps the invariant -/
theorem LogInv.dropPrefix {s s' : Eng} (hinv : LogInv s) (k : Nat) (hk : k < s.ltx.length ∨ s.ltx = [])
    (h1 : s'.ltx = s.ltx.drop k) (h2 : s'.posTxid = s.posTxid) (h3 : s'.posChk = s.posChk) : LogInv s' := by
  refine ⟨by rw [h1]; exact chainL_drop _ k hinv.chain, ?_, ?_⟩
  · rw [h1]; intro g hg; exact hinv.ranges g (List.mem_of_mem_drop hg)
  · intro g hg
    rw [h1] at hg
    have : s.ltx.getLast? = some g := by
      rcases hk with hk | hk
      · rw [List.getLast?_drop] at hg
        simpa [Nat.not_le.mpr hk] using hg
      · rw [hk] at hg; simp at hg
    rw [h2, h3]
    exact hinv.last g this

theorem LogInv.init : LogInv {} := ⟨trivial, fun _ h => by simp at h, fun _ h => by simp at h⟩

end LiteFSVerif.Engine

namespace LiteFSVerif.Engine
open LiteFSVerif

/-! ### `ApplyLTXNoLock` does not touch the log -/

theorem liftCk_ok' {α} {s : Eng} {x : Except String α} {a : α} (h : liftCk s x = .ok a) : x = .ok a := by
  unfold liftCk at h
  cases x with
  | ok v => simp [pure, Except.pure] at h; rw [h]
  | error m => simp only at h; split at h <;> simp [fail] at h

theorem writeDatabasePage_ltx (s s' : Eng) (pgno : Nat) (d : ByteArray) (h : writeDatabasePage s pgno d = .ok s') :
    s'.ltx = s.ltx := by
  unfold writeDatabasePage at h
  obtain ⟨_, _, h⟩ := M_bind_ok h
  obtain ⟨_, _, h⟩ := M_bind_ok h
  obtain ⟨_, _, h⟩ := M_bind_ok h
  obtain ⟨_, _, h⟩ := M_bind_ok h
  simp only [pure, Except.pure] at h
  injection h with h
  subst h
  rfl

theorem truncateDatabaseFile_ltx (s s' : Eng) (n : Nat) (h : truncateDatabaseFile s n = .ok s') : s'.ltx = s.ltx := by
  unfold truncateDatabaseFile at h
  obtain ⟨_, _, h⟩ := M_bind_ok h
  simp only [pure, Except.pure] at h
  injection h with h
  subst h
  rfl

theorem foldlM_pages_ltx (f : LTXFile) : ∀ (pages : List (Nat × ByteArray)) (st st' : Eng × Bool),
    pages.foldlM (fun (st : Eng × Bool) p => do
      let (s, wm) := st
      ensure s (¬ (p.2.size ≠ f.pageSize)) .err
      let wm := if p.1 = 1 then (BA.getD p.2 18 == 2 && BA.getD p.2 19 == 2) else wm
      let s ← writeDatabasePage s p.1 p.2
      pure (s, wm)) st = (.ok st' : M (Eng × Bool)) → st'.1.ltx = st.1.ltx := by
  intro pages
  induction pages with
  | nil =>
    intro st st' h
    simp only [List.foldlM_nil, pure, Except.pure] at h
    injection h with h; rw [h]
  | cons p rest ih =>
    intro st st' h
    simp only [List.foldlM_cons] at h
    obtain ⟨st1, h1, h2⟩ := M_bind_ok h
    have := ih st1 st' h2
    rw [this]
    obtain ⟨_, _, h1⟩ := M_bind_ok h1
    obtain ⟨s1, hw, h1⟩ := M_bind_ok h1
    simp only [pure, Except.pure] at h1
    injection h1 with h1
    subst h1
    exact writeDatabasePage_ltx _ _ _ _ hw

end LiteFSVerif.Engine

namespace LiteFSVerif.Engine
open LiteFSVerif

/-- `ApplyLTXNoLock`: the log is untouched, the position becomes the file's (max TXID, post-apply
    checksum) -/
theorem applyLTX_frame (s s' : Eng) (f : LTXFile) (fatal : Bool) (h : applyLTX s f fatal = .ok s') :
    s'.ltx = s.ltx ∧ s'.posTxid = f.maxTxid ∧ s'.posChk = f.post := by
  unfold applyLTX at h
  simp only at h
  split at h
  · rename_i a heq
    injection h with h
    subst h
    obtain ⟨r1, hfold, h2⟩ := M_bind_ok heq
    have hl1 := foldlM_pages_ltx f f.pages _ r1 hfold
    obtain ⟨r2, hbr, h2⟩ := M_bind_ok h2
    obtain ⟨r3, _, h2⟩ := M_bind_ok h2
    obtain ⟨_, _, h2⟩ := M_bind_ok h2
    simp only [pure, Except.pure] at h2
    injection h2 with h2
    subst h2
    refine ⟨?_, rfl, rfl⟩
    -- the branch after the page loop
    have hl2 : r2.1.ltx = r1.1.ltx := by
      split at hbr
      · obtain ⟨s2, ht, hbr⟩ := M_bind_ok hbr
        simp only [pure, Except.pure] at hbr
        injection hbr with hbr
        subst hbr
        exact truncateDatabaseFile_ltx _ _ _ ht
      · simp only [pure, Except.pure] at hbr
        injection hbr with hbr
        subst hbr
        rfl
    show r2.1.ltx = s.ltx
    rw [hl2, hl1]
    split <;> (split <;> rfl)
  · cases h
  · cases h

end LiteFSVerif.Engine

namespace LiteFSVerif.Engine
open LiteFSVerif LiteFSVerif.BA LiteFSVerif.Cks

/-! ### what a rollback-journal commit captures -/

/-- the page loop of `CommitJournal` collects, for every page number of the list except the lock
    page, the page's current bytes in the database file, in list order -/
theorem journalPages_spec (s : Eng) (dbf : ByteArray) (txid commit lock : Nat) :
    ∀ (pgnos : List Nat) (acc : List (Nat × ByteArray)) (prev : Nat) (wm : Bool) (r : List (Nat × ByteArray) × Nat × Bool),
    pgnos.foldlM (fun (st : List (Nat × ByteArray) × Nat × Bool) pgno => do
      let (pages, prev, wm) := st
      if pgno = lock then pure st else
      let off := (pgno - 1) * s.pageSize
      ensure s (¬ (dbf.size < off + s.pageSize)) .err
      let buf := dbf.extract off (off + s.pageSize)
      ensure s (¬ (!encodePageOK txid commit s.pageSize prev pgno)) .err
      let wm := if pgno = 1 && getD buf 18 == 2 && getD buf 19 == 2 then true else wm
      let (c, ok) ← liftCk s (s.ck.pageChecksum s.w.chksums s.pageSize pgno commit [])
      ensure s (¬ (!ok)) .err
      ensure s (¬ (pageChk pgno buf != c)) .err
      pure (pages ++ [(pgno, buf)], pgno, wm)) (acc, prev, wm) = (.ok r : M _) →
    r.1 = acc ++ (pgnos.filter (· ≠ lock)).map (fun p => (p, dbf.extract ((p - 1) * s.pageSize) ((p - 1) * s.pageSize + s.pageSize))) := by
  intro pgnos
  induction pgnos with
  | nil =>
    intro acc prev wm r h
    simp only [List.foldlM_nil, pure, Except.pure] at h
    injection h with h
    subst h
    simp
  | cons p rest ih =>
    intro acc prev wm r h
    simp only [List.foldlM_cons] at h
    obtain ⟨st1, h1, h2⟩ := M_bind_ok h
    by_cases hp : p = lock
    · simp only [hp, if_true, pure, Except.pure] at h1
      injection h1 with h1
      subst h1
      have := ih acc prev wm r h2
      rw [this]
      simp [hp]
    · simp only [hp, if_false] at h1
      obtain ⟨_, _, h1⟩ := M_bind_ok h1
      obtain ⟨_, _, h1⟩ := M_bind_ok h1
      obtain ⟨co, _, h1⟩ := M_bind_ok h1
      obtain ⟨_, _, h1⟩ := M_bind_ok h1
      obtain ⟨_, _, h1⟩ := M_bind_ok h1
      simp only [pure, Except.pure] at h1
      injection h1 with h1
      subst h1
      have := ih _ _ _ r h2
      rw [this]
      simp [hp, List.append_assoc]

end LiteFSVerif.Engine

namespace LiteFSVerif.Engine
open LiteFSVerif LiteFSVerif.BA LiteFSVerif.Cks

/-- a rollback-journal commit publishes exactly one file whose pages are, in increasing page
    order, the current database-file bytes of every dirty page within the new size (taken from the
    header's page count) except the lock page -/
theorem invalidateJournal_pageSize (s s' : Eng) (mode : Nat) (h : invalidateJournal s mode = .ok s') :
    s'.pageSize = s.pageSize := by
  unfold invalidateJournal at h
  match mode, h with
  | 0, h =>
    simp only [bind, Except.bind, pure, Except.pure] at h
    cases hj : s.journal <;> simp [hj, fail, pure, Except.pure, bind, Except.bind] at h
    rw [← h]
  | 1, h =>
    simp only [bind, Except.bind, pure, Except.pure] at h
    cases hj : s.journal <;> simp [hj, fail, pure, Except.pure, bind, Except.bind] at h
    rw [← h]
  | n + 2, h =>
    simp only [bind, Except.bind, pure, Except.pure] at h
    cases hj : s.journal <;> simp [hj] at h <;> (rw [← h])

theorem commitJournalValid_captures2 (s s' : Eng) (mode : Nat) (h : commitJournalValid s mode = .ok s') :
    ∃ (dbf : ByteArray) (lock : Nat) (f : LTXFile), s.dbFile = some dbf ∧ lockPgno s.pageSize = .ok lock ∧
      s'.ltx = addLTX s.ltx f ∧ f.commit = be32 dbf 28 ∧
      f.pages = ((sortNat (s.dirty.filter (· ≤ be32 dbf 28))).filter (· ≠ lock)).map
        (fun p => (p, dbf.extract ((p - 1) * s.pageSize) ((p - 1) * s.pageSize + s.pageSize))) ∧
      f.pageSize = s.pageSize ∧ s'.dbFile = s.dbFile ∧ s'.pageSize = s.pageSize := by
  unfold commitJournalValid at h
  obtain ⟨dbf, hdb, h⟩ := M_bind_ok h
  have hdbf : s.dbFile = some dbf := by
    cases hd : s.dbFile with
    | none => rw [hd] at hdb; simp [fail] at hdb
    | some x => rw [hd] at hdb; simp only [pure, Except.pure] at hdb; injection hdb with e; rw [e]
  obtain ⟨_, _, h⟩ := M_bind_ok h
  obtain ⟨_, _, h⟩ := M_bind_ok h
  obtain ⟨lock, hlk, h⟩ := M_bind_ok h
  have hlock := liftCk_ok' hlk
  obtain ⟨r1, hloop, h⟩ := M_bind_ok h
  obtain ⟨ck, _, h⟩ := M_bind_ok h
  obtain ⟨r2, _, h⟩ := M_bind_ok h
  obtain ⟨_, _, h⟩ := M_bind_ok h
  obtain ⟨s2, hinv, h⟩ := M_bind_ok h
  simp only [pure, Except.pure] at h
  injection h with h
  subst h
  have hpages := journalPages_spec _ dbf (s.posTxid + 1) (be32 dbf 28) lock _ [] 0 false r1 hloop
  have hf := invalidateJournal_frame _ _ _ hinv
  let f : LTXFile := { minTxid := s.posTxid + 1, maxTxid := s.posTxid + 1, pre := s.posChk, post := r2.2, commit := be32 dbf 28, pageSize := s.pageSize, pages := r1.1 }
  refine ⟨dbf, lock, f, hdbf, hlock, ?_, rfl, ?_, rfl, ?_, ?_⟩
  · show s2.ltx = _
    rw [hf.2.2.2.1]
  · simpa using hpages
  · show s2.dbFile = _
    rw [hf.1]
  · have := invalidateJournal_pageSize _ _ _ hinv
    show s2.pageSize = _
    rw [this]

theorem commitJournalValid_captures (s s' : Eng) (mode : Nat) (h : commitJournalValid s mode = .ok s') :
    ∃ (dbf : ByteArray) (lock : Nat) (f : LTXFile), s.dbFile = some dbf ∧ lockPgno s.pageSize = .ok lock ∧
      s'.ltx = addLTX s.ltx f ∧ f.commit = be32 dbf 28 ∧
      f.pages = ((sortNat (s.dirty.filter (· ≤ be32 dbf 28))).filter (· ≠ lock)).map
        (fun p => (p, dbf.extract ((p - 1) * s.pageSize) ((p - 1) * s.pageSize + s.pageSize))) := by
  obtain ⟨dbf, lock, f, h1, h2, h3, h4, h5, _⟩ := commitJournalValid_captures2 s s' mode h
  exact ⟨dbf, lock, f, h1, h2, h3, h4, h5⟩

end LiteFSVerif.Engine

namespace LiteFSVerif.Engine
open LiteFSVerif LiteFSVerif.BA LiteFSVerif.Cks LiteFSVerif.Sqlite

/-! ### what a WAL commit captures -/

theorem walPages_spec (s : Eng) (wal : ByteArray) (offsets : List (Nat × Nat)) (txid commit lock : Nat) :
    ∀ (pgnos : List Nat) (acc : List (Nat × ByteArray)) (nc : List (Nat × Chk)) (prev : Nat)
      (r : List (Nat × ByteArray) × List (Nat × Chk) × Nat),
    pgnos.foldlM (fun (st : List (Nat × ByteArray) × List (Nat × Chk) × Nat) pgno => do
      let (pages, nc, prev) := st
      if pgno = lock then pure st else
      let off := (offsets.lookup pgno).getD 0
      let data := wal.extract (off + 24) (off + 24 + s.pageSize)
      ensure s (¬ (!encodePageOK txid commit s.pageSize prev pgno)) .err
      let _ ← liftCk s (s.ck.pageChecksum s.w.chksums s.pageSize pgno s.pageN [])
      pure (pages ++ [(pgno, data)], mapSet nc pgno (pageChk pgno data), pgno)) (acc, nc, prev) = (.ok r : M _) →
    r.1 = acc ++ (pgnos.filter (· ≠ lock)).map
      (fun p => (p, wal.extract ((offsets.lookup p).getD 0 + 24) ((offsets.lookup p).getD 0 + 24 + s.pageSize))) := by
  intro pgnos
  induction pgnos with
  | nil =>
    intro acc nc prev r h
    simp only [List.foldlM_nil, pure, Except.pure] at h
    injection h with h
    subst h
    simp
  | cons p rest ih =>
    intro acc nc prev r h
    simp only [List.foldlM_cons] at h
    obtain ⟨st1, h1, h2⟩ := M_bind_ok h
    by_cases hp : p = lock
    · simp only [hp, if_true, pure, Except.pure] at h1
      injection h1 with h1
      subst h1
      have := ih acc nc prev r h2
      rw [this]
      simp [hp]
    · simp only [hp, if_false] at h1
      obtain ⟨_, _, h1⟩ := M_bind_ok h1
      obtain ⟨_, _, h1⟩ := M_bind_ok h1
      simp only [pure, Except.pure] at h1
      injection h1 with h1
      subst h1
      have := ih _ _ _ r h2
      rw [this]
      simp [hp, List.append_assoc]

theorem encodePageOK_facts {txid commit ps prev pgno : Nat} (h : encodePageOK txid commit ps prev pgno = true) :
    pgno ≠ 0 ∧ pgno ≤ commit := by
  unfold encodePageOK at h
  simp only at h
  split at h
  · cases h
  · rename_i hc
    simp only [Bool.or_eq_true, decide_eq_true_eq, not_or, Nat.not_lt] at hc
    exact ⟨hc.1.2, hc.1.1⟩

theorem walPages_valid (s : Eng) (wal : ByteArray) (offsets : List (Nat × Nat)) (txid commit lock : Nat) :
    ∀ (pgnos : List Nat) (acc : List (Nat × ByteArray)) (nc : List (Nat × Chk)) (prev : Nat)
      (r : List (Nat × ByteArray) × List (Nat × Chk) × Nat),
    pgnos.foldlM (fun (st : List (Nat × ByteArray) × List (Nat × Chk) × Nat) pgno => do
      let (pages, nc, prev) := st
      if pgno = lock then pure st else
      let off := (offsets.lookup pgno).getD 0
      let data := wal.extract (off + 24) (off + 24 + s.pageSize)
      ensure s (¬ (!encodePageOK txid commit s.pageSize prev pgno)) .err
      let _ ← liftCk s (s.ck.pageChecksum s.w.chksums s.pageSize pgno s.pageN [])
      pure (pages ++ [(pgno, data)], mapSet nc pgno (pageChk pgno data), pgno)) (acc, nc, prev) = (.ok r : M _) →
    ∀ q ∈ pgnos, q ≠ lock → q ≠ 0 ∧ q ≤ commit := by
  intro pgnos
  induction pgnos with
  | nil => intro _ _ _ _ _ q hq; cases hq
  | cons p rest ih =>
    intro acc nc prev r h q hq hql
    simp only [List.foldlM_cons] at h
    obtain ⟨st1, h1, h2⟩ := M_bind_ok h
    by_cases hp : p = lock
    · simp only [hp, if_true, pure, Except.pure] at h1
      injection h1 with h1
      subst h1
      cases hq with
      | head => exact absurd hp hql
      | tail _ hm => exact ih acc nc prev r h2 q hm hql
    · simp only [hp, if_false] at h1
      obtain ⟨_, hens, h1⟩ := M_bind_ok h1
      obtain ⟨_, _, h1⟩ := M_bind_ok h1
      simp only [pure, Except.pure] at h1
      injection h1 with h1
      subst h1
      cases hq with
      | head =>
        have := ensure_ok hens
        have hok : encodePageOK txid commit s.pageSize prev p = true := by
          cases hh : encodePageOK txid commit s.pageSize prev p with
          | true => rfl
          | false => rw [hh] at this; simp at this
        exact encodePageOK_facts hok
      | tail _ hm => exact ih _ _ _ r h2 q hm hql

/-- a WAL commit that finds a complete transaction publishes one file whose pages are, in
    increasing page order, the bytes of the *last* frame of each page within that transaction (as
    located by `buildTxFrameOffsets`), except the lock page, and whose size is the commit frame's -/
theorem commitWAL_captures2 (s s' : Eng) (h : commitWALBody s = .ok s') (hne : s' ≠ s) :
    ∃ (wal : ByteArray) (tx : TxFrames) (lock : Nat) (f : LTXFile), s.wal = some wal ∧
      buildTxFrames wal s.pageSize s.w.offset s.w.bo s.w.salt1 s.w.salt2 s.w.chk1 s.w.chk2 = .ok (some tx) ∧
      lockPgno s.pageSize = .ok lock ∧ s'.ltx = addLTX s.ltx f ∧ f.commit = tx.commit ∧
      f.walOffset = s.w.offset ∧ f.walOffset + f.walSize = tx.endOffset + (s.w.offset - tx.endOffset) ∧
      f.pages = ((sortNat (tx.offsets.map (·.1))).filter (· ≠ lock)).map
        (fun p => (p, wal.extract ((tx.offsets.lookup p).getD 0 + 24) ((tx.offsets.lookup p).getD 0 + 24 + s.pageSize))) ∧
      f.pageSize = s.pageSize ∧
      (∀ q ∈ (sortNat (tx.offsets.map (·.1))).filter (· ≠ lock), q ≠ 0 ∧ q ≤ tx.commit) := by
  unfold commitWALBody at h
  obtain ⟨wal, hw, h⟩ := M_bind_ok h
  have hwal : s.wal = some wal := by
    cases hd : s.wal with
    | none => rw [hd] at hw; simp [fail] at hw
    | some x => rw [hd] at hw; simp only [pure, Except.pure] at hw; injection hw with e; rw [e]
  obtain ⟨tx, htx, h⟩ := M_bind_ok h
  have htx' := liftCk_ok' htx
  cases tx with
  | none =>
    simp only [pure, Except.pure] at h
    injection h with h
    exact absurd h.symm hne
  | some tx =>
    simp only at h
    obtain ⟨dbf, _, h⟩ := M_bind_ok h
    obtain ⟨_, _, h⟩ := M_bind_ok h
    obtain ⟨lock, hlk, h⟩ := M_bind_ok h
    have hlock := liftCk_ok' hlk
    obtain ⟨r1, hloop, h⟩ := M_bind_ok h
    obtain ⟨nc, _, h⟩ := M_bind_ok h
    obtain ⟨r2, _, h⟩ := M_bind_ok h
    obtain ⟨_, _, h⟩ := M_bind_ok h
    obtain ⟨_, _, h⟩ := M_bind_ok h
    simp only [pure, Except.pure] at h
    injection h with h
    subst h
    have hpages := walPages_spec s wal tx.offsets (s.posTxid + 1) tx.commit lock _ [] [] 0 r1 hloop
    let f : LTXFile := { minTxid := s.posTxid + 1, maxTxid := s.posTxid + 1, pre := s.posChk, post := r2.2, commit := tx.commit, pageSize := s.pageSize, walOffset := s.w.offset, walSize := tx.endOffset - s.w.offset, salt1 := s.w.salt1, salt2 := s.w.salt2, pages := r1.1 }
    have hvalid := walPages_valid s wal tx.offsets (s.posTxid + 1) tx.commit lock _ [] [] 0 r1 hloop
    refine ⟨wal, tx, lock, f, hwal, htx', hlock, rfl, rfl, rfl, ?_, ?_, rfl, ?_⟩
    · show s.w.offset + (tx.endOffset - s.w.offset) = tx.endOffset + (s.w.offset - tx.endOffset)
      omega
    · simpa using hpages
    · intro q hq
      have hq' := List.mem_filter.mp hq
      exact hvalid q hq'.1 (by simpa using hq'.2)

theorem commitWAL_captures (s s' : Eng) (h : commitWALBody s = .ok s') (hne : s' ≠ s) :
    ∃ (wal : ByteArray) (tx : TxFrames) (lock : Nat) (f : LTXFile), s.wal = some wal ∧
      buildTxFrames wal s.pageSize s.w.offset s.w.bo s.w.salt1 s.w.salt2 s.w.chk1 s.w.chk2 = .ok (some tx) ∧
      lockPgno s.pageSize = .ok lock ∧ s'.ltx = addLTX s.ltx f ∧ f.commit = tx.commit ∧
      f.walOffset = s.w.offset ∧ f.walOffset + f.walSize = tx.endOffset + (s.w.offset - tx.endOffset) ∧
      f.pages = ((sortNat (tx.offsets.map (·.1))).filter (· ≠ lock)).map
        (fun p => (p, wal.extract ((tx.offsets.lookup p).getD 0 + 24) ((tx.offsets.lookup p).getD 0 + 24 + s.pageSize))) := by
  obtain ⟨wal, tx, lock, f, h1, h2, h3, h4, h5, h6, h7, h8, _⟩ := commitWAL_captures2 s s' h hne
  exact ⟨wal, tx, lock, f, h1, h2, h3, h4, h5, h6, h7, h8⟩

end LiteFSVerif.Engine
