/-
  `WriteSnapshotTo` at byte level: the file it produces (at quiescence), applied by any node,
  leaves a database file that is page for page the logical image the snapshot read — database
  file overlaid with the committed WAL frames — and carries the node's position.
-/
import LiteFSVerif.Model.Cluster
import LiteFSVerif.Proofs.ImportBytes

namespace LiteFSVerif.Cluster
open LiteFSVerif LiteFSVerif.BA LiteFSVerif.Cks LiteFSVerif.Engine LiteFSVerif.Sqlite

theorem mapM_option_spec {α β} (g : α → Option β) : ∀ (l : List α) (r : List β), l.mapM g = some r →
    r.length = l.length ∧ ∀ i (h1 : i < l.length) (h2 : i < r.length), g l[i] = some r[i] := by
  intro l
  induction l with
  | nil =>
    intro r h
    simp only [List.mapM_nil, pure] at h
    injection h with h
    subst h
    exact ⟨rfl, fun i h1 _ => absurd h1 (Nat.not_lt_zero i)⟩
  | cons a rest ih =>
    intro r h
    rw [List.mapM_cons] at h
    cases ha : g a with
    | none => simp [ha, bind, Option.bind] at h
    | some b =>
      cases hr : rest.mapM g with
      | none => simp [ha, hr, bind, Option.bind] at h
      | some bs =>
        simp only [ha, hr, bind, Option.bind, pure] at h
        injection h with h
        subst h
        obtain ⟨e1, e2⟩ := ih bs hr
        refine ⟨by simp [e1], ?_⟩
        intro i h1 h2
        cases i with
        | zero => simpa using ha
        | succ j =>
          simp only [List.getElem_cons_succ]
          exact e2 j (by simpa using h1) (by simpa using h2)

/-- page `i` (0-based) of the logical image as the snapshot reads it -/
def logicalPage (s : Eng) (i : Nat) : Option ByteArray :=
  match s.w.frameOffsets.lookup (i + 1) with
  | some off =>
    if (s.wal.getD ByteArray.empty).size < off + 24 + s.pageSize then none
    else some ((s.wal.getD ByteArray.empty).extract (off + 24) (off + 24 + s.pageSize))
  | none =>
    if (s.dbFile.getD ByteArray.empty).size < i * s.pageSize + s.pageSize then none
    else some ((s.dbFile.getD ByteArray.empty).extract (i * s.pageSize) (i * s.pageSize + s.pageSize))

theorem logicalPages_eq (s : Eng) : logicalPages s = (List.range s.pageN).mapM (logicalPage s) := rfl

/-- `WriteSnapshotTo`, byte level: when it produces a file (for a database below the lock page),
    the file carries the node's position, and applied by ANY node (same or yet unknown page size)
    it leaves a database file of exactly `pageN` pages whose page `k+1` is byte for byte the
    logical page the snapshot read: the committed WAL frame of that page if there is one, else
    the page of the database file -/
theorem snapshot_bytes (s : Eng) (nodeID : Nat) (f : LTXFile) (h : snapshotFile s nodeID = some f)
    (hlock : s.pageN < 1073741824 / s.pageSize + 1) :
    f.minTxid = 1 ∧ f.maxTxid = s.posTxid ∧ f.post = s.posChk ∧ f.commit = s.pageN ∧
    ∀ (r r' : Eng) (fatal : Bool), applyLTX r f fatal = .ok r' → s.pageN > 0 →
      (r.pageSize = 0 ∨ r.pageSize = s.pageSize) →
      ∃ d', r'.dbFile = some d' ∧ d'.size = s.pageN * s.pageSize ∧
        ∀ i, i < d'.size → ∃ pg, logicalPage s (i / s.pageSize) = some pg ∧ getD d' i = getD pg (i % s.pageSize) := by
  unfold snapshotFile at h
  simp only at h
  split at h
  · cases h
  · rename_i hok
    have hps512 : 512 ≤ s.pageSize := by
      have : headerOK { minTxid := 1, maxTxid := s.posTxid, pre := 0, post := 0, commit := s.pageN, pageSize := s.pageSize, pages := [], nodeID := nodeID } = true := by
        simpa using hok
      exact headerOK_pageSize _ this
    cases hlp : logicalPages s with
    | none => rw [hlp] at h; cases h
    | some pages =>
      rw [hlp] at h
      simp only at h
      split at h
      · cases h
      · rename_i hchk
        injection h with h
        subst h
        have hchk' : (((pages.zipIdx.filter fun p => p.2 + 1 ≠ 1073741824 / s.pageSize + 1).map fun p => (p.2 + 1, p.1)).foldl
            (fun (acc : Chk) p => acc ^^^ pageChk p.1 p.2) 0 ||| flag) = s.posChk := Classical.byContradiction hchk
        refine ⟨rfl, rfl, hchk', rfl, ?_⟩
        intro r r' fatal happly hn hrps
        rw [logicalPages_eq] at hlp
        obtain ⟨hlen, hget⟩ := mapM_option_spec (logicalPage s) _ _ hlp
        simp only [List.length_range] at hlen
        obtain ⟨d', g1, g2, _, g4, g5⟩ := applyLTX_bytes r r' _ fatal happly hn
        have hpsf : r'.pageSize = s.pageSize := by
          rw [g2]
          cases hrps with
          | inl h0 => simp [h0]
          | inr h1 => rw [h1]; simp
        refine ⟨d', g1, by rw [g4, hpsf], ?_⟩
        intro i hi
        rw [g4, hpsf] at hi
        simp only at hi
        have hpos : 0 < s.pageSize := by omega
        have hk : i / s.pageSize < s.pageN := (Nat.div_lt_iff_lt_mul hpos).mpr hi
        have hkl : i / s.pageSize < pages.length := by omega
        have hpg : logicalPage s (i / s.pageSize) = some pages[i / s.pageSize] := by
          have := hget (i / s.pageSize) (by simpa using hk) hkl
          simpa using this
        refine ⟨pages[i / s.pageSize], hpg, ?_⟩
        rw [g5 i (by rw [g4, hpsf]; exact hi), hpsf]
        have hcovk : covers s.pageSize (i / s.pageSize + 1) i := by
          unfold covers
          simp only [Nat.add_sub_cancel]
          have := Nat.div_add_mod i s.pageSize
          have := Nat.mod_lt i hpos
          rw [Nat.mul_comm]
          omega
        have hmod : i - (i / s.pageSize) * s.pageSize = i % s.pageSize := by
          have := Nat.div_add_mod i s.pageSize
          rw [Nat.mul_comm] at this
          omega
        apply byteAfterFrom_const
        · intro pg hpgm hcov
          obtain ⟨e, hem, he⟩ := List.mem_map.mp hpgm
          subst he
          simp only at hcov ⊢
          have hez := (List.mem_filter.mp hem).1
          obtain ⟨d, j⟩ := e
          have hj : pages[j]? = some d := List.mem_zipIdx_iff_getElem?.mp hez
          simp only at hcov ⊢
          have : j + 1 = i / s.pageSize + 1 := covers_unique (q := j + 1) (q' := i / s.pageSize + 1) (Nat.succ_ne_zero _) (Nat.succ_ne_zero _) hcov hcovk
          have hje : j = i / s.pageSize := by omega
          subst hje
          have hd : d = pages[i / s.pageSize] := by
            rw [List.getElem?_eq_getElem hkl] at hj
            injection hj with hj; exact hj.symm
          subst hd
          simp only [Nat.add_sub_cancel]
          rw [hmod]
        · right
          refine ⟨(i / s.pageSize + 1, pages[i / s.pageSize]), ?_, hcovk⟩
          apply List.mem_map.mpr
          refine ⟨(pages[i / s.pageSize], i / s.pageSize), List.mem_filter.mpr ⟨?_, ?_⟩, rfl⟩
          · exact List.mem_zipIdx_iff_getElem?.mpr (List.getElem?_eq_getElem hkl)
          · simp only [ne_eq, decide_eq_true_eq]
            omega

end LiteFSVerif.Cluster
