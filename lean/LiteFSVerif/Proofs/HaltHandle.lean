/- Proofs about the halt-lock handle model (Model/HaltHandle.lean). -/
import LiteFSVerif.Model.HaltHandle
namespace LiteFSVerif.HaltHandle

def Inv (s : St) : Prop :=
  (s.local_ = some s.id → s.handleHeld = true) ∧ (s.primary = some s.id → s.handleHeld = true)

theorem inv_of_held (s : St) (h : s.handleHeld = true) : Inv s := ⟨fun _ => h, fun _ => h⟩

theorem releaseRemote_id (s : St) (id : Nat) (i : Intr) : (releaseRemote s id i).1.id = s.id := by
  by_cases hm : s.local_ = some id <;> cases i <;> simp [releaseRemote, hm]

theorem releaseRemote_held (s : St) (id : Nat) (i : Intr) : (releaseRemote s id i).1.handleHeld = s.handleHeld := by
  by_cases hm : s.local_ = some id <;> cases i <;> simp [releaseRemote, hm]

/-- a release that was not interrupted leaves nothing of this id behind -/
theorem releaseRemote_done (s : St) (id : Nat) (i : Intr) (h : (releaseRemote s id i).2 = false) :
    (releaseRemote s id i).1.local_ ≠ some id ∧ (releaseRemote s id i).1.primary ≠ some id := by
  by_cases hm : s.local_ = some id <;> by_cases hp : s.primary = some id <;> cases i <;>
    simp [releaseRemote, hm, hp] at h ⊢

theorem unlockHalt_id (s : St) (i : Intr) : (unlockHalt s i).1.id = s.id := by
  unfold unlockHalt
  by_cases hh : s.handleHeld = false
  · rw [if_pos hh]
  · by_cases hi : (releaseRemote s s.id i).2 = true
    · rw [if_neg hh, if_pos hi]; exact releaseRemote_id s s.id i
    · rw [if_neg hh, if_neg hi]; exact releaseRemote_id s s.id i

theorem unlockHalt_inv (s : St) (i : Intr) (h : Inv s) : Inv (unlockHalt s i).1 := by
  unfold unlockHalt
  by_cases hh : s.handleHeld = false
  · rw [if_pos hh]; exact h
  · have hheld : s.handleHeld = true := by simpa using hh
    by_cases hi : (releaseRemote s s.id i).2 = true
    · rw [if_neg hh, if_pos hi]
      exact inv_of_held _ (by show (releaseRemote s s.id i).1.handleHeld = true; rw [releaseRemote_held]; exact hheld)
    · rw [if_neg hh, if_neg hi]
      have hd := releaseRemote_done s s.id i (by simpa using hi)
      have hid : (releaseRemote s s.id i).1.id = s.id := releaseRemote_id s s.id i
      constructor
      · intro hl; simp only [hid] at hl; exact absurd hl hd.1
      · intro hp; simp only [hid] at hp; exact absurd hp hd.2

theorem releases_inv (is : List Intr) (s : St) (h : Inv s) : Inv (releases s is) ∧ (releases s is).id = s.id := by
  induction is generalizing s with
  | nil => exact ⟨h, rfl⟩
  | cons i is ih =>
    have := ih (unlockHalt s i).1 (unlockHalt_inv s i h)
    exact ⟨this.1, by rw [show releases s (i :: is) = releases (unlockHalt s i).1 is from rfl, this.2, unlockHalt_id]⟩

/-- an uninterrupted unlock (or the Flush at close) leaves nothing behind -/
theorem unlockHalt_none_done (s : St) (h : Inv s) :
    (unlockHalt s .none).2 = .ok ∧ (unlockHalt s .none).1.handleHeld = false ∧
    (unlockHalt s .none).1.local_ ≠ some s.id ∧ (unlockHalt s .none).1.primary ≠ some s.id := by
  unfold unlockHalt
  by_cases hh : s.handleHeld = false
  · rw [if_pos hh]
    refine ⟨rfl, hh, ?_, ?_⟩
    · intro hl; have := h.1 hl; rw [hh] at this; cases this
    · intro hp; have := h.2 hp; rw [hh] at this; cases this
  · have hni : (releaseRemote s s.id .none).2 = false := by
      by_cases hm : s.local_ = some s.id <;> simp [releaseRemote, hm]
    have hd := releaseRemote_done s s.id .none hni
    have hni' : ¬ (releaseRemote s s.id .none).2 = true := by rw [hni]; simp
    rw [if_neg hh, if_neg hni']
    exact ⟨rfl, rfl, hd.1, hd.2⟩

theorem lockWait_inv (s : St) (h : Inv s) : Inv (lockWait s).1 := by
  unfold lockWait
  split
  · exact h
  · split
    · split
      · exact inv_of_held _ rfl
      · exact h
    · exact inv_of_held _ rfl

end LiteFSVerif.HaltHandle
