/-
  `Import` at byte level: after a successful import the database file is the imported image with
  the change counter (bytes 24..27) and the schema cookie (bytes 40..43) zeroed — whatever the
  node held before.
-/
import LiteFSVerif.Proofs.Replicate

namespace LiteFSVerif.Engine
open LiteFSVerif LiteFSVerif.BA LiteFSVerif.Cks LiteFSVerif.Sqlite

/-- page `i+1` of the imported image as `importToLTX` writes it into the file -/
def importPage (data : ByteArray) (ps i : Nat) : ByteArray :=
  let buf := data.extract (i * ps) ((i + 1) * ps)
  if i + 1 = 1 then writeAt (writeAt buf 24 (zeros 4)) 40 (zeros 4) else buf

theorem importPages_spec (s : Eng) (data : ByteArray) (txid pageN ps lock : Nat) :
    ∀ (idx : List Nat) (acc : List (Nat × ByteArray)) (chk : Chk) (prev : Nat)
      (r : List (Nat × ByteArray) × Chk × Nat),
    idx.foldlM (fun (st : List (Nat × ByteArray) × Chk × Nat) i => do
        let (pages, chk, prev) := st
        let pgno := i + 1
        ensure s (¬ (data.size < (i + 1) * ps)) .err
        if pgno = lock then pure st else
        let buf := data.extract (i * ps) ((i + 1) * ps)
        let buf := if pgno = 1 then writeAt (writeAt buf 24 (zeros 4)) 40 (zeros 4) else buf
        ensure s (¬ (!encodePageOK txid pageN ps prev pgno)) .err
        pure (pages ++ [(pgno, buf)], flag ||| (chk ^^^ pageChk pgno buf), pgno)) (acc, chk, prev) = (.ok r : M _) →
    r.1 = acc ++ (idx.filter (fun i => i + 1 ≠ lock)).map (fun i => (i + 1, importPage data ps i)) ∧
    ∀ i ∈ idx, (i + 1) * ps ≤ data.size := by
  intro idx
  induction idx with
  | nil =>
    intro acc chk prev r h
    simp only [List.foldlM_nil, pure, Except.pure] at h
    injection h with h
    subst h
    exact ⟨by simp, fun i hi => by cases hi⟩
  | cons p rest ih =>
    intro acc chk prev r h
    simp only [List.foldlM_cons] at h
    obtain ⟨st1, h1, h2⟩ := M_bind_ok h
    obtain ⟨_, hsz, h1⟩ := M_bind_ok h1
    have hsz' : (p + 1) * ps ≤ data.size := by
      have := ensure_ok hsz
      exact Nat.le_of_not_lt (fun c => this c)
    by_cases hp : p + 1 = lock
    · simp only [hp, if_true, pure, Except.pure] at h1
      injection h1 with h1
      subst h1
      obtain ⟨e1, e2⟩ := ih acc chk prev r h2
      refine ⟨?_, ?_⟩
      · rw [e1]; simp [hp]
      · intro i hi
        cases hi with
        | head => exact hsz'
        | tail _ hm => exact e2 i hm
    · simp only [hp, if_false] at h1
      obtain ⟨_, _, h1⟩ := M_bind_ok h1
      simp only [pure, Except.pure] at h1
      injection h1 with h1
      subst h1
      obtain ⟨e1, e2⟩ := ih _ _ _ r h2
      refine ⟨?_, ?_⟩
      · rw [e1]
        simp [hp, List.append_assoc, importPage]
      · intro i hi
        cases hi with
        | head => exact hsz'
        | tail _ hm => exact e2 i hm

end LiteFSVerif.Engine

namespace LiteFSVerif.Engine
open LiteFSVerif LiteFSVerif.BA LiteFSVerif.Cks LiteFSVerif.Sqlite

theorem validPageSize_ge (n : Nat) (h : validPageSize n = true) : 512 ≤ n := by
  unfold validPageSize at h
  simp only [List.contains_cons, List.contains_nil, Bool.or_false, Bool.or_eq_true, beq_iff_eq] at h
  omega

theorem headerOK_pageSize (f : LTXFile) (h : headerOK f = true) : 512 ≤ f.pageSize := by
  unfold headerOK at h
  simp only [Bool.and_eq_true] at h
  exact validPageSize_ge _ h.1.1.1.1.1.1

/-- the byte the imported image has at offset `b` once `importToLTX` has reset the change counter
    and the schema cookie of the header page -/
def importedByte (data : ByteArray) (b : Nat) : UInt8 :=
  if (24 ≤ b ∧ b < 28) ∨ (40 ≤ b ∧ b < 44) then 0 else getD data b

theorem importPage_byte (data : ByteArray) (ps k b : Nat) (hps : 512 ≤ ps) (hcov : covers ps (k + 1) b)
    (hfit : (k + 1) * ps ≤ data.size) :
    getD (importPage data ps k) (b - (k + 1 - 1) * ps) = importedByte data b := by
  unfold covers at hcov
  simp only [Nat.add_sub_cancel] at hcov ⊢
  unfold importPage importedByte
  by_cases hk : k = 0
  · subst hk
    simp only [Nat.zero_mul, Nat.sub_zero, Nat.zero_add, if_true] at hcov ⊢
    rw [getD_writeAt, size_zeros]
    by_cases h40 : 40 ≤ b ∧ b < 40 + 4
    · rw [if_pos h40, getD_zeros, if_pos (Or.inr ⟨h40.1, by omega⟩)]
    · rw [if_neg h40, getD_writeAt, size_zeros]
      by_cases h24 : 24 ≤ b ∧ b < 24 + 4
      · rw [if_pos h24, getD_zeros, if_pos (Or.inl ⟨h24.1, by omega⟩)]
      · rw [if_neg h24, if_neg (by omega), getD_extract, Nat.zero_add, Nat.one_mul, if_pos (by omega)]
  · have hk1 : ¬ (k + 1 = 1) := by omega
    rw [if_neg hk1]
    have hge : ps ≤ k * ps := Nat.le_mul_of_pos_left ps (by omega)
    rw [if_neg (by omega), getD_extract]
    have e : k * ps + (b - k * ps) = b := by omega
    rw [e, if_pos (by rw [Nat.add_mul, Nat.one_mul]; omega)]

end LiteFSVerif.Engine

namespace LiteFSVerif.Engine
open LiteFSVerif LiteFSVerif.BA LiteFSVerif.Cks LiteFSVerif.Sqlite

theorem truncateWAL_pageSize (s s' : Eng) (n : Nat) (h : truncateWAL s n = .ok s') : s'.pageSize = s.pageSize := by
  unfold truncateWAL at h
  obtain ⟨_, _, h⟩ := M_bind_ok h
  obtain ⟨_, _, h⟩ := M_bind_ok h
  simp only [pure, Except.pure] at h
  injection h with h
  rw [← h]

/-- `Import`, byte level: a successful import of an image below the lock page leaves a database
    file of exactly the image's size whose every byte is the image's, except the change counter
    and the schema cookie of the header page, which are zero — whatever was there before -/
theorem import_bytes (s s' : Eng) (data : ByteArray) (h : importDB s data = .ok s') :
    ∃ hd, readDBHeader data = .ok hd ∧
      (hd.pageN > 0 → hd.pageN < 1073741824 / hd.pageSize + 1 →
        ∃ d', s'.dbFile = some d' ∧ d'.size = hd.pageN * hd.pageSize ∧
          ∀ b, b < d'.size → getD d' b = importedByte data b) := by
  unfold importDB at h
  obtain ⟨_, _, h⟩ := M_bind_ok h
  split at h
  · simp [fail] at h
  · rename_i t i _
    simp only at h
    split at h
    · rename_i s'' hbody
      simp only [pure, Except.pure] at h
      injection h with h
      subst h
      obtain ⟨hd, hhd, hbody⟩ := M_bind_ok hbody
      cases hr : readDBHeader data with
      | error e => rw [hr] at hhd; simp [fail] at hhd
      | ok hd' =>
        rw [hr] at hhd
        simp only [pure, Except.pure] at hhd
        injection hhd with hhd
        subst hhd
        refine ⟨hd', rfl, ?_⟩
        intro hn hlock
        obtain ⟨_, hpsz, hbody⟩ := M_bind_ok hbody
        have hpsz := ensure_ok hpsz
        obtain ⟨_, hhok, hbody⟩ := M_bind_ok hbody
        have hhok := ensure_ok hhok
        obtain ⟨r1, hfold, hbody⟩ := M_bind_ok hbody
        obtain ⟨pages, chk, prev⟩ := r1
        simp only at hbody
        obtain ⟨_, _, hbody⟩ := M_bind_ok hbody
        obtain ⟨s2, hinv, hbody⟩ := M_bind_ok hbody
        obtain ⟨s3, htw, happly⟩ := M_bind_ok hbody
        have hps512 : 512 ≤ hd'.pageSize := by
          have : headerOK { minTxid := s.posTxid + 1, maxTxid := s.posTxid + 1, pre := s.posChk, post := 0, commit := hd'.pageN, pageSize := hd'.pageSize, pages := [] } = true := by
            cases hh : headerOK { minTxid := s.posTxid + 1, maxTxid := s.posTxid + 1, pre := s.posChk, post := 0, commit := hd'.pageN, pageSize := hd'.pageSize, pages := [] } with
            | true => rfl
            | false => exfalso; apply hhok; simp [hh]
          exact headerOK_pageSize _ this
        obtain ⟨hpages, hfits⟩ := importPages_spec _ data (s.posTxid + 1) hd'.pageN hd'.pageSize (1073741824 / hd'.pageSize + 1) _ [] 0 0 _ hfold
        simp only [List.nil_append] at hpages
        -- page size of the state the apply starts from
        have hps2 : s2.pageSize = s.pageSize := by
          have := invalidateJournal_pageSize _ _ _ hinv
          rw [this]
        have hps3 : s3.pageSize = s.pageSize := by
          split at htw
          · rw [truncateWAL_pageSize _ _ _ htw, hps2]
          · simp only [pure, Except.pure] at htw; injection htw with htw; rw [← htw, hps2]
        obtain ⟨d', g1, g2, _, g4, g5⟩ := applyLTX_bytes s3 s'' _ true happly hn
        have hpsf : s''.pageSize = hd'.pageSize := by
          rw [g2, hps3]
          by_cases h0 : s.pageSize = 0
          · simp [h0]
          · simp only [h0, if_false]
            exact (Classical.byContradiction fun c => hpsz ⟨h0, fun e => c e.symm⟩)
        refine ⟨d', g1, by rw [g4, hpsf], ?_⟩
        intro b hb
        rw [g5 b hb, hpsf]
        rw [g4, hpsf] at hb
        -- the page covering b
        have hpos : 0 < hd'.pageSize := by omega
        have hk : b / hd'.pageSize < hd'.pageN := (Nat.div_lt_iff_lt_mul hpos).mpr hb
        have hcovk : covers hd'.pageSize (b / hd'.pageSize + 1) b := by
          unfold covers
          simp only [Nat.add_sub_cancel]
          have := Nat.div_add_mod b hd'.pageSize
          have := Nat.mod_lt b hpos
          rw [Nat.mul_comm]
          omega
        apply byteAfterFrom_const
        · intro pg hpg hcov
          rw [hpages] at hpg
          obtain ⟨k', hk'mem, hk'⟩ := List.mem_map.mp hpg
          subst hk'
          simp only at hcov ⊢
          have hk'r : k' ∈ List.range hd'.pageN := (List.mem_filter.mp hk'mem).1
          exact importPage_byte data hd'.pageSize k' b hps512 hcov (hfits k' hk'r)
        · right
          refine ⟨(b / hd'.pageSize + 1, importPage data hd'.pageSize (b / hd'.pageSize)), ?_, hcovk⟩
          rw [hpages]
          apply List.mem_map.mpr
          refine ⟨b / hd'.pageSize, List.mem_filter.mpr ⟨List.mem_range.mpr hk, ?_⟩, rfl⟩
          simp only [ne_eq, decide_eq_true_eq]
          omega
    · simp [fail] at h

end LiteFSVerif.Engine
