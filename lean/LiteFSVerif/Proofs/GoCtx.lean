/-
  Proofs about the context model (Model/GoCtx.lean): every world a script can reach is settled and
  well-formed, and in such a world a *fixed* primary-scoped context that is done has a non-nil
  cause — so a lock wait that ends because the lease was lost returns an error.
-/
import LiteFSVerif.Model.GoCtx

namespace LiteFSVerif.GoCtx

/-- every fixed primary context wraps a standard cancelable context made just before it -/
def WF (w : World) : Prop :=
  ∀ i inner p, w.nodes[i]? = some (Node.mk (.primary inner) p) → inner < i ∧ ∃ q, w.nodes[inner]? = some (Node.mk .cancel q)

/-- the goroutine of every fixed primary context whose channel is closed has run -/
def Settled (w : World) : Prop :=
  ∀ i inner p, w.nodes[i]? = some (Node.mk (.primary inner) p) → w.closed.contains i = true → (w.cause? inner).isSome = true

/-! ### `cancel` only adds -/

@[simp] theorem cancel_nodes (w : World) (i : Nat) (e c : Err) : (w.cancel i e c).nodes = w.nodes := by
  unfold World.cancel; split <;> rfl

@[simp] theorem cancel_closed (w : World) (i : Nat) (e c : Err) : (w.cancel i e c).closed = w.closed := by
  unfold World.cancel; split <;> rfl

theorem cancel_self (w : World) (i : Nat) (e c : Err) : ((w.cancel i e c).cause? i).isSome = true := by
  unfold World.cancel
  split
  · rename_i h; simpa [World.cause?] using h
  · simp [World.cause?, List.lookup]

theorem cancel_mono (w : World) (i j : Nat) (e c : Err) (h : (w.cause? j).isSome = true) :
    ((w.cancel i e c).cause? j).isSome = true := by
  unfold World.cancel
  split
  · exact h
  · simp only [World.cause?, List.lookup]
    split
    · rfl
    · exact h

/-! ### one propagation round -/

/-- the body of `settleOnce` -/
def round (w : World) (i : Nat) : World :=
  match w.nodes[i]? with
  | none => w
  | some n =>
    let w := match n.kind, n.parent with
      | .cancel, some p =>
        (match w.err p with
         | some e => w.cancel i e ((w.cause p).getD e)
         | none => w)
      | _, _ => w
    match n.kind with
    | .primary inner => if w.closed.contains i then w.cancel inner .canceled .leaseExpired else w
    | _ => w

theorem settleOnce_eq (w : World) : settleOnce w = (List.range w.nodes.length).foldl round w := rfl

theorem round_nodes (w : World) (i : Nat) : (round w i).nodes = w.nodes := by
  unfold round
  split
  · rfl
  · rename_i n _
    cases hk : n.kind <;> cases hp : n.parent <;> simp only [] <;>
      (try split) <;> (try split) <;> simp

theorem round_closed (w : World) (i : Nat) : (round w i).closed = w.closed := by
  unfold round
  split
  · rfl
  · rename_i n _
    cases hk : n.kind <;> cases hp : n.parent <;> simp only [] <;>
      (try split) <;> (try split) <;> simp

theorem round_mono (w : World) (i j : Nat) (h : (w.cause? j).isSome = true) :
    ((round w i).cause? j).isSome = true := by
  unfold round
  split
  · exact h
  · rename_i n _
    cases hk : n.kind <;> cases hp : n.parent <;> simp only [] <;>
      (try split) <;> (try split) <;> (try exact h) <;>
      (first | exact cancel_mono _ _ _ _ _ h | exact cancel_mono _ _ _ _ _ (cancel_mono _ _ _ _ _ h) | skip)

/-- the round of index `i` runs the goroutine of a fixed primary context at `i` -/
theorem round_establishes (w : World) (i inner : Nat) (p : Option Nat)
    (hn : w.nodes[i]? = some (Node.mk (.primary inner) p)) (hc : w.closed.contains i = true) :
    ((round w i).cause? inner).isSome = true := by
  unfold round
  rw [hn]
  simp only [hc, if_true]
  exact cancel_self _ _ _ _

theorem foldl_round_nodes (l : List Nat) (w : World) : (l.foldl round w).nodes = w.nodes := by
  induction l generalizing w with
  | nil => rfl
  | cons a l ih => simp only [List.foldl]; rw [ih, round_nodes]

theorem foldl_round_closed (l : List Nat) (w : World) : (l.foldl round w).closed = w.closed := by
  induction l generalizing w with
  | nil => rfl
  | cons a l ih => simp only [List.foldl]; rw [ih, round_closed]

theorem foldl_round_mono (l : List Nat) (w : World) (j : Nat) (h : (w.cause? j).isSome = true) :
    ((l.foldl round w).cause? j).isSome = true := by
  induction l generalizing w with
  | nil => exact h
  | cons a l ih => simp only [List.foldl]; exact ih _ (round_mono w a j h)

theorem foldl_round_establishes (l : List Nat) (w : World) (i inner : Nat) (p : Option Nat)
    (hi : i ∈ l) (hn : w.nodes[i]? = some (Node.mk (.primary inner) p)) (hc : w.closed.contains i = true) :
    ((l.foldl round w).cause? inner).isSome = true := by
  induction l generalizing w with
  | nil => cases hi
  | cons a l ih =>
    simp only [List.foldl]
    rcases List.mem_cons.mp hi with rfl | hi'
    · exact foldl_round_mono l _ inner (round_establishes w i inner p hn hc)
    · exact ih _ hi' (by rw [round_nodes]; exact hn) (by rw [round_closed]; exact hc)

theorem settleOnce_nodes (w : World) : (settleOnce w).nodes = w.nodes := by
  rw [settleOnce_eq]; exact foldl_round_nodes _ _

theorem settleOnce_closed (w : World) : (settleOnce w).closed = w.closed := by
  rw [settleOnce_eq]; exact foldl_round_closed _ _

theorem settleOnce_mono (w : World) (j : Nat) (h : (w.cause? j).isSome = true) :
    ((settleOnce w).cause? j).isSome = true := by
  rw [settleOnce_eq]; exact foldl_round_mono _ _ _ h

theorem settleOnce_settled (w : World) : Settled (settleOnce w) := by
  intro i inner p hn hc
  rw [settleOnce_nodes] at hn
  rw [settleOnce_closed] at hc
  rw [settleOnce_eq]
  have hi : i < w.nodes.length := by
    rcases Nat.lt_or_ge i w.nodes.length with h | h
    · exact h
    · rw [List.getElem?_eq_none h] at hn; cases hn
  exact foldl_round_establishes _ w i inner p (List.mem_range.mpr hi) hn hc

/-! ### `settle` -/

theorem iter_nodes (k : List Nat) (w : World) : (k.foldl (fun w _ => settleOnce w) w).nodes = w.nodes := by
  induction k generalizing w with
  | nil => rfl
  | cons a k ih => simp only [List.foldl]; rw [ih, settleOnce_nodes]

theorem iter_closed (k : List Nat) (w : World) : (k.foldl (fun w _ => settleOnce w) w).closed = w.closed := by
  induction k generalizing w with
  | nil => rfl
  | cons a k ih => simp only [List.foldl]; rw [ih, settleOnce_closed]

theorem iter_settled (k : List Nat) (w : World) (h : Settled w) : Settled (k.foldl (fun w _ => settleOnce w) w) := by
  induction k generalizing w with
  | nil => exact h
  | cons a k ih => simp only [List.foldl]; exact ih _ (settleOnce_settled w)

@[simp] theorem settle_nodes (w : World) : (settle w).nodes = w.nodes := iter_nodes _ _
@[simp] theorem settle_closed (w : World) : (settle w).closed = w.closed := iter_closed _ _

theorem settle_settled (w : World) : Settled (settle w) := by
  unfold settle
  cases hn : w.nodes.length with
  | zero =>
    intro i inner p hi _
    simp only [List.range_zero, List.foldl] at hi
    have : w.nodes = [] := List.length_eq_zero_iff.mp hn
    rw [this] at hi; cases hi
  | succ n =>
    rw [List.range_succ_eq_map, List.foldl]
    exact iter_settled _ _ (settleOnce_settled w)

/-! ### reachable worlds -/

theorem wf_append_cancel (w : World) (p : Option Nat) (h : WF w) :
    WF { w with nodes := w.nodes ++ [⟨.cancel, p⟩] } := by
  intro i inner q hn
  simp only at hn
  rcases Nat.lt_or_ge i w.nodes.length with hi | hi
  · rw [List.getElem?_append_left hi] at hn
    obtain ⟨h1, q', h2⟩ := h i inner q hn
    refine ⟨h1, q', ?_⟩
    simp only
    rw [List.getElem?_append_left (by omega)]; exact h2
  · rw [List.getElem?_append_right hi] at hn
    cases hk : i - w.nodes.length with
    | zero => rw [hk] at hn; simp at hn
    | succ k => rw [hk] at hn; simp at hn

theorem wf_append_old (w : World) (p : Option Nat) (h : WF w) :
    WF { w with nodes := w.nodes ++ [⟨.primaryOld, p⟩] } := by
  intro i inner q hn
  simp only at hn
  rcases Nat.lt_or_ge i w.nodes.length with hi | hi
  · rw [List.getElem?_append_left hi] at hn
    obtain ⟨h1, q', h2⟩ := h i inner q hn
    refine ⟨h1, q', ?_⟩
    simp only
    rw [List.getElem?_append_left (by omega)]; exact h2
  · rw [List.getElem?_append_right hi] at hn
    cases hk : i - w.nodes.length with
    | zero => rw [hk] at hn; simp at hn
    | succ k => rw [hk] at hn; simp at hn

theorem wf_append_primary (w : World) (p : Option Nat) (h : WF w) :
    WF { w with nodes := w.nodes ++ [⟨.cancel, p⟩, ⟨.primary w.nodes.length, p⟩] } := by
  intro i inner q hn
  simp only at hn
  rcases Nat.lt_or_ge i w.nodes.length with hi | hi
  · rw [List.getElem?_append_left hi] at hn
    obtain ⟨h1, q', h2⟩ := h i inner q hn
    refine ⟨h1, q', ?_⟩
    simp only
    rw [List.getElem?_append_left (by omega)]; exact h2
  · rw [List.getElem?_append_right hi] at hn
    cases hk : i - w.nodes.length with
    | zero => rw [hk] at hn; simp at hn
    | succ k =>
      rw [hk] at hn
      cases k with
      | zero =>
        simp only [List.getElem?_cons_succ, List.getElem?_cons_zero, Option.some.injEq, Node.mk.injEq, Kind.primary.injEq] at hn
        obtain ⟨rfl, rfl⟩ := hn
        refine ⟨by omega, p, ?_⟩
        simp only
        rw [List.getElem?_append_right (Nat.le_refl _)]
        simp
      | succ k => simp at hn

theorem wf_of_nodes_eq {w w' : World} (h : WF w) (e : w'.nodes = w.nodes) : WF w' := by
  intro i inner p hn; rw [e] at hn
  obtain ⟨h1, q, h2⟩ := h i inner p hn
  exact ⟨h1, q, by rw [e]; exact h2⟩

theorem step_wf_settled (w w' : World) (c : Cmd) (h : WF w) (hs : step w c = some w') : WF w' ∧ Settled w' := by
  cases c with
  | mkCancel p =>
    simp only [step] at hs
    split at hs
    · injection hs with hs; subst hs
      exact ⟨wf_of_nodes_eq (wf_append_cancel w p h) (settle_nodes _), settle_settled _⟩
    · cases hs
  | mkPrimaryOld p =>
    simp only [step] at hs
    split at hs
    · injection hs with hs; subst hs
      exact ⟨wf_of_nodes_eq (wf_append_old w p h) (settle_nodes _), settle_settled _⟩
    · cases hs
  | mkPrimary p =>
    simp only [step] at hs
    split at hs
    · injection hs with hs; subst hs
      exact ⟨wf_of_nodes_eq (wf_append_primary w p h) (settle_nodes _), settle_settled _⟩
    · cases hs
  | cancel i c =>
    simp only [step] at hs
    split at hs
    · injection hs with hs; subst hs
      exact ⟨wf_of_nodes_eq h (by simp), settle_settled _⟩
    · cases hs
  | close i =>
    simp only [step] at hs
    split at hs
    · injection hs with hs; subst hs
      exact ⟨wf_of_nodes_eq h (by simp), settle_settled _⟩
    · injection hs with hs; subst hs
      exact ⟨wf_of_nodes_eq h (by simp), settle_settled _⟩
    · cases hs

/-- run a script; `none` if a command is ill-formed -/
def run : World → List Cmd → Option World
  | w, [] => some w
  | w, c :: cs => match step w c with
    | some w' => run w' cs
    | none => none

theorem wf_empty : WF {} := by intro i inner p hn; simp at hn
theorem settled_empty : Settled {} := by intro i inner p hn; simp at hn

theorem run_wf_settled (cs : List Cmd) (w w' : World) (h : WF w) (hs : Settled w) (hr : run w cs = some w') :
    WF w' ∧ Settled w' := by
  induction cs generalizing w with
  | nil => simp only [run] at hr; injection hr with hr; subst hr; exact ⟨h, hs⟩
  | cons c cs ih =>
    simp only [run] at hr
    split at hr
    · rename_i w1 h1
      obtain ⟨a, b⟩ := step_wf_settled w w1 c h h1
      exact ih w1 a b hr
    · cases hr

/-! ### the point -/

/-- in a well-formed, settled world a fixed primary-scoped context that is done has a cause -/
theorem fixed_primary_done_has_cause (w : World) (i inner : Nat) (p : Option Nat)
    (hwf : WF w) (hs : Settled w) (hn : w.nodes[i]? = some (Node.mk (.primary inner) p))
    (hd : w.done i = true) : (w.cause i).isSome = true := by
  obtain ⟨hlt, q, hin⟩ := hwf i inner p hn
  have hi : i < w.nodes.length := by
    rcases Nat.lt_or_ge i w.nodes.length with h | h
    · exact h
    · rw [List.getElem?_eq_none h] at hn; cases hn
  have hfuel : w.fuel = (w.nodes.length - 1) + 1 + 1 := by unfold World.fuel; omega
  -- Cause looks the inner cancelable context up
  have hv : valueCancel w w.fuel (some i) = some inner := by
    rw [hfuel]
    simp only [valueCancel, hn, hin]
  have hc : w.cause i = w.cause? inner := by
    unfold World.cause; rw [hv]
  rw [hc]
  -- done: the channel is closed (then the goroutine has run) or the inner context is done
  unfold World.done World.err at hd
  rw [hfuel] at hd
  simp only [GoCtx.err, hn] at hd
  by_cases hcl : w.closed.contains i = true
  · exact hs i inner p hn hcl
  · simp only [hcl, hin] at hd
    unfold World.err? at hd
    unfold World.cause?
    cases hl : w.cancelled.lookup inner with
    | none => rw [hl] at hd; simp at hd
    | some e => rfl

/-- a standard cancelable context that is done has a cause (`cancelCtx.cancel` records the error
    itself when no cause is given) -/
theorem cancel_done_has_cause (w : World) (i : Nat) (p : Option Nat)
    (hn : w.nodes[i]? = some (Node.mk .cancel p)) (hd : w.done i = true) : (w.cause i).isSome = true := by
  have hfuel : w.fuel = w.nodes.length + 1 := rfl
  have hv : valueCancel w w.fuel (some i) = some i := by
    rw [hfuel]; simp only [valueCancel, hn]
  unfold World.cause; rw [hv]
  unfold World.done World.err at hd
  rw [hfuel] at hd
  simp only [GoCtx.err, hn] at hd
  unfold World.err? at hd
  unfold World.cause?
  cases hl : w.cancelled.lookup i with
  | none => rw [hl] at hd; simp at hd
  | some e => simp [hl]

end LiteFSVerif.GoCtx
