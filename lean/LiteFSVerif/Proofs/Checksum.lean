/-
  Functional correctness of the checksum cache (Model/Checksum.lean): under the cache invariant,
  `Cache.checksum` returns the from-scratch checksum of the logical image (database pages overlaid
  with the WAL's per-page checksums), whatever mixture of cached blocks and per-page sums it uses.
-/
import LiteFSVerif.Model.Checksum

namespace LiteFSVerif.Cks

/-! ### bit algebra of the flag -/

theorem flag_bits_fin : ∀ i : Fin 64, flag.toBitVec[i.val] = decide (i.val = 63) := by decide

theorem flag_bits (i : Nat) (hi : i < 64) : flag.toBitVec[i] = decide (i = 63) := flag_bits_fin ⟨i, hi⟩

/-- normal form: the flag bit forced -/
def norm (v : Chk) : Chk := v ||| flag

theorem norm_flag_or (y : Chk) : norm (flag ||| y) = norm y := by
  unfold norm
  apply UInt64.eq_of_toBitVec_eq
  ext i hi
  simp only [UInt64.toBitVec_or, BitVec.getElem_or]
  cases flag.toBitVec[i] <;> simp

theorem norm_xor_left (a x : Chk) : norm ((a ||| flag) ^^^ x) = norm (a ^^^ x) := by
  unfold norm
  apply UInt64.eq_of_toBitVec_eq
  ext i hi
  simp only [UInt64.toBitVec_or, UInt64.toBitVec_xor, BitVec.getElem_or, BitVec.getElem_xor, flag_bits i hi]
  by_cases h : i = 63 <;> simp [h]

theorem norm_xor_right (a x : Chk) : norm (a ^^^ (x ||| flag)) = norm (a ^^^ x) := by
  rw [UInt64.xor_comm, norm_xor_left, UInt64.xor_comm]

theorem norm_idem (v : Chk) : norm (norm v) = norm v := by
  unfold norm
  apply UInt64.eq_of_toBitVec_eq
  ext i hi
  simp only [UInt64.toBitVec_or, BitVec.getElem_or]
  cases flag.toBitVec[i] <;> simp

/-- the step of every accumulation loop of db.go: `chksum = flag | (chksum ^ x)` -/
theorem norm_step (acc x : Chk) : norm (flag ||| (acc ^^^ x)) = norm (acc ^^^ x) := norm_flag_or _

/-- congruence of the step under `norm` on the accumulator -/
theorem norm_step_congr (a b x : Chk) (h : norm a = norm b) : norm (a ^^^ x) = norm (b ^^^ x) := by
  have h1 := norm_xor_left a x
  have h2 := norm_xor_left b x
  unfold norm at h h1 h2 ⊢
  rw [← h1, ← h2, h]

theorem flag_or_ne_zero (y : Chk) : flag ||| y ≠ 0 := by
  intro h
  have := congrArg (fun v : UInt64 => v.toBitVec[63]) h
  simp only [UInt64.toBitVec_or, BitVec.getElem_or, flag_bits 63 (by omega)] at this
  simp at this

end LiteFSVerif.Cks

namespace LiteFSVerif.Cks

/-! ### the per-page loop -/

/-- XOR of `f` over the first `n` pages of `block` that lie within `pageN` -/
def xorUpTo (f : Nat → Chk) (block pageN n : Nat) : Chk :=
  (List.range n).foldl (fun a i => if block * blockSize + i + 1 ≤ pageN then a ^^^ f (block * blockSize + i + 1) else a) 0

theorem xorUpTo_succ (f : Nat → Chk) (block pageN n : Nat) :
    xorUpTo f block pageN (n + 1) =
      if block * blockSize + n + 1 ≤ pageN then xorUpTo f block pageN n ^^^ f (block * blockSize + n + 1)
      else xorUpTo f block pageN n := by
  simp [xorUpTo, List.range_succ, List.foldl_append]

theorem norm_of_flag_or (y : Chk) : norm (flag ||| y) = flag ||| y := by
  unfold norm
  apply UInt64.eq_of_toBitVec_eq
  ext i hi
  simp only [UInt64.toBitVec_or, BitVec.getElem_or]
  cases flag.toBitVec[i] <;> simp

theorem norm_congr_right (a b b' : Chk) (h : norm b = norm b') : norm (a ^^^ b) = norm (a ^^^ b') := by
  rw [UInt64.xor_comm a b, UInt64.xor_comm a b']
  exact norm_step_congr b b' a h

/-- invariant of the per-page loop after `n` iterations -/
theorem pageLoop_inv (g : Nat → Except String (Chk × Bool)) (f : Nat → Chk) (block pageN : Nat) (acc : Chk)
    (hg : ∀ p v ok, 1 ≤ p → p ≤ pageN → g p = .ok (v, ok) → ok = true → v = f p) :
    ∀ n r, (List.range n).foldlM (pageStep g block pageN) (acc, false) = .ok r →
      norm r.1 = norm (acc ^^^ xorUpTo f block pageN n) ∧ (r.2 = true → block * blockSize + n > pageN) ∧
      (1 ≤ n → block * blockSize + 1 ≤ pageN → norm r.1 = r.1) := by
  intro n
  induction n with
  | zero =>
    intro r h
    simp only [List.range_zero, List.foldlM_nil, pure, Except.pure] at h
    injection h with h
    subst h
    simp [xorUpTo]
  | succ n ih =>
    intro r h
    rw [List.range_succ, List.foldlM_append] at h
    cases h1 : (List.range n).foldlM (pageStep g block pageN) (acc, false) with
    | error e => rw [h1] at h; simp [bind, Except.bind] at h
    | ok r1 =>
      rw [h1] at h
      simp only [bind, Except.bind, List.foldlM_cons, List.foldlM_nil, pure, Except.pure] at h
      obtain ⟨ih1, ih2, ih3⟩ := ih r1 h1
      rw [xorUpTo_succ]
      unfold pageStep at h
      by_cases hs : r1.2 = true
      · -- already stopped
        simp only [hs, if_true, pure, Except.pure, bind, Except.bind] at h
        injection h with h
        subst h
        have hgt := ih2 hs
        have : ¬ block * blockSize + n + 1 ≤ pageN := by omega
        simp only [this, if_false]
        refine ⟨ih1, fun _ => by omega, fun _ hfirst => ?_⟩
        have hn1 : 1 ≤ n := by
          rcases Nat.eq_zero_or_pos n with h0 | h0
          · subst h0; omega
          · exact h0
        exact ih3 hn1 hfirst
      · simp only [hs, Bool.false_eq_true, if_false, bind, Except.bind] at h
        by_cases hp : block * blockSize + n + 1 > pageN
        · simp only [hp, if_true, pure, Except.pure] at h
          injection h with h
          subst h
          have : ¬ block * blockSize + n + 1 ≤ pageN := by omega
          simp only [this, if_false]
          refine ⟨ih1, fun _ => by omega, fun _ hfirst => ?_⟩
          have hn1 : 1 ≤ n := by
            rcases Nat.eq_zero_or_pos n with h0 | h0
            · subst h0; omega
            · exact h0
          exact ih3 hn1 hfirst
        · simp only [hp, if_false] at h
          have hle : block * blockSize + n + 1 ≤ pageN := by omega
          cases hgp : g (block * blockSize + n + 1) with
          | error e => rw [hgp] at h; simp at h
          | ok vo =>
            obtain ⟨v, ok⟩ := vo
            rw [hgp] at h
            simp only at h
            cases ok with
            | false => simp [throw, throwThe, MonadExceptOf.throw] at h
            | true =>
              simp only [Bool.not_true, Bool.false_eq_true, if_false, pure, Except.pure] at h
              injection h with h
              subst h
              have hv := hg _ v true (by omega) hle hgp rfl
              simp only [hle, if_true]
              refine ⟨?_, fun hh => by simp at hh, fun _ _ => norm_of_flag_or _⟩
              rw [norm_step, hv]
              have := norm_step_congr r1.1 (acc ^^^ xorUpTo f block pageN n) (f (block * blockSize + n + 1)) ih1
              rw [this, UInt64.xor_assoc]

end LiteFSVerif.Cks

namespace LiteFSVerif.Cks

/-! ### what `pageChecksum` answers -/

/-- the checksum of page `pgno` of the logical image: newest WAL version, else the database page;
    the lock page counts as 0 -/
def effChk (c : Cache) (w : WalCks) (newWAL : List (Nat × Chk)) (lock pgno : Nat) : Chk :=
  if pgno = lock then 0 else
  match newWAL.lookup pgno with
  | some v => v
  | none =>
    match walLast w pgno with
    | some v => v
    | none => c.pages.getD (pgno - 1) 0

theorem pageChecksum_eff (c : Cache) (w : WalCks) (ps pageN lock : Nat) (newWAL : List (Nat × Chk))
    (hl : lockPgno ps = .ok lock) (p : Nat) (v : Chk) (ok : Bool) (hp0 : 1 ≤ p) (hp : p ≤ pageN)
    (h : c.pageChecksum w ps p pageN newWAL = .ok (v, ok)) : v = effChk c w newWAL lock p := by
  unfold Cache.pageChecksum at h
  simp only [hl, bind, Except.bind, pure, Except.pure] at h
  unfold effChk
  by_cases hlock : p = lock
  · simp only [hlock, if_true] at h ⊢
    injection h with h; injection h with h1 _; exact h1.symm
  · have hgt : ¬ p > pageN := by omega
    simp only [hlock, if_false, hgt] at h ⊢
    cases hn : newWAL.lookup p with
    | some x => simp only [hn] at h ⊢; injection h with h; injection h with h1 _; exact h1.symm
    | none =>
      simp only [hn] at h ⊢
      cases hw : walLast w p with
      | some x => simp only [hw] at h ⊢; injection h with h; injection h with h1 _; exact h1.symm
      | none =>
        simp only [hw] at h ⊢
        unfold Cache.dbPage at h
        have : ¬ p = 0 := by omega
        simp only [this, if_false] at h
        injection h with h; injection h with h1 _; exact h1.symm

/-! ### cached block sums -/

/-- the value `recomputeBlockChksum` stores for a block -/
def blockVal (c : Cache) (block : Nat) : Chk :=
  (List.range blockSize).foldl (fun (acc : Chk) i => flag ||| (acc ^^^ c.pages.getD (block * blockSize + i) 0)) 0

/-- XOR of the database page checksums of the first `n` pages of a block -/
def rawXor (c : Cache) (block n : Nat) : Chk :=
  (List.range n).foldl (fun a i => a ^^^ c.pages.getD (block * blockSize + i) 0) 0

theorem blockFold_norm (c : Cache) (block : Nat) : ∀ n,
    norm ((List.range n).foldl (fun (acc : Chk) i => flag ||| (acc ^^^ c.pages.getD (block * blockSize + i) 0)) 0) =
    norm (rawXor c block n) := by
  intro n
  induction n with
  | zero => simp [rawXor]
  | succ n ih =>
    simp only [rawXor, List.range_succ, List.foldl_append, List.foldl_cons, List.foldl_nil] at ih ⊢
    rw [norm_step]
    exact norm_step_congr _ _ _ ih

theorem blockVal_norm (c : Cache) (block : Nat) : norm (blockVal c block) = norm (rawXor c block blockSize) :=
  blockFold_norm c block blockSize

theorem blockVal_ne_zero (c : Cache) (block : Nat) : blockVal c block ≠ 0 := by
  unfold blockVal
  have : blockSize = 255 + 1 := rfl
  rw [this, List.range_succ, List.foldl_append]
  simp only [List.foldl_cons, List.foldl_nil]
  exact flag_or_ne_zero _

/-- invariant: every cached (non-zero) block sum is the sum of the block's current page checksums -/
def BlocksOK (c : Cache) : Prop := ∀ k, c.blocks.getD k 0 ≠ 0 → c.blocks.getD k 0 = blockVal c k

theorem padTo_getD (l : List Chk) (n k : Nat) : (padTo l n).getD k 0 = l.getD k 0 := by
  unfold padTo
  split
  · simp only [List.getD_eq_getElem?_getD, List.getElem?_append]
    split
    · rfl
    · rename_i hge
      have : l[k]? = none := by simp at hge; simp [hge]
      rw [this]
      simp [List.getElem?_replicate]
      split <;> rfl
  · rfl

theorem padTo_length (l : List Chk) (n : Nat) : n ≤ (padTo l n).length := by
  unfold padTo
  split
  · simp only [List.length_append, List.length_replicate]; omega
  · omega

/-- `blockChksum` answers the block's current sum (cached or recomputed), keeps the pages and the
    invariant -/
theorem blockChksum_spec (c : Cache) (block : Nat) (hok : BlocksOK c) :
    (c.blockChksum block).2 = blockVal c block ∧ (c.blockChksum block).1.pages = c.pages ∧
    BlocksOK (c.blockChksum block).1 := by
  unfold Cache.blockChksum
  simp only
  split
  · -- recomputed
    have hval : (c.recompute block).blocks.getD block 0 = blockVal c block := by
      unfold Cache.recompute blockVal
      simp only
      have hlen := padTo_length c.blocks (block + 1)
      simp [List.getD_eq_getElem?_getD, List.getElem?_set, show block < (padTo c.blocks (block + 1)).length by omega]
    refine ⟨hval, rfl, ?_⟩
    intro k hk
    by_cases hkb : k = block
    · subst hkb
      rw [hval]
      rfl
    · have hget : (c.recompute block).blocks.getD k 0 = c.blocks.getD k 0 := by
        unfold Cache.recompute
        simp only [List.getD_eq_getElem?_getD, List.getElem?_set_ne (Ne.symm hkb)]
        rw [← List.getD_eq_getElem?_getD, ← List.getD_eq_getElem?_getD, padTo_getD]
      rw [hget] at hk ⊢
      have := hok k hk
      rw [this]
      rfl
  · rename_i hc
    have hne : c.blocks.getD block 0 ≠ 0 := by
      intro h0
      apply hc
      right
      exact h0
    exact ⟨hok block hne, rfl, hok⟩

end LiteFSVerif.Cks

namespace LiteFSVerif.Cks

/-! ### one block of `checksum` -/

/-- hypotheses about a block that is summed from the cache (not marked as having WAL pages) -/
structure CachedBlockOK (c : Cache) (w : WalCks) (newWAL : List (Nat × Chk)) (lock pageN block : Nat) : Prop where
  noNew : ∀ i, i < blockSize → newWAL.lookup (block * blockSize + i + 1) = none
  noWal : ∀ i, i < blockSize → walLast w (block * blockSize + i + 1) = none
  /-- pages of the block beyond the database size have no checksum in the cache (the file was
      truncated, or they are marked in the WAL and the block is not summed from the cache) -/
  tailZero : ∀ i, i < blockSize → pageN ≤ block * blockSize + i → c.pages.getD (block * blockSize + i) 0 = 0
  lockZero : 1 ≤ lock → c.pages.getD (lock - 1) 0 = 0

theorem rawXor_eq_xorUpTo (c : Cache) (w : WalCks) (newWAL : List (Nat × Chk)) (lock pageN block : Nat)
    (h : CachedBlockOK c w newWAL lock pageN block) :
    ∀ n, n ≤ blockSize → rawXor c block n = xorUpTo (effChk c w newWAL lock) block pageN n := by
  intro n
  induction n with
  | zero => intro _; simp [rawXor, xorUpTo]
  | succ n ih =>
    intro hn
    have hlt : n < blockSize := by omega
    rw [xorUpTo_succ]
    have hraw : rawXor c block (n + 1) = rawXor c block n ^^^ c.pages.getD (block * blockSize + n) 0 := by
      simp [rawXor, List.range_succ, List.foldl_append]
    rw [hraw, ih (by omega)]
    by_cases hp : block * blockSize + n + 1 ≤ pageN
    · simp only [hp, if_true]
      congr 1
      unfold effChk
      by_cases hk : block * blockSize + n + 1 = lock
      · simp only [hk, if_true]
        have := h.lockZero (by omega)
        rw [← hk] at this
        simpa using this
      · simp only [hk, if_false, h.noNew n hlt, h.noWal n hlt]
        simp
    · simp only [hp, if_false]
      rw [h.tailZero n hlt (by omega)]
      simp

theorem checksumBlock_spec (c c' : Cache) (w : WalCks) (ps pageN lock : Nat) (newWAL : List (Nat × Chk))
    (ign : Bool) (block : Nat) (acc acc' : Chk)
    (hl : lockPgno ps = .ok lock) (hok : BlocksOK c)
    (hcb : ign = false → CachedBlockOK c w newWAL lock pageN block)
    (h : c.checksumBlock w ps pageN newWAL ign block acc = .ok (c', acc')) :
    norm acc' = norm (acc ^^^ xorUpTo (effChk c w newWAL lock) block pageN blockSize) ∧
    c'.pages = c.pages ∧ BlocksOK c' ∧ (block * blockSize + 1 ≤ pageN → norm acc' = acc') := by
  unfold Cache.checksumBlock at h
  cases ign with
  | true =>
    simp only [Bool.not_true, Bool.false_eq_true, if_false, bind, Except.bind, pure, Except.pure] at h
    cases hr : (List.range blockSize).foldlM (pageStep (fun p => c.pageChecksum w ps p pageN newWAL) block pageN) (acc, false) with
    | error e => rw [hr] at h; simp at h
    | ok r =>
      rw [hr] at h
      simp only at h
      injection h with h
      injection h with h1 h2
      subst h1; subst h2
      have := pageLoop_inv (fun p => c.pageChecksum w ps p pageN newWAL) (effChk c w newWAL lock) block pageN acc
        (fun p v ok hp0 hp hg _ => pageChecksum_eff c w ps pageN lock newWAL hl p v ok hp0 hp hg) blockSize r hr
      exact ⟨this.1, rfl, hok, fun hfirst => this.2.2 (by decide) hfirst⟩
  | false =>
    have hbs := blockChksum_spec c block hok
    simp only [Bool.not_false, if_true, bind, Except.bind, pure, Except.pure] at h
    have hne : ((c.blockChksum block).2 != 0) = true := by
      rw [hbs.1]; simpa using blockVal_ne_zero c block
    simp only [hne, if_true] at h
    injection h with h
    injection h with h1 h2
    subst h1; subst h2
    refine ⟨?_, hbs.2.1, hbs.2.2, fun _ => norm_of_flag_or _⟩
    rw [norm_step, hbs.1]
    have h1 := blockVal_norm c block
    have h2 := rawXor_eq_xorUpTo c w newWAL lock pageN block (hcb rfl) blockSize (Nat.le_refl _)
    rw [← h2]
    exact norm_congr_right acc _ _ h1

end LiteFSVerif.Cks

namespace LiteFSVerif.Cks

/-! ### the whole checksum -/

theorem effChk_pages (c' c : Cache) (w : WalCks) (newWAL : List (Nat × Chk)) (lock : Nat) (h : c'.pages = c.pages) :
    effChk c' w newWAL lock = effChk c w newWAL lock := by
  funext p; simp [effChk, h]

theorem CachedBlockOK.of_pages {c c' : Cache} {w : WalCks} {newWAL : List (Nat × Chk)} {lock pageN block : Nat}
    (h : c'.pages = c.pages) (hc : CachedBlockOK c w newWAL lock pageN block) : CachedBlockOK c' w newWAL lock pageN block :=
  ⟨hc.noNew, hc.noWal, by simpa [h] using hc.tailZero, by simpa [h] using hc.lockZero⟩

/-- XOR of the effective checksums of the blocks below `k` -/
def blocksXor (f : Nat → Chk) (pageN k : Nat) : Chk :=
  (List.range k).foldl (fun a b => a ^^^ xorUpTo f b pageN blockSize) 0

theorem blocksXor_succ (f : Nat → Chk) (pageN k : Nat) :
    blocksXor f pageN (k + 1) = blocksXor f pageN k ^^^ xorUpTo f k pageN blockSize := by
  simp [blocksXor, List.range_succ, List.foldl_append]

theorem blocksLoop_inv (c : Cache) (w : WalCks) (ps pageN lock : Nat) (newWAL : List (Nat × Chk))
    (hl : lockPgno ps = .ok lock) (hok : BlocksOK c)
    (hcb : ∀ b, blockIgnored w newWAL b = false → b * blockSize + 1 ≤ pageN → CachedBlockOK c w newWAL lock pageN b) :
    ∀ k r, k * blockSize < pageN + blockSize →
      (List.range k).foldlM (fun (st : Cache × Chk) block =>
        st.1.checksumBlock w ps pageN newWAL (blockIgnored w newWAL block) block st.2) (c, 0) = .ok r →
      norm r.2 = norm (blocksXor (effChk c w newWAL lock) pageN k) ∧ r.1.pages = c.pages ∧ BlocksOK r.1 ∧
      (1 ≤ k → norm r.2 = r.2) := by
  intro k
  induction k with
  | zero =>
    intro r _ h
    simp only [List.range_zero, List.foldlM_nil, pure, Except.pure] at h
    injection h with h
    subst h
    exact ⟨by simp [blocksXor], rfl, hok, fun h => by omega⟩
  | succ k ih =>
    intro r hk h
    rw [List.range_succ, List.foldlM_append] at h
    cases h1 : (List.range k).foldlM (fun (st : Cache × Chk) block =>
        st.1.checksumBlock w ps pageN newWAL (blockIgnored w newWAL block) block st.2) (c, 0) with
    | error e => rw [h1] at h; simp [bind, Except.bind] at h
    | ok r1 =>
      rw [h1] at h
      simp only [bind, Except.bind, List.foldlM_cons, List.foldlM_nil, pure, Except.pure] at h
      have hexp : (k + 1) * blockSize = k * blockSize + 256 := by rw [Nat.add_mul]; rfl
      have hbs256 : blockSize = 256 := rfl
      obtain ⟨i1, i2, i3, _⟩ := ih r1 (by omega) h1
      cases h2 : r1.1.checksumBlock w ps pageN newWAL (blockIgnored w newWAL k) k r1.2 with
      | error e => rw [h2] at h; simp at h
      | ok r2 =>
        rw [h2] at h
        simp only at h
        injection h with h
        subst h
        have hfirst : k * blockSize + 1 ≤ pageN := by omega
        have hspec := checksumBlock_spec r1.1 r2.1 w ps pageN lock newWAL (blockIgnored w newWAL k) k r1.2 r2.2 hl i3
          (fun hig => (hcb k hig hfirst).of_pages i2) (by simpa using h2)
        rw [effChk_pages r1.1 c w newWAL lock i2] at hspec
        refine ⟨?_, by rw [hspec.2.1, i2], hspec.2.2.1, fun _ => hspec.2.2.2 hfirst⟩
        rw [blocksXor_succ, hspec.1]
        exact norm_step_congr _ _ _ i1

/-- XOR of `f` over pages 1..n -/
def flatXor (f : Nat → Chk) (n : Nat) : Chk := (List.range n).foldl (fun a i => a ^^^ f (i + 1)) 0

theorem flatXor_succ (f : Nat → Chk) (n : Nat) : flatXor f (n + 1) = flatXor f n ^^^ f (n + 1) := by
  simp [flatXor, List.range_succ, List.foldl_append]

theorem flat_block (f : Nat → Chk) (pageN k : Nat) : ∀ n,
    flatXor f (min (k * blockSize + n) pageN) = flatXor f (min (k * blockSize) pageN) ^^^ xorUpTo f k pageN n := by
  intro n
  induction n with
  | zero => simp [xorUpTo]
  | succ n ih =>
    rw [xorUpTo_succ]
    by_cases hp : k * blockSize + n + 1 ≤ pageN
    · simp only [hp, if_true]
      have e1 : min (k * blockSize + (n + 1)) pageN = (k * blockSize + n) + 1 := by omega
      have e2 : min (k * blockSize + n) pageN = k * blockSize + n := by omega
      rw [e1, flatXor_succ, ← UInt64.xor_assoc, ← ih, e2]
    · simp only [hp, if_false]
      have e1 : min (k * blockSize + (n + 1)) pageN = min (k * blockSize + n) pageN := by omega
      rw [e1, ih]

theorem blocks_flat (f : Nat → Chk) (pageN : Nat) : ∀ k,
    blocksXor f pageN k = flatXor f (min (k * blockSize) pageN) := by
  intro k
  induction k with
  | zero => simp [blocksXor, flatXor]
  | succ k ih =>
    rw [blocksXor_succ, ih]
    have := flat_block f pageN k blockSize
    have e : (k + 1) * blockSize = k * blockSize + blockSize := by rw [Nat.add_mul]; simp
    rw [e, this]

/-- the main theorem: under the cache invariant (cached block sums are current; blocks summed from
    the cache hold no WAL page, nothing beyond the database size and a zero lock slot) `checksum`
    returns exactly the flagged XOR of the effective page checksums of pages 1..pageN -/
theorem checksum_correct (c c' : Cache) (w : WalCks) (ps pageN lock : Nat) (newWAL : List (Nat × Chk)) (v : Chk)
    (hl : lockPgno ps = .ok lock) (hok : BlocksOK c) (hN : 1 ≤ pageN)
    (hcb : ∀ b, blockIgnored w newWAL b = false → b * blockSize + 1 ≤ pageN → CachedBlockOK c w newWAL lock pageN b)
    (h : c.checksum w ps pageN newWAL = .ok (c', v)) :
    v = flatXor (effChk c w newWAL lock) pageN ||| flag ∧ c'.pages = c.pages ∧ BlocksOK c' := by
  unfold Cache.checksum at h
  have h0 : ¬ pageN = 0 := by omega
  simp only [h0, if_false, bind, Except.bind, pure, Except.pure] at h
  split at h
  · simp [throw, throwThe, MonadExceptOf.throw] at h
  · have hk' : ((pageN - 1) / 256 + 1) * 256 < pageN + 256 := by omega
    have hk : ((pageN - 1) / blockSize + 1) * blockSize < pageN + blockSize := hk'
    have := blocksLoop_inv c w ps pageN lock newWAL hl hok hcb ((pageN - 1) / blockSize + 1) (c', v) hk h
    obtain ⟨i1, i2, i3, i4⟩ := this
    refine ⟨?_, i2, i3⟩
    have hv : norm v = v := i4 (Nat.le_add_left 1 _)
    rw [← hv, i1, blocks_flat]
    have hmin' : min (((pageN - 1) / 256 + 1) * 256) pageN = pageN := by omega
    have hmin : min (((pageN - 1) / blockSize + 1) * blockSize) pageN = pageN := hmin'
    rw [hmin]
    rfl

end LiteFSVerif.Cks

namespace LiteFSVerif.Cks

/-! ### relation to the specification and preservation of the invariant -/

/-- the logical image as per-page checksums -/
def effImage (c : Cache) (w : WalCks) (newWAL : List (Nat × Chk)) (lock pageN : Nat) : List Chk :=
  (List.range pageN).map fun i => effChk c w newWAL lock (i + 1)

theorem effChk_lock (c : Cache) (w : WalCks) (newWAL : List (Nat × Chk)) (lock : Nat) : effChk c w newWAL lock lock = 0 := by
  simp [effChk]

theorem spec_fold_eq (c : Cache) (w : WalCks) (newWAL : List (Nat × Chk)) (lock pageN : Nat) : ∀ n, n ≤ pageN →
    (List.range n).foldl (fun acc i => if i + 1 = lock then acc else acc ^^^ (effImage c w newWAL lock pageN).getD i 0) 0 =
    flatXor (effChk c w newWAL lock) n := by
  intro n
  induction n with
  | zero => intro _; simp [flatXor]
  | succ n ih =>
    intro hn
    rw [List.range_succ, List.foldl_append, ih (by omega), flatXor_succ]
    simp only [List.foldl_cons, List.foldl_nil]
    have hget : (effImage c w newWAL lock pageN).getD n 0 = effChk c w newWAL lock (n + 1) := by
      simp [effImage, List.getD_eq_getElem?_getD, show n < pageN by omega]
    by_cases hk : n + 1 = lock
    · simp only [hk, if_true]
      rw [← hk, show effChk c w newWAL (n + 1) (n + 1) = 0 from effChk_lock _ _ _ _]
      simp
    · simp only [hk, if_false, hget]

/-- `checksum` returns the specification's checksum of the logical image -/
theorem checksum_is_spec (c c' : Cache) (w : WalCks) (ps pageN lock : Nat) (newWAL : List (Nat × Chk)) (v : Chk)
    (hl : lockPgno ps = .ok lock) (hok : BlocksOK c) (hN : 1 ≤ pageN)
    (hcb : ∀ b, blockIgnored w newWAL b = false → b * blockSize + 1 ≤ pageN → CachedBlockOK c w newWAL lock pageN b)
    (h : c.checksum w ps pageN newWAL = .ok (c', v)) :
    v = specChecksum lock (effImage c w newWAL lock pageN) := by
  have := (checksum_correct c c' w ps pageN lock newWAL v hl hok hN hcb h).1
  rw [this]
  unfold specChecksum
  have hlen : (effImage c w newWAL lock pageN).length = pageN := by simp [effImage]
  rw [hlen, spec_fold_eq c w newWAL lock pageN pageN (Nat.le_refl _)]

theorem foldl_ext' {α β : Type} (f g : α → β → α) (l : List β) (a : α) (h : ∀ a, ∀ b ∈ l, f a b = g a b) :
    l.foldl f a = l.foldl g a := by
  induction l generalizing a with
  | nil => rfl
  | cons x xs ih =>
    simp only [List.foldl_cons]
    rw [h a x (by simp)]
    exact ih _ (fun a b hb => h a b (by simp [hb]))

/-- a page write keeps every cached block sum current: the written page's block is invalidated,
    the other blocks' pages are untouched -/
theorem set_blocksOK (c c' : Cache) (ps pgno : Nat) (v : Chk) (hok : BlocksOK c) (h : c.set ps pgno v = .ok c') :
    BlocksOK c' := by
  unfold Cache.set at h
  by_cases h0 : pgno = 0
  · simp [h0, bind, Except.bind, throw, throwThe, MonadExceptOf.throw] at h
  · simp only [h0, if_false, bind, Except.bind, pure, Except.pure] at h
    cases hl : lockPgno ps with
    | error e => simp [hl] at h
    | ok lock =>
      simp only [hl] at h
      injection h with h
      subst h
      intro k hk
      simp only at hk ⊢
      by_cases hkb : k = (pgno - 1) / blockSize
      · -- the written page's block: cached value cleared (if it existed)
        exfalso
        apply hk
        subst hkb
        by_cases hlt : (pgno - 1) / blockSize < c.blocks.length
        · simp [hlt, List.getD_eq_getElem?_getD]
        · simp only [hlt, if_false]
          rw [List.getD_eq_getElem?_getD, List.getElem?_eq_none (by omega)]
          rfl
      · have hbl : (if (pgno - 1) / blockSize < c.blocks.length then c.blocks.set ((pgno - 1) / blockSize) 0 else c.blocks).getD k 0 = c.blocks.getD k 0 := by
          split
          · simp [List.getD_eq_getElem?_getD, List.getElem?_set_ne (Ne.symm hkb)]
          · rfl
        rw [hbl] at hk ⊢
        rw [hok k hk]
        -- pages of block k are unchanged
        unfold blockVal
        apply foldl_ext'
        intro acc i hi
        have hi : i < blockSize := by simpa using hi
        have hne : pgno - 1 ≠ k * blockSize + i := by
          intro he
          apply hkb
          rw [he]
          have : (k * blockSize + i) / blockSize = k := by
            rw [Nat.mul_comm, Nat.mul_add_div (by decide : 0 < blockSize), Nat.div_eq_of_lt hi]; simp
          exact this.symm
        simp only [List.getD_eq_getElem?_getD, List.getElem?_set_ne hne]
        rw [← List.getD_eq_getElem?_getD, ← List.getD_eq_getElem?_getD, padTo_getD]

end LiteFSVerif.Cks
