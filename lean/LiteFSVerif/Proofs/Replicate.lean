/-
  End to end at byte level, rollback-journal mode: the file a primary publishes for a commit,
  applied by a replica that held the primary's previous bytes, leaves the replica's database file
  byte-identical to the primary's database file (cut to the committed size).
-/
import LiteFSVerif.Proofs.Log
import LiteFSVerif.Proofs.ApplyBytes

namespace LiteFSVerif.Engine
open LiteFSVerif LiteFSVerif.BA LiteFSVerif.Cks

/-- page `q` (page size `ps`) covers byte offset `i` -/
def covers (ps q i : Nat) : Prop := (q - 1) * ps ≤ i ∧ i < (q - 1) * ps + ps

instance (ps q i : Nat) : Decidable (covers ps q i) := by unfold covers; infer_instance

/-- if every frame that covers `i` carries the value `w` there, and either the old byte is `w` or
    some frame covers `i`, the byte after the frames is `w` -/
theorem byteAfterFrom_const (ps : Nat) (w : UInt8) : ∀ (pages : List (Nat × ByteArray)) (i : Nat) (v : UInt8),
    (∀ p ∈ pages, covers ps p.1 i → getD p.2 (i - (p.1 - 1) * ps) = w) →
    (v = w ∨ ∃ p ∈ pages, covers ps p.1 i) →
    byteAfterFrom ps pages i v = w := by
  intro pages
  induction pages with
  | nil =>
    intro i v _ h
    cases h with
    | inl h => exact h
    | inr h => obtain ⟨p, hp, _⟩ := h; cases hp
  | cons q rest ih =>
    intro i v hall h
    unfold byteAfterFrom
    simp only [List.foldl_cons]
    have hrest : ∀ p ∈ rest, covers ps p.1 i → getD p.2 (i - (p.1 - 1) * ps) = w :=
      fun p hp => hall p (List.mem_cons_of_mem _ hp)
    by_cases hq : (q.1 - 1) * ps ≤ i ∧ i < (q.1 - 1) * ps + ps
    · rw [if_pos hq]
      exact ih i _ hrest (Or.inl (hall q (List.mem_cons_self ..) hq))
    · rw [if_neg hq]
      apply ih i v hrest
      cases h with
      | inl h => exact Or.inl h
      | inr h =>
        obtain ⟨p, hp, hc⟩ := h
        cases hp with
        | head => exact absurd hc hq
        | tail _ hm => exact Or.inr ⟨p, hm, hc⟩

/-- rollback-journal commit, end to end.  Let the primary's commit succeed; `dbf` is its database
    file (the commit itself does not write it).  Then the published file `f` is such that any
    node `r` with the same page size whose database bytes agree with `dbf` everywhere outside the
    captured pages — i.e. a replica holding the previous image, given that every page the
    transaction changed is in the dirty set (`C02_capture_exact`'s hypothesis) — ends, after a
    successful apply, with a database file of exactly the committed size whose every byte is the
    primary's. -/
theorem journal_commit_replicates (p p' : Eng) (mode : Nat) (hcommit : commitJournalValid p mode = .ok p')
    (hps : p.pageSize ≠ 0) :
    ∃ (dbf : ByteArray) (lock : Nat) (f : LTXFile), p'.dbFile = some dbf ∧ lockPgno p.pageSize = .ok lock ∧
      p'.ltx = addLTX p.ltx f ∧
      ∀ (r r' : Eng) (fatal : Bool), applyLTX r f fatal = .ok r' → f.commit > 0 → r.pageSize = p.pageSize →
        (∀ i, (∀ q ∈ (sortNat (p.dirty.filter (· ≤ f.commit))).filter (· ≠ lock), ¬ covers p.pageSize q i) →
            getD (dbBytes r) i = getD dbf i) →
        ∃ d', r'.dbFile = some d' ∧ d'.size = f.commit * p.pageSize ∧ ∀ i, i < d'.size → getD d' i = getD dbf i := by
  obtain ⟨dbf, lock, f, h1, h2, h3, h4, h5, h6, h7, _⟩ := commitJournalValid_captures2 p p' mode hcommit
  refine ⟨dbf, lock, f, by rw [h7, h1], h2, h3, ?_⟩
  intro r r' fatal happly hc hrps hagree
  obtain ⟨d', g1, g2, _, g4, g5⟩ := applyLTX_bytes r r' f fatal happly hc
  have hps' : r'.pageSize = p.pageSize := by
    rw [g2, hrps]; simp [hps]
  refine ⟨d', g1, by rw [g4, hps'], ?_⟩
  intro i hi
  rw [g5 i hi, hps']
  apply byteAfterFrom_const
  · -- every covering frame carries the primary's byte
    intro pg hpg hcov
    rw [h5] at hpg
    obtain ⟨q, _, hq⟩ := List.mem_map.mp hpg
    subst hq
    simp only
    rw [getD_extract]
    have e : (q - 1) * p.pageSize + (i - (q - 1) * p.pageSize) = i := by
      have := hcov.1; simp only at this; omega
    rw [e, if_pos hcov.2]
  · -- otherwise the old byte already is the primary's
    by_cases hex : ∃ pg ∈ f.pages, covers p.pageSize pg.1 i
    · exact Or.inr hex
    · left
      apply hagree
      intro q hq hcov
      apply hex
      refine ⟨(q, dbf.extract ((q - 1) * p.pageSize) ((q - 1) * p.pageSize + p.pageSize)), ?_, hcov⟩
      rw [h5]
      rw [h4] at hq
      exact List.mem_map.mpr ⟨q, hq, rfl⟩

end LiteFSVerif.Engine

namespace LiteFSVerif.Engine
open LiteFSVerif LiteFSVerif.BA LiteFSVerif.Cks LiteFSVerif.Sqlite

theorem insertSorted_mem (n x : Nat) : ∀ l : List Nat, x ∈ insertSorted n l ↔ x = n ∨ x ∈ l := by
  intro l
  induction l with
  | nil => simp [insertSorted]
  | cons a rest ih =>
    unfold insertSorted
    split
    · simp
    · simp only [List.mem_cons, ih]
      constructor
      · rintro (h | h | h)
        · exact Or.inr (Or.inl h)
        · exact Or.inl h
        · exact Or.inr (Or.inr h)
      · rintro (h | h | h)
        · exact Or.inr (Or.inl h)
        · exact Or.inl h
        · exact Or.inr (Or.inr h)

theorem sortNat_mem_aux (x : Nat) : ∀ (l acc : List Nat),
    x ∈ l.foldl (fun acc n => insertSorted n acc) acc ↔ x ∈ l ∨ x ∈ acc := by
  intro l
  induction l with
  | nil => intro acc; simp
  | cons a rest ih =>
    intro acc
    simp only [List.foldl_cons, ih, insertSorted_mem, List.mem_cons]
    constructor
    · rintro (h | h | h)
      · exact Or.inl (Or.inr h)
      · exact Or.inl (Or.inl h)
      · exact Or.inr h
    · rintro ((h | h) | h)
      · exact Or.inr (Or.inl h)
      · exact Or.inl h
      · exact Or.inr (Or.inr h)

theorem sortNat_mem (x : Nat) (l : List Nat) : x ∈ sortNat l ↔ x ∈ l := by
  unfold sortNat
  rw [sortNat_mem_aux]
  simp

theorem lookup_none_iff_not_key (l : List (Nat × Nat)) (q : Nat) : l.lookup q = none ↔ q ∉ l.map (·.1) := by
  induction l with
  | nil => simp
  | cons a rest ih =>
    obtain ⟨k, v⟩ := a
    simp only [List.lookup_cons, List.map_cons, List.mem_cons, not_or]
    by_cases h : q = k
    · subst h; simp
    · have : (q == k) = false := by simpa using h
      rw [this]
      simp only [ih]
      exact ⟨fun hh => ⟨h, hh⟩, fun hh => hh.2⟩

theorem covers_unique {ps q q' i : Nat} (hq : q ≠ 0) (hq' : q' ≠ 0)
    (h : covers ps q i) (h' : covers ps q' i) : q = q' := by
  unfold covers at h h'
  have key : ∀ a b : Nat, a < b → ¬ (b * ps ≤ i ∧ i < a * ps + ps) := by
    intro a b hab ⟨h1, h2⟩
    have : (a + 1) * ps ≤ b * ps := Nat.mul_le_mul_right ps hab
    rw [Nat.add_mul, Nat.one_mul] at this
    omega
  by_cases hlt : q - 1 < q' - 1
  · exact absurd ⟨h'.1, h.2⟩ (key _ _ hlt)
  · by_cases hgt : q' - 1 < q - 1
    · exact absurd ⟨h.1, h'.2⟩ (key _ _ hgt)
    · omega

/-- WAL commit, end to end.  The file a primary publishes for a WAL transaction, applied by any
    node with the same page size, leaves a database file of exactly the size in the commit frame
    in which every byte of a page written by the transaction is the byte of that page's *last*
    frame in the primary's WAL (located by `buildTxFrameOffsets`, see `buildTxFrames_spec`), and
    every other byte (and the lock page) is what the node held before. -/
theorem wal_commit_replicates (p p' : Eng) (hcommit : commitWALBody p = .ok p') (hne : p' ≠ p) (hps : p.pageSize ≠ 0) :
    ∃ (wal : ByteArray) (tx : TxFrames) (lock : Nat) (f : LTXFile), p.wal = some wal ∧
      buildTxFrames wal p.pageSize p.w.offset p.w.bo p.w.salt1 p.w.salt2 p.w.chk1 p.w.chk2 = .ok (some tx) ∧
      lockPgno p.pageSize = .ok lock ∧ p'.ltx = addLTX p.ltx f ∧
      ∀ (r r' : Eng) (fatal : Bool), applyLTX r f fatal = .ok r' → f.commit > 0 → r.pageSize = p.pageSize →
        ∃ d', r'.dbFile = some d' ∧ d'.size = tx.commit * p.pageSize ∧
          ∀ i q, i < d'.size → q ≠ 0 → covers p.pageSize q i →
            getD d' i = (if q = lock then getD (dbBytes r) i else
              match tx.offsets.lookup q with
              | some off => getD wal (off + 24 + (i - (q - 1) * p.pageSize))
              | none => getD (dbBytes r) i) := by
  obtain ⟨wal, tx, lock, f, h1, h2, h3, h4, h5, _, _, h8, h9, h10⟩ := commitWAL_captures2 p p' hcommit hne
  refine ⟨wal, tx, lock, f, h1, h2, h3, h4, ?_⟩
  intro r r' fatal happly hc hrps
  obtain ⟨d', g1, g2, _, g4, g5⟩ := applyLTX_bytes r r' f fatal happly hc
  have hps' : r'.pageSize = p.pageSize := by
    rw [g2, hrps]; simp [hps]
  refine ⟨d', g1, by rw [g4, hps', h5], ?_⟩
  intro i q hi hq0 hcov
  rw [g5 i hi, hps']
  -- is q one of the captured pages?
  by_cases hmem : q ∈ (sortNat (tx.offsets.map (·.1))).filter (· ≠ lock)
  · have hm := List.mem_filter.mp hmem
    have hql : q ≠ lock := by simpa using hm.2
    have hkey : q ∈ tx.offsets.map (·.1) := (sortNat_mem q _).mp hm.1
    rw [if_neg hql]
    cases hlk : tx.offsets.lookup q with
    | none => exact absurd hkey ((lookup_none_iff_not_key _ _).mp hlk)
    | some off =>
      simp only
      apply byteAfterFrom_const
      · intro pg hpg hcov'
        rw [h8] at hpg
        obtain ⟨q', hq'mem, hq'⟩ := List.mem_map.mp hpg
        subst hq'
        simp only at hcov' ⊢
        have hq'0 := (h10 q' hq'mem).1
        have : q' = q := covers_unique hq'0 hq0 hcov' hcov
        subst this
        rw [hlk]
        simp only [Option.getD_some]
        rw [getD_extract]
        have hj : i - (q' - 1) * p.pageSize < p.pageSize := by
          have a := hcov.1; have b := hcov.2; omega
        rw [if_pos (by omega)]
      · right
        refine ⟨(q, wal.extract ((tx.offsets.lookup q).getD 0 + 24) ((tx.offsets.lookup q).getD 0 + 24 + p.pageSize)), ?_, hcov⟩
        rw [h8]
        exact List.mem_map.mpr ⟨q, hmem, rfl⟩
  · -- not captured: no frame covers i
    have hunc : ∀ pg ∈ f.pages, ¬ ((pg.1 - 1) * p.pageSize ≤ i ∧ i < (pg.1 - 1) * p.pageSize + p.pageSize) := by
      intro pg hpg hcov'
      rw [h8] at hpg
      obtain ⟨q', hq'mem, hq'⟩ := List.mem_map.mp hpg
      subst hq'
      have hq'0 := (h10 q' hq'mem).1
      have : q' = q := covers_unique hq'0 hq0 hcov' hcov
      subst this
      exact hmem hq'mem
    rw [byteAfterFrom_uncovered _ _ _ _ hunc]
    by_cases hql : q = lock
    · rw [if_pos hql]
    · rw [if_neg hql]
      have hnk : q ∉ tx.offsets.map (·.1) := by
        intro hk
        apply hmem
        exact List.mem_filter.mpr ⟨(sortNat_mem q _).mpr hk, by simpa using hql⟩
      rw [(lookup_none_iff_not_key _ _).mpr hnk]

end LiteFSVerif.Engine
