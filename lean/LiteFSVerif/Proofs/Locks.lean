/- Lemmas about the lock table (Model/Locks.lean) on top of the RWMutex refinement (Proofs/RWMutex.lean). -/
import LiteFSVerif.Model.Locks
import LiteFSVerif.Props.C12

namespace LiteFSVerif.Locks
open LiteFSVerif LiteFSVerif.RWMutex

theorem idx_lt (l : LockType) : l.idx < 12 := by cases l <;> simp [LockType.idx]

theorem idx_inj {a b : LockType} (h : a.idx = b.idx) : a = b := by
  cases a <;> cases b <;> simp [LockType.idx] at h <;> rfl

/-- well-formed table: twelve mutexes, each satisfying the RWMutex invariant, one guard per guard set -/
structure TInv (t : Table) : Prop where
  len : t.mus.length = 12
  inv : ∀ l : LockType, RWMutex.Inv (t.mu l)
  gsl : ∀ l : LockType, (t.mu l).gs.length = t.owners.length

theorem mu_setMu_same (t : Table) (h : t.mus.length = 12) (l : LockType) (m : Mutex) : (t.setMu l m).mu l = m := by
  unfold Table.setMu Table.mu
  have := idx_lt l
  simp [List.getD_eq_getElem?_getD, List.getElem?_set, h, this]

theorem mu_setMu_other (t : Table) (l l' : LockType) (m : Mutex) (hne : l ≠ l') : (t.setMu l m).mu l' = t.mu l' := by
  unfold Table.setMu Table.mu
  have : l.idx ≠ l'.idx := fun e => hne (idx_inj e)
  simp [List.getD_eq_getElem?_getD, List.getElem?_set_ne this]

theorem setMu_len (t : Table) (l : LockType) (m : Mutex) : (t.setMu l m).mus.length = t.mus.length := by
  simp [Table.setMu]

/-- a guard call on lock `l` touches only that mutex; the table stays well formed -/
theorem call_frame (t : Table) (hT : TInv t) (l : LockType) (op : Nat → Op) (i : Nat) (hi : i < t.owners.length)
    (hop : ∀ k, (op k).owner = k) :
    TInv (t.call l op i).1 ∧ (t.call l op i).1.owners = t.owners ∧
    ∀ l', l' ≠ l → (t.call l op i).1.mu l' = t.mu l' := by
  unfold Table.call
  simp only
  have hlen := hT.gsl l
  have hi' : (op i).owner < (t.mu l).gs.length := by rw [hop, hlen]; exact hi
  have hstep := C12.C12_refines (t.mu l) (op i) (hT.inv l) hi'
  refine ⟨⟨?_, ?_, ?_⟩, rfl, ?_⟩
  · rw [setMu_len]; exact hT.len
  · intro l'
    by_cases e : l = l'
    · subst e; rw [mu_setMu_same t hT.len]; exact hstep.1
    · rw [mu_setMu_other t l l' _ e]; exact hT.inv l'
  · intro l'
    by_cases e : l = l'
    · subst e; rw [mu_setMu_same t hT.len]
      rw [C12.step_length (t.mu l) (op i) (hT.inv l)]; exact hT.gsl l
    · rw [mu_setMu_other t l l' _ e]; exact hT.gsl l'
  · intro l' hne
    exact mu_setMu_other t l l' _ (Ne.symm hne)

/-- a granted exclusive request leaves the guard exclusive; a granted shared request, shared -/
theorem call_granted (t : Table) (hT : TInv t) (l : LockType) (ex : Bool) (i : Nat) (hi : i < t.owners.length)
    (hg : (t.call l (if ex then Op.tryLock else Op.tryRLock) i).2 = .bool true) :
    (t.call l (if ex then Op.tryLock else Op.tryRLock) i).1.guardState l i = (if ex then .exclusive else .shared) := by
  unfold Table.call at hg ⊢
  simp only at hg ⊢
  unfold Table.guardState
  rw [mu_setMu_same t hT.len]
  have hlen := hT.gsl l
  have hi' : i < (t.mu l).gs.length := by rw [hlen]; exact hi
  cases ex with
  | true =>
    simp only [if_true] at hg ⊢
    have ⟨_, hgs, hres⟩ := step_tryLock (hT.inv l) hi'
    rw [hgs]
    rw [hres] at hg
    simp only [Posix.tryExcl] at hg ⊢
    split at hg
    · rename_i hc; simp [hc, List.getD_eq_getElem?_getD, hi']
    · simp at hg
  | false =>
    simp only [Bool.false_eq_true, if_false] at hg ⊢
    have ⟨_, hgs, hres⟩ := step_tryRLock (hT.inv l) hi'
    rw [hgs]
    rw [hres] at hg
    simp only [Posix.tryShared] at hg ⊢
    split at hg
    · rename_i hc; simp [hc, List.getD_eq_getElem?_getD, hi']
    · simp at hg

theorem guardState_of_mu_eq {t t' : Table} {l : LockType} (h : t'.mu l = t.mu l) (i : Nat) :
    t'.guardState l i = t.guardState l i := by unfold Table.guardState; rw [h]

/-- if a whole list of requests on pairwise distinct locks is granted, the guard ends up holding
    each of them in the requested mode, and nothing else changed -/
theorem attempt_granted (steps : List (LockType × Bool)) (hd : (steps.map (·.1)).Nodup)
    (t t' : Table) (hT : TInv t) (i : Nat) (hi : i < t.owners.length)
    (h : t.attempt i steps = (t', true)) :
    TInv t' ∧ t'.owners = t.owners ∧
    (∀ p ∈ steps, t'.guardState p.1 i = (if p.2 then .exclusive else .shared)) ∧
    (∀ l, l ∉ steps.map (·.1) → t'.mu l = t.mu l) := by
  induction steps generalizing t with
  | nil =>
    simp only [Table.attempt] at h
    injection h with h1 _
    subst h1
    exact ⟨hT, rfl, by simp, fun _ _ => rfl⟩
  | cons p rest ih =>
    obtain ⟨l, ex⟩ := p
    simp only [Table.attempt] at h
    have hop : ∀ k, ((if ex then Op.tryLock else Op.tryRLock) k).owner = k := by
      intro k; cases ex <;> simp [Op.owner]
    have hfr := call_frame t hT l (if ex then Op.tryLock else Op.tryRLock) i hi hop
    cases hc : t.call l (if ex then Op.tryLock else Op.tryRLock) i with
    | mk t1 r =>
      rw [hc] at h hfr
      cases r with
      | bool b =>
        cases b with
        | false => simp at h
        | true =>
          simp only at h
          have hnd : (rest.map (·.1)).Nodup := (List.nodup_cons.mp hd).2
          have hnot : l ∉ rest.map (·.1) := (List.nodup_cons.mp hd).1
          have hi1 : i < t1.owners.length := by rw [hfr.2.1]; exact hi
          have ⟨hT', hown, hall, hrest⟩ := ih hnd t1 hfr.1 hi1 h
          have hgr := call_granted t hT l ex i hi (by rw [hc])
          rw [hc] at hgr
          refine ⟨hT', by rw [hown, hfr.2.1], ?_, ?_⟩
          · intro p hp
            rcases List.mem_cons.mp hp with e | e
            · subst e
              simp only
              rw [guardState_of_mu_eq (hrest l hnot)]
              exact hgr
            · exact hall p e
          · intro l' hl'
            simp only [List.map_cons, List.mem_cons, not_or] at hl'
            rw [hrest l' hl'.2]
            exact hfr.2.2 l' hl'.1
      | unit => simp at h
      | query _ _ => simp at h
      | panic _ => simp at h
      | badOwner => simp at h

end LiteFSVerif.Locks

namespace LiteFSVerif.Locks
open LiteFSVerif LiteFSVerif.RWMutex

theorem inv_append_unlocked {m : Mutex} (h : RWMutex.Inv m) : RWMutex.Inv { m with gs := m.gs ++ [.unlocked] } := by
  refine ⟨?_, ?_, ?_, ?_⟩
  · intro j hj
    simp only [List.length_append, List.length_singleton] at hj
    by_cases hlt : j < m.gs.length
    · simp only [List.getElem_append_left hlt]
      exact h.excl_iff j hlt
    · have hj' : j = m.gs.length := by omega
      subst hj'
      simp only [List.getElem_append_right (Nat.le_refl _), Nat.sub_self, List.getElem_cons_zero]
      constructor
      · intro e; cases e
      · intro e
        have := h.excl_lt _ e
        omega
  · intro j e
    have := h.excl_lt j e
    simp only [List.length_append, List.length_singleton]; omega
  · exact h.excl_zero
  · simp only [List.count_append, List.count_singleton]
    have := h.count
    simp; exact this

theorem add_mu (t : Table) (h : t.mus.length = 12) (o : Nat) (b : Bool) (l : LockType) :
    (t.add o b).1.mu l = { t.mu l with gs := (t.mu l).gs ++ [.unlocked] } := by
  unfold Table.add Table.mu
  have := idx_lt l
  simp [List.getD_eq_getElem?_getD, List.getElem?_map, h, this]

theorem add_TInv (t : Table) (hT : TInv t) (o : Nat) (b : Bool) :
    TInv (t.add o b).1 ∧ (t.add o b).2 = t.owners.length ∧ (t.add o b).1.owners.length = t.owners.length + 1 := by
  refine ⟨⟨?_, ?_, ?_⟩, rfl, by simp [Table.add]⟩
  · simp [Table.add, hT.len]
  · intro l; rw [add_mu t hT.len]; exact inv_append_unlocked (hT.inv l)
  · intro l; rw [add_mu t hT.len]; simp [Table.add, hT.gsl l]

theorem plan_nodup (w : Bool) : ((writeLockPlan w).map (·.1)).Nodup := by
  cases w <;> decide

/-- **the write-lock bracket**: when `TryAcquireWriteLock` succeeds, LiteFS's guard set holds every
    lock of the plan in the requested mode -/
theorem tryAcquireWriteLock_holds (t t' : Table) (hT : TInv t) (w : Bool) (i : Nat)
    (h : t.tryAcquireWriteLock w = (t', some i)) :
    TInv t' ∧ i = t.owners.length ∧ ∀ p ∈ writeLockPlan w, t'.guardState p.1 i = (if p.2 then .exclusive else .shared) := by
  unfold Table.tryAcquireWriteLock at h
  have ⟨hT0, hidx, hlen0⟩ := add_TInv t hT 0 true
  cases hadd : t.add 0 true with
  | mk t0 i0 =>
    rw [hadd] at h hT0 hidx hlen0
    simp only at h hT0 hidx hlen0
    have hi0 : i0 < t0.owners.length := by omega
    cases ha1 : t0.attempt i0 [(.pending, false), (.shared, false)] with
    | mk t1 ok1 =>
      rw [ha1] at h
      simp only at h
      cases ok1 with
      | false => simp at h
      | true =>
        simp only [Bool.not_true, Bool.false_eq_true, if_false] at h
        have ⟨hT1, hown1, _, _⟩ := attempt_granted _ (by decide) t0 t1 hT0 i0 hi0 ha1
        have hi1 : i0 < t1.owners.length := by rw [hown1]; exact hi0
        have hfr := call_frame t1 hT1 .pending Op.unlock i0 hi1 (by intro k; rfl)
        cases ha2 : (t1.call .pending Op.unlock i0).1.attempt i0 (writeLockPlan w) with
        | mk t2 ok2 =>
          rw [ha2] at h
          simp only at h
          cases ok2 with
          | false => simp at h
          | true =>
            simp only [if_true] at h
            injection h with h1 h2
            injection h2 with h2
            subst h1 h2
            have hi2 : i0 < (t1.call .pending Op.unlock i0).1.owners.length := by rw [hfr.2.1]; exact hi1
            have ⟨hT2, _, hall, _⟩ := attempt_granted _ (plan_nodup w) _ t2 hfr.1 i0 hi2 ha2
            exact ⟨hT2, hidx, hall⟩

/-- while LiteFS holds a lock exclusively, every other guard set holds nothing on it -/
theorem exclusive_excludes (t : Table) (hT : TInv t) (l : LockType) (i j : Nat)
    (hi : i < t.owners.length) (hj : j < t.owners.length) (hne : j ≠ i)
    (hex : t.guardState l i = .exclusive) : t.guardState l j = .unlocked := by
  unfold Table.guardState at hex ⊢
  have hlen := hT.gsl l
  have hi' : i < (t.mu l).gs.length := by omega
  have hj' : j < (t.mu l).gs.length := by omega
  rw [getD_eq hi'] at hex
  rw [getD_eq hj']
  have ⟨hc, _⟩ := excl_holder_alone (hT.inv l) hi' hex
  exact others_unlocked hc hj' hne

end LiteFSVerif.Locks

namespace LiteFSVerif.Locks
open LiteFSVerif LiteFSVerif.RWMutex

/-- a request by guard set `i` never changes what another guard set holds (on any lock) -/
theorem call_other_guard (t : Table) (hT : TInv t) (l : LockType) (op : Nat → Op) (i : Nat) (hi : i < t.owners.length)
    (hop : ∀ k, (op k).owner = k) (l' : LockType) (j : Nat) (hne : j ≠ i) :
    (t.call l op i).1.guardState l' j = t.guardState l' j := by
  by_cases e : l' = l
  · subst e
    unfold Table.call Table.guardState
    simp only
    rw [mu_setMu_same t hT.len]
    have hi' : (op i).owner < (t.mu l').gs.length := by rw [hop, hT.gsl l']; exact hi
    have hgs := (C12.C12_refines (t.mu l') (op i) (hT.inv l') hi').2.1
    rw [hgs]
    have hne' : i ≠ j := Ne.symm hne
    cases hopi : op i with
    | tryLock k =>
      have hk : k = i := by have := hop i; rw [hopi] at this; simpa [Op.owner] using this
      subst hk
      simp only [Posix.specStep, Posix.tryExcl]
      split <;> simp [List.getD_eq_getElem?_getD, List.getElem?_set_ne hne']
    | tryRLock k =>
      have hk : k = i := by have := hop i; rw [hopi] at this; simpa [Op.owner] using this
      subst hk
      simp only [Posix.specStep, Posix.tryShared]
      split <;> simp [List.getD_eq_getElem?_getD, List.getElem?_set_ne hne']
    | unlock k =>
      have hk : k = i := by have := hop i; rw [hopi] at this; simpa [Op.owner] using this
      subst hk
      simp [Posix.specStep, Posix.release, List.getD_eq_getElem?_getD, List.getElem?_set_ne hne']
    | canLock k => simp [Posix.specStep]
    | canRLock k => simp [Posix.specStep]
  · exact guardState_of_mu_eq ((call_frame t hT l op i hi hop).2.2 l' e) j

theorem attempt_other_guard (steps : List (LockType × Bool)) (t t' : Table) (hT : TInv t) (i : Nat)
    (hi : i < t.owners.length) (b : Bool) (h : t.attempt i steps = (t', b)) (l' : LockType) (j : Nat) (hne : j ≠ i) :
    t'.guardState l' j = t.guardState l' j := by
  induction steps generalizing t with
  | nil => simp only [Table.attempt] at h; injection h with h1 _; subst h1; rfl
  | cons p rest ih =>
    obtain ⟨l, ex⟩ := p
    simp only [Table.attempt] at h
    have hop : ∀ k, ((if ex then Op.tryLock else Op.tryRLock) k).owner = k := by
      intro k; cases ex <;> simp [Op.owner]
    have hfr := call_frame t hT l (if ex then Op.tryLock else Op.tryRLock) i hi hop
    have hog := call_other_guard t hT l (if ex then Op.tryLock else Op.tryRLock) i hi hop l' j hne
    cases hc : t.call l (if ex then Op.tryLock else Op.tryRLock) i with
    | mk t1 r =>
      rw [hc] at h hfr hog
      have hi1 : i < t1.owners.length := by rw [hfr.2.1]; exact hi
      cases r with
      | bool bb =>
        cases bb with
        | false => simp only at h; injection h with h1 _; subst h1; exact hog
        | true => simp only at h; rw [ih t1 hfr.1 hi1 h]; exact hog
      | unit => simp only at h; injection h with h1 _; subst h1; exact hog
      | query _ _ => simp only at h; injection h with h1 _; subst h1; exact hog
      | panic _ => simp only at h; injection h with h1 _; subst h1; exact hog
      | badOwner => simp only at h; injection h with h1 _; subst h1; exact hog

theorem add_other_guard (t : Table) (hT : TInv t) (o : Nat) (b : Bool) (l : LockType) (j : Nat) (hj : j < t.owners.length) :
    (t.add o b).1.guardState l j = t.guardState l j := by
  unfold Table.guardState
  rw [add_mu t hT.len]
  have : j < (t.mu l).gs.length := by rw [hT.gsl l]; exact hj
  simp [List.getD_eq_getElem?_getD, List.getElem?_append_left this]

/-- a successful `TryAcquireWriteLock` changed nothing for the guard sets that existed before -/
theorem tryAcquireWriteLock_others (t t' : Table) (hT : TInv t) (w : Bool) (i : Nat)
    (h : t.tryAcquireWriteLock w = (t', some i)) (l : LockType) (j : Nat) (hj : j < t.owners.length) :
    t'.guardState l j = t.guardState l j := by
  unfold Table.tryAcquireWriteLock at h
  have ⟨hT0, hidx, hlen0⟩ := add_TInv t hT 0 true
  have hadd0 := add_other_guard t hT 0 true l j hj
  cases hadd : t.add 0 true with
  | mk t0 i0 =>
    rw [hadd] at h hT0 hidx hlen0 hadd0
    simp only at h hT0 hidx hlen0 hadd0
    have hi0 : i0 < t0.owners.length := by omega
    have hne : j ≠ i0 := by omega
    cases ha1 : t0.attempt i0 [(.pending, false), (.shared, false)] with
    | mk t1 ok1 =>
      rw [ha1] at h
      simp only at h
      cases ok1 with
      | false => simp at h
      | true =>
        simp only [Bool.not_true, Bool.false_eq_true, if_false] at h
        have ⟨hT1, hown1, _, _⟩ := attempt_granted _ (by decide) t0 t1 hT0 i0 hi0 ha1
        have e1 := attempt_other_guard _ t0 t1 hT0 i0 hi0 true ha1 l j hne
        have hi1 : i0 < t1.owners.length := by rw [hown1]; exact hi0
        have hfr := call_frame t1 hT1 .pending Op.unlock i0 hi1 (by intro k; rfl)
        have e2 := call_other_guard t1 hT1 .pending Op.unlock i0 hi1 (by intro k; rfl) l j hne
        cases ha2 : (t1.call .pending Op.unlock i0).1.attempt i0 (writeLockPlan w) with
        | mk t2 ok2 =>
          rw [ha2] at h
          simp only at h
          cases ok2 with
          | false => simp at h
          | true =>
            simp only [if_true] at h
            injection h with h1 h2
            subst h1
            have hi2 : i0 < (t1.call .pending Op.unlock i0).1.owners.length := by rw [hfr.2.1]; exact hi1
            have e3 := attempt_other_guard _ _ t2 hfr.1 i0 hi2 true ha2 l j hne
            rw [e3, e2, e1, hadd0]

end LiteFSVerif.Locks
