/-
  Backup spec predicates on the implementation's observations (C14), from the property text:
  * the service always holds one contiguous chain starting at TXID 1 (`svc` lines end in `chain`);
  * a sync on a healthy service succeeds; afterwards the service is at the primary's position
    (or 256 transactions closer when the gap was larger) and the image restored from the service
    is the primary's image;
  * when the service is ahead of, or on another history than, the primary, the sync does not
    change what the service holds: the primary ends at the service's position;
  * the published high-water mark never exceeds the service's position;
  * (C09, retention with a backup service) a retention sweep never removes the newest file nor a
    file holding a transaction above the high-water mark (not yet confirmed by the service).
-/
import LiteFSVerif.Driver.EngineSpecD

namespace LiteFSVerif.Driver.BackupSpec
open LiteFSVerif LiteFSVerif.Driver.EngineSpec

structure St where
  svcBefore : String := ""                 -- `svc` line before the pending sync
  posBefore : Option (Nat × Spec.Chk) := none
  lastSvc : String := ""
  lastState : Option (Nat × Spec.Chk) := none
  lastRaw : String := ""
  afterSync : Nat := 0        -- observations still to be judged after a sync: 1 = svc, 2 = state/raw
  gapBefore : Int := 0
  svcAhead : Bool := false
  syncedSince : Bool := false   -- a sync has run since the service was last tampered with
  wasSynced : Bool := false     -- ... as of the pending sync's start
  dead : Bool := false
  lastLtx : List (Nat × Nat) := []        -- (first, last TXID) of the files in the last `ltx` listing
  lastHwm : Option Nat := none
  retainFrom : Option (List (Nat × Nat) × Option Nat) := none   -- listing and mark just before a retention sweep

def svcPosOf (obs : String) : Option (Nat × Spec.Chk) := (fieldOf (words obs) "pos") >>= parsePos

def check (st : St) (op obs : String) : St × String :=
  let f := words op
  if obs.startsWith "panic" || obs == "hang" then ({ st with dead := true }, s!"FAIL the node panicked or hung: {obs.take 80}") else
  if st.dead then (st, "ok") else
  match f with
  | ["case", _] => ({}, "ok")
  | ["svc"] =>
    let st1 := { st with lastSvc := obs }
    if !(obs.endsWith "chain" || obs.startsWith "files=[] ") then
      (st1, s!"FAIL the service does not hold one contiguous chain from TXID 1: {obs.take 120}")
    else if st.afterSync == 1 then
      -- first `svc` after a sync
      let st2 := { st1 with afterSync := 2 }
      if st.svcAhead ∧ obs ≠ st.svcBefore then
        (st2, "FAIL the service was ahead of / on another history than the primary and the sync changed what it holds")
      else (st2, "ok")
    else (st1, "ok")
  | ["state"] =>
    let pos := (fieldOf (words obs) "pos") >>= parsePos
    let st1 := { st with lastState := pos }
    if (fieldOf (words obs) "exit").isSome then (st1, s!"FAIL the primary exited: {obs.take 100}") else
    if st.afterSync == 2 then
      let st2 := { st1 with afterSync := 0 }
      (match pos, svcPosOf st.lastSvc with
       | some p, some s =>
         -- a service that was behind on an untampered chain never makes the primary lose transactions
         if !st.svcAhead && st.wasSynced && (match st.posBefore with | some b => decide (p.1 < b.1) | none => false) then
           (st2, s!"FAIL the primary went back from TXID {(st.posBefore.map (·.1)).getD 0} to {p.1} although the service was only behind")
         else
         if st.gapBefore ≤ 256 then
           if p ≠ s ∧ p.1 ≠ 0 then (st2, s!"FAIL after a sync the service is at {s.1} and the primary at {p.1} (positions differ)") else (st2, "ok")
         else if (p.1 : Int) - s.1 > st.gapBefore - 256 then
           (st2, s!"FAIL a sync with {st.gapBefore} outstanding transactions left {(p.1 : Int) - s.1} outstanding")
         else (st2, "ok")
       | _, _ => (st2, "ok"))
    else (st1, "ok")
  | ["raw"] =>
    let st1 := { st with lastRaw := obs }
    (match st.lastState, svcPosOf st.lastSvc, fieldOf (words obs) "img", fieldOf (words st.lastSvc) "img" with
     | some p, some s, some a, some b =>
       if p = s ∧ p.1 ≠ 0 ∧ a ≠ b then (st1, s!"FAIL the image restored from the service ({b}) differs from the primary's ({a}) at the same position")
       else (st1, "ok")
     | _, _, _, _ => (st1, "ok"))
  | ["retain"] => ({ st with retainFrom := some (st.lastLtx, st.lastHwm), afterSync := 0 }, "ok")
  | ["ltx"] =>
    let now : List (Nat × Nat) := match parseListing obs with
      | some l => l.map fun e => (e.1.minTxid, e.1.maxTxid)
      | none => []
    let st1 := { st with lastLtx := now, retainFrom := none }
    (match st.retainFrom with
     | some (before, hwm) =>
       let removed := before.filter fun f => !now.contains f
       let newest := before.foldl (fun m f => max m f.2) 0
       if removed.any (fun f => f.2 == newest) then (st1, "FAIL retention removed the newest transaction file")
       else match hwm with
         | some h =>
           (match removed.find? (fun f => f.2 > h) with
            | some f => (st1, s!"FAIL retention removed file {f.1}-{f.2} although the backup service has confirmed transactions only up to {h}")
            | none => (st1, "ok"))
         | none => (st1, "ok")
     | none => (st1, "ok"))
  | ["hwm"] =>
    let st := { st with lastHwm := (fieldOf (words obs) "hwm") >>= String.toNat? }
    -- judged after a sync only: between syncs the suite's operator may take files away from the service
    if st.syncedSince == false then (st, "ok") else
    (match (fieldOf (words obs) "hwm") >>= String.toNat?, svcPosOf st.lastSvc with
     | some h, some s => if h > s.1 then (st, s!"FAIL high-water mark {h} exceeds what the service holds ({s.1})") else (st, "ok")
     | _, _ => (st, "ok"))
  | ["xdb-check"] =>
    (st, if obs == "ok" || obs == "bad-op" then "ok" else s!"FAIL after a sync the service does not hold a second database of the node under its name at the node's position: {obs.take 160}")
  | ["reopen-loop"] => ({ st with lastState := st.lastState }, if obs == "ok" then "ok" else s!"FAIL restart failed: {obs.take 40}")
  | ["backup-sync"] | ["backup-wait"] =>
    let sv := svcPosOf st.lastSvc
    let gap : Int := match st.lastState, sv with | some p, some s => (p.1 : Int) - s.1 | _, _ => 0
    let ahead := match st.lastState, sv with
      | some p, some s => s.1 > p.1 ∨ (s.1 = p.1 ∧ s.1 ≠ 0 ∧ s.2 ≠ p.2)
      | _, _ => false
    let st1 := { st with svcBefore := st.lastSvc, posBefore := st.lastState, afterSync := 1, gapBefore := gap, svcAhead := ahead, wasSynced := st.syncedSince, syncedSince := obs.startsWith "ok" }
    if obs.startsWith "ok" then (st1, "ok") else (st1, s!"FAIL a sync against a healthy service failed: {obs.take 60}")
  | "svc-drop-last" :: _ | "svc-clear" :: _ | "svc-put" :: _ | "svc-put-force" :: _ => ({ st with syncedSince := false, afterSync := 0 }, "ok")
  | "ref" :: _ | ["age"] => (st, "ok")
  | _ => ({ st with afterSync := 0 }, "ok")      -- anything else may change positions: a pending judgement lapses

def step (st : St) (line : String) : St × String :=
  match line.splitOn "\t" with
  | [op, obs] => check st op obs
  | [op] => if op.startsWith "case " then ({}, "ok") else (st, "FAIL missing observation")
  | _ => (st, "FAIL malformed line")

end LiteFSVerif.Driver.BackupSpec
