/-
  Proxy spec predicates on the implementation's observations (C19), stated from the property text:
  * a read (GET/HEAD, not passthrough, not always-forward) carrying a TXID cookie reaches the
    application only when the tracked database is at or after that TXID, otherwise 504;
  * a write (any other method, or an always-forward path) that is not a passthrough never reaches
    the application on a node that is not primary: redirect to the primary, or 503 when none is known;
  * the cookie issued after a write on the primary names a position at or after that write;
  * every request gets a response.
-/
import LiteFSVerif.Driver.Util

namespace LiteFSVerif.Driver.ProxySpec
open LiteFSVerif

structure St where
  role : String := ""
  dead : Bool := false

def hexV (c : Char) : Option Nat := hexDigit c

def cookieTXID (s : String) : Nat :=
  if s == "-" || s.length ≠ 16 then 0 else
  match s.toList.foldlM (fun (acc : Nat) c => (hexV c).map (acc * 16 + ·)) 0 with
  | some v => v | none => 0

def field (ws : List String) (k : String) : String :=
  match ws.find? (·.startsWith (k ++ "=")) with
  | some w => (w.drop (k.length + 1)).toString
  | none => ""

def check (st : St) (op obs : String) : St × String :=
  let f := words op
  if obs.startsWith "panic" || obs == "hang" then ({ st with dead := true }, s!"FAIL the node panicked or hung: {obs.take 80}") else
  if st.dead then (st, "ok") else
  match f with
  | ["case", _] => ({}, "ok")
  | ["open", role] => ({ st with role := role }, "ok")
  | "req" :: method :: path :: cookie :: rest =>
    if !obs.startsWith "status=" then (st, s!"FAIL request got no HTTP response: {obs.take 80}") else
    let ws := words obs
    let status := field ws "status"
    let hit := field ws "target" == "hit"
    -- expressions apply to the path, not to the query string
    let pq := ((path.splitOn "?").headD path)
    let passthrough := pq.startsWith "/pt/" || pq.endsWith ".png"
    let always := pq.startsWith "/fw/" || pq.endsWith ".fwd"
    let readM := method == "GET" || method == "HEAD"
    let health := method == "GET" && pq == "/litefs/health"
    let want := cookieTXID cookie
    if passthrough || health then (st, "ok") else
    if readM && !always then
      -- read-your-writes
      if hit && want ≥ 1 && field ws "hitok" ≠ "true" then
        (st, s!"FAIL a read carrying TXID cookie {cookie} reached the application before the tracked database had reached that TXID")
      else if !hit && status ≠ "504" then (st, s!"FAIL a waiting read ended with status {status}, neither forwarded nor a gateway time-out")
      else (st, "ok")
    else
      -- write (or always-forward)
      if st.role ≠ "primary" then
        if hit then (st, s!"FAIL a write request ({method} {path}) was forwarded to the local application on a node that is not primary")
        else if st.role == "replica" && field ws "replay" == "-" then (st, "FAIL a write on a replica was answered without a redirect to the primary")
        else if st.role == "orphan" && status ≠ "503" then (st, s!"FAIL a write with no primary known was answered {status}, not an error")
        else (st, "ok")
      else
        -- on the primary: cookie after an application write names a position at or after the write
        match rest.find? (·.startsWith "w=") with
        | some w =>
          let wmax := (((w.drop 2).toString.splitOn "_").getD 1 "0").toNat?.getD 0
          if field ws "app" == "ok" && field ws "cookie" ≠ "-" && cookieTXID (field ws "cookie") < wmax then
            (st, s!"FAIL the cookie issued after a write names TXID {field ws "cookie"}, before the write (TXID {wmax})")
          else if field ws "app" == "ok" && !readM && field ws "cookie" == "-" then
            (st, "FAIL no TXID cookie issued after a write on the primary")
          else (st, "ok")
        | none => (st, "ok")
  | _ => (st, "ok")

def step (st : St) (line : String) : St × String :=
  match line.splitOn "\t" with
  | [op, obs] => check st op obs
  | [op] => if op.startsWith "case " then ({}, "ok") else (st, "FAIL missing observation")
  | _ => (st, "FAIL malformed line")

end LiteFSVerif.Driver.ProxySpec
