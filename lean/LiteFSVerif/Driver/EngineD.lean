/- Driver for the engine model: parses the harness's op lines, prints canonical observations. -/
import LiteFSVerif.Model.Engine
import LiteFSVerif.Model.Recovery
import LiteFSVerif.Driver.Util

namespace LiteFSVerif.Driver.EngineD
open LiteFSVerif LiteFSVerif.BA LiteFSVerif.Cks LiteFSVerif.Locks LiteFSVerif.Sqlite LiteFSVerif.Engine

def genBytesBA (seed n : Nat) : ByteArray :=
  ByteArray.mk ((Array.range n).map fun i => UInt8.ofNat ((seed * 7 + i * 13 + (i / 256) * 5) % 256))

/-- data token: parts joined by '+': hex | "-" | g<seed>x<len> | z<len> -/
def bytesOf (s : String) : Option ByteArray :=
  (s.splitOn "+").foldlM (fun (acc : ByteArray) p =>
    if p = "-" || p = "" then some acc
    else if p.startsWith "z" then (p.drop 1).toString.toNat?.map fun n => acc ++ zeros n
    else if p.startsWith "g" then
      match (p.drop 1).toString.splitOn "x" with
      | [a, b] => match a.toNat?, b.toNat? with
        | some seed, some n => some (acc ++ genBytesBA seed n)
        | _, _ => none
      | _ => none
    else (unhex p).map (acc ++ ·)) ByteArray.empty

def fnv64BA (b : ByteArray) : UInt64 :=
  b.foldl (fun h x => (h ^^^ x.toUInt64) * 1099511628211) 14695981039346656037

def hex16 (v : UInt64) : String :=
  String.ofList ((List.range 16).map fun i => hexNibble ((v >>> (UInt64.ofNat (60 - 4 * i))).toNat % 16))

def hex8 (v : Nat) : String :=
  String.ofList ((List.range 8).map fun i => hexNibble (v / 16 ^ (7 - i) % 16))

def putBE64 (v : UInt64) : ByteArray :=
  ByteArray.mk ((Array.range 8).map fun i => (v >>> (UInt64.ofNat (56 - 8 * i))).toUInt8)

/-- "<pageN>:<fnv64 of the per-page checksums, lock page excluded>" -/
def imageDigest (pages : List ByteArray) (ps : Nat) : String :=
  if ps = 0 || pages.isEmpty then "0:-" else
  let lock := 1073741824 / ps + 1
  let acc := (pages.zipIdx).foldl (fun (acc : ByteArray) (p : ByteArray × Nat) =>
    if p.2 + 1 = lock then acc else acc ++ putBE64 (pageChk (p.2 + 1) p.1)) ByteArray.empty
  s!"{pages.length}:{hex16 (fnv64BA acc)}"

def showRes : Res → String
  | .ok => "ok" | .readonly => "readonly" | .exists_ => "exists" | .enoent => "enoent" | .eexist => "eexist"
  | .err => "err" | .busy => "busy" | .rejected => "rejected" | .applyFailed => "apply-failed"
  | .bool b => toString b | .query b st => s!"{b} {st.toString}" | .panic m => m

def withExit (s : Eng) (r : String) : String := if s.exit ≠ 0 then s!"{r} exit={s.exit}" else r

def fsize (f : Option ByteArray) : String := match f with | none => "-" | some b => toString b.size

def showState (s : Eng) : String :=
  if !s.opened then "closed" else if !s.hasDB then "nodb" else
  let base := s!"pos={s.posTxid}:{hex16 s.posChk} pageN={s.pageN} mode={if s.walMode then "w" else "r"} files=d:{fsize s.dbFile},j:{fsize s.journal},w:{fsize s.wal}"
  if s.exit ≠ 0 then s!"{base} exit={s.exit}" else base

def showLTX (f : LTXFile) (full : Bool) : String :=
  let ents := f.pages.map fun p => s!"{p.1}:{hex16 (pageChk p.1 p.2)}"
  let ps := if full then ",".intercalate ents
            else s!"#{ents.length}:{hex16 (fnv64BA ((ents.foldl (fun acc e => acc ++ e ++ ",") "").toUTF8))}"
  s!"{f.minTxid}-{f.maxTxid} pre={hex16 f.pre} post={hex16 f.post} commit={f.commit} ps={f.pageSize} wal={f.walOffset},{f.walSize},{hex8 f.salt1},{hex8 f.salt2} pages=[{ps}]"

def showListing (s : Eng) : String :=
  if !s.hasDB then "nodb" else
  let n := s.ltx.length
  "[" ++ " | ".intercalate ((s.ltx.zipIdx).map fun p => showLTX p.1 (p.2 + 1 == n)) ++ "]"

/-- from-scratch checksum over the raw files (independent WAL scan, `Sqlite.walView`) -/
def showRaw (s : Eng) : String :=
  if !s.hasDB then "nodb" else
  match s.dbFile with
  | none => s!"chk={hex16 flag} pageN=0 img=0:-"
  | some dbb =>
    if dbb.size < 100 then s!"chk={hex16 flag} pageN=0 img=0:-" else
    let ps := let v := be16 dbb 16; if v = 1 then 65536 else v
    if ps < 512 || !validPageSize ps then "invalid-header" else
    let pageN0 := be32 dbb 28
    let (frames, commit) := match s.wal with
      | some w => if w.size ≥ 32 then walView w ps else ([], 0)
      | none => ([], 0)
    let pageN := if commit ≠ 0 then commit else pageN0
    let lock := 1073741824 / ps + 1
    let r : Except String (List ByteArray × Chk) := (List.range pageN).foldlM (fun (st : List ByteArray × Chk) i =>
      let pgno := i + 1
      let d? := match frames.lookup pgno with
        | some d => some d
        | none => if (i + 1) * ps ≤ dbb.size then some (dbb.extract (i * ps) ((i + 1) * ps)) else none
      match d? with
      | none => .error s!"short-database page={pgno}"
      | some d => .ok (d :: st.1, if pgno = lock then st.2 else st.2 ^^^ pageChk pgno d)) ([], 0)
    match r with
    | .error e => e
    | .ok (pages, x) => s!"chk={hex16 (x ||| flag)} pageN={pageN} img={imageDigest pages.reverse ps}"

def parseLocks (s : String) : Option (List LockType) := (s.splitOn ",").mapM LockType.ofName

def run (s : Eng) (x : M Eng) : Eng × String :=
  match x with
  | .ok s' => (s', withExit s' "ok")
  | .error (s', r) => (s', withExit s' (showRes r))

def parseLTXSpec (f : List String) : Option LTXFile :=
  match f with
  | mn :: mx :: pre :: post :: commit :: ps :: pages => do
    let mn ← mn.toNat?; let mx ← mx.toNat?
    let pre ← (unhex pre); let post ← (unhex post)
    let commit ← commit.toNat?; let ps ← ps.toNat?
    let pgs ← pages.mapM fun p => match p.splitOn "=" with
      | [k, v] => do let k ← k.toNat?; let d ← bytesOf v; pure (k, d)
      | _ => none
    let toU (b : ByteArray) : UInt64 := b.foldl (fun a x => a * 256 + x.toUInt64) 0
    pure { minTxid := mn, maxTxid := mx, pre := toU pre, post := toU post, commit, pageSize := ps, pages := pgs }
  | _ => none

/-- what `ltx.Encoder` accepts (the harness builds the file with it; rejected ⇒ `bad-op`) -/
def ltxSpecOK (f : LTXFile) : Bool :=
  headerOK f && f.post ≠ 0 && f.post &&& flag ≠ 0 && (f.commit ≠ 0 || f.post = flag) &&
  (f.pages.foldl (fun (st : Bool × Nat) p =>
    (st.1 && encodePageOK f.minTxid f.commit f.pageSize st.2 p.1 && p.2.size == f.pageSize, p.1)) (true, 0)).1

/-- `ltx.Decoder.Verify` beyond the file checksum: a snapshot's post-apply checksum is recomputed -/
def snapshotPostOK (f : LTXFile) : Bool :=
  f.minTxid ≠ 1 ||
  let lock := 1073741824 / f.pageSize + 1
  f.pages.foldl (fun (acc : Chk) p => if p.1 = lock then acc else flag ||| (acc ^^^ pageChk p.1 p.2)) 0 == f.post

/-- result text of a finished background export / snapshot -/
def bgFinish (s : Eng) (b : BgSt) : String :=
  if b.snapshot then
    let hdr : LTXFile := { minTxid := 1, maxTxid := b.capTxid, pre := 0, post := 0, commit := b.capPageN, pageSize := b.capPageSize, pages := [] }
    if !headerOK hdr then "err" else
    match bgPages s b with
    | none => "err"
    | some pages =>
      let lock := 1073741824 / b.capPageSize + 1
      let pgs := (pages.zipIdx.filter fun p => p.2 + 1 ≠ lock).map fun p => (p.2 + 1, p.1)
      let chk := pgs.foldl (fun (acc : Chk) p => acc ^^^ pageChk p.1 p.2) 0 ||| flag
      if chk ≠ b.capChk then "err" else "ok " ++ showLTX { hdr with post := chk, pages := pgs } true
  else
    if s.dbFile.isNone then "err" else
    match bgPages s b with
    | none => "err"
    | some pages =>
      let all := pages.foldl (· ++ ·) ByteArray.empty
      let ps := if all.size < 100 then 0 else (let v := be16 all 16; if v = 1 then 65536 else v)
      s!"ok pos={b.capTxid}:{hex16 b.capChk} img={if ps = 0 then "0:-" else imageDigest ((List.range (all.size / ps)).map fun i => all.extract (i*ps) ((i+1)*ps)) ps}"

/-- run the background op until it pauses at its hook, blocks on a lock, or finishes -/
def bgRun (s : Eng) : Nat → Eng × String
  | 0 => (s, "blocked")
  | fuel + 1 =>
    match s.bg with
    | none => (s, "none")
    | some b =>
      if b.paused then (s, "paused") else
      match (bgSeq b.snapshot b.capWal)[b.pc]? with
      | none => ({ s with bg := none, locks := s.locks.unlockAll b.idx }, "finished err")
      | some .capture =>
        bgRun { s with bg := some { b with pc := b.pc + 1, capTxid := s.posTxid, capChk := s.posChk, capPageSize := s.pageSize,
                                            capPageN := s.pageN, capOffsets := s.w.frameOffsets } } fuel
      | some .read =>
        let res := bgFinish s b
        ({ s with bg := none, locks := s.locks.unlockAll b.idx }, "finished " ++ res)
      | some (.lock l req) =>
        let prev := s.locks.state l
        let (t, r) := s.locks.call l (if req = 0 then RWMutex.Op.tryRLock else if req = 1 then RWMutex.Op.tryLock else RWMutex.Op.unlock) b.idx
        let granted := match r with | .bool true => true | .unit => true | _ => false
        if !granted then (s, "blocked") else
        let s := { s with locks := t }
        let next := s.locks.state l
        if prev != next && b.pauseAt == some (l, prev, next) then
          ({ s with bg := some { b with pc := b.pc + 1, pauseAt := none, paused := true } }, "paused")
        else bgRun { s with bg := some { b with pc := b.pc + 1 } } fuel

def parseGS (x : String) : Option GS :=
  if x == "unlocked" then some .unlocked else if x == "shared" then some .shared else if x == "exclusive" then some .exclusive else none

def bgStart (s : Eng) (kind : String) (rest : List String) : Eng × String :=
    if !(s.opened && s.hasDB) || s.bg.isSome || s.exit ≠ 0 || !(kind == "export" || kind == "snapshot") then (s, "bad-op") else
    let pause : Option (LockType × GS × GS) := match rest with
      | [p] => (match p.splitOn ":" with
        | [l, a, b] => do let l ← LockType.ofName l; let a ← parseGS a; let b ← parseGS b; pure (l, a, b)
        | _ => none)
      | _ => none
    let (t, i) := s.locks.add 0 true
    bgRun { s with locks := t, bgResult := "", bg := some { snapshot := kind == "snapshot", idx := i, pauseAt := pause, capWal := s.walMode } } 64

def step1 (s : Eng) (line : String) : Eng × String :=
  let f := words line
  match f with
  | ["case", id] => ({}, s!"case {id}")
  | "ref" :: _ => (s, "ok")
  | ["expect-recovered"] => (s, "ok")
  | ["expect-either"] => (s, "ok")
  | ["ref-restart"] => (s, "ok")
  | ["ref-unknown"] => (s, "ok")
  | _ =>
  if s.exit ≠ 0 && !(f == ["state"] || f == ["ltx"] || f == ["raw"] || f.head? == some "reopen") then (s, "exited") else
  match f with
  | ["open", role] =>
    if s.opened then (s, "bad-op") else ({ s with opened := true, primary := role == "primary" }, "ok")
  | ["createdb"] =>
    if !s.opened then (s, "bad-op") else
    if s.hasDB && s.pageN > 0 then (s, "exists")
    else if s.dbFile.isSome then (s, "eexist")
    else ({ s with hasDB := true, dbFile := some ByteArray.empty }, "ok")
  | ["shmclose", owner] =>
    if !(s.opened && s.hasDB) then (s, "bad-op") else
    (match owner.toNat? with
     | some o => let (s', r) := unlockSHM s o; (s', withExit s' (showRes r))
     | none => (s, "bad-op"))
  | ["dbclose", owner] =>
    if !(s.opened && s.hasDB) then (s, "bad-op") else
    (match owner.toNat? with
     | some o => let (s', r) := unlockDatabase s o; (s', withExit s' (showRes r))
     | none => (s, "bad-op"))
  | [op, owner, ls] =>
    match op with
    | "lock" | "rlock" | "unlock" | "canlock" | "canrlock" =>
      if !(s.opened && s.hasDB) then (s, "bad-op") else
      match owner.toNat?, parseLocks ls with
      | some o, some ls =>
        let show_ (t : Table) (r : LRes) : Eng × String :=
          ({ s with locks := t }, match r with
            | .bool b => toString b | .query b st => s!"{b} {st.toString}" | .panic m => s!"panic {m}")
        if op == "lock" then let (t, r) := s.locks.tryLocks o ls; show_ t r
        else if op == "rlock" then let (t, r) := s.locks.tryRLocks o ls; show_ t r
        else if op == "canlock" then let (t, r) := s.locks.canLock o ls; show_ t r
        else if op == "canrlock" then let (t, r) := s.locks.canRLock o ls; show_ t r
        else let (s', r) := unlock s o ls; (s', withExit s' (showRes r))
      | _, _ => (s, "bad-op")
    | "dbw" =>
      if !(s.opened && s.hasDB) then (s, "bad-op") else
      match owner.toNat?, bytesOf ls with
      | some off, some d => if s.dbFile.isNone then (s, "enoent") else run s (writeDatabaseAt s off d)
      | _, _ => (s, "bad-op")
    | "jw" =>
      if !(s.opened && s.hasDB) then (s, "bad-op") else
      match owner.toNat?, bytesOf ls with
      | some off, some d => if s.journal.isNone then (s, "enoent") else run s (writeJournalAt s off d)
      | _, _ => (s, "bad-op")
    | "ww" =>
      if !(s.opened && s.hasDB) then (s, "bad-op") else
      match owner.toNat?, bytesOf ls with
      | some off, some d => if s.wal.isNone then (s, "enoent") else
        match writeWALAt s off d with
        | .ok s' => (s', "ok")
        | .error (s', r) => (s', showRes r)
      | _, _ => (s, "bad-op")
    | "bg-start" => bgStart s owner [ls]
    | "plant" =>
      if !(s.opened && s.hasDB) then (s, "bad-op") else
      (match bytesOf ls with
       | none => (s, "bad-op")
       | some b =>
         if owner == "database" then ({ s with dbFile := some b }, "ok")
         else if owner == "journal" then ({ s with journal := some b }, "ok")
         else if owner == "wal" then ({ s with wal := some b }, "ok")
         else (s, "bad-op"))
    | _ => (s, "bad-op")
  | ["dbt", sz] =>
    if !(s.opened && s.hasDB) then (s, "bad-op") else
    match sz.toNat? with | some n => run s (truncateDatabase s n) | none => (s, "bad-op")
  | ["jc"] =>
    if !(s.opened && s.hasDB) then (s, "bad-op") else
    if !s.writeable then (s, "readonly") else if s.journal.isSome then (s, "eexist")
    else ({ s with journal := some ByteArray.empty }, "ok")
  | ["jrm"] => if !(s.opened && s.hasDB) then (s, "bad-op") else run s (commitJournal s 0)
  | ["jtr"] => if !(s.opened && s.hasDB) then (s, "bad-op") else run s (commitJournal s 1)
  | ["wc"] =>
    if !(s.opened && s.hasDB) then (s, "bad-op") else
    if s.wal.isSome then (s, "eexist") else ({ s with wal := some ByteArray.empty }, "ok")
  | ["wt", sz] =>
    if !(s.opened && s.hasDB) then (s, "bad-op") else
    match sz.toNat? with
    | some n => (match truncateWAL s n with | .ok s' => (s', "ok") | .error (s', r) => (s', showRes r))
    | none => (s, "bad-op")
  | ["wrm"] =>
    if !(s.opened && s.hasDB) then (s, "bad-op") else
    (match removeWAL s with | .ok s' => (s', "ok") | .error (s', r) => (s', showRes r))
  | ["drop"] => if !(s.opened && s.hasDB) then (s, "bad-op") else run s (drop s)
  | ["ckpt"] => if !(s.opened && s.hasDB) then (s, "bad-op") else run s (checkpoint s)
  | "corrupt" :: file :: rest =>
    if !(s.opened && s.hasDB) then (s, "bad-op") else
    let get : Option (Option ByteArray) :=
      if file == "database" then some s.dbFile else if file == "journal" then some s.journal
      else if file == "wal" then some s.wal else none
    (match get with
     | none => (s, "bad-op")
     | some none => (s, "enoent")
     | some (some b) =>
       let r : Option ByteArray := match rest with
         | ["flip", off, x] => do
           let off ← off.toNat?; let x ← x.toNat?
           if off < b.size then some (writeAt b off (ByteArray.mk #[(getD b off) ^^^ UInt8.ofNat x])) else none
         | ["trunc", sz] => do let sz ← sz.toNat?; if sz ≤ 67108864 then some (truncate b sz) else none
         | ["zero", off, n] => do
           let off ← off.toNat?; let n ← n.toNat?
           some (if off ≥ b.size then b else writeAt b off (zeros (min n (b.size - off))))
         | ["put", off, d] => do
           let off ← off.toNat?; let d ← bytesOf d
           if off + d.size ≤ b.size then some (writeAt b off d) else none
         | _ => none
       match r with
       | none => (s, "bad-op")
       | some b' =>
         if file == "database" then ({ s with dbFile := some b' }, "ok")
         else if file == "journal" then ({ s with journal := some b' }, "ok")
         else ({ s with wal := some b' }, "ok"))
  | ["walfix"] =>
    if !s.hasDB then (s, "bad-op") else
    (match s.wal with
     | none => (s, "enoent")
     | some b =>
       if b.size < 32 then (s, "enoent") else
       let bigE := be32 b 0 == walMagicBE
       match walChecksum bigE 0 0 (b.extract 0 24) with
       | .ok (c1, c2) => ({ s with wal := some (writeAt (writeAt b 24 (putBE32 c1)) 28 (putBE32 c2)) }, "ok")
       | .error _ => (s, "err"))
  | ["fsize", file] =>
    if !s.hasDB then (s, "bad-op") else
    (s, fsize (if file == "journal" then s.journal else if file == "wal" then s.wal else s.dbFile))
  | ["locks"] =>
    if !(s.opened && s.hasDB) then (s, "bad-op") else
    (s, " ".intercalate (LockType.all.map fun l => s!"{l.name.toLower}={(s.locks.state l).toString}"))
  | "bg-start" :: kind :: rest => bgStart s kind rest
  | ["bg-resume"] =>
    (match s.bg with
     | none => (s, "bad-op")
     | some b => bgRun { s with bg := some { b with paused := false } } 64)
  | ["bg-result"] =>
    (match s.bg with
     | some _ => bgRun s 64
     | none => if s.bgResult != "" then ({ s with bgResult := "" }, s.bgResult) else (s, "none"))
  | ["demote"] => if !s.opened then (s, "bad-op") else ({ s with primary := false }, "ok")
  | ["whold"] =>
    if !(s.opened && s.hasDB) || s.held.isSome then (s, "bad-op") else
    (match s.locks.tryAcquireWriteLock s.walMode with
     | (t, none) => ({ s with locks := t }, "false")
     | (t, some i) => ({ s with locks := t, held := some i }, "true"))
  | ["wrelease"] =>
    (match s.held with
     | none => (s, "bad-op")
     | some i => if !(s.opened && s.hasDB) then (s, "bad-op") else ({ s with locks := s.locks.unlockAll i, held := none }, "ok"))
  | ["stray", _] => if !(s.opened && s.hasDB) then (s, "bad-op") else (s, "ok")
  | ["age"] => if !(s.opened && s.hasDB) then (s, "bad-op") else ({ s with ltx := s.ltx.map fun f => { f with old := true } }, "ok")
  | ["retain"] => if !(s.opened && s.hasDB) then (s, "bad-op") else (enforceRetention s, "ok")
  | ["state"] => (s, showState s)
  | ["ltx"] => (s, showListing s)
  | ["raw"] => (s, showRaw s)
  | ["export"] =>
    if !(s.opened && s.hasDB) then (s, "bad-op") else
    if !s.locks.snapshotLocksFree s.walMode then (s, "busy") else
    if s.dbFile.isNone then (s, "enoent") else
    (match logicalPages s with
     | none => (s, "err")
     | some pages =>
       let all := pages.foldl (· ++ ·) ByteArray.empty
       let ps := if all.size < 100 then 0 else (let v := be16 all 16; if v = 1 then 65536 else v)
       (s, s!"ok pos={s.posTxid}:{hex16 s.posChk} img={if ps = 0 then "0:-" else imageDigest ((List.range (all.size / ps)).map fun i => all.extract (i*ps) ((i+1)*ps)) ps}"))
  | ["snapshot"] =>
    if !(s.opened && s.hasDB) then (s, "bad-op") else
    if !s.locks.snapshotLocksFree s.walMode then (s, "busy") else
    let hdr : LTXFile := { minTxid := 1, maxTxid := s.posTxid, pre := 0, post := 0, commit := s.pageN, pageSize := s.pageSize, pages := [] }
    if !headerOK hdr then (s, "err") else
    (match logicalPages s with
     | none => (s, "err")
     | some pages =>
       let lock := 1073741824 / s.pageSize + 1
       let pgs := (pages.zipIdx.filter fun p => p.2 + 1 ≠ lock).map fun p => (p.2 + 1, p.1)
       let chk := pgs.foldl (fun (acc : Chk) p => acc ^^^ pageChk p.1 p.2) 0 ||| flag
       if chk ≠ s.posChk then (s, "err") else
       (s, "ok " ++ showLTX { hdr with post := chk, pages := pgs } true))
  | "sapply" :: spec =>
    if !s.opened then (s, "bad-op") else
    (match parseLTXSpec spec with
     | none => (s, "bad-op")
     | some f =>
       if !ltxSpecOK f then (s, "bad-op") else
       let s := if s.hasDB then s else { s with hasDB := true, dbFile := some ByteArray.empty }
       if !snapshotPostOK f then
         (match s.locks.tryAcquireWriteLock s.walMode with
          | (t, none) => ({ s with locks := t }, "busy")
          | (t, some i) => ({ s with locks := t.unlockAll i }, "rejected"))
       else run s (receiveLTX s f))
  | "sapplyx" :: pm :: spec =>
    -- a file whose body fails the file-level checksum: refused before anything is renamed or written
    if !s.opened then (s, "bad-op") else
    (match parseLTXSpec spec, pm.toNat? with
     | some f, some pm =>
       if !ltxSpecOK f || pm > 999 || f.pages.isEmpty then (s, "bad-op") else
       let s := if s.hasDB then s else { s with hasDB := true, dbFile := some ByteArray.empty }
       (match s.locks.tryAcquireWriteLock s.walMode with
        | (t, none) => ({ s with locks := t }, "busy")
        | (t, some i) => ({ s with locks := t.unlockAll i }, "rejected"))
     | _, _ => (s, "bad-op"))
  | "txapplyx" :: pm :: spec =>
    if !s.opened then (s, "bad-op") else
    (match parseLTXSpec spec, pm.toNat? with
     | some f, some pm =>
       if !ltxSpecOK f || pm > 999 || f.pages.isEmpty then (s, "bad-op") else
       if !s.hasDB then (s, "notfound") else (s, "rejected")
     | _, _ => (s, "bad-op"))
  | "txapply" :: spec =>
    if !s.opened then (s, "bad-op") else
    (match parseLTXSpec spec with
     | none => (s, "bad-op")
     | some f =>
       if !ltxSpecOK f then (s, "bad-op") else
       if !s.hasDB then (s, "notfound") else
       if !snapshotPostOK f then (s, "rejected") else run s (receiveTx s f))
  | "reopen" :: rest =>
    if !s.opened then (s, "bad-op") else
    let primary := match rest with | [r] => r == "primary" | _ => s.primary
    if !s.hasDB then ({ opened := true, primary := primary, compress := s.compress, backup := s.backup }, "ok") else
    (match Recovery.openDB { s with primary := primary } with
     | .ok s' => (s', "ok")
     | .error m => if m.startsWith "panic" then (s, m) else ({ compress := s.compress, backup := s.backup }, "err open"))
  | ["import", d] =>
    if !s.opened then (s, "bad-op") else
    (match bytesOf d with
     | none => (s, "bad-op")
     | some data =>
       let s := if s.hasDB then s else { s with hasDB := true, dbFile := some ByteArray.empty }
       run s (importDB s data))
  | _ => (s, "bad-op")

end LiteFSVerif.Driver.EngineD

namespace LiteFSVerif.Driver.EngineD
open LiteFSVerif LiteFSVerif.Engine

/-- one op line; afterwards a background op that was blocked on a lock gets to run -/
def step (s : Eng) (line : String) : Eng × String :=
  let (s, o) := step1 s line
  if line.startsWith "bg-" || line.startsWith "case " then (s, o) else
  match s.bg with
  | some b =>
    if b.paused then (s, o) else
    let (s', st) := bgRun s 64
    (if st.startsWith "finished" then { s' with bgResult := st } else s', o)
  | none => (s, o)

end LiteFSVerif.Driver.EngineD
