/- Driver for the proxy model: an engine-model node behind the proxy decision functions. -/
import LiteFSVerif.Model.Proxy
import LiteFSVerif.Driver.EngineD

namespace LiteFSVerif.Driver.ProxyD
open LiteFSVerif LiteFSVerif.Engine LiteFSVerif.Proxy

structure St where
  eng : Eng := {}
  role : Role := .orphan
  started : Bool := false

def unspec (s : String) : String := s.replace "_" " "

def nodePos (e : Eng) : Option Nat := if e.hasDB then some e.posTxid else none

def hex16n (n : Nat) : String := EngineD.hex16 (UInt64.ofNat n)

def step (st : St) (line : String) : St × String :=
  let f := words line
  match f with
  | ["case", id] => ({}, s!"case {id}")
  | "ref" :: _ => (st, "ok")
  | ["open", "orphan"] =>
    if st.eng.opened then (st, "bad-op") else ({ st with eng := { st.eng with opened := true, primary := false }, role := .orphan }, "ok")
  | ["open", role] =>
    let (e, o) := EngineD.step st.eng line
    ({ st with eng := e, role := if role == "primary" then .primary else .replica "localhost" }, o)
  | ["proxy-start"] => if !st.eng.opened || st.started then (st, "bad-op") else ({ st with started := true }, "ok")
  | "req" :: method :: path :: cookie :: rest =>
    if !st.started then (st, "bad-op") else
    let w := rest.find? (·.startsWith "w=")
    let adv := rest.find? (·.startsWith "adv=")
    if rest.any (fun a => !(a.startsWith "w=" || a.startsWith "adv=")) || (w.isSome && adv.isSome) then (st, "bad-op") else
    let req : Req := { method, path, cookie := if cookie == "-" then none else some cookie }
    let want := match req.cookie with | some c => parseTXID c | none => 0
    let advOps := match adv with
      | some a => ((a.drop 4).toString.splitOn ";").filter (· ≠ "") |>.map fun s => "sapply " ++ unspec s
      | none => []
    -- the replica's timeline while the request waits
    let (engs, eFinal) := advOps.foldl (fun (acc : List Eng × Eng) op =>
      let e' := (EngineD.step acc.2 op).1
      (acc.1 ++ [e'], e')) ([st.eng], st.eng)
    let timeline := engs.map nodePos
    let hitok (p : Option Nat) : String := toString (decide (p.getD 0 ≥ want))
    -- the application is reached with the engine in state `e`; it may write
    let reach (e : Eng) (passthrough : Bool) : Eng × String :=
      match w with
      | none =>
        (e, s!"status=200 target=hit replay=- cookie=- hitok={hitok (nodePos e)}")
      | some wspec =>
        let (e', o) := EngineD.step e ("txapply " ++ unspec (wspec.drop 2).toString)
        let ck := if setsCookie req passthrough e'.hasDB then hex16n e'.posTxid else "-"
        (e', s!"status=200 target=hit replay=- cookie={ck} hitok={hitok (nodePos e)} app={o}")
    let plainReach (e : Eng) (passthrough : Bool) : Eng × String :=
      match w with
      | some _ => reach e passthrough
      | none =>
        let ck := if setsCookie req passthrough e.hasDB then hex16n e.posTxid else "-"
        (e, s!"status=200 target=hit replay=- cookie={ck} hitok={hitok (nodePos e)}")
    match route req with
    | .passthrough =>
      let (e, o) := plainReach st.eng true
      -- the catch-up (if any) goes on after the answer
      let e := advOps.foldl (fun e op => (EngineD.step e op).1) e
      ({ st with eng := e }, o)
    | .health => ({ st with eng := eFinal }, "status=200 target=nohit replay=- cookie=- hitok=-")
    | .read txid =>
      (match serveRead txid timeline with
       | .timeout => ({ st with eng := eFinal }, "status=504 target=nohit replay=- cookie=- hitok=-")
       | .forwardAt i =>
         let e := engs.getD i st.eng
         let (_, o) := plainReach e false
         ({ st with eng := eFinal }, o))
    | .nonRead =>
      (match serveNonRead st.role with
       | .toTarget => let (e, o) := plainReach st.eng false; ({ st with eng := e }, o)
       | .unavailable => ({ st with eng := eFinal }, "status=503 target=nohit replay=- cookie=- hitok=-")
       | .redirect h => ({ st with eng := eFinal }, s!"status=200 target=nohit replay=instance={h} cookie=- hitok=-"))
  | _ =>
    let (e, o) := EngineD.step st.eng line
    ({ st with eng := e }, o)

end LiteFSVerif.Driver.ProxyD
