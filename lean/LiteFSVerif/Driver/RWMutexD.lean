import LiteFSVerif.Model.RWMutex
import LiteFSVerif.Driver.RWMutexSpecD

namespace LiteFSVerif.Driver.RWMutexD
open LiteFSVerif LiteFSVerif.RWMutex

open RWMutexSpecD (parseOp showRes showGs)

/-- model mode: run `RWMutex.step` (the generated code) -/
def stepModel (m : Mutex) (line : String) : Mutex × String :=
  match words line with
  | ["case", id] => (m, s!"case {id}")
  | ["init", n] => match n.toNat? with
    | some k => (Mutex.init k, "ok")
    | none => (m, "bad-op")
  | ["state"] => (m, s!"{m.state.toString} | {showGs m.gs}")
  | [blk, i, rel, j] =>
    if blk != "block-lock" && blk != "block-rlock" then (m, "bad-op") else
    match i.toNat?, parseOp [rel, j] with
    | some i, some relOp =>
      if i ≥ m.gs.length || relOp.owner ≥ m.gs.length || i == relOp.owner then (m, "bad-op") else
      let tryOp := if blk == "block-lock" then Op.tryLock i else Op.tryRLock i
      -- the waiter must really be blocked before the release
      if (step m tryOp).2 == .bool true then (m, "returned-before-release") else
      let r := step m relOp
      let t := step r.1 tryOp
      (t.1, showRes r.2 ++ (if t.2 == .bool true then " acquired" else " ctx-ended"))
    | _, _ => (m, "bad-op")
  | ws => match parseOp ws with
    | some op => let r := step m op; (r.1, showRes r.2)
    | none => (m, "bad-op")

end LiteFSVerif.Driver.RWMutexD
