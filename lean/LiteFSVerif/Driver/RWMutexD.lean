import LiteFSVerif.Model.RWMutex
import LiteFSVerif.Driver.RWMutexSpecD

namespace LiteFSVerif.Driver.RWMutexD
open LiteFSVerif LiteFSVerif.RWMutex

open RWMutexSpecD (parseOp showRes showGs)

/-- model mode: run `RWMutex.step` (the generated code) -/
def stepModel (m : Mutex) (line : String) : Mutex × String :=
  match words line with
  | ["case", id] => (m, s!"case {id}")
  | ["init", n] => match n.toNat? with
    | some k => (Mutex.init k, "ok")
    | none => (m, "bad-op")
  | ["state"] => (m, s!"{m.state.toString} | {showGs m.gs}")
  | ws => match parseOp ws with
    | some op => let r := step m op; (r.1, showRes r.2)
    | none => (m, "bad-op")

end LiteFSVerif.Driver.RWMutexD
