import LiteFSVerif.Driver.Util
import LiteFSVerif.Driver.RWMutexSpecD
import LiteFSVerif.Driver.CodecSpecD
import LiteFSVerif.Driver.EngineSpecD
import LiteFSVerif.Driver.LockSpecD
import LiteFSVerif.Driver.ClusterSpecD
import LiteFSVerif.Driver.ProxySpecD
import LiteFSVerif.Driver.ApiSpecD
import LiteFSVerif.Driver.HaltSpecD
import LiteFSVerif.Driver.BackupSpecD
import LiteFSVerif.Driver.LeaseSpecD

/-! `specd`: runs only the independent specifications (never imports Gen/ or Model/),
    so it still builds when the regenerated definitions no longer do. -/
open LiteFSVerif LiteFSVerif.Driver

def main (args : List String) : IO UInt32 := do
  let stdin ← IO.getStdin
  let stdout ← IO.getStdout
  match args with
  | ["rwmutex-spec"] => loop stdin stdout RWMutexSpecD.stepSpec []; return 0
  | ["engine-spec"] => loop stdin stdout EngineSpec.step {}; return 0
  | ["locktable-spec"] => loop stdin stdout LockSpec.step {}; return 0
  | ["formats-spec"] => loop stdin stdout EngineSpec.step {}; return 0
  | ["snapsched-spec"] => loop stdin stdout EngineSpec.step {}; return 0
  | ["crash-spec"] => loop stdin stdout EngineSpec.step {}; return 0
  | ["import-spec"] => loop stdin stdout EngineSpec.step {}; return 0
  | ["replica-spec"] => loop stdin stdout EngineSpec.step {}; return 0
  | ["cluster-spec"] => loop stdin stdout ClusterSpec.step {}; return 0
  | ["proxy-spec"] => loop stdin stdout ProxySpec.step {}; return 0
  | ["api-spec"] => loop stdin stdout ApiSpec.step {}; return 0
  | ["halt-spec"] => loop stdin stdout HaltSpec.step {}; return 0
  | ["backup-spec"] => loop stdin stdout BackupSpec.step {}; return 0
  | ["lease-spec"] => loop stdin stdout LeaseSpec.step {}; return 0
  | ["codec-spec"] => loop stdin stdout CodecSpec.step (); return 0
  | _ =>
    IO.eprintln "usage: specd <suite>"
    return 2
