/- Driver for the API model: routing / validation (Model/API.lean) in front of engine-model
   databases. -/
import LiteFSVerif.Model.API
import LiteFSVerif.Model.Cluster
import LiteFSVerif.Model.Chunk
import LiteFSVerif.Driver.EngineD

namespace LiteFSVerif.Driver.ApiD
open LiteFSVerif LiteFSVerif.Engine LiteFSVerif.API

structure St where
  eng : Eng := {}                       -- the store and its database "db"
  role : String := ""
  started : Bool := false
  others : List (String × Eng) := []    -- databases with other names (created by /halt, /import)
  halts : List (String × Int) := []     -- database name → id of the halt lock granted on it
  haltPos : List (String × Nat) := []    -- ... and the TXID it was granted at (a repeated acquire answers the same lock)

def pctDecode (s : String) : List Char :=
  let rec go : List Char → List Char
    | '%' :: a :: b :: rest =>
      (match hexVal a, hexVal b with
       | some x, some y => Char.ofNat (x * 16 + y) :: go rest
       | _, _ => '%' :: go (a :: b :: rest))
    | '+' :: rest => ' ' :: go rest
    | c :: rest => c :: go rest
    | [] => []
  go s.toList

/-- first value of a query parameter (`url.Values.Get`) -/
def qget (q : String) (k : String) : Option String :=
  if q == "-" then none else
  (q.splitOn "&").findSome? fun kv =>
    match kv.splitOn "=" with
    | key :: rest => if key == k then some ("=".intercalate rest) else none
    | [] => none

def hex16n (n : Nat) : String := EngineD.hex16 (UInt64.ofNat n)

/-- the engine state of database `name` -/
def St.db (st : St) (name : String) : Option Eng :=
  if name == "db" then (if st.eng.hasDB then some st.eng else none) else st.others.lookup name

def St.setDB (st : St) (name : String) (e : Eng) : St :=
  if name == "db" then { st with eng := e }
  else { st with others := if st.others.any (·.1 == name) then st.others.map fun p => if p.1 == name then (name, e) else p
                           else st.others ++ [(name, e)] }

/-- `CreateDBIfNotExists` -/
def St.ensureDB (st : St) (name : String) : St × Eng :=
  match st.db name with
  | some e => (st, e)
  | none =>
    let e : Eng := if name == "db" then { st.eng with hasDB := true, dbFile := some ByteArray.empty }
                   else { opened := true, primary := st.eng.primary, hasDB := true, dbFile := some ByteArray.empty }
    (st.setDB name e, e)

def bodyBytes (tok : String) : Option ByteArray :=
  if tok.startsWith "ltx:" || tok.startsWith "posmap" then none else EngineD.bytesOf tok

def step (st : St) (line : String) : St × String :=
  let f := words line
  match f with
  | ["case", id] => ({}, s!"case {id}")
  | "ref" :: _ => (st, "ok")
  | ["open", "orphan"] =>
    if st.eng.opened then (st, "bad-op") else ({ st with eng := { st.eng with opened := true, primary := false }, role := "orphan" }, "ok")
  | ["open", role] =>
    let (e, o) := EngineD.step st.eng line
    ({ st with eng := e, role := role }, o)
  | ["api-start"] => if !st.eng.opened || st.started then (st, "bad-op") else ({ st with started := true }, "ok")
  | ["dbs"] =>
    if !st.eng.opened then (st, "bad-op") else
    let names := (if st.eng.hasDB then ["db"] else []) ++ st.others.map (·.1)
    let sorted := names.toArray.qsort (· < ·) |>.toList
    (st, "[" ++ ",".intercalate (sorted.map fun n => "\"" ++ n ++ "\"") ++ "]")
  | ["http", proto, method, path, query, node, body] =>
    if !st.started then (st, "bad-op") else
    let isPrimary := st.role == "primary"
    let nameC := match qget query "name" with | some v => pctDecode v | none => []
    let name := String.ofList nameC
    let params : Params := {
      name := nameC,
      id := (qget query "id") >>= parseInt64,
      lockID := (qget query "lockID") >>= parseInt64,
      nodeID := (qget query "nodeID") >>= fun v => parseNodeID (String.ofList (pctDecode v)),
      node := if node.startsWith "own" then .own else if node == "other" then .other else .none,
      http2 := proto == "2" }
    (match route path method with
     | .notFound => (st, "status=404")
     | .methodNotAllowed => (st, "status=405")
     | .handler h =>
       let dbExists := (st.db name).isSome
       match validate h params isPrimary isPrimary dbExists (st.halts.lookup name) with
       | .refuse code => (st, s!"status={code}")
       | .proceed =>
         match h with
         | .getInfo => (st, s!"status=200 primary={isPrimary}")
         | .getEvents => (st, "status=200")
         | .postPromote => (st, "status=200")
         | .postHandoff => (st, "status=500")
         | .getExport =>
           (match st.db name with
            | none => (st, "status=404")
            | some e =>
              let (_, o) := EngineD.step e "export"
              if o.startsWith "ok " then
                let img := ((words o).find? (·.startsWith "img=")).getD "img=?"
                (st, s!"status=200 {img}")
              else if o == "busy" then (st, "timeout") else (st, "status=500"))
         | .postImport =>
           let (st, e) := st.ensureDB name
           -- Import waits for the write lock first (a granted halt lock holds it until it is released or expires)
           if (e.locks.tryAcquireWriteLock e.walMode).2.isNone then (st, "timeout") else
           (match bodyBytes body with
            | none => (st, "status=500")     -- not a database image: Import refuses it
            | some data =>
              match importDB e data with
              | .ok e' => (st.setDB name e', "status=200")
              | .error (e', _) => (st.setDB name e', "status=500"))
         | .postHalt =>
           let id := params.id.getD 0
           let (st, e) := st.ensureDB name
           if st.halts.lookup name == some id then
             (st, s!"status=200 halt=\{\"TXID\":\"{hex16n ((st.haltPos.lookup name).getD e.posTxid)}")
           else
           (match e.locks.tryAcquireWriteLock e.walMode with
            | (t, none) => (st.setDB name { e with locks := t }, "status=500")
            | (t, some i) =>
              -- recover under the lock, keep it: the halt lock owns the write lock from now on
              let e1 := { e with locks := t, held := some i }
              let e2 := match Recovery.rollbackJournal e1 with
                | .ok s1 => (match checkpointNoLock s1 with | .ok s2 => s2 | .error _ => s1)
                | .error _ => e1
              ({ (st.setDB name e2) with halts := (name, id) :: st.halts.filter (·.1 != name),
                                         haltPos := (name, e2.posTxid) :: st.haltPos.filter (·.1 != name) },
               s!"status=200 halt=\{\"TXID\":\"{hex16n e2.posTxid}"))
         | .deleteHalt =>
           (match st.db name, params.id with
            | some e, some id =>
              if st.halts.lookup name == some id then
                let e' := match e.held with
                  | some i => { e with locks := e.locks.unlockAll i, held := none }
                  | none => e
                ({ (st.setDB name e') with halts := st.halts.filter (·.1 != name) }, "status=200")
              else (st, "status=200")
            | _, _ => (st, "status=200"))
         | .postTx =>
           (match st.db name with
            | none => (st, "status=404")
            | some e =>
              if body.startsWith "ltx:" then
                let (e', o) := EngineD.step e ("txapply " ++ ((body.drop 4).toString.replace "_" " "))
                (st.setDB name e', if o.startsWith "ok" then "status=200" else "status=500")
              else (st, "status=500"))
         | .postStream =>
           let okBody : Bool :=
             if body == "posmap" then true
             else if body.startsWith "posmapcut:" then
               -- the node's own position map (databases in name order), cut after n bytes
               let n := (body.drop 10).toString.toNat?.getD 0
               let dbs := ((if st.eng.hasDB then [("db", st.eng)] else []) ++ st.others).toArray.qsort (fun a b => a.1 < b.1) |>.toList
               let ents : List Chunk.Entry := dbs.map fun p => ⟨p.1.toUTF8.toList, p.2.posTxid, p.2.posChk.toNat⟩
               let bytes := (Chunk.encodePosMap ents).take n
               (match Chunk.decodePosMap bytes with | .ok _ _ => true | .err _ => false)
             else if body.startsWith "posmap" || body.startsWith "ltx:" then false
             else match EngineD.bytesOf body with
               | some b => (match Chunk.decodePosMap b.toList with | .ok _ _ => true | .err _ => false)
               | none => false
           (st, if okBody then "status=200 ready" else "status=400"))
  | _ =>
    let (e, o) := EngineD.step st.eng line
    ({ st with eng := e }, o)

end LiteFSVerif.Driver.ApiD
