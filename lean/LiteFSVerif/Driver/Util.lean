/- Shared helpers for the model driver (unverified glue: line parsing and printing). -/
namespace LiteFSVerif.Driver

def words (s : String) : List String :=
  (s.splitOn " ").filter (· ≠ "")

def trimLine (s : String) : String :=
  let s := if s.endsWith "\n" then (s.dropEnd 1).toString else s
  if s.endsWith "\r" then (s.dropEnd 1).toString else s

def hexDigit (c : Char) : Option Nat :=
  if '0' ≤ c ∧ c ≤ '9' then some (c.toNat - '0'.toNat)
  else if 'a' ≤ c ∧ c ≤ 'f' then some (c.toNat - 'a'.toNat + 10)
  else if 'A' ≤ c ∧ c ≤ 'F' then some (c.toNat - 'A'.toNat + 10)
  else none

/-- decode a hex string ("-" = empty) into bytes; `none` on malformed input -/
def unhex (s : String) : Option ByteArray :=
  if s = "-" then some ByteArray.empty else
  let rec go (cs : List Char) (acc : ByteArray) : Option ByteArray :=
    match cs with
    | [] => some acc
    | a :: b :: rest =>
      match hexDigit a, hexDigit b with
      | some x, some y => go rest (acc.push (UInt8.ofNat (x * 16 + y)))
      | _, _ => none
    | _ => none
  go s.toList ByteArray.empty

def hexNibble (n : Nat) : Char :=
  if n < 10 then Char.ofNat ('0'.toNat + n) else Char.ofNat ('a'.toNat + n - 10)

def hex (b : ByteArray) : String :=
  if b.size = 0 then "-" else
  String.ofList (b.toList.flatMap fun x => [hexNibble (x.toNat / 16), hexNibble (x.toNat % 16)])

/-- generic per-line loop: `step` maps a state and an input line to a new state and output line.
    After an output line starting with `panic` (or equal to `hang`) the instance is dead until the
    next `case` line: every operation is answered `dead` (the harness applies the same rule). -/
partial def loop {σ : Type} (h : IO.FS.Stream) (out : IO.FS.Stream) (step : σ → String → σ × String)
    (s : σ) (dead : Bool := false) : IO Unit := do
  let line ← h.getLine
  if line.isEmpty then
    out.flush
    return ()
  let l := trimLine line
  let isCase := l.startsWith "case "
  if dead && !isCase then
    out.putStrLn "dead"
    loop h out step s true
  else
    let (s', o) := step s l
    let o := if o.startsWith "panic" then "panic" else o     -- panic messages are not compared
    out.putStrLn o
    loop h out step s' (o == "panic" || o == "hang")

end LiteFSVerif.Driver
