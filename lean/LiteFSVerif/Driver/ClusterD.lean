/- Driver for the cluster model: N engine-model nodes, a lease holder, stream sessions run to
   quiescence at every cluster-level operation. -/
import LiteFSVerif.Model.Cluster
import LiteFSVerif.Model.Lease
import LiteFSVerif.Driver.EngineD

namespace LiteFSVerif.Driver.ClusterD
open LiteFSVerif LiteFSVerif.Engine LiteFSVerif.Cluster

structure Node where
  eng : Eng := {}
  up : Bool := false
  net : Bool := true
  cand : Bool := true
  ident : Nat := 0
  remoteId : Option Int := none      -- id of the remote halt lock this node believes to hold
  cid : String := ""                 -- cluster id stored in the data directory
  lease : Option Nat := none         -- id of the lease the node believes to hold
  pctx : Option Bool := none         -- a primary-scoped context taken by the suite: still alive?
  impCtx : Option (Bool × String) := none  -- an import request waiting for the write lock: (its primary-scoped context is alive, image)

structure Cl where
  nodes : Array Node := #[]
  holder : Option Nat := none
  allow : Option Nat := none
  nextIdent : Nat := 1
  lag : Bool := false
  halt : Option (Nat × Int × Bool × Nat × UInt64) := none   -- (primary, id, short-lived, position at grant)
  ttlShort : Bool := false
  leaseID : Nat := 0
  svcCid : String := ""
  renewErr : Bool := false
  renewFailNext : Nat := 0
  events : List String := []
  gen : Nat := 0
  armed : Option Nat := none                    -- node whose next snapshot is suspended after its capture
  pending : Option (Nat × Nat × LTXFile) := none -- (primary, replica, captured snapshot) of a suspended stream
  bgHalt : List (Nat × String) := []             -- halt requests issued in the background: (node, lock id)
  cidArmed : Bool := false                      -- lease-service fault: after the next acquisition the cluster id cannot be read
  cidErr : Bool := false                        -- ... the fault is active: every cluster-id lookup fails

def Cl.setNode (c : Cl) (k : Nat) (n : Node) : Cl := { c with nodes := c.nodes.setIfInBounds k n }

/-- the nodes other than `k` lose their stream (primary gone): each recovers -/
def Cl.recoverOthers (c : Cl) (k : Nat) : Cl :=
  { c with nodes := c.nodes.mapIdx fun i n => if i ≠ k ∧ n.up then { n with eng := recoverEng n.eng } else n }

/-- replicate from the primary `p` to replica `r` until it has caught up; a refused frame ends
    the session, the replica recovers and reconnects with its real position (bounded retries) -/
def replicate (p : Node) (r : Node) : Nat → Node × Bool
  | 0 => (r, false)
  | tries + 1 =>
    if !p.eng.hasDB then (r, true) else
    let client := if r.eng.hasDB then (r.eng.posTxid, r.eng.posChk) else (0, 0)
    let (e, ok) := session p.eng p.ident r.eng r.ident 100000 client
    if e.exit ≠ 0 then ({ r with eng := e }, true) else
    -- the session ended with the primary believing the replica has caught up: has it?
    if ok then ({ r with eng := e }, p.eng.posTxid = 0 || (e.hasDB && e.posTxid = p.eng.posTxid && e.posChk = p.eng.posChk))
    else replicate p { r with eng := recoverEng e } tries

def Cl.svc (c : Cl) : Lease.Svc :=
  { holder := c.holder, leaseID := c.leaseID, cid := c.svcCid, renewErr := c.renewErr, allow := c.allow, events := c.events }

def Cl.withSvc (c : Cl) (s : Lease.Svc) : Cl :=
  { c with holder := s.holder, leaseID := s.leaseID, svcCid := s.cid, events := s.events }

def Node.lnode (n : Node) : Lease.LNode := { up := n.up, cand := n.cand, cid := n.cid, lease := n.lease }

/-- a node stops acting as primary: contexts are cancelled, the databases recover -/
def Node.stepDown (n : Node) : Node :=
  { n with lease := none, eng := recoverEng { n.eng with primary := false },
           pctx := n.pctx.map fun _ => false,
           impCtx := n.impCtx.map fun (_, d) => (false, d) }

/-- the lease side of settling: every node that acts as primary renews (and steps down if its
    lease is gone or the service cannot be reached); then the allowed node takes a free lease -/
def settleLease (c : Cl) : Cl :=
  let c := (List.range c.nodes.size).foldl (fun (c : Cl) k =>
    match c.nodes[k]? with
    | some n =>
      if n.up ∧ n.lease.isSome then
        let (s, ln) := Lease.renew c.svc k n.lnode
        if ln.lease.isNone then
          let c := (c.withSvc s).setNode k n.stepDown
          -- the replicas of a primary that stepped down lose their stream
          { c with nodes := c.nodes.mapIdx fun i m => if i ≠ k ∧ m.up then { m with eng := recoverEng m.eng } else m }
        else c
      else c
    | none => c) c
  match c.holder, c.allow with
  | none, some k =>
    (match c.nodes[k]? with
     | some n =>
       if n.eng.exit ≠ 0 then c else
       -- the lease loop reads the cluster id at the top of every iteration: while that fails
       -- nobody acquires (or connects)
       if c.cidErr then c else
       if c.cidArmed then
         -- the node wins the lease, then cannot read the cluster id in monitorLeaseAsPrimary: it
         -- gives the lease back (destroys it) and is not primary
         (match Lease.acquire c.svc k n.lnode s!"G{c.gen + 1}" with
          | some (s, _) =>
            let c := c.withSvc { s with holder := none, cid := c.svcCid, events := s.events ++ [s!"release {k}"] }
            ({ c with cidArmed := false, cidErr := true }).setNode k { n with eng := recoverEng n.eng }
          | none => c)
       else
       (match Lease.acquire c.svc k n.lnode s!"G{c.gen + 1}" with
        | some (s, ln) =>
          let c := if ln.cid == s!"G{c.gen + 1}" then { c with gen := c.gen + 1 } else c
          (c.withSvc s).setNode k { n with lease := ln.lease, cid := ln.cid, eng := { recoverEng n.eng with primary := true } }
        | none => c)
     | none => c)
  | _, _ => c

def settle (c : Cl) : Cl :=
  let c := settleLease c
  -- replication
  match c.holder with
  | none => { c with lag := true }
  | some pk =>
    match c.nodes[pk]? with
    | none => c
    | some p =>
      let (nodes, lag) := (List.range c.nodes.size).foldl (fun (st : Array Node × Bool) i =>
        match st.1[i]? with
        | none => st
        | some r =>
          if i = pk ∨ !r.up ∨ !r.net ∨ r.eng.exit ≠ 0 then st else
          match Lease.attach c.svcCid r.cid p.cid with
          | none => st        -- another cluster: the node does not attach
          | some cid' =>
            let (r', ok) := replicate p { r with cid := cid' } 3
            (st.1.setIfInBounds i r', st.2 || !ok)) (c.nodes, false)
      { c with nodes := nodes, lag := lag }

/-- with a suspended snapshot: the first connected replica whose session starts with a snapshot
    gets no further than the capture -/
def settleArmed (c : Cl) : Cl :=
  let c0 := match c.holder, c.allow with
    | none, some _ => settle c     -- lease changes first (no stream can be suspended before)
    | _, _ => c
  match c0.holder, c0.armed with
  | some pk, some a =>
    if pk ≠ a then settle c0 else
    (match c0.nodes[pk]? with
     | none => settle c0
     | some p =>
       let cand := (List.range c0.nodes.size).find? fun i =>
         match c0.nodes[i]? with
         | some r =>
           i ≠ pk && r.up && r.net && r.eng.exit == 0 && p.eng.hasDB &&
           (match streamDecide (·.pre) (if r.eng.hasDB then (r.eng.posTxid, r.eng.posChk) else (0, 0)) (p.eng.posTxid, p.eng.posChk) (openLTX p.eng) with
            | .snapshot => true
            | _ => false)
         | none => false
       match cand with
       | none => settle c0
       | some i =>
         match snapshotFile p.eng p.ident with
         | none => settle c0
         | some f =>
           -- every other replica proceeds; replica i waits for the suspended stream
           let c1 := settle { c0 with nodes := c0.nodes.modify i fun r => { r with net := false } }
           { c1 with nodes := c1.nodes.modify i (fun r => { r with net := true }), armed := none, pending := some (pk, i, f), lag := c1.lag })
  | _, _ => settle c0

/-- the primary's halt lock goes away (release or expiry): its guard set unlocks -/
def releaseHalt (c : Cl) : Cl :=
  match c.halt with
  | none => c
  | some (p, _, _, _, _) =>
    match c.nodes[p]? with
    | none => { c with halt := none }
    | some pn =>
      let e := match pn.eng.held with
        | some i => { pn.eng with locks := pn.eng.locks.unlockAll i, held := none }
        | none => pn.eng
      { (c.setNode p { pn with eng := e }) with halt := none }

def stamp (e : Eng) (ident : Nat) : Eng :=
  { e with ltx := e.ltx.map fun f => if f.nodeID = 0 then { f with nodeID := ident } else f }

/-- `AcquireRemoteHaltLock` issued on node `k` with lock id `id` -/
def haltOp (c : Cl) (k id : String) : Cl × String :=
  (match k.toNat? >>= fun k => c.nodes[k]?.map fun n => (k, n), id.toInt? with
   | some (k, n), some id =>
     if !n.up || !n.eng.hasDB then (c, "bad-op") else
     if c.holder = some k then (c, "err primary") else
     (match c.holder with
      | none => (c, "err")
      | some p =>
        if !n.net then (c, "err") else
        match c.nodes[p]? with
        | none => (c, "err")
        | some pn =>
          -- the primary grants (or repeats) the lock
          let granted : Option (Cl × Nat × UInt64) :=
            match c.halt with
            | some (hp, hid, _, t, ch) =>
              if hp = p ∧ hid = id then some (c, t, ch) else none
            | none =>
              let pe := if pn.eng.hasDB then pn.eng else { pn.eng with hasDB := true, dbFile := some ByteArray.empty }
              match pe.locks.tryAcquireWriteLock pe.walMode with
              | (_, none) => none
              | (t, some i) =>
                let e1 := { pe with locks := t, held := some i }
                -- the recovery step (journal rollback, checkpoint) can fail: the request is refused
                -- and the write lock given back
                match (match Recovery.rollbackJournal e1 with
                  | .ok s1 => (match checkpointNoLock s1 with | .ok s2 => some s2 | .error _ => none)
                  | .error _ => none) with
                | none => none
                | some e2 =>
                some ({ (c.setNode p { pn with eng := e2 }) with halt := some (p, id, c.ttlShort, e2.posTxid, e2.posChk) }, e2.posTxid, e2.posChk)
          match granted with
          | none => (c, "err")
          | some (c, t, ch) =>
            let n' := { n with eng := { n.eng with remoteHalt := true, remoteHaltTxid := t }, remoteId := some id }
            let c := c.setNode k n'
            if n.eng.posTxid = t ∧ n.eng.posChk = ch then (c, s!"ok pos={t}:{EngineD.hex16 ch}")
            else (releaseHalt c, "err"))
   | _, _ => (c, "bad-op"))

/-- `n <k> <engine op>`: an operation of node k's application (or of the suite) on that node -/
def nodeOp (c : Cl) (k : String) (rest : List String) : Cl × String :=
  if rest.isEmpty then (c, "bad-op") else
  (match k.toNat? >>= fun k => c.nodes[k]?.map fun n => (k, n) with
   | none => (c, "bad-op")
   | some (k, n) =>
     if !n.up then (c, "down") else
     -- would the primary accept a transaction forwarded by this node now?
     let okRemote : Bool := match c.holder, c.halt, n.remoteId with
       | some p, some (hp, hid, _, _, _), some rid => p == hp && hid == rid && n.net
       | _, _, _ => false
     let (e, o) := EngineD.step { n.eng with remoteOK := okRemote } (" ".intercalate rest)
     let e := stamp e n.ident
     let c := c.setNode k { n with eng := e }
     -- a commit under the remote halt lock was sent to the primary before it was finalised
     if n.eng.remoteHalt && e.ltx.length > n.eng.ltx.length then
       match c.holder, e.ltx.getLast? with
       | some p, some f =>
         (match c.nodes[p]? with
          | some pn =>
            let pe := match receiveTx pn.eng f with | .ok x => x | .error (x, _) => x
            (settle (c.setNode p { pn with eng := pe }), o)
          | none => (c, o))
       | _, _ => (c, o)
     -- a commit on the primary is streamed to the connected replicas at once
     else if c.holder == some k && (e.posTxid != n.eng.posTxid || e.posChk != n.eng.posChk) && c.pending.isNone then (settle c, o)
     else (c, o))

def step (c : Cl) (line : String) : Cl × String :=
  let f := words line
  match f with
  | ["case", id] => ({}, s!"case {id}")
  | "ref" :: _ => (c, "ok")
  | "hist" :: _ => (c, "ok")
  | "cluster" :: n :: rest =>
    (match n.toNat? with
     | none => (c, "bad-op")
     | some n =>
       if c.nodes.size ≠ 0 ∨ n < 1 ∨ n > 5 then (c, "bad-op") else
       let nc := rest.filterMap fun a => if a.startsWith "nc=" then (a.drop 3).toString.toNat? else none
       ({ c with nodes := (Array.range n).map fun i => { cand := !nc.contains i } }, "ok"))
  | "n" :: k :: rest => nodeOp c k rest
  | ["up", k] =>
    (match k.toNat? >>= fun k => c.nodes[k]?.map fun n => (k, n) with
     | none => (c, "bad-op")
     | some (k, n) =>
       if n.up then (c, "bad-op") else
       let fresh : Eng := { opened := true, compress := n.eng.compress }
       let r : Option Eng :=
         if !n.eng.hasDB then some fresh else
         match Recovery.openDB { n.eng with primary := false } with
         | .ok e => some { e with primary := false }
         | .error _ => none
       match r with
       | none => (c, "err open")
       | some e =>
         (settle ({ c with nextIdent := c.nextIdent + 1 }.setNode k { n with eng := e, up := true, net := true, ident := c.nextIdent, lease := none, pctx := none, impCtx := none, remoteId := none }), "ok"))
  | ["down", k] =>
    (match k.toNat? >>= fun k => c.nodes[k]?.map fun n => (k, n) with
     | none => (c, "bad-op")
     | some (k, n) =>
       if !n.up then (c, "bad-op") else
       -- Store.Close: the lease monitor leaves its role loop and recovers once more
       let (sv, _) := Lease.release c.svc k n.lnode
       let wasHolder := c.holder = some k
       let c := (c.withSvc sv).setNode k { n with up := false, lease := none, pctx := none, impCtx := none, eng := recoverEng { n.eng with primary := false } }
       let c := if wasHolder then c.recoverOthers k else c
       (settle c, "ok"))
  | ["allow", k] =>
    (match k.toInt? with
     | none => (c, "bad-op")
     | some k =>
       if k < -1 ∨ k ≥ c.nodes.size then (c, "bad-op") else
       (settle { c with allow := if k < 0 then none else some k.toNat }, "ok"))
  | ["demote", k] | ["demote-nowait", k] =>
    (match k.toNat? >>= fun k => c.nodes[k]?.map fun n => (k, n) with
     | none => (c, "bad-op")
     | some (k, n) =>
       if !n.up then (c, "bad-op") else
       if c.holder ≠ some k then (c, "not-primary") else
       -- a short-lived halt lock runs out while the demoted node waits for its write lock
       let c := match c.halt with
         | some (hp, _, true, _, _) => if hp = k then releaseHalt c else c
         | _ => c
       let n := (c.nodes[k]?).getD n
       let (sv, _) := Lease.release c.svc k n.lnode
       let c := (c.withSvc sv).setNode k n.stepDown
       (settle (c.recoverOthers k), "ok"))
  | ["net", k, v] =>
    (match k.toNat? >>= fun k => c.nodes[k]?.map fun n => (k, n) with
     | none => (c, "bad-op")
     | some (k, n) =>
       if !n.up then (c, "bad-op") else
       let off := v == "off"
       let n := { n with net := !off }
       let n := if off ∧ c.holder ≠ some k then { n with eng := recoverEng n.eng } else n
       (settleArmed (c.setNode k n), "ok"))
  | ["halt-ttl", _, v] => ({ c with ttlShort := v == "short" }, "ok")
  | ["halt-expire", k] =>
    (match k.toNat?, c.halt with
     | some k, some (p, _, true, _, _) => if p = k then (releaseHalt c, "ok") else (c, "ok")
     | some _, _ => (c, "ok")
     | none, _ => (c, "bad-op"))
  | ["halt", k, id] => haltOp c k id
  -- the same request issued while an application transaction on the primary is still open: it
  -- queues behind the application's locks and is answered once they are released (`halt-join`)
  -- delivery of the stream to node k is delayed / resumed: replication is atomic in this model, the
  -- scripts observe node k only after the release
  | ["stream-hold", k] | ["stream-release", k] =>
    (match k.toNat? >>= fun k => c.nodes[k]? with
     | some n => if n.up then (c, "ok") else (c, "bad-op")
     | none => (c, "bad-op"))
  | ["halt-bg", k, id] =>
    (match k.toNat? >>= fun k => c.nodes[k]?.map fun n => (k, n) with
     | some (k, n) => if !n.up || !n.eng.hasDB then (c, "bad-op") else ({ c with bgHalt := (k, id) :: c.bgHalt.filter (·.1 ≠ k) }, "started")
     | none => (c, "bad-op"))
  | ["halt-join", k] =>
    (match k.toNat? >>= fun k => c.bgHalt.lookup k with
     | some id => haltOp { c with bgHalt := c.bgHalt.filter (fun e => some e.1 ≠ k.toNat?) } k id
     | none => (c, "bad-op"))
  -- the release is interrupted (the request's context is cancelled) while the node's recovery waits
  -- for the write lock behind an application connection: nothing is released, here or on the primary
  | ["unhalt-intr", k, id] =>
    (match k.toNat? >>= fun k => c.nodes[k]?.map fun n => (k, n), id.toInt? with
     | some (k', n), some id' =>
       if !n.up || !n.eng.hasDB then (c, "bad-op") else
       if n.eng.remoteHalt ∧ n.remoteId = some id' then
         -- the recovery waits for the write lock behind an application connection: interrupted there
         if (n.eng.locks.tryAcquireWriteLock n.eng.walMode).2.isNone then (c, "eintr") else
         -- recovered and the local reference dropped; the request to the primary was never sent
         (c.setNode k' { n with eng := { recoverEng n.eng with remoteHalt := false }, remoteId := none }, "eintr")
       else if c.holder = some k' then (c, "ok")
       else (c, "eintr")
     | _, _ => (c, "bad-op"))
  | ["unhalt", k, id] =>
    (match k.toNat? >>= fun k => c.nodes[k]?.map fun n => (k, n), id.toInt? with
     | some (k, n), some id =>
       if !n.up || !n.eng.hasDB then (c, "bad-op") else
       let n' := if n.eng.remoteHalt ∧ n.remoteId = some id then
           { n with eng := { recoverEng n.eng with remoteHalt := false }, remoteId := none } else n
       let c := c.setNode k n'
       if c.holder = some k then (c, "ok") else
       (match c.holder with
        | none => (c, "err")
        | some p =>
          if !n.net then (c, "err") else
          match c.halt with
          | some (hp, hid, _, _, _) => if hp = p ∧ hid = id then (settle (releaseHalt c), "ok") else (c, "ok")
          | none => (c, "ok"))
     | _, _ => (c, "bad-op"))
  | ["crash", k] =>
    (match k.toNat? >>= fun k => c.nodes[k]?.map fun n => (k, n) with
     | none => (c, "bad-op")
     | some (k, n) =>
       if !n.up then (c, "bad-op") else
       let wasHolder := c.holder = some k
       let c := c.setNode k { n with up := false, lease := none, pctx := none, impCtx := none, eng := { n.eng with primary := false } }
       let c := if wasHolder then { c.recoverOthers k with holder := none, events := c.events ++ ["expire"] } else c
       (settle c, "ok"))
  | ["snap-arm", k] =>
    (match k.toNat? >>= fun k => c.nodes[k]?.map fun n => (k, n) with
     | none => (c, "bad-op")
     | some (k, n) =>
       if !n.up || !n.eng.hasDB || c.armed.isSome then (c, "bad-op") else ({ c with armed := some k }, "ok"))
  | ["snap-wait", k] =>
    (match k.toNat? with
     | none => (c, "bad-op")
     | some k => (c, if (c.pending.map (·.1)) == some k then "paused" else "no"))
  | ["snap-release", k] =>
    (match k.toNat?, c.pending with
     | some k, some (pk, ri, f) =>
       if k ≠ pk then (c, "bad-op") else
       (match c.nodes[ri]? with
        | some r =>
          let (e, _) := deliver r.eng r.ident f
          (settle ({ c with pending := none, armed := none }.setNode ri { r with eng := e }), "ok")
        | none => ({ c with pending := none }, "ok"))
     | some _, none => ({ c with armed := none }, "ok")
     | none, _ => (c, "bad-op"))
  | ["sync"] =>
    let c := settle c
    (c, if c.lag then "lag" else "ok")
  | ["pause"] => (c, "ok")
  | ["wait-ms", _] => (c, "ok")
  -- a node is handed a live session that does not hold the key: the lease service's acquisition
  -- with that session is refused, whoever holds the key keeps it
  | ["consul-acqex", k] =>
    (match k.toNat? >>= fun k => c.nodes[k]? with
     | some n => (c, if n.up then "primary-exists" else "bad-op")
     | none => (c, "bad-op"))
  -- other databases of the cluster (names with special characters, replica-side filters): each is
  -- replicated like "db"; the model keeps no state for them, the check is the harness's
  | ["filter", k, _] =>
    (match k.toNat? >>= fun k => c.nodes[k]? with
     | some n => (c, if n.up then "bad-op" else "ok")
     | none => (c, "bad-op"))
  | ["xdb", k, _, _] =>
    (match k.toNat? >>= fun k => c.nodes[k]? with
     | some n => (c, if !n.up then "bad-op" else if c.holder == k.toNat? then "ok" else "readonly")
     | none => (c, "bad-op"))
  | ["xdb-check"] => (c, if c.holder.isSome then "ok" else "no-primary")
  -- a handoff to a node whose stream handler on the primary is blocked (it waits for the locks of
  -- an application transaction before it can send the snapshot): the request is accepted, the
  -- lease id cannot be delivered within the processing time-out, the primary carries on
  | ["handoff-stalled", p, k] =>
    (match p.toNat? >>= fun p => c.nodes[p]?, k.toNat? >>= fun k => c.nodes[k]? with
     | some pn, some kn => if !pn.up || !kn.up then (c, "bad-op") else (c, if c.holder == p.toNat? then "ok" else "err")
     | _, _ => (c, "bad-op"))
  | ["roles"] =>
    let cls (x : String) : String := if x == "" then "none" else x
    let per := (List.range c.nodes.size).map fun i =>
      match c.nodes[i]? with
      | some n =>
        if !n.up then s!"{i}=down/-" else
        let role :=
          if n.lease.isSome then "primary"
          else match c.holder with
            | some p =>
              (match c.nodes[p]? with
               | some pn => if p ≠ i ∧ n.net ∧ n.eng.exit = 0 ∧ (Lease.attach c.svcCid n.cid pn.cid).isSome then "replica" else (if !n.net then "cut" else "idle")
               | none => "idle")
            | none => if !n.net then "cut" else "idle"
        s!"{i}={role}/{cls n.cid}"
      | none => ""
    let h : String := match c.holder with | some k => toString k | none => "-1"
    (c, " ".intercalate per ++ s!" svc={h}/{cls c.svcCid}")
  | ["cid-fault", v] =>
    if v == "arm" then ({ c with cidArmed := true }, "ok")
    else if v == "off" then (settle { c with cidArmed := false, cidErr := false }, "ok")
    else if v == "wait" then (let c := settle c; (c, if c.cidErr then "fired" else "not-fired"))
    else (c, "bad-op")
  | ["events"] =>
    (match c.events with
     | [] => (c, "-")
     | ev => ({ c with events := [] }, ";".intercalate ev))
  | ["renewerr", v] => (settle { c with renewErr := v == "on" }, "ok")
  | ["expire"] => (settle { c with holder := none, events := c.events ++ ["expire"] }, "ok")
  | ["quiet"] => (c, "ok")
  | ["clusterid-svc", x] => ({ c with svcCid := if x == "-" then "" else x }, "ok")
  | ["clusterid-node", k, x] =>
    (match k.toNat? >>= fun k => c.nodes[k]?.map fun n => (k, n) with
     | none => (c, "bad-op")
     | some (k, n) => if n.up then (c, "bad-op") else (c.setNode k { n with cid := x }, "ok"))
  | ["lease-ttl", _] => (c, "ok")
  | ["renewfail-next", n] => ({ c with renewFailNext := n.toNat?.getD 0 }, "ok")
  | ["handoff", p, k] =>
    (match p.toNat? >>= fun p => c.nodes[p]?.map fun n => (p, n), k.toNat? >>= fun k => c.nodes[k]?.map fun n => (k, n) with
     | some (p, pn), some (k, kn) =>
       if !pn.up || !kn.up then (c, "bad-op") else
       let connected := p ≠ k && kn.net && kn.lease.isNone && kn.eng.exit == 0 && c.holder == some p &&
         (Lease.attach c.svcCid kn.cid pn.cid).isSome
       -- the renewal inside the handoff fails: the primary carries on, nothing changes
       if connected && c.renewFailNext > 0 then ({ c with renewFailNext := c.renewFailNext - 1 }, "ok") else
       (match Lease.handoff c.svc p pn.lnode k kn.lnode connected with
        | none => (c, "err")
        | some (sv, _, _) =>
          let l := pn.lease
          let c := (c.withSvc sv).setNode p pn.stepDown
          let c := c.recoverOthers p
          let kn := (c.nodes[k]?).getD kn
          let c := c.setNode k { kn with lease := l, eng := { recoverEng kn.eng with primary := true } }
          (settle c, "ok"))
     | _, _ => (c, "bad-op"))
  -- an import request (POST /import) that has to wait for the write lock: it carries a context
  -- scoped to the node's current term as primary; `import-join` is its answer once the lock is free
  | ["import-bg", k, d] =>
    (match k.toNat? >>= fun k => c.nodes[k]?.map fun n => (k, n) with
     | none => (c, "bad-op")
     | some (k, n) =>
       if !n.up then (c, "bad-op") else
       (c.setNode k { n with impCtx := some (n.lease.isSome, d) }, s!"started pos={n.eng.posTxid}:{EngineD.hex16 n.eng.posChk}"))
  | ["import-join", k] =>
    (match k.toNat? >>= fun k' => c.nodes[k']?.map fun n => (k', n) with
     | none => (c, "bad-op")
     | some (k', n) =>
       (match n.impCtx with
        | none => (c, "bad-op")
        | some (alive, d) =>
          let c := c.setNode k' { n with impCtx := none }
          let (c, o) := if alive ∧ n.up then nodeOp c k ["import", d] else (c, "refused")
          let e := ((c.nodes[k']?).getD n).eng
          (c, s!"{if o == "ok" then "ok" else "refused"} pos={e.posTxid}:{EngineD.hex16 e.posChk}")))
  | ["pctx-take", k] =>
    (match k.toNat? >>= fun k => c.nodes[k]?.map fun n => (k, n) with
     | none => (c, "bad-op")
     | some (k, n) =>
       if !n.up then (c, "bad-op") else
       let alive := n.lease.isSome
       (c.setNode k { n with pctx := some alive }, if alive then "alive" else "done"))
  | ["pctx", k] =>
    (match k.toNat? >>= fun k => c.nodes[k]?.map fun n => (k, n) with
     | none => (c, "bad-op")
     | some (_, n) =>
       if !n.up then (c, "bad-op") else
       (c, match n.pctx with | none => "none" | some true => "alive" | some false => "done"))
  | _ => (c, "bad-op")

end LiteFSVerif.Driver.ClusterD
