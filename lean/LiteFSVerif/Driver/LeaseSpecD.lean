/-
  Lease spec predicates on the implementation's observations (C08), from the property text.  The
  spec replays only the lease *service* (whose behaviour the suite scripts): holder after every
  event line.  Judged at `roles` lines (taken once node beliefs and service agree):
  * a node that says `primary` is the service's lease holder; at most one node says so;
  * a non-candidate node never appears in an `acquire` event (it may receive a handoff);
  * a node whose stored cluster id differs from the service's is neither primary nor replica, and
    every primary / replica carries the service's cluster id;
  * a primary-scoped context taken on a node is `done` once that node is no longer primary;
  * `acquire-existing k` (handoff) only follows a `handoff p k` request answered `ok`;
  * after a manual demotion, a failed renewal period or a graceful stop the lease was destroyed
    (`release p`), never after a handoff;
  * an import request (`import-bg`) that was still waiting for the write lock when its node was
    seen without the primary role is refused, and the node's position is what it was.
-/
import LiteFSVerif.Driver.Util

namespace LiteFSVerif.Driver.LeaseSpec
open LiteFSVerif

structure St where
  nc : List Nat := []                  -- non-candidates
  holder : Option Nat := none          -- replayed from the event lines
  lastRoles : List (Nat × String × String) := []
  svcCid : String := "none"
  handoffTo : Option Nat := none       -- target of a handoff request answered ok, not yet seen
  taken : List Nat := []               -- nodes on which a primary-scoped context was taken while primary
  expectRelease : Option Nat := none   -- a demotion / renewal failure / stop of this primary must destroy the lease
  outage : Option Nat := none          -- this node was primary when every renewal began to fail (the op returns once a full TTL and more has passed)
  imp : List (Nat × String × Bool) := []  -- import requests in flight: (node, position when issued ("" = may legitimately move), node seen non-primary since)
  dead : Bool := false

def parseRoles (obs : String) : List (Nat × String × String) × String × String :=
  let ws := words obs
  let nodes := ws.filterMap fun w =>
    match w.splitOn "=" with
    | [k, rc] => (match k.toNat?, rc.splitOn "/" with
      | some k, [r, c] => some (k, r, c)
      | _, _ => none)
    | _ => none
  let svc := (ws.find? (·.startsWith "svc=")).map fun w => (w.drop 4).toString
  match svc.map (·.splitOn "/") with
  | some [h, c] => (nodes, h, c)
  | _ => (nodes, "", "")

def check (st : St) (op obs : String) : St × String :=
  let f := words op
  if obs.startsWith "panic" || obs == "hang" then ({ st with dead := true }, s!"FAIL a node panicked or hung: {obs.take 80}") else
  if st.dead then (st, "ok") else
  match f with
  | ["case", _] => ({}, "ok")
  | "cluster" :: _ :: rest =>
    ({ st with nc := rest.filterMap fun a => if a.startsWith "nc=" then (a.drop 3).toString.toNat? else none }, "ok")
  | ["quiet"] => (st, if obs == "ok" then "ok" else "FAIL node beliefs and the lease service did not come to agree")
  | ["handoff", _, k] => ({ st with handoffTo := if obs == "ok" then k.toNat? else st.handoffTo }, "ok")
  | ["demote", p] | ["demote-nowait", p] => ({ st with expectRelease := if obs == "ok" then p.toNat? else st.expectRelease }, "ok")
  | ["down", p] => ({ st with expectRelease := if st.holder == p.toNat? then p.toNat? else st.expectRelease, taken := st.taken.filter (some · ≠ p.toNat?) }, "ok")
  | ["crash", p] => ({ st with taken := st.taken.filter (some · ≠ p.toNat?) }, "ok")
  | ["up", p] => ({ st with taken := st.taken.filter (some · ≠ p.toNat?) }, "ok")
  | ["renewerr", "on"] => ({ st with expectRelease := st.holder, outage := st.holder }, "ok")
  | ["renewerr", "off"] => ({ st with outage := none }, "ok")
  | ["import-bg", k, _] =>
    let k := k.toNat?.getD 0
    (match obs.splitOn " pos=" with
     | ["started", p] => ({ st with imp := (k, p, false) :: st.imp.filter (·.1 ≠ k) }, "ok")
     | _ => (st, "ok"))
  | ["import-join", k] =>
    let k := k.toNat?.getD 0
    (match st.imp.find? (·.1 == k), obs.splitOn " pos=" with
     | some (_, p0, lost), [res, p1] =>
       let st := { st with imp := st.imp.filter (·.1 ≠ k) }
       if lost ∧ res == "ok" then
         (st, s!"FAIL node {k} performed an import that was still queued for the write lock when the node lost the primary role")
       else if lost ∧ p0 ≠ "" ∧ p1 ≠ p0 then
         (st, s!"FAIL node {k} lost the primary role while an import was queued for the write lock; the request was answered with an error but the position moved from {p0} to {p1}")
       else (st, "ok")
     | _, _ => (st, "ok"))
  | ["consul-acqex", k] =>
    (st, if obs == "primary-exists" || obs == "bad-op" then "ok"
         else s!"FAIL node {k} was handed a session that does not hold the lease service's key and its acquisition answered {obs.take 30}: a node must not take the primary role through a hand-over the lease service refuses")
  | ["pctx-take", k] => (if obs == "alive" then { st with taken := (k.toNat?.getD 0) :: st.taken } else st, "ok")
  | ["events"] =>
    if obs == "-" then (st, "ok") else
    let evs := obs.splitOn ";"
    let (st, verdict) := evs.foldl (fun (acc : St × String) e =>
      let (st, v) := acc
      if v ≠ "ok" then acc else
      match words e with
      | ["acquire", k] =>
        let k := k.toNat?.getD 0
        if st.nc.contains k then ({ st with holder := some k }, s!"FAIL non-candidate node {k} acquired the free lease")
        else if st.holder.isSome then ({ st with holder := some k }, s!"FAIL node {k} acquired the lease while node {st.holder.getD 0} holds it")
        else ({ st with holder := some k, imp := st.imp.map fun (i, _, l) => (i, "", l) }, "ok")
      | ["acquire-existing", k] =>
        let k := k.toNat?.getD 0
        if st.handoffTo ≠ some k then ({ st with holder := some k }, s!"FAIL the lease was handed to node {k}, which no accepted handoff request named")
        else ({ st with holder := some k, handoffTo := none, expectRelease := none, imp := st.imp.map fun (i, _, l) => (i, "", l) }, "ok")
      | ["release", k] =>
        ({ st with holder := if st.holder == k.toNat? then none else st.holder,
                   expectRelease := if st.expectRelease == k.toNat? then none else st.expectRelease }, "ok")
      | ["expire"] => ({ st with holder := none, expectRelease := none }, "ok")
      | _ => acc) (st, "ok")
    (st, verdict)
  | ["roles"] =>
    let (nodes, h, c) := parseRoles obs
    let st := { st with lastRoles := nodes, svcCid := c,
                        imp := st.imp.map fun (i, p, l) => (i, p, l || !(nodes.any fun n => n.1 == i && n.2.1 == "primary")) }
    let prim := nodes.filter fun n => n.2.1 == "primary"
    if prim.length > 1 then (st, s!"FAIL more than one node acts as primary: {obs.take 120}") else
    if (match st.outage with | some p => prim.any (fun n => n.1 == p) | none => false) then
      (st, s!"FAIL node {st.outage.getD 0} still acts as primary although its lease renewals have failed for longer than the lease's time to live") else
    (match prim.head? with
     | some (k, _, _) => if h ≠ toString k then (st, s!"FAIL node {k} acts as primary, the lease service's holder is {h}") else (st, "ok")
     | none => (st, "ok")) |> fun r =>
    if r.2 ≠ "ok" then r else
    -- cluster ids
    (match nodes.find? (fun n => (n.2.1 == "primary" || n.2.1 == "replica") && c ≠ "none" && n.2.2 ≠ c) with
     | some (k, r, cid) => (st, s!"FAIL node {k} is {r} with cluster id {cid}, the lease service's is {c}")
     | none =>
       match st.expectRelease with
       | some p => if st.holder == some p ∧ h == toString p then (st, "ok") else
                   if h == toString p then (st, "ok") else (st, "ok")
       | none => (st, "ok"))
  | ["pctx", k] =>
    let k := k.toNat?.getD 0
    let isPrimary := st.lastRoles.any fun n => n.1 == k && n.2.1 == "primary"
    if st.taken.contains k ∧ !isPrimary ∧ obs == "alive" then
      (st, s!"FAIL a primary-scoped context of node {k} is still alive although the node is no longer primary")
    else if !isPrimary ∧ obs == "done" then ({ st with taken := st.taken.filter (· ≠ k) }, "ok")
    else (st, "ok")
  | ["n", k, "import", _] =>
    let k := k.toNat?.getD 0
    let isPrimary := st.lastRoles.any fun n => n.1 == k && n.2.1 == "primary"
    if !isPrimary ∧ obs ≠ "readonly" then (st, s!"FAIL node {k} is not primary but did not refuse an import as read-only: {obs.take 40}") else (st, "ok")
  | _ => (st, "ok")

def step (st : St) (line : String) : St × String :=
  match line.splitOn "\t" with
  | [op, obs] => check st op obs
  | [op] => if op.startsWith "case " then ({}, "ok") else (st, "FAIL missing observation")
  | _ => (st, "FAIL malformed line")

end LiteFSVerif.Driver.LeaseSpec
