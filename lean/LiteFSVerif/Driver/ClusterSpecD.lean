/-
  Cluster spec predicates on the implementation's observations (`op<TAB>obs` lines) — C01 / C06:
  * every position a node reports was committed by a primary, and the node's from-scratch image
    and checksum are the ones the primary had at that position (`hist` lines: position and
    reference image recorded when the primary committed);
  * every node's log is one chain that ends at its position;
  * `sync` (faults have stopped, one primary is up) ends with every connected replica at the
    primary's position.
  Independent of the cluster model: only the lease rule "one holder; the free lease goes to the
  allowed node" is replayed to know who the primary is.
-/
import LiteFSVerif.Spec.Image
import LiteFSVerif.Driver.EngineSpecD

namespace LiteFSVerif.Driver.ClusterSpec
open LiteFSVerif LiteFSVerif.Spec LiteFSVerif.Driver.EngineSpec

structure NodeSt where
  up : Bool := false
  net : Bool := true
  pos : Option (Nat × Chk) := none     -- last `state` observation
  exited : Bool := false

structure St where
  nodes : Array NodeSt := #[]
  hist : List ((Nat × Chk) × String) := []
  primary : Option Nat := none
  allow : Option Nat := none
  fresh : Bool := false        -- nothing happened since the last `sync`
  ppos : Option (Nat × Chk) := none
  dead : Bool := false

def St.upd (st : St) (k : Nat) (f : NodeSt → NodeSt) : St :=
  match st.nodes[k]? with
  | some n => { st with nodes := st.nodes.setIfInBounds k (f n) }
  | none => st

/-- the lease rule: a free lease goes to the allowed node if it is up -/
def St.elect (st : St) : St :=
  match st.primary, st.allow with
  | none, some k => if (st.nodes[k]?.map (·.up)).getD false then { st with primary := some k } else st
  | _, _ => st

def showPos (p : Nat × Chk) : String := s!"{p.1}:{hex16 p.2}"

def check (st : St) (op obs : String) : St × String :=
  let f := words op
  if obs.startsWith "panic" || obs == "hang" then ({ st with dead := true }, s!"FAIL a node panicked or hung: {obs.take 100}") else
  if st.dead then (st, "ok") else
  match f with
  | ["case", _] => ({}, "ok")
  | "cluster" :: n :: _ => ({ st with nodes := (Array.range (n.toNat?.getD 0)).map fun _ => {} }, "ok")
  | "ref" :: _ => (st, "ok")
  | ["xdb-check"] =>
    (st, if obs == "ok" || obs == "no-primary" then "ok"
         else s!"FAIL faults have stopped and one primary is up, but a connected replica does not hold another database of the primary (one it is configured to replicate) at the primary's position: {obs.take 200}")
  | ["hist", pos, d] =>
    (match parsePos pos with
     | some p => ({ st with hist := (p, d) :: st.hist }, "ok")
     | none => (st, "ok"))
  | ["up", k] =>
    let k := k.toNat?.getD 0
    let st := (st.upd k fun n => { n with up := true, net := true, pos := none, exited := false })
    ({ st.elect with fresh := false },
     if obs == "ok" then "ok" else s!"FAIL node {k} does not start on the data directory a clean history left: {obs.take 60}")
  | ["down", k] =>
    let k := k.toNat?.getD 0
    let st := st.upd k fun n => { n with up := false }
    ({ (if st.primary = some k then { st with primary := none } else st) with fresh := false }, "ok")
  | ["allow", k] =>
    let a := match k.toInt? with | some v => if v < 0 then none else some v.toNat | none => none
    ({ { st with allow := a }.elect with fresh := false }, "ok")
  | ["demote", k] =>
    let k := k.toNat?.getD 0
    let st := if st.primary = some k ∧ obs == "ok" then { st with primary := none } else st
    ({ st.elect with fresh := false },
     if obs == "ok" || obs == "not-primary" then "ok" else s!"FAIL demotion did not complete: {obs}")
  | ["net", k, v] =>
    let k := k.toNat?.getD 0
    ({ (st.upd k fun n => { n with net := v != "off" }) with fresh := false },
     if obs == "ok" then "ok" else s!"FAIL a disconnected replica did not return to its lease loop: {obs}")
  | ["sync"] =>
    let st := st.elect
    ({ st with fresh := true, ppos := none },
     if obs == "ok" then "ok"
     else "FAIL faults have stopped and one primary is up, but the connected replicas did not reach its position within the settle time")
  | ["roles"] => (st, "ok")
  | "n" :: k :: rest =>
    let k := k.toNat?.getD 0
    (match rest with
     | ["state"] =>
       if obs == "down" then (st, "ok") else
       let ws := words obs
       let pos := (fieldOf ws "pos") >>= parsePos
       let exited := (fieldOf ws "exit").isSome
       let st := st.upd k fun n => { n with pos := pos, exited := exited }
       if exited then (st, s!"FAIL node {k} exited ({obs.take 100})") else
       if st.primary = some k then ({ st with ppos := pos }, "ok") else
       let n := (st.nodes[k]?).getD {}
       (match st.ppos, pos with
        | some pp, some p =>
          if st.fresh ∧ n.up ∧ n.net ∧ pp.1 ≥ 1 ∧ p ≠ pp then
            (st, s!"FAIL connected replica {k} is at {showPos p} after the cluster settled, the primary at {showPos pp}")
          else (st, "ok")
        | some pp, none =>
          if st.fresh ∧ n.up ∧ n.net ∧ pp.1 ≥ 1 then (st, s!"FAIL connected replica {k} has no database after the cluster settled, the primary is at {showPos pp}")
          else (st, "ok")
        | _, _ => (st, "ok"))
     | ["raw"] =>
       let n := (st.nodes[k]?).getD {}
       if n.exited then (st, "ok") else
       (match n.pos with
        | none => (st, "ok")
        | some p =>
          if p.1 = 0 then (st, "ok") else
          let ws := words obs
          match st.hist.lookup p, fieldOf ws "img", (fieldOf ws "chk") >>= parseHex64 with
          | none, _, _ => (st, s!"FAIL node {k} reports position {showPos p}, which no primary ever committed")
          | some d, some img, some c =>
            if img ≠ d then (st, s!"FAIL node {k} at {showPos p} holds image {img}; the primary's database at that position was {d}")
            else if c ≠ p.2 then (st, s!"FAIL node {k}: from-scratch checksum {hex16 c} differs from the reported position {showPos p}")
            else (st, "ok")
          | some _, _, _ => (st, s!"FAIL node {k}: raw files unreadable: {obs.take 80}"))
     | ["ltx"] =>
       let n := (st.nodes[k]?).getD {}
       if n.exited || obs == "nodb" || obs == "down" then (st, "ok") else
       (match parseListing obs with
        | none => (st, s!"FAIL node {k}: unreadable transaction log: {obs.take 80}")
        | some l =>
          let txs := l.map (·.1)
          if !chainOK txs then (st, s!"FAIL node {k}: the transaction log is not one chain")
          else match txs.getLast?, n.pos with
            | some t, some p => if t.maxTxid ≠ p.1 ∨ t.post ≠ p.2 then (st, s!"FAIL node {k}: newest transaction file does not end at the reported position {showPos p}") else (st, "ok")
            | _, _ => (st, "ok"))
     | _ => ({ st with fresh := false }, "ok"))
  | _ => (st, "ok")

def step (st : St) (line : String) : St × String :=
  match line.splitOn "\t" with
  | [op, obs] => check st op obs
  | [op] => if op.startsWith "case " then ({}, "ok") else (st, "FAIL missing observation")
  | _ => (st, "FAIL malformed line")

end LiteFSVerif.Driver.ClusterSpec
