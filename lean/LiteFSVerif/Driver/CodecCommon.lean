/- Glue shared by the codec model driver and the codec spec checker: tokens, digests, parsing. -/
import LiteFSVerif.Model.Frames
import LiteFSVerif.Model.Chunk
import LiteFSVerif.Driver.Util

namespace LiteFSVerif.Driver.Codec
open LiteFSVerif LiteFSVerif.Frames LiteFSVerif.Chunk

def fnv64 (b : Bytes) : UInt64 :=
  b.foldl (fun h x => (h ^^^ x.toUInt64) * 1099511628211) 14695981039346656037

def hex16 (v : UInt64) : String :=
  String.ofList ((List.range 16).map fun i => hexNibble ((v >>> (UInt64.ofNat (60 - 4 * i))).toNat % 16))

def hexOf (b : Bytes) : String :=
  String.ofList (b.flatMap fun x => [hexNibble (x.toNat / 16), hexNibble (x.toNat % 16)])

/-- bytes as printed by the harness: "-" / hex (≤ 64 bytes) / #len:fnv64 -/
def tok (b : Bytes) : String :=
  if b.isEmpty then "-"
  else if b.length ≤ 64 then hexOf b
  else s!"#{b.length}:{hex16 (fnv64 b)}"

def genBytes (seed n : Nat) : Bytes :=
  (List.range n).map fun i => UInt8.ofNat ((seed * 7 + i * 13 + (i / 256) * 5) % 256)

/-- payload token: "-" / hex / g<seed>x<len> -/
def untok (s : String) : Option Bytes :=
  if s = "-" then some []
  else if s.startsWith "g" then
    match ((s.drop 1).toString.splitOn "x") with
    | [a, b] => match a.toNat?, b.toNat? with
      | some seed, some n => if n ≤ 67108864 then some (genBytes seed n) else none
      | _, _ => none
    | _ => none
  else (unhex s).map (·.toList)

def showFrame : Frame → String
  | .ltx size name => s!"ltx {size} {tok name}"
  | .ready => "ready"
  | .end_ => "end"
  | .dropDB name => s!"dropdb {tok name}"
  | .handoff id => s!"handoff {tok id}"
  | .hwm txid name => s!"hwm {txid} {tok name}"
  | .heartbeat ts => s!"hb {ts}"

def u64? (s : String) : Option Nat := s.toNat?.bind fun n => if n < 2 ^ 64 then some n else none

def parseFrame : List String → Option Frame
  | ["ltx", n, name] => do let n ← u64? n; let b ← untok name; pure (.ltx n b)
  | ["ready"] => some .ready
  | ["end"] => some .end_
  | ["dropdb", name] => (untok name).map .dropDB
  | ["handoff", name] => (untok name).map .handoff
  | ["hwm", n, name] => do let n ← u64? n; let b ← untok name; pure (.hwm n b)
  | ["hb", n] => (u64? n).map .heartbeat
  | _ => none

def showErr : DecErr → String
  | .eof => "eof" | .unexpectedEOF => "unexpected-eof" | .invalid _ => "invalid"

def cutOf (s : String) (b : Bytes) : Option Bytes :=
  if s = "full" then some b else s.toNat?.map fun k => b.take k

/-- lexicographic order on byte strings (Go's string order) -/
def bytesLt : Bytes → Bytes → Bool
  | [], [] => false
  | [], _ :: _ => true
  | _ :: _, [] => false
  | a :: as, b :: bs => if a < b then true else if b < a then false else bytesLt as bs

/-- insert into a name-sorted association list, replacing an existing entry (Go map assignment) -/
def insertEntry (e : Entry) : List Entry → List Entry
  | [] => [e]
  | x :: xs =>
    if x.name == e.name then e :: xs
    else if bytesLt e.name x.name then e :: x :: xs
    else x :: insertEntry e xs

def toMap (es : List Entry) : List Entry := es.foldl (fun m e => insertEntry e m) []

def parseEntry (s : String) : Option Entry :=
  match s.splitOn ":" with
  | [n, t, c] => do let nm ← untok n; let t ← u64? t; let c ← u64? c; pure ⟨nm, t, c⟩
  | _ => none

def showEntry (e : Entry) : String := s!"{tok e.name}:{e.txid}:{e.chk}"

def showMap (es : List Entry) : String := "[" ++ " ".intercalate (es.map showEntry) ++ "]"

end LiteFSVerif.Driver.Codec
