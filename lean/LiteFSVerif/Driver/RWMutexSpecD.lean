import LiteFSVerif.Spec.Posix
import LiteFSVerif.Driver.Util

namespace LiteFSVerif.Driver.RWMutexSpecD
open LiteFSVerif LiteFSVerif.RWMutex

def parseOp : List String → Option Op
  | ["trylock", i] => i.toNat?.map .tryLock
  | ["tryrlock", i] => i.toNat?.map .tryRLock
  | ["unlock", i] => i.toNat?.map .unlock
  | ["canlock", i] => i.toNat?.map .canLock
  | ["canrlock", i] => i.toNat?.map .canRLock
  | _ => none

def showRes : Res → String
  | .bool b => toString b
  | .unit => "ok"
  | .query b st => s!"{b} {st.toString}"
  | .panic msg => s!"panic {msg}"
  | .badOwner => "bad-owner"

def showGs (gs : List GS) : String := " ".intercalate (gs.map GS.toString)

/-- spec mode: run the POSIX specification on holders only -/
def stepSpec (h : Posix.Holders) (line : String) : Posix.Holders × String :=
  match words line with
  | ["case", id] => (h, s!"case {id}")
  | ["init", n] => match n.toNat? with
    | some k => (List.replicate k .unlocked, "ok")
    | none => (h, "bad-op")
  | ["state"] => (h, s!"{(Posix.state h).toString} | {showGs h}")
  | [blk, i, rel, j] =>
    if blk != "block-lock" && blk != "block-rlock" then (h, "bad-op") else
    match i.toNat?, parseOp [rel, j] with
    | some i, some relOp =>
      if i ≥ h.length || relOp.owner ≥ h.length || i == relOp.owner then (h, "bad-op") else
      let tryOp := if blk == "block-lock" then Op.tryLock i else Op.tryRLock i
      if (Posix.specStep h tryOp).2 == .bool true then (h, "returned-before-release") else
      let r := Posix.specStep h relOp
      let t := Posix.specStep r.1 tryOp
      (t.1, showRes r.2 ++ (if t.2 == .bool true then " acquired" else " ctx-ended"))
    | _, _ => (h, "bad-op")
  | ws => match parseOp ws with
    | some op =>
      if op.owner ≥ h.length then (h, "bad-owner") else
      let r := Posix.specStep h op; (r.1, showRes r.2)
    | none => (h, "bad-op")

end LiteFSVerif.Driver.RWMutexSpecD
