import LiteFSVerif.Spec.Posix
import LiteFSVerif.Driver.Util

namespace LiteFSVerif.Driver.RWMutexSpecD
open LiteFSVerif LiteFSVerif.RWMutex

def parseOp : List String → Option Op
  | ["trylock", i] => i.toNat?.map .tryLock
  | ["tryrlock", i] => i.toNat?.map .tryRLock
  | ["unlock", i] => i.toNat?.map .unlock
  | ["canlock", i] => i.toNat?.map .canLock
  | ["canrlock", i] => i.toNat?.map .canRLock
  | _ => none

def showRes : Res → String
  | .bool b => toString b
  | .unit => "ok"
  | .query b st => s!"{b} {st.toString}"
  | .panic msg => s!"panic {msg}"
  | .badOwner => "bad-owner"

def showGs (gs : List GS) : String := " ".intercalate (gs.map GS.toString)

/-- spec mode: run the POSIX specification on holders only -/
def stepSpec (h : Posix.Holders) (line : String) : Posix.Holders × String :=
  match words line with
  | ["case", id] => (h, s!"case {id}")
  | ["init", n] => match n.toNat? with
    | some k => (List.replicate k .unlocked, "ok")
    | none => (h, "bad-op")
  | ["state"] => (h, s!"{(Posix.state h).toString} | {showGs h}")
  | ws => match parseOp ws with
    | some op =>
      if op.owner ≥ h.length then (h, "bad-owner") else
      let r := Posix.specStep h op; (r.1, showRes r.2)
    | none => (h, "bad-op")

end LiteFSVerif.Driver.RWMutexSpecD
