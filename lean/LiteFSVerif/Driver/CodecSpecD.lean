/-
  C18 spec predicates evaluated on the implementation's observations (`op<TAB>obs` lines).
  Uses only the *encoders* (what a node writes) and the property's statement:
  round trip, prefix ⇒ error, successful decode ⇒ consumed bytes are the encoding, alloc in bound.
-/
import LiteFSVerif.Driver.CodecCommon

namespace LiteFSVerif.Driver.CodecSpec
open LiteFSVerif LiteFSVerif.Frames LiteFSVerif.Chunk LiteFSVerif.Driver.Codec

def okOrFail (b : Bool) (why : String) : String := if b then "ok" else "FAIL " ++ why

def badObs (obs : String) : Bool :=
  obs.startsWith "panic" || obs == "hang" || obs == "oom" || obs == "dead" || obs.startsWith "child" ||
  (obs.splitOn "alloc=excess").length > 1

def check (op obs : String) : String :=
  if badObs obs then s!"FAIL decoder crashed, hung or allocated out of proportion: {obs.take 80}" else
  match words op with
  | ["case", _] => "ok"
  | "frame-rt" :: _mode :: cut :: fr =>
    match parseFrame fr with
    | none => "ok"
    | some f =>
      let b := encodeFrame f
      let k := if cut = "full" then b.length else (cut.toNat?.getD b.length)
      let pre := s!"enc={tok b} "
      if !obs.startsWith pre then s!"FAIL encoding differs from the wire format" else
      let r := (obs.drop pre.length).toString
      if k ≥ b.length then okOrFail (r = s!"ok {showFrame f} rest=0 alloc=ok") "round trip: decoded value differs from the value written"
      else if k = 0 then okOrFail (r = "err eof alloc=ok") "empty input must be a clean EOF"
      else okOrFail (r = "err unexpected-eof alloc=ok") "a proper prefix must be reported as ErrUnexpectedEOF"
  | ["frame-dec", _mode, _] =>
    okOrFail (obs.startsWith "ok " || obs.startsWith "err ") "garbage must give a value or an error"
  | "posmap-rt" :: cut :: ents =>
    match ents.mapM parseEntry with
    | none => "ok"
    | some es =>
      let m := toMap es
      let b := encodePosMap m
      let k := if cut = "full" then b.length else (cut.toNat?.getD b.length)
      let pre := s!"enc={tok b} "
      if !obs.startsWith pre then s!"FAIL encoding differs from the wire format" else
      let r := (obs.drop pre.length).toString
      if k ≥ b.length then okOrFail (r = s!"ok {showMap m} rest=0 alloc=ok") "round trip: decoded map differs"
      else okOrFail (r = "err eof alloc=ok" || r = "err unexpected-eof alloc=ok") "a proper prefix must be an error"
  | ["posmap-dec", _] =>
    okOrFail (obs.startsWith "ok " || obs.startsWith "err ") "garbage must give a value or an error"
  | "chunk-rt" :: _mode :: _rs :: cut :: toks =>
    match toks.mapM untok with
    | none => "ok"
    | some ws =>
      let b := ws.flatMap chunkWrite ++ chunkClose
      let k := if cut = "full" then b.length else (cut.toNat?.getD b.length)
      let pre := s!"enc={tok b} "
      if !obs.startsWith pre then s!"FAIL chunk stream differs from the wire format" else
      let r := (obs.drop pre.length).toString
      if k ≥ b.length then okOrFail (r = s!"ok {tok ws.flatten} rest=0") "round trip: payload differs"
      else okOrFail (r.startsWith "err unexpected-eof") "a truncated body must be ErrUnexpectedEOF, never a clean end"
  | ["chunk-dec", _mode, _rs, _] =>
    okOrFail (obs.startsWith "ok " || obs.startsWith "err ") "garbage must give data or an error"
  | _ => "ok"

def step (_ : Unit) (line : String) : Unit × String :=
  match line.splitOn "\t" with
  | [op, obs] => ((), check op obs)
  | [op] => ((), if op.startsWith "case " then "ok" else "FAIL missing observation")
  | _ => ((), "FAIL malformed line")

end LiteFSVerif.Driver.CodecSpec
