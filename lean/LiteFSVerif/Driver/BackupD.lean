/- Driver for the backup model: an engine-model primary, a service holding a list of files. -/
import LiteFSVerif.Model.Backup
import LiteFSVerif.Driver.EngineD

namespace LiteFSVerif.Driver.BackupD
open LiteFSVerif LiteFSVerif.Engine LiteFSVerif.Backup LiteFSVerif.Cluster

structure St where
  eng : Eng := {}
  svc : List LTXFile := []      -- the service's files for "db", in name order
  loop : Bool := false          -- the continuous sync loop runs (BackupDelay > 0)
  cached : Option (Nat × Cks.Chk) := none   -- the loop's cached position of the service
  dirty : Bool := false         -- a change since the loop's last pass

def pos (svc : List LTXFile) : Nat × Cks.Chk :=
  match svc.getLast? with | some f => (f.maxTxid, f.post) | none => (0, 0)

def svcWrite (svc : List LTXFile) (f : LTXFile) : Option (List LTXFile) :=
  let p := pos svc
  if p.1 + 1 = f.minTxid ∧ p.2 = f.pre then some (addLTX svc f) else none

/-- the image the service's files restore to -/
def svcImage (svc : List LTXFile) : List ByteArray × Nat :=
  svc.foldl (fun (st : List ByteArray × Nat) f =>
    let ps := f.pageSize
    let img := (List.range f.commit).map fun i =>
      match f.pages.lookup (i + 1) with
      | some d => d
      | none => st.1.getD i (BA.zeros ps)
    (img, ps)) ([], 0)

def chainOK : List LTXFile → Bool
  | [] => true
  | [_] => true
  | a :: b :: rest => b.minTxid == a.maxTxid + 1 && b.pre == a.post && chainOK (b :: rest)

def showSvc (svc : List LTXFile) : String :=
  if svc.isEmpty then "files=[] pos=0:0000000000000000 img=0:-" else
  let (img, ps) := svcImage svc
  let p := pos svc
  let ok := chainOK svc && (svc.head?.map (·.minTxid == 1)).getD true
  s!"files=[{",".intercalate (svc.map fun f => s!"{f.minTxid}-{f.maxTxid}")}] pos={p.1}:{EngineD.hex16 p.2} img={EngineD.imageDigest img ps} {if ok then "chain" else "broken"}"

/-- restore from the service: recover, write the compacted snapshot, apply it -/
def restore (e : Eng) (svc : List LTXFile) : Option Eng :=
  match compact svc with
  | none => none
  | some f =>
    let e := if e.hasDB then e else { e with hasDB := true, dbFile := some ByteArray.empty }
    match e.locks.tryAcquireWriteLock e.walMode with
    | (_, none) => none
    | (t, some i) =>
      let e1 := { e with locks := t }
      let e2 := match Recovery.rollbackJournal e1 with
        | .ok s1 => (match checkpointNoLock s1 with | .ok s2 => s2 | .error _ => s1)
        | .error _ => e1
      match (do let s ← writeLTXFile e2 f; applyLTX s f true) with
      | .ok e3 => some { e3 with locks := e3.locks.unlockAll i, hwm := e3.posTxid }   -- the restore resets the high-water mark
      | .error (e3, _) => some { e3 with locks := e3.locks.unlockAll i }

/-- one pass of `streamBackup` for "db": `believed` is the service position the caller works from
    (freshly fetched for `SyncBackup`, cached by the continuous loop); returns the position the
    loop caches afterwards -/
def syncFrom (st : St) (believed : Nat × Cks.Chk) : St × String × Option (Nat × Cks.Chk) :=
  let e := st.eng
  let loc := if e.hasDB then some (e.posTxid, e.posChk) else none
  if !e.hasDB && st.svc.isEmpty then (st, "ok", none) else
  let doRestore : St × String × Option (Nat × Cks.Chk) :=
    match restore e st.svc with
    | some e' => ({ st with eng := e' }, EngineD.withExit e' "ok", some (e'.posTxid, e'.posChk))
    | none => (st, "err", none)
  match syncDecide loc believed (fun t => (openLTX e t).isSome) with
  | .nothing => (st, "ok", none)
  | .inSync => (st, "ok", loc)
  | .snapshot =>
    (match snapshotFile e 0 with
     | none => (st, "err", none)
     | some f =>
       match svcWrite st.svc f with
       | some svc => ({ st with svc := svc, eng := { e with hwm := f.maxTxid } }, "ok", some (f.maxTxid, f.post))
       | none => (st, "err", none))
  | .upload a b =>
    let files := (List.range (b + 1 - a)).filterMap fun i => openLTX e (a + i)
    (match compact files with
     | none => (st, "err", none)
     | some f =>
       match svcWrite st.svc f with
       | some svc => ({ st with svc := svc, eng := { e with hwm := f.maxTxid } }, "ok", some (f.maxTxid, f.post))
       | none => doRestore)
  | .restore => doRestore

def sync (st : St) : St × String :=
  let r := syncFrom st (pos st.svc)
  (r.1, r.2.1)

def step (st : St) (line : String) : St × String :=
  let f := words line
  match f with
  | ["case", id] => ({}, s!"case {id}")
  | "ref" :: _ => (st, "ok")
  | ["open", r] | ["open", r, "lfsc"] =>
    -- `lfsc`: the store talks to the service through the LiteFS Cloud client; same service, same model
    let (e, o) := EngineD.step st.eng s!"open {r}"
    ({ st with eng := { e with backup := true } }, o)
  -- a second database of the node (another name): it has a transaction / the service holds it at the
  -- node's position after a sync; independent of "db", whose model is what follows
  | ["xdb", _, _] => (st, if st.eng.opened then "ok" else "bad-op")
  | ["xdb-check"] => (st, if st.eng.opened then "ok" else "bad-op")
  | ["backup-sync"] => if !st.eng.opened then (st, "bad-op") else sync st
  | ["reopen-loop"] =>
    let (e, o) := EngineD.step st.eng "reopen"
    ({ st with eng := e, loop := true, cached := none, dirty := true }, o)
  | ["backup-wait"] =>
    if !st.loop then (st, "bad-op") else
    if !st.dirty then (st, "ok") else
    let believed := st.cached.getD (pos st.svc)
    -- errors are only logged by the loop; it starts over with a freshly fetched position map
    let (st', o, c) := syncFrom st believed
    ({ st' with cached := if o.startsWith "err" then none else c, dirty := false }, "ok")
  | ["hwm"] => (st, if !st.eng.hasDB then "nodb" else s!"hwm={st.eng.hwm}")
  | ["hwm-frame", n] =>
    (match n.toNat? with
     | some h => if !st.eng.hasDB then (st, "bad-op") else ({ st with eng := { st.eng with hwm := h } }, "ok")
     | none => (st, "bad-op"))
  | ["svc"] => (st, showSvc st.svc)
  | ["svc-drop-last"] => if st.svc.isEmpty then (st, "empty") else ({ st with svc := st.svc.dropLast }, "ok")
  | ["svc-clear"] => ({ st with svc := [] }, "ok")
  | "svc-put" :: spec =>
    (match EngineD.parseLTXSpec spec with
     | none => (st, "bad-op")
     | some f =>
       if !EngineD.ltxSpecOK f then (st, "bad-op") else
       match svcWrite st.svc f with
       | some svc => ({ st with svc := svc }, "ok")
       | none => (st, "rejected"))
  | "svc-put-force" :: spec =>
    (match EngineD.parseLTXSpec spec with
     | none => (st, "bad-op")
     | some f => if !EngineD.ltxSpecOK f then (st, "bad-op") else ({ st with svc := addLTX st.svc f }, "ok"))
  | _ =>
    let (e, o) := EngineD.step st.eng line
    let moved := e.posTxid != st.eng.posTxid || e.posChk != st.eng.posChk || e.hasDB != st.eng.hasDB
    ({ st with eng := e, dirty := st.dirty || moved }, o)

end LiteFSVerif.Driver.BackupD
