/-
  API spec predicates on the implementation's observations (C20), from the property text:
  * every request gets an HTTP response (no panic, no dropped connection, no hang);
  * a request the node answers with an error status (malformed, not allowed for the role, referring
    to a database or lock that must exist) leaves databases, positions, logs and locks unchanged:
    the four observation lines before the request equal the four after it;
  * a request on an unknown path or with a method the endpoint does not have is answered 404 / 405;
  * a node that is not primary (a connected replica, a node that knows no primary) never proceeds
    with an import, a halt-lock grant, a forwarded transaction or a handoff: those requests are
    not answered 200 there, and neither they nor a halt-lock release change anything (a release
    of a lock the node does not hold is answered 200 and is a no-op: not an error by the property);
  * a request to /halt, /tx or /stream that carries the node's own id as its sender — in any
    spelling of the number — is not answered 200.
  The generator brackets every `http` line with `state`, `ltx`, `locks`, `dbs`.
-/
import LiteFSVerif.Driver.Util

namespace LiteFSVerif.Driver.ApiSpec
open LiteFSVerif

structure St where
  window : List String := []      -- observations since the last request (or start)
  before : List String := []      -- the four observations preceding the pending request
  pending : Option (String × String) := none   -- (op, obs) of the request whose after-image is being collected
  haltOut : Bool := false
  role : String := ""             -- primary | replica | orphan (from the `open` line)
  dead : Bool := false

def endpoints : List (String × List String) :=
  [("/export", ["GET"]), ("/halt", ["POST", "DELETE"]), ("/handoff", ["POST"]), ("/import", ["POST"]),
   ("/info", ["GET"]), ("/promote", ["POST"]), ("/stream", ["POST"]), ("/tx", ["POST"]), ("/events", ["GET"])]

def statusOf (obs : String) : Nat :=
  if obs.startsWith "status=" then (((obs.drop 7).toString.splitOn " ").headD "").toNat?.getD 0 else 0

/-- verdict for a finished request given the observations before and after -/
def judge (role op obs : String) (before after : List String) : String :=
  let st := statusOf obs
  let path := (words op).getD 3 ""
  if (role == "replica" || role == "orphan") ∧ ["/halt", "/import", "/tx", "/handoff"].contains path ∧
      before.length == 4 ∧ after.length == 4 ∧ before ≠ after then
    s!"FAIL a node that is not primary ({role}) changed its state on {path} (answered {st}): {op.take 120}"
  else if st ≥ 400 ∧ before.length == 4 ∧ after.length == 4 ∧ before ≠ after then
    let what := if before.getD 3 "" ≠ after.getD 3 "" then "the set of databases"
      else if before.getD 2 "" ≠ after.getD 2 "" then "the lock table"
      else if before.getD 1 "" ≠ after.getD 1 "" then "the transaction log"
      else "database state / position"
    s!"FAIL a request answered with status {st} changed {what}: {op.take 120}"
  else "ok"

def check (st : St) (op obs : String) : St × String :=
  let f := words op
  if obs.startsWith "panic" || obs == "hang" then ({ st with dead := true }, s!"FAIL the node panicked or hung: {obs.take 80}") else
  if st.dead then (st, "ok") else
  match f with
  | ["case", _] => ({}, "ok")
  | ["open", role] => ({ st with role := role, window := [], pending := none }, "ok")
  | ["state"] | ["ltx"] | ["locks"] | ["dbs"] =>
    let w := st.window ++ [obs]
    (match st.pending with
     | some (pop, pobs) =>
       if w.length == 4 then
         ({ st with window := w, pending := none }, judge st.role pop pobs st.before w)
       else ({ st with window := w }, "ok")
     | none => ({ st with window := if w.length > 4 then w.drop (w.length - 4) else w }, "ok"))
  | "http" :: _proto :: method :: path :: _ =>
    let before := st.window
    let st := { st with window := [], before := before, pending := some (op, obs) }
    if obs == "timeout" then
      -- export and import wait for locks that a granted halt lock holds until it is released or expires
      (st, if (path == "/export" || path == "/import") && st.haltOut then "ok" else s!"FAIL request got no response within the time-out: {op.take 100}")
    else if !obs.startsWith "status=" then (st, s!"FAIL request got no HTTP response ({obs.take 60}): {op.take 100}")
    else if (words obs).contains "PANIC" then (st, s!"FAIL a handler panicked while serving: {op.take 100}")
    else if path == "/stream" && method == "POST" && obs.startsWith "status=200" && !(words obs).contains "ready" then
      (st, s!"FAIL a stream answered 200 but broke before its ready frame: {op.take 100}") else
    let code := statusOf obs
    -- a request that names the node itself as its sender (in any spelling of the id) is one the
    -- node's role never allows on the halt, forwarding and stream endpoints
    if ((words op).getD 5 "").startsWith "own" && code == 200 && ["/halt", "/tx", "/stream"].contains path &&
        (method == "POST" || method == "DELETE") then
      (st, s!"FAIL a request carrying the node's own id was accepted on {method} {path}: {op.take 100}") else
    if (st.role == "replica" || st.role == "orphan") && code == 200 &&
        method == "POST" && ["/halt", "/import", "/tx", "/handoff"].contains path then
      (st, s!"FAIL a node that is not primary ({st.role}) answered 200 to {method} {path}: {op.take 100}") else
    let st := if path == "/halt" && method == "POST" && code == 200 then { st with haltOut := true }
              else if path == "/halt" && method == "DELETE" && code == 200 then { st with haltOut := false } else st
    (match endpoints.lookup path with
     | none => (st, if code == 404 then "ok" else s!"FAIL unknown path {path} answered {code}")
     | some ms => if !ms.contains method then (st, if code == 405 then "ok" else s!"FAIL {method} {path} answered {code}, not 405") else (st, "ok"))
  | _ => ({ st with window := [], pending := none }, "ok")

def step (st : St) (line : String) : St × String :=
  match line.splitOn "\t" with
  | [op, obs] => check st op obs
  | [op] => if op.startsWith "case " then ({}, "ok") else (st, "FAIL missing observation")
  | _ => (st, "FAIL malformed line")

end LiteFSVerif.Driver.ApiSpec
