/- C11 spec predicates on the implementation's observations: POSIX lock table + checkpoint gate + internal bracket. -/
import LiteFSVerif.Spec.LockTable
import LiteFSVerif.Driver.Util

namespace LiteFSVerif.Driver.LockSpec
open LiteFSVerif LiteFSVerif.SpecLocks

structure St where
  t : T := {}
  walMode : Bool := false        -- journal mode according to the header page SQLite last committed
  pendingMode : Option Bool := none   -- version bytes of a page 1 written inside an open rollback-journal transaction
  held : Bool := false
  nInternal : Nat := 0

def parseLocks (s : String) : Option (List Nat) := (s.splitOn ",").mapM lockIdx

def expect (want obs what : String) : String :=
  if want == obs then "ok" else s!"FAIL {what}: the lock rules give {want}, the node answered {obs}"

def check (st : St) (op obs : String) : St × String :=
  match words op with
  | ["case", _] => ({}, "ok")
  | ["state"] => (st, "ok")
  -- the journal mode is what SQLite committed in the header page (bytes 18, 19: 2,2 = WAL), not
  -- what the node reports: a rollback-journal transaction writes page 1 with `dbw 0 <page>` and
  -- commits by deleting / truncating / zeroing the journal
  | ["dbw", "0", tok] =>
    if obs.startsWith "ok" && tok.startsWith "53514c69746520666f726d6174203300" then
      ({ st with pendingMode := some (((tok.drop 36).take 4).toString == "0202") }, "ok")
    else (st, "ok")
  | ["jrm"] | ["jtr"] | ["jw", "0", "z28"] =>
    if obs.startsWith "ok" then ({ st with walMode := st.pendingMode.getD st.walMode, pendingMode := none }, "ok")
    else ({ st with pendingMode := none }, "ok")
  | ["reopen"] => ({ st with t := {}, held := false }, "ok")
  | [o, owner, ls] =>
    match o with
    | "lock" | "rlock" | "unlock" | "canlock" | "canrlock" =>
      match owner.toNat?, parseLocks ls with
      | some ow, some ls =>
        if obs == "bad-op" || obs == "exited" then (st, "ok") else
        if o == "lock" then
          let (t, b) := tryLocks st.t ow ls
          ({ st with t := t }, expect (toString b) obs s!"exclusive lock request by owner {ow}")
        else if o == "rlock" then
          let (t, b) := tryRLocks st.t ow ls
          ({ st with t := t }, expect (toString b) obs s!"shared lock request by owner {ow}")
        else if o == "unlock" then
          ({ st with t := unlock st.t ow ls }, if obs.startsWith "ok" then "ok" else s!"FAIL unlock failed: {obs}")
        else if o == "canlock" then
          let (t, b, g) := canLock st.t ow ls
          ({ st with t := t }, expect s!"{b} {g.toString}" obs "exclusive lock query")
        else
          let (t, b) := canRLock st.t ow ls
          ({ st with t := t }, expect (toString b) obs "shared lock query")
      | _, _ => (st, "ok")
    | _ => (st, "ok")
  | ["whold"] =>
    if obs == "bad-op" then (st, "ok") else
    let id := internalBase + st.nInternal
    let (t, b) := internalAcquire st.t st.walMode id
    let t := if b then t else internalRelease t id
    ({ st with t := t, held := b, nInternal := st.nInternal + 1 },
     expect (toString b) obs "LiteFS internal write lock while applications hold locks")
  | ["wrelease"] =>
    if obs == "bad-op" then (st, "ok") else
    ({ st with t := internalRelease st.t (internalBase + st.nInternal - 1), held := false }, "ok")
  | ["ckpt"] =>
    if obs == "bad-op" || obs == "exited" then (st, "ok") else
    let id := internalBase + st.nInternal
    let (t, b) := internalAcquire st.t st.walMode id
    ({ st with t := internalRelease t id, nInternal := st.nInternal + 1 },
     if b then (if obs.startsWith "ok" then "ok" else s!"FAIL checkpoint refused although no application lock conflicts: {obs}")
     else (if obs == "busy" then "ok" else s!"FAIL LiteFS checkpointed while an application connection held a conflicting lock: {obs}"))
  | ["locks"] =>
    if obs == "bad-op" then (st, "ok") else (st, expect (showLocks st.t) obs "lock states")
  | _ => (st, "ok")

def step (st : St) (line : String) : St × String :=
  match line.splitOn "\t" with
  | [op, obs] => if obs.startsWith "panic" || obs == "hang" then (st, s!"FAIL lock operation panicked or hung") else check st op obs
  | [op] => (st, if op.startsWith "case " then "ok" else "FAIL missing observation")
  | _ => (st, "FAIL malformed line")

end LiteFSVerif.Driver.LockSpec
