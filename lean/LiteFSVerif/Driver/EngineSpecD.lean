/-
  Engine spec predicates on the implementation's observations (`op<TAB>obs` lines):
  capture exactness (C02/C03), from-scratch checksum (C04), chain (C09), export/snapshot at
  quiescence (C10/C16).  The reference image comes from the pager simulator (`ref` lines).
-/
import LiteFSVerif.Spec.Image
import LiteFSVerif.Driver.Util

namespace LiteFSVerif.Driver.EngineSpec
open LiteFSVerif LiteFSVerif.Spec

structure St where
  ps : Nat := 0
  prev : Option Img := none
  ref : Option Img := none
  posTxid : Nat := 0
  posChk : Chk := 0
  lastMax : Nat := 0
  dead : Bool := false
  replica : Bool := false
  lastImg : String := ""
  prevObsTxid : Option Nat := none   -- position at the previous `state` observation
  pre : Option (Nat × Chk × String) := none
  post : Option (Nat × Chk × String) := none
  awaitPost : Bool := false
  hist : List (Nat × Chk × String × Img) := []   -- observed positions: txid, checksum, image digest, image
  appliedSince : Bool := false   -- a transaction file was applied since the last `state` line
  snapSince : Bool := false      -- ... and one of them was a snapshot (first TXID 1): a replica may then be at a lower TXID than before
  ckptSince : Bool := false      -- a LiteFS checkpoint completed since the last `state` line

def parseHex64 (s : String) : Option UInt64 :=
  (unhex s).map fun b => b.foldl (fun a x => a * 256 + x.toUInt64) 0

def fieldOf (ws : List String) (key : String) : Option String :=
  (ws.find? (·.startsWith (key ++ "="))).map fun w => (w.drop (key.length + 1)).toString

def parsePos (s : String) : Option (Nat × Chk) :=
  match s.splitOn ":" with
  | [t, c] => do let t ← t.toNat?; let c ← parseHex64 c; pure (t, c)
  | _ => none

def hexNib (n : Nat) : Char := hexNibble n
def hex16 (v : UInt64) : String :=
  String.ofList ((List.range 16).map fun i => hexNib ((v >>> (UInt64.ofNat (60 - 4 * i))).toNat % 16))

def fnv64 (b : List UInt8) : UInt64 :=
  b.foldl (fun h x => (h ^^^ x.toUInt64) * 1099511628211) 14695981039346656037

def be64 (v : UInt64) : List UInt8 := (List.range 8).map fun i => (v >>> (UInt64.ofNat (56 - 8 * i))).toUInt8

/-- the harness's image digest, computed from page checksums -/
def digest (lock : Nat) (img : Img) : String :=
  if img.isEmpty then "0:-" else
  let bytes := (img.zipIdx.filter fun p => p.2 + 1 ≠ lock).flatMap fun p => be64 p.1
  s!"{img.length}:{hex16 (fnv64 bytes)}"

/-- parse one listing entry `min-max pre=.. post=.. commit=.. ps=.. wal=.. pages=[..]`;
    pages are `none` when abbreviated -/
def parseEntry (e : String) : Option (Tx × Option Unit) :=
  let ws := words e
  match ws with
  | range :: _ =>
    match range.splitOn "-" with
    | [a, b] => do
      let mn ← a.toNat?; let mx ← b.toNat?
      let pre ← (fieldOf ws "pre") >>= parseHex64
      let post ← (fieldOf ws "post") >>= parseHex64
      let commit ← (fieldOf ws "commit") >>= String.toNat?
      let pg ← fieldOf ws "pages"
      let inner := ((pg.drop 1).dropEnd 1).toString
      if inner.startsWith "#" then pure ({ minTxid := mn, maxTxid := mx, pre, post, commit, pages := [] }, none)
      else
        let items := if inner.isEmpty then [] else inner.splitOn ","
        let pages ← items.mapM fun it => match it.splitOn ":" with
          | [k, v] => do let k ← k.toNat?; let v ← parseHex64 v; pure (k, v)
          | _ => none
        pure ({ minTxid := mn, maxTxid := mx, pre, post, commit, pages }, some ())
    | _ => none
  | _ => none

def parseListing (obs : String) : Option (List (Tx × Option Unit)) :=
  if !(obs.startsWith "[" && obs.endsWith "]") then none else
  let inner := ((obs.drop 1).dropEnd 1).toString
  if inner.isEmpty then some [] else (inner.splitOn " | ").mapM parseEntry

def lockOf (ps : Nat) : Nat := if ps = 0 then 0 else 1073741824 / ps + 1

def check (st : St) (op obs : String) : St × String :=
  let f := words op
  if obs.startsWith "panic" || obs == "hang" then ({ st with dead := true }, s!"FAIL the engine panicked or hung: {obs.take 100}") else
  if st.dead then (st, "ok") else
  match f with
  | ["case", _] => ({}, "ok")
  | ["open", role] => ({ st with replica := role == "replica" }, "ok")
  | ["reopen"] =>
    -- whatever is on disk, a restart answers (starts or refuses to start): it never panics or hangs
    -- (panic / hang are caught above); locks are gone
    ({ st with prev := none, prevObsTxid := none, lastMax := 0, posTxid := 0, appliedSince := true },
     if obs == "ok" then "ok"
     else if obs == "err open" then (if st.ref.isNone then "ok" else "FAIL restart fails on a data directory left by a clean history")
     else s!"FAIL restart neither succeeded nor failed cleanly: {obs.take 60}")
  | ["ref-unknown"] => ({ st with ref := none, prev := none }, "ok")
  | ["ref-restart"] => (st, "ok")
  | ["expect-recovered"] => (st, "ok")
  | "bg-start" :: _ | ["bg-resume"] | ["bg-result"] =>
    if !obs.startsWith "finished ok " then (st, "ok") else
    let body := (obs.drop 12).toString
    let ws := words body
    if body.startsWith "pos=" then
      -- export: the bytes returned must be the image of exactly the position reported
      match (fieldOf ws "pos") >>= parsePos, fieldOf ws "img" with
      | some (t, c), some d =>
        (match st.hist.find? (fun h => h.1 == t) with
         | none => (st, s!"FAIL export reports a position ({t}) that was never a committed position of this database")
         | some h =>
           if h.2.1 ≠ c then (st, "FAIL export reports a position with a checksum that never existed")
           else if h.2.2.1 ≠ d then (st, s!"FAIL export completed successfully but its bytes are not the image of the position it reports (txid {t}): a mixture of positions or uncommitted pages")
           else (st, "ok"))
      | _, _ => (st, "FAIL unreadable export result")
    else
      match parseEntry body with
      | some (tx, some _) =>
        (match st.hist.find? (fun h => h.1 == tx.maxTxid) with
         | none => (st, s!"FAIL snapshot reports a position ({tx.maxTxid}) that was never committed")
         | some h =>
           let lock := lockOf st.ps
           let want := (h.2.2.2.zipIdx.filter fun p => p.2 + 1 ≠ lock).map fun p => (p.2 + 1, p.1)
           if tx.post ≠ h.2.1 then (st, "FAIL snapshot reports a checksum that never existed at that position")
           else if tx.commit ≠ h.2.2.2.length || tx.pages ≠ want then (st, "FAIL snapshot completed successfully but its pages are not the image of the position it reports")
           else (st, "ok"))
      | _ => (st, "FAIL unreadable snapshot result")
  | ["ckpt"] => ({ st with ckptSince := obs == "ok" }, "ok")
  | ["crash-begin"] => ({ st with pre := some (st.posTxid, st.posChk, st.lastImg), post := none }, "ok")
  | ["crash-end"] => ({ st with awaitPost := true }, "ok")
  | ["crashpoint", _] =>
    let ws := words obs
    match st.pre, st.post with
    | some pre, some post =>
      if (fieldOf ws "open") != some "ok" then (st, s!"FAIL restart fails after a crash: {obs.take 160}") else
      if ws.contains "nodb" then (st, if pre.1 = 0 then "ok" else "FAIL database lost after a crash") else
      match (fieldOf ws "pos") >>= parsePos, (fieldOf ws "rchk") >>= parseHex64, fieldOf ws "rimg", fieldOf ws "last", fieldOf ws "next", fieldOf ws "files" with
      | some (t, c), some rc, some img, some last, some next, some files =>
        let isPre := t == pre.1 && c == pre.2.1 && (img == pre.2.2 || pre.1 == 0)
        let isPost := t == post.1 && c == post.2.1 && img == post.2.2
        let after := ws.any (·.endsWith "(after)")
        let fparts := files.splitOn ","
        if !(isPre || isPost) then (st, s!"FAIL recovered state is neither the position before nor after the interrupted operation: {obs.take 200}")
        else if after && !isPost then (st, "FAIL a transaction whose commit already returned to SQLite was lost by the crash")
        else if t ≠ 0 && rc ≠ c then (st, "FAIL after recovery the reported checksum differs from the from-scratch checksum")
        else if t ≠ 0 && !(last.endsWith s!"-{t}:{hex16 c}") then (st, s!"FAIL recovered position is not the newest transaction file: {last}")
        else if !(fparts.contains "j:-") then (st, "FAIL a hot journal is left after recovery")
        else if !(fparts.contains "w:-" || fparts.contains "w:0") then (st, "FAIL un-checkpointed WAL content is left after recovery")
        else if next ≠ "ok" then (st, "FAIL the restarted node cannot take its write lock")
        else
          -- after recovery (journal rolled back, WAL checkpointed) the database file is exactly
          -- the image: `pageN` pages, nothing behind them
          let dsize := (fparts.find? (·.startsWith "d:")).bind fun x => (x.drop 2).toString.toNat?
          let pn := (fieldOf ws "rpageN") >>= String.toNat?
          match dsize, pn with
          | some d, some n =>
            if st.ps ≠ 0 && d ≠ n * st.ps then (st, s!"FAIL after recovery the database file has {d} bytes but the image has {n} pages of {st.ps} bytes")
            else (st, "ok")
          | _, _ => (st, "ok")
      | _, _, _, _, _, _ => (st, s!"FAIL unreadable state after a crash: {obs.take 160}")
    | _, _ => (st, "ok")
  | "sapply" :: _ | "txapply" :: _ =>
    if obs.startsWith "ok" then ({ st with appliedSince := true, snapSince := st.snapSince || f.getD 1 "" == "1" }, "ok") else (st, "ok")
  | "dbw" :: _ | "jw" :: _ | "ww" :: _ =>
    -- page, journal and WAL writes on a node without write authority: read-only permission error
    if st.replica && obs == "ok" then (st, s!"FAIL write accepted on a node without write authority: {op.take 12}")
    else if st.replica && !(obs == "readonly" || obs == "enoent") then
      (st, s!"FAIL a write on a node without write authority was not refused with the read-only permission error but with: {obs.take 60}")
    else (st, "ok")
  | ["jc"] | ["drop"] | "import" :: _ =>
    if st.replica && obs != "readonly" then (st, s!"FAIL {op.take 10} not refused on a node without write authority: {obs.take 60}") else (st, "ok")
  | "ref" :: ps :: _n :: rest =>
    let img : Img := match rest with
      | [l] => (l.splitOn ",").map fun c => if c == "0" then 0 else (parseHex64 c).getD 0
      | _ => []
    ({ st with ps := ps.toNat?.getD 0, prev := st.ref, ref := some img }, "ok")
  | ["state"] =>
    let ws := words obs
    if (fieldOf ws "exit").isSome then (st, s!"FAIL the store exited on a healthy history: {obs}") else
    match (fieldOf ws "pos") >>= parsePos, (fieldOf ws "pageN") >>= String.toNat?, st.ref with
    | some (t, c), some n, some img =>
      let st' := { st with posTxid := t, posChk := c, appliedSince := false, snapSince := false, prevObsTxid := if st.ref.isSome && st.prev.isSome then some st.posTxid else none }
      let dsize := ((fieldOf ws "files").bind fun fs => (fs.splitOn ",").find? (·.startsWith "d:")).bind fun x => (x.drop 2).toString.toNat?
      let st' := { st' with ckptSince := false }
      if st.ckptSince && st.ps ≠ 0 && dsize.isSome && dsize ≠ some (n * st.ps) then
        (st', s!"FAIL after a checkpoint the database file has {dsize.getD 0} bytes but the image has {n} pages of {st.ps} bytes")
      else if st.replica && !st.appliedSince && (t ≠ st.posTxid || c ≠ st.posChk) && st.posTxid ≠ 0 then
        (st', "FAIL position changed on a node without write authority although no transaction file was applied")
      else if n ≠ img.length then (st', s!"FAIL database size {n} differs from what SQLite sees ({img.length} pages)")
      else if t ≠ 0 && c ≠ checksum (lockOf st.ps) img then (st', s!"FAIL reported checksum {hex16 c} differs from the from-scratch checksum {hex16 (checksum (lockOf st.ps) img)}")
      else if t < st.posTxid && !(st.replica && st.snapSince) then (st', "FAIL position went backwards")
      else if !st.replica && st.posTxid ≠ 0 && t > st.posTxid + 1 then (st', "FAIL position advanced by more than one transaction")
      else (st', "ok")
    | some (t, c), _, none => ({ st with posTxid := t, posChk := c }, "ok")
    | _, _, _ => (st, "ok")
  | ["ltx"] =>
    match parseListing obs with
    | none => (st, if obs == "nodb" then "ok" else s!"FAIL unreadable or invalid transaction file in the log: {obs.take 120}")
    | some ents =>
      let txs := ents.map (·.1)
      if !chainOK txs then (st, "FAIL the transaction log is not one contiguous chain (min = prev max + 1, pre = prev post)") else
      match ents.getLast? with
      | none => (st, if st.posTxid = 0 then "ok" else "FAIL position set but the log is empty")
      | some (tx, full) =>
        if tx.maxTxid ≠ st.posTxid || tx.post ≠ st.posChk then (st, "FAIL the log does not end at the database's position")
        else if tx.maxTxid ≤ st.lastMax || full.isNone || st.prevObsTxid != some (tx.maxTxid - 1) || tx.minTxid ≠ tx.maxTxid then ({ st with lastMax := tx.maxTxid }, "ok")
        else
          let st' := { st with lastMax := tx.maxTxid }
          let lock := lockOf st.ps
          match st.ref with
          | none => (st', "ok")
          | some img =>
            let prev := st.prev.getD []
            if !pagesOK lock tx then (st', "FAIL transaction file holds a page beyond the new size, the lock page, or pages out of order")
            else if apply prev tx ≠ img
              then (st', "FAIL applying the new transaction file to the previous image does not give the image SQLite sees")
            else if tx.minTxid ≠ 1 && tx.pre ≠ checksum lock prev then (st', "FAIL pre-apply checksum is not the checksum of the previous image")
            else if tx.post ≠ checksum lock img then (st', "FAIL post-apply checksum is not the checksum of the new image")
            else (st', "ok")
  | ["raw"] =>
    let ws := words obs
    let st := { st with lastImg := (fieldOf ws "img").getD "" }
    let st := if st.awaitPost then { st with awaitPost := false, post := some (st.posTxid, st.posChk, st.lastImg) } else st
    let st := match st.ref with
      | some img => if st.hist.any (fun h => h.1 == st.posTxid) then st else { st with hist := (st.posTxid, st.posChk, digest (lockOf st.ps) img, img) :: st.hist }
      | none => st
    match st.ref, (fieldOf ws "chk") >>= parseHex64, fieldOf ws "img" with
    | some img, some c, some d =>
      if img.isEmpty then (st, "ok") else
      if d ≠ digest (lockOf st.ps) img then (st, "FAIL the on-disk logical image differs from what SQLite sees")
      else if c ≠ checksum (lockOf st.ps) img then (st, "FAIL from-scratch checksum differs from the reference image")
      else (st, "ok")
    | some img, _, _ => (st, if img.isEmpty && obs == "nodb" then "ok" else s!"FAIL raw files unreadable: {obs.take 80}")
    | none, _, _ => (st, "ok")
  | ["export"] =>
    if obs == "busy" then (st, "ok") else
    let ws := words obs
    match st.ref, fieldOf ws "img", (fieldOf ws "pos") >>= parsePos with
    | some img, some d, some (t, c) =>
      if d ≠ digest (lockOf st.ps) img then (st, "FAIL export is not the current committed image")
      else if t ≠ st.posTxid || c ≠ st.posChk then (st, "FAIL export reports a different position")
      else (st, "ok")
    | some img, _, _ => (st, if img.isEmpty && (obs == "enoent" || obs == "bad-op") then "ok" else s!"FAIL export failed at quiescence: {obs.take 80}")
    | none, _, _ => (st, "ok")
  | ["snapshot"] =>
    if obs == "busy" then (st, "ok") else
    if !obs.startsWith "ok " then (st, if st.posTxid = 0 then "ok" else s!"FAIL snapshot failed at quiescence: {obs.take 80}") else
    match parseEntry (obs.drop 3).toString, st.ref with
    | some (tx, some _), some img =>
      let lock := lockOf st.ps
      let want := (img.zipIdx.filter fun p => p.2 + 1 ≠ lock).map fun p => (p.2 + 1, p.1)
      if tx.minTxid ≠ 1 || tx.maxTxid ≠ st.posTxid || tx.post ≠ st.posChk then (st, "FAIL snapshot does not report the current position")
      else if tx.commit ≠ img.length || tx.pages ≠ want then (st, "FAIL snapshot pages are not the image at the position it reports")
      else (st, "ok")
    | _, _ => (st, "ok")
  | _ => (st, "ok")

def step (st : St) (line : String) : St × String :=
  match line.splitOn "\t" with
  | [op, obs] => check st op obs
  | [op] => (st, if op.startsWith "case " then "ok" else "FAIL missing observation")
  | _ => (st, "FAIL malformed line")

end LiteFSVerif.Driver.EngineSpec
