import LiteFSVerif.Driver.CodecCommon

namespace LiteFSVerif.Driver.Codec
open LiteFSVerif LiteFSVerif.Frames LiteFSVerif.Chunk

def showDecFrame (b : Bytes) : String :=
  match decodeFrame b with
  | .ok f rest => s!"ok {showFrame f} rest={rest.length} alloc=ok"
  | .err e => s!"err {showErr e} alloc=ok"

def showDecPosMap (b : Bytes) : String :=
  match decodePosMap b with
  | .ok es rest => s!"ok {showMap (toMap es)} rest={rest.length} alloc=ok"
  | .err e => s!"err {showErr e} alloc=ok"

/-- `for { n, err := r.Read(p) … }` of the harness, using the model's stateful reader -/
def readLoop (rs : Nat) : Nat → Reader → Bytes → List Bytes → String
  | 0, _, _, _ => "hang"
  | fuel + 1, rd, src, got =>
    match rd.read src rs with
    | (rd', src', .data d) =>
      if d.isEmpty then s!"err zero-read got={tok got.reverse.flatten}" else readLoop rs fuel rd' src' (d :: got)
    | (_, src', .eof) => s!"ok {tok got.reverse.flatten} rest={src'.length}"
    | (_, _, .err e) => s!"err {showErr e} got={tok got.reverse.flatten}"

def stepModel (_ : Unit) (line : String) : Unit × String :=
  ((), match words line with
  | ["case", id] => s!"case {id}"
  | "frame-rt" :: _mode :: cut :: fr =>
    match parseFrame fr with
    | none => "bad-op"
    | some f =>
      let b := encodeFrame f
      match cutOf cut b with
      | none => "bad-op"
      | some b' => s!"enc={tok b} {showDecFrame b'}"
  | ["frame-dec", _mode, h] =>
    match untok h with
    | none => "bad-op"
    | some b => showDecFrame b
  | "posmap-rt" :: cut :: ents =>
    match ents.mapM parseEntry with
    | none => "bad-op"
    | some es =>
      let b := encodePosMap (toMap es)
      match cutOf cut b with
      | none => "bad-op"
      | some b' => s!"enc={tok b} {showDecPosMap b'}"
  | ["posmap-dec", h] =>
    match untok h with
    | none => "bad-op"
    | some b => showDecPosMap b
  | "chunk-rt" :: _mode :: rs :: cut :: toks =>
    match rs.toNat?, toks.mapM untok with
    | some rs, some ws =>
      if rs = 0 then "bad-op" else
      let b := ws.flatMap chunkWrite ++ chunkClose
      match cutOf cut b with
      | none => "bad-op"
      | some b' => s!"enc={tok b} {readLoop rs 4194304 {} b' []}"
    | _, _ => "bad-op"
  | ["chunk-dec", _mode, rs, h] =>
    match rs.toNat?, untok h with
    | some rs, some b => if rs = 0 then "bad-op" else readLoop rs 4194304 {} b []
    | _, _ => "bad-op"
  | _ => "bad-op")

end LiteFSVerif.Driver.Codec
