/-
  Halt-lock spec predicates on the implementation's observations (C13), on top of the cluster
  predicates (every reported position was committed, images match, logs are chains, convergence):
  * a granted halt lock reports the primary's position, and the holder is at that position;
  * a repeated acquire with the same id answers the same lock;
  * while the lock is held the primary's own lock requests are refused and its checkpoint is busy;
  * when a commit of the holder has returned, the primary is at the same position;
  * a node that is not the current holder cannot move any position by writing; the node that
    was told it holds the lock can commit;
  * after release or expiry the cluster converges again (cluster predicates).
  A replica that commits a WAL transaction under a lock that has expired stops (exit 99, by
  design: a WAL commit cannot be refused to SQLite); that exit is expected, any other is not.
-/
import LiteFSVerif.Driver.ClusterSpecD

namespace LiteFSVerif.Driver.HaltSpec
open LiteFSVerif LiteFSVerif.Driver.ClusterSpec LiteFSVerif.Driver.EngineSpec

structure St where
  cl : ClusterSpec.St := {}
  halt : Option (Nat × String × String) := none   -- (holder, id, "pos=.." answer) while believed held
  short : Bool := false
  ttlShort : Bool := false
  expired : Option Nat := none                    -- former holder of a lock that ran out
  lastPos : List (Nat × String) := []             -- node → position text of its last `state` line
  group : List (Nat × String) := []               -- positions observed since the last operation that could change one
  bg : List (String × String) := []               -- halt requests issued in the background: (node, lock id)
  pendingGrant : Option String := none            -- position of a grant that the primary's next observation must show

def posText (obs : String) : String := (fieldOf (words obs) "pos").getD ""

/-- judgement of an answered halt-lock request of node `r` with lock id `id` -/
def haltRule (st : St) (r id obs : String) (deferred : Bool := false) : St × String :=
  let r := r.toNat?.getD 0
  (match st.halt with
   | some (hr, hid, ans) =>
     if hr = r ∧ hid = id then
       (st, if obs == ans then "ok" else s!"FAIL repeated acquire of halt lock {id} answered {obs.take 60}, first answer {ans}")
     else (st, if obs.startsWith "ok" then s!"FAIL a second halt lock ({id}) was granted while lock {hid} is held" else "ok")
   | none =>
     if obs.startsWith "ok pos=" then
       let p := (obs.drop 7).toString
       let primaryPos := (st.cl.primary >>= fun k => st.lastPos.lookup k).getD p
       let st' := { st with halt := some (r, id, obs), short := st.ttlShort }
       -- a request that queued behind an open transaction is granted after that transaction's
       -- commit: the primary's position is observed right after the answer, not before
       if deferred then ({ st' with pendingGrant := some p }, "ok")
       else if p ≠ primaryPos then (st', s!"FAIL halt lock granted at {p}, the primary's last reported position is {primaryPos}")
       else (st', "ok")
     else (st, "ok"))

def check (st : St) (op obs : String) : St × String :=
  let f := words op
  match f with
  | ["case", _] => ({}, "ok")
  | ["pause"] => (st, "ok")
  | ["halt-ttl", _, v] => ({ st with ttlShort := v == "short" }, "ok")
  | ["halt", r, id] => haltRule st r id obs
  | ["halt-bg", r, id] => ({ st with bg := (r, id) :: st.bg.filter (·.1 ≠ r) }, "ok")
  | ["halt-join", r] =>
    (match st.bg.lookup r with
     | some id => haltRule { st with bg := st.bg.filter (·.1 ≠ r) } r id obs true
     | none => (st, "ok"))
  | ["unhalt-intr", _, _] =>
    -- an interrupted release releases nothing: the lock stays granted until the retry
    (st, if obs == "eintr" || obs == "ok" || obs == "bad-op" then "ok" else s!"FAIL an interrupted release answered {obs.take 40}")
  | ["unhalt", r, id] =>
    let r := r.toNat?.getD 0
    (match st.halt with
     | some (hr, hid, _) => if hr = r ∧ hid = id then ({ st with halt := none }, "ok") else (st, "ok")
     | none => (st, "ok"))
  | ["halt-expire", _] =>
    (match st.halt with
     | some (hr, _, _) => if st.short then ({ st with halt := none, expired := some hr }, "ok") else (st, "ok")
     | none => (st, "ok"))
  | ["crash", k] =>
    let k := k.toNat?.getD 0
    let (cl, v) := ClusterSpec.check st.cl ("down " ++ toString k) "ok"
    ({ st with cl := cl, expired := if st.expired = some k then none else st.expired }, v)
  | ["demote", _] =>
    let (cl, v) := ClusterSpec.check st.cl op obs
    -- a short-lived lock runs out while the old primary waits for its write lock
    ({ st with cl := cl, halt := if st.short then none else st.halt }, v)
  | "n" :: k :: rest =>
    let k := k.toNat?.getD 0
    let isPrimary := st.cl.primary = some k
    (match rest with
     | ["state"] =>
       let st1 := { st with lastPos := (k, posText obs) :: st.lastPos.filter (·.1 ≠ k) }
       if isPrimary ∧ st.pendingGrant.isSome ∧ st.pendingGrant ≠ some (posText obs) then
         ({ st1 with pendingGrant := none }, s!"FAIL halt lock granted at {st.pendingGrant.getD ""}, the primary is at {posText obs}")
       else
       let st1 := if isPrimary then { st1 with pendingGrant := none } else st1
       -- the expected stop of a former holder
       if (fieldOf (words obs) "exit") == some "99" ∧ st.expired = some k then
         ({ st1 with cl := st.cl.upd k fun n => { n with exited := true } }, "ok")
       else
       let (cl, v) := ClusterSpec.check st.cl op obs
       let st2 := { st1 with cl := cl }
       if v ≠ "ok" then (st2, v) else
       let st2 := { st2 with group := (k, posText obs) :: st2.group.filter (·.1 ≠ k) }
       (match st.halt with
        | some (hr, _, _) =>
          -- primary and holder move together: both observed within one group of observations
          (match st.cl.primary with
           | some p =>
             (match st2.group.lookup hr, st2.group.lookup p with
              | some a, some b =>
                if (k = hr ∨ k = p) ∧ a ≠ "" ∧ b ≠ "" ∧ a ≠ b then
                  (st2, s!"FAIL the halt-lock holder is at {a} when its commit has returned, the primary at {b}")
                else (st2, "ok")
              | _, _ => (st2, "ok"))
           | none => (st2, "ok"))
        | none => (st2, "ok"))
     | "lock" :: _ | "rlock" :: _ =>
       (match st.halt with
        | some _ =>
          if isPrimary ∧ obs == "true" ∧ (rest.getD 1 "") == "9" then
            ({ st with cl := (ClusterSpec.check st.cl op obs).1 }, s!"FAIL a local connection on the primary obtained {rest.getD 2 ""} while a halt lock is held")
          else ({ st with cl := (ClusterSpec.check st.cl op obs).1 }, "ok")
        | none => ({ st with cl := (ClusterSpec.check st.cl op obs).1 }, "ok"))
     | ["ckpt"] =>
       let cl := (ClusterSpec.check st.cl op obs).1
       if st.halt.isSome ∧ isPrimary ∧ obs ≠ "busy" then ({ st with cl := cl }, s!"FAIL the primary ran a checkpoint while a halt lock is held: {obs}")
       else ({ st with cl := cl }, "ok")
     | ["ltx"] | ["raw"] =>
       let (cl, v) := ClusterSpec.check st.cl op obs
       ({ st with cl := cl }, v)
     | ["jrm"] | ["jtr"] =>
       -- the commit step of a rollback-journal transaction: the node that was told it holds the
       -- halt lock must be able to commit (a lock that lapsed by expiry is `st.halt = none`)
       let (cl, v) := ClusterSpec.check st.cl op obs
       let st' := { st with cl := cl, group := [] }
       (match st.halt with
        | some (hr, _, _) =>
          if hr = k ∧ !obs.startsWith "ok" then (st', s!"FAIL the holder of the granted halt lock could not commit: {obs.take 40}")
          else (st', v)
        | none => (st', v))
     | _ =>
       let (cl, v) := ClusterSpec.check st.cl op obs
       ({ st with cl := cl, group := [] }, v))
  | "hist" :: _ =>
    let (cl, v) := ClusterSpec.check st.cl op obs
    ({ st with cl := cl }, v)
  | _ =>
    let (cl, v) := ClusterSpec.check st.cl op obs
    ({ st with cl := cl, group := [] }, v)

def step (st : St) (line : String) : St × String :=
  match line.splitOn "\t" with
  | [op, obs] => check st op obs
  | [op] => if op.startsWith "case " then ({}, "ok") else (st, "FAIL missing observation")
  | _ => (st, "FAIL malformed line")

end LiteFSVerif.Driver.HaltSpec
