/- Driver for the context model (Model/GoCtx.lean): the `goctx` suite builds trees of real
   contexts (context.WithCancelCause, litefs's primary-scoped context through the verif hook, and
   a copy of the pre-fix primary context), cancels them / closes primary channels, and observes
   Err, Cause and what a blocked RWMutexGuard.Lock returns. -/
import LiteFSVerif.Model.GoCtx
import LiteFSVerif.Driver.Util

namespace LiteFSVerif.Driver.GoCtxD
open LiteFSVerif LiteFSVerif.GoCtx

structure St where
  w : World := {}
  handles : List Nat := []     -- suite handle k ↦ index of the context's node

def parent? (st : St) (s : String) : Option (Option Nat) :=
  if s == "-" then some none else
  match s.toNat? with
  | some k => (st.handles[k]?).map some
  | none => none

def showErr : Option Err → String
  | none => "nil"
  | some e => e.toString

def step (st : St) (line : String) : St × String :=
  match words line with
  | ["case", id] => ({}, s!"case {id}")
  | [mk, p] =>
    if mk == "mkcancel" ∨ mk == "mkprimary" ∨ mk == "mkold" then
      (match parent? st p with
       | none => (st, "bad-op")
       | some par =>
         let cmd := if mk == "mkcancel" then Cmd.mkCancel par else if mk == "mkold" then Cmd.mkPrimaryOld par else Cmd.mkPrimary par
         match GoCtx.step st.w cmd with
         | none => (st, "bad-op")
         | some w' => ({ w := w', handles := st.handles ++ [w'.nodes.length - 1] }, s!"ok {st.handles.length}"))
    else if mk == "close" then
      (match p.toNat? >>= fun k => st.handles[k]? with
       | none => (st, "bad-op")
       | some i => match GoCtx.step st.w (.close i) with
         | none => (st, "bad-op")
         | some w' => ({ st with w := w' }, "ok"))
    else if mk == "obs" then
      (match p.toNat? >>= fun k => st.handles[k]? with
       | none => (st, "bad-op")
       | some i => (st, s!"err={showErr (st.w.err i)} cause={showErr (st.w.cause i)}"))
    else if mk == "lockwait" then
      (match p.toNat? >>= fun k => st.handles[k]? with
       | none => (st, "bad-op")
       | some i => (st, if st.w.done i then showErr (lockWaitError st.w i) else "blocked"))
    else (st, "bad-op")
  | ["cancel", h, c] =>
    (match h.toNat? >>= fun k => st.handles[k]? with
     | none => (st, "bad-op")
     | some i =>
       let cause : Option (Option Nat) := if c == "-" then some none else c.toNat?.map some
       match cause with
       | none => (st, "bad-op")
       | some cz => match GoCtx.step st.w (.cancel i cz) with
         | none => (st, "bad-op")
         | some w' => ({ st with w := w' }, "ok"))
  | _ => (st, "bad-op")

end LiteFSVerif.Driver.GoCtxD
