import LiteFSVerif.Driver.Util
import LiteFSVerif.Driver.RWMutexD
import LiteFSVerif.Driver.CodecD
import LiteFSVerif.Driver.EngineD
import LiteFSVerif.Driver.ClusterD
import LiteFSVerif.Driver.ProxyD
import LiteFSVerif.Driver.ApiD
import LiteFSVerif.Driver.BackupD
import LiteFSVerif.Driver.GoCtxD

open LiteFSVerif LiteFSVerif.Driver

def main (args : List String) : IO UInt32 := do
  let stdin ← IO.getStdin
  let stdout ← IO.getStdout
  match args with
  | ["rwmutex"] => loop stdin stdout RWMutexD.stepModel (RWMutex.Mutex.init 0); return 0
  | ["engine"] => loop stdin stdout EngineD.step {}; return 0
  | ["snapsched"] => loop stdin stdout EngineD.step {}; return 0
  | ["formats"] => loop stdin stdout EngineD.step {}; return 0
  | ["locktable"] => loop stdin stdout EngineD.step {}; return 0
  | ["import"] => loop stdin stdout EngineD.step {}; return 0
  | ["replica"] => loop stdin stdout EngineD.step {}; return 0
  | ["cluster"] => loop stdin stdout ClusterD.step {}; return 0
  | ["proxy"] => loop stdin stdout ProxyD.step {}; return 0
  | ["api"] => loop stdin stdout ApiD.step {}; return 0
  | ["backup"] => loop stdin stdout BackupD.step {}; return 0
  | ["goctx"] => loop stdin stdout GoCtxD.step {}; return 0
  | ["codec"] => loop stdin stdout Codec.stepModel (); return 0
  | _ =>
    IO.eprintln "usage: modeld <suite>"
    return 2
