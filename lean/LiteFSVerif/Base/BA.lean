/-
  ByteArray helpers for the byte-level engine model: big/little-endian reads, writes at an
  offset with zero fill (pwrite semantics), CRC64-ISO (the page hash of `ltx.ChecksumPage`).
-/
namespace LiteFSVerif.BA

/-- bytes [off, off+n) clipped to the array (like a short read) -/
def slice (b : ByteArray) (off n : Nat) : ByteArray := b.extract off (off + n)

def getD (b : ByteArray) (i : Nat) : UInt8 := if h : i < b.size then b[i] else 0

def be32 (b : ByteArray) (off : Nat) : Nat :=
  (getD b off).toNat * 16777216 + (getD b (off+1)).toNat * 65536 + (getD b (off+2)).toNat * 256 + (getD b (off+3)).toNat

def le32 (b : ByteArray) (off : Nat) : Nat :=
  (getD b (off+3)).toNat * 16777216 + (getD b (off+2)).toNat * 65536 + (getD b (off+1)).toNat * 256 + (getD b off).toNat

def be16 (b : ByteArray) (off : Nat) : Nat := (getD b off).toNat * 256 + (getD b (off+1)).toNat

def zeros (n : Nat) : ByteArray := ByteArray.mk (Array.replicate n 0)

/-- `pwrite(data, off)`: the file grows (zero filled) when the write starts or ends beyond it -/
def writeAt (f : ByteArray) (off : Nat) (data : ByteArray) : ByteArray :=
  let f := if f.size < off then f ++ zeros (off - f.size) else f
  let head := f.extract 0 off
  let tail := f.extract (off + data.size) f.size
  head ++ data ++ tail

/-- `ftruncate(size)`: shrink or grow with zeros -/
def truncate (f : ByteArray) (size : Nat) : ByteArray :=
  if size ≤ f.size then f.extract 0 size else f ++ zeros (size - f.size)

def isZero (b : ByteArray) : Bool := b.data.all (· == 0)

def putBE32 (v : Nat) : ByteArray :=
  ByteArray.mk #[UInt8.ofNat (v / 16777216 % 256), UInt8.ofNat (v / 65536 % 256), UInt8.ofNat (v / 256 % 256), UInt8.ofNat (v % 256)]

/-! ### CRC64-ISO (reflected polynomial 0xD800000000000000, init and final xor all-ones) -/

def crcTableEntry (i : Nat) : UInt64 :=
  (List.range 8).foldl (fun (c : UInt64) _ => if c &&& 1 == 1 then (c >>> 1) ^^^ 0xD800000000000000 else c >>> 1) (UInt64.ofNat i)

def crcTable : Array UInt64 := (Array.range 256).map crcTableEntry

def crcUpdate (tbl : Array UInt64) (crc : UInt64) (b : ByteArray) : UInt64 :=
  b.foldl (fun c x => (tbl[((c ^^^ x.toUInt64) &&& 0xff).toNat]!) ^^^ (c >>> 8)) crc

/-- `ltx.ChecksumPage(pgno, data)`: CRC64-ISO over the 4-byte big-endian page number followed by
    the page bytes, with the top bit (ChecksumFlag) set -/
def pageChk (pgno : Nat) (data : ByteArray) : UInt64 :=
  let c := crcUpdate crcTable 0xFFFFFFFFFFFFFFFF (putBE32 pgno)
  let c := crcUpdate crcTable c data
  (c ^^^ 0xFFFFFFFFFFFFFFFF) ||| 0x8000000000000000

end LiteFSVerif.BA
