/-
  Base types shared by the generated RWMutex code (Gen/RWMutex.lean) and the model.

  A `Cell` is what one guard method of `rwmutex.go` can see and change: the two
  fields of the `RWMutex` it points to (`sharedN`, `excl`) and the guard's own
  `state` field.  `excl` is a pointer to a guard in Go; here it is the index of
  the guard.
-/
namespace LiteFSVerif

inductive GS where
  | unlocked | shared | exclusive
  deriving DecidableEq, Repr, Inhabited

def GS.toString : GS → String
  | .unlocked => "unlocked" | .shared => "shared" | .exclusive => "exclusive"

structure Cell where
  sharedN : Int
  excl    : Option Nat
  gstate  : GS
  deriving DecidableEq, Repr

/-- Result of a translated Go method: normal return with the (possibly updated)
    cell, or a Go `panic` (from `assert`). -/
inductive Out (α : Type) where
  | ret (v : α) (c : Cell)
  | panic (msg : String)
  deriving Repr

namespace RWMutex

inductive Op where
  | tryLock (i : Nat) | tryRLock (i : Nat) | unlock (i : Nat) | canLock (i : Nat) | canRLock (i : Nat)
  deriving DecidableEq, Repr

def Op.owner : Op → Nat
  | .tryLock i | .tryRLock i | .unlock i | .canLock i | .canRLock i => i

/-- Observable result of one call. -/
inductive Res where
  | bool (b : Bool)
  | unit
  | query (b : Bool) (st : GS)
  | panic (msg : String)
  | badOwner
  deriving DecidableEq, Repr

end RWMutex

end LiteFSVerif
