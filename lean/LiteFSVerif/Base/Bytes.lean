/-
  M0: byte strings, big-endian integers, and an `io.Reader` abstraction.

  A Go `io.Reader` delivers its bytes in arbitrary pieces; `io.ReadFull` (used by
  `binary.Read` and directly) loops until `n` bytes arrived.  `Dec` is the result of a
  decoder on a byte string: value + unread rest, or an error class.  `alloc` counts the bytes
  a decoder asks `make` for *before* the corresponding bytes have been received.
-/
namespace LiteFSVerif

abbrev Bytes := List UInt8

/-- big-endian encoding of `n mod 256^w` on `w` bytes -/
def be : Nat → Nat → Bytes
  | 0, _ => []
  | w + 1, n => UInt8.ofNat (n / 256 ^ w % 256) :: be w n

def unbeAux (acc : Nat) : Bytes → Nat
  | [] => acc
  | b :: bs => unbeAux (acc * 256 + b.toNat) bs

/-- big-endian decoding -/
def unbe (b : Bytes) : Nat := unbeAux 0 b

inductive DecErr where
  | eof              -- io.EOF: clean end, nothing of the value was read
  | unexpectedEOF    -- io.ErrUnexpectedEOF: the input ended inside the value
  | invalid (what : String)
  deriving DecidableEq, Repr

inductive Dec (α : Type) where
  | ok (v : α) (rest : Bytes)
  | err (e : DecErr)
  deriving Repr

/-- a decoder: consumes a prefix of the input -/
abbrev Parser (α : Type) := Bytes → Dec α

namespace Parser
def pure {α} (a : α) : Parser α := fun r => .ok a r
def bind {α β} (p : Parser α) (f : α → Parser β) : Parser β := fun r =>
  match p r with
  | .err e => .err e
  | .ok a rest => f a rest
def map {α β} (g : α → β) (p : Parser α) : Parser β := p.bind fun a => pure (g a)
def mapErr {α} (g : DecErr → DecErr) (p : Parser α) : Parser α := fun r =>
  match p r with
  | .err e => .err (g e)
  | .ok a rest => .ok a rest
def fail {α} (e : DecErr) : Parser α := fun _ => .err e
end Parser


/-- `io.ReadFull(r, buf)` with `len(buf) = n` on a reader holding `r` -/
def readFull (n : Nat) : Parser Bytes := fun r =>
  if n ≤ r.length then .ok (r.take n) (r.drop n)
  else if r.length = 0 then .err .eof
  else .err .unexpectedEOF

/-- `binary.Read(r, BigEndian, &uintN)`: n-byte big-endian unsigned integer -/
def readUint (w : Nat) : Parser Nat := fun r =>
  match readFull w r with
  | .ok b rest => .ok (unbe b) rest
  | .err e => .err e

/-- the idiom `if err == io.EOF { return io.ErrUnexpectedEOF }` -/
def DecErr.noEOF : DecErr → DecErr
  | .eof => .unexpectedEOF
  | e => e

end LiteFSVerif
