/-
  M9: replication at the message level — the primary's per-database stream loop (`streamDB`,
  `streamLTX`, `streamLTXSnapshot` of http/server.go) and the replica's frame handler
  (`processLTXStreamFrame` of store.go) over engine-model nodes.

  The decision function `streamDecide` is shared by the byte-level cluster driver
  (Driver/ClusterD.lean, compared with real clusters) and by the abstract protocol model of
  Proofs/Cluster.lean (where the theorems of C01 / C06 are proved).
-/
import LiteFSVerif.Model.Recovery

namespace LiteFSVerif.Cluster
open LiteFSVerif LiteFSVerif.BA LiteFSVerif.Cks LiteFSVerif.Locks LiteFSVerif.Engine

/-- what one iteration of `streamDB`'s loop sends -/
inductive Decision (F : Type) where
  | done                 -- client has caught up
  | snapshot             -- full snapshot of the primary's current state
  | file (f : F)         -- the transaction file `txid` of the primary's log
  deriving Repr

/-- header fields of a transaction file the decision looks at -/
structure FileHdr (F : Type) where
  pre : F → Chk

/-- `streamDB` loop body + `streamLTX`: `client` is the position the primary believes the
    replica has, `db` the primary's position, `file t` the primary's log file `t-t` if present -/
def streamDecide {F : Type} (pre : F → Chk) (client db : Nat × Chk) (file : Nat → Option F) : Decision F :=
  -- client beyond the primary: clear
  let client := if client.1 > db.1 then (0, 0) else client
  -- same TXID, other checksum: clear
  let client := if client.1 = db.1 ∧ client.2 ≠ db.2 then (0, 0) else client
  if client.1 ≥ db.1 then .done else
  let txid := client.1 + 1
  if txid = 1 then .snapshot else
  match file txid with
  | none => .snapshot
  | some f => if pre f ≠ client.2 then .snapshot else .file f

/-- `db.OpenLTXFile(txid)`: the file named `txid-txid` -/
def openLTX (s : Eng) (txid : Nat) : Option LTXFile :=
  s.ltx.find? fun f => f.minTxid == txid && f.maxTxid == txid

/-- `WriteSnapshotTo` at quiescence: every page but the lock page, read through the WAL overlay;
    `none` = the call fails (inconsistent header, short read, checksum self-check) -/
def snapshotFile (s : Eng) (nodeID : Nat) : Option LTXFile :=
  let hdr : LTXFile := { minTxid := 1, maxTxid := s.posTxid, pre := 0, post := 0, commit := s.pageN,
                         pageSize := s.pageSize, pages := [], nodeID := nodeID }
  if !headerOK hdr then none else
  match logicalPages s with
  | none => none
  | some pages =>
    let lock := 1073741824 / s.pageSize + 1
    let pgs := (pages.zipIdx.filter fun p => p.2 + 1 ≠ lock).map fun p => (p.2 + 1, p.1)
    let chk := pgs.foldl (fun (acc : Chk) p => acc ^^^ pageChk p.1 p.2) 0 ||| flag
    if chk ≠ s.posChk then none else some { hdr with post := chk, pages := pgs }

/-- `Store.Recover` on one database at quiescence: journal rollback and checkpoint under the
    write lock; a failure leaves the state as it is (the error is only logged) -/
def recoverEng (s : Eng) : Eng :=
  if !(s.opened && s.hasDB) then s else
  match s.locks.tryAcquireWriteLock s.walMode with
  | (_, none) => s
  | (t, some i) =>
    match Recovery.rollbackJournal { s with locks := t } with
    | .error _ => s
    | .ok s1 =>
      match checkpointNoLock s1 with
      | .ok s2 => { s2 with locks := s2.locks.unlockAll i }
      | .error _ => { s1 with locks := s1.locks.unlockAll i }

/-- `unsetRemoteHaltLock(…, writeLocked = true)`: journal rollback + checkpoint, then the local
    reference is cleared -/
def unsetRemoteHalt (s : Eng) : Eng :=
  let s1 := match Recovery.rollbackJournal s with | .ok x => x | .error _ => s
  let s2 := match checkpointNoLock s1 with | .ok x => x | .error _ => s1
  { s2 with remoteHalt := false }

/-- `processLTXStreamFrame`: create the database if needed, skip a file this node created itself
    and still has (its position covers it), otherwise the lock bracket / position check / write /
    apply of `receiveLTX` -/
def deliver (s : Eng) (self : Nat) (f : LTXFile) : Eng × Bool :=
  let s := if s.hasDB then s else { s with hasDB := true, dbFile := some ByteArray.empty }
  if f.nodeID = self ∧ self ≠ 0 ∧ s.posTxid ≥ f.maxTxid then (s, true) else
  -- a file beyond the position of the remote halt lock the node still holds: the primary moved on
  -- without it, the lock is stale; recover under the write lock the frame handler holds (ce31c5d)
  -- and forget it.  Files up to the lock's position were committed before the grant: they are
  -- what the acquisition waits for and leave the lock alone.
  let s := if s.remoteHalt ∧ f.maxTxid > s.remoteHaltTxid then unsetRemoteHalt s else s
  match receiveLTX s f with
  | .ok s' => (s', true)
  | .error (s', _) => (s', false)

/-- one stream session: the replica connects with its real position; the primary iterates
    `streamDecide`, tracking the position it believes the replica has; a frame the replica
    refuses ends the session (`false`) -/
def session (p : Eng) (pid : Nat) (r : Eng) (rid : Nat) : Nat → Nat × Chk → Eng × Bool
  | 0, _ => (r, false)
  | fuel + 1, client =>
    match streamDecide (·.pre) client (p.posTxid, p.posChk) (openLTX p) with
    | .done => (r, true)
    | .snapshot =>
      match snapshotFile p pid with
      | none => (r, false)
      | some f =>
        let (r', ok) := deliver r rid f
        if ok && r'.exit = 0 then session p pid r' rid fuel (f.maxTxid, f.post) else (r', false)
    | .file f =>
      let (r', ok) := deliver r rid f
      if ok && r'.exit = 0 then session p pid r' rid fuel (f.maxTxid, f.post) else (r', false)

end LiteFSVerif.Cluster

namespace LiteFSVerif.Cluster
open LiteFSVerif LiteFSVerif.Cks

/-- `AcquireHaltLock` on the primary at the level of the lock record: a request with the id of
    the lock currently granted answers that lock; otherwise a new lock is granted at the current
    position if the write lock could be taken -/
def haltGrant (cur : Option (Int × (Nat × Chk))) (id : Int) (pos : Nat × Chk) (writeLockFree : Bool) :
    Option (Int × (Nat × Chk)) × Option (Int × (Nat × Chk)) :=
  match cur with
  | some (cid, cpos) =>
    if cid = id then (cur, some (cid, cpos))
    else if writeLockFree then (some (id, pos), some (id, pos)) else (cur, none)
  | none => if writeLockFree then (some (id, pos), some (id, pos)) else (none, none)

/-- `ReleaseHaltLock(id)`: only the current lock's id releases it -/
def haltRelease (cur : Option (Int × (Nat × Chk))) (id : Int) : Option (Int × (Nat × Chk)) :=
  match cur with
  | some (cid, _) => if cid = id then none else cur
  | none => none

end LiteFSVerif.Cluster
