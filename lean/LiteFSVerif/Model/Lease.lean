/-
  M13: the lease side of store.go (`monitorLease`, `acquireLeaseOrPrimaryInfo`,
  `monitorLeaseAsPrimary`, handoff) against an abstract lease service: one lease, a holder, a lease
  id, a cluster id.  Nodes are (up, candidate, stored cluster id, lease they believe to hold).
-/
namespace LiteFSVerif.Lease

structure Svc where
  holder : Option Nat := none
  leaseID : Nat := 0
  cid : String := ""
  renewErr : Bool := false
  allow : Option Nat := none          -- harness: who may take the free lease
  events : List String := []
  deriving Repr

structure LNode where
  up : Bool := false
  cand : Bool := true
  cid : String := ""
  lease : Option Nat := none          -- id of the lease the node believes to hold (it acts as primary)
  deriving Repr

/-- the cluster-id gate at the top of the lease loop: may this node try to become primary -/
def mayAcquire (lc nc : String) : Bool := lc == "" || lc == nc

/-- ... may it look for a primary at all (ids set on both sides and different: no) -/
def mayLook (lc nc : String) : Bool := !(lc != "" && nc != "" && lc != nc)

/-- attaching to a primary whose store has cluster id `pc`: a node without an id adopts it;
    afterwards the ids must be equal.  Returns the node's id after a successful attach. -/
def attach (lc nc pc : String) : Option String :=
  if !mayLook lc nc then none
  else if nc == "" && pc != "" then some pc
  else if nc == pc then some nc else none

/-- a node's loop iteration that ends in acquiring the free lease (`Leaser.Acquire`); `fresh` is
    the id it generates if neither the service nor the node has one -/
def acquire (s : Svc) (k : Nat) (n : LNode) (fresh : String) : Option (Svc × LNode) :=
  if !(n.up && n.cand && n.lease.isNone) then none else
  if s.holder.isSome || s.allow != some k then none else
  if !mayAcquire s.cid n.cid then none else
  let id := s.leaseID + 1
  -- monitorLeaseAsPrimary: a service without cluster id gets the node's (or a fresh one)
  let cid := if s.cid == "" then (if n.cid == "" then fresh else n.cid) else s.cid
  some ({ s with holder := some k, leaseID := id, cid := cid, events := s.events ++ [s!"acquire {k}"] },
        { n with lease := some id, cid := cid })

/-- a renewal attempt of a node that acts as primary: the lease is gone → it stops being primary
    (and destroys nothing: the lease is not its own any more); the service cannot be reached for a
    full TTL → it stops and destroys its lease -/
def renew (s : Svc) (k : Nat) (n : LNode) : Svc × LNode :=
  match n.lease with
  | none => (s, n)
  | some l =>
    if s.holder != some k || s.leaseID != l then (s, { n with lease := none })
    else if s.renewErr then ({ s with holder := none, events := s.events ++ [s!"release {k}"] }, { n with lease := none })
    else (s, n)

/-- manual demotion / shutdown of the primary: the lease is destroyed -/
def release (s : Svc) (k : Nat) (n : LNode) : Svc × LNode :=
  match n.lease with
  | none => (s, n)
  | some l =>
    if s.holder == some k && s.leaseID == l then
      ({ s with holder := none, events := s.events ++ [s!"release {k}"] }, { n with lease := none })
    else (s, { n with lease := none })

/-- handoff: the primary `p` passes its lease (same id) to node `k` iff `k` is a connected replica;
    the lease is not destroyed -/
def handoff (s : Svc) (p : Nat) (pn : LNode) (k : Nat) (kn : LNode) (connected : Bool) : Option (Svc × LNode × LNode) :=
  match pn.lease with
  | none => none
  | some l =>
    if !connected || s.holder != some p || s.leaseID != l then none else
    some ({ s with holder := some k, events := s.events ++ [s!"acquire-existing {k}"] },
          { pn with lease := none }, { kn with lease := some l })

end LiteFSVerif.Lease
