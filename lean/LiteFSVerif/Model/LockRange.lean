/-
  The mount layer's translation of POSIX byte-range lock requests into LiteFS lock types
  (litefs.go: `ParseDatabaseLockRange`, `ParseSHMLockRange`, called by the lock / unlock / query
  handlers of fuse/database_node.go and fuse/shm_node.go).

  The two functions are regenerated from the source as tables (`Gen.Facts.dbLockRangeTable`,
  `Gen.Facts.shmLockRangeTable`): one row (X, Y, Z) per statement
  `if start <= uint64(X) && uint64(Y) <= end { a = append(a, Z) }`, with the values of the
  lock-type constants.  `parse` is what the Go code computes from such a table.
-/
import LiteFSVerif.Gen.Facts

namespace LiteFSVerif.LockRange
open LiteFSVerif.Gen.Facts

/-- the Go function: the Z of every row whose X is at or after `start` and whose Y is at or before `end` -/
def parse (table : List (Nat × Nat × Nat)) (start end_ : Nat) : List Nat :=
  (table.filter fun r => start ≤ r.1 && r.2.1 ≤ end_).map (·.2.2)

def parseDatabaseLockRange (start end_ : Nat) : List Nat := parse dbLockRangeTable start end_
def parseSHMLockRange (start end_ : Nat) : List Nat := parse shmLockRangeTable start end_

/-- every row tests the byte of the lock type it appends -/
def rowsExact (table : List (Nat × Nat × Nat)) : Bool := table.all fun r => r.1 == r.2.1 && r.2.1 == r.2.2

/-- the lock types of the database file and of the shared-memory file, in the order tested -/
def dbTypes : List Nat := [LockTypePending, LockTypeReserved, LockTypeShared]
def shmTypes : List Nat :=
  [LockTypeWrite, LockTypeCkpt, LockTypeRecover, LockTypeRead0, LockTypeRead1, LockTypeRead2,
   LockTypeRead3, LockTypeRead4, LockTypeDMS]

theorem parse_exact (table : List (Nat × Nat × Nat)) (h : rowsExact table = true) (start end_ t : Nat) :
    t ∈ parse table start end_ ↔ t ∈ table.map (·.2.2) ∧ start ≤ t ∧ t ≤ end_ := by
  simp only [parse, List.mem_map, List.mem_filter, Bool.and_eq_true, decide_eq_true_eq]
  simp only [rowsExact, List.all_eq_true, Bool.and_eq_true, beq_iff_eq] at h
  constructor
  · rintro ⟨r, ⟨hm, h1, h2⟩, rfl⟩
    obtain ⟨e1, e2⟩ := h r hm
    exact ⟨⟨r, hm, rfl⟩, by omega, by omega⟩
  · rintro ⟨⟨r, hm, rfl⟩, h1, h2⟩
    obtain ⟨e1, e2⟩ := h r hm
    exact ⟨r, ⟨hm, by omega, by omega⟩, rfl⟩

end LiteFSVerif.LockRange
