/-
  The mount layer's translation of POSIX byte-range lock requests into LiteFS lock types
  (litefs.go: `ParseDatabaseLockRange`, `ParseSHMLockRange`, called by the lock / unlock / query
  handlers of fuse/database_node.go and fuse/shm_node.go).  A lock type is in the answer iff its
  byte lies inside the requested range [start, end]; the types are tested in a fixed order.  The
  byte of every lock type is a constant regenerated from litefs.go (`Gen.Facts.LockType*`); the
  conditions and their order are tied by the control skeletons.
-/
import LiteFSVerif.Gen.Facts

namespace LiteFSVerif.LockRange
open LiteFSVerif.Gen.Facts

/-- the lock types of the database file in the order `ParseDatabaseLockRange` tests them -/
def dbTypes : List (String × Nat) :=
  [("pending", LockTypePending), ("reserved", LockTypeReserved), ("shared", LockTypeShared)]

/-- the lock types of the shared-memory file in the order `ParseSHMLockRange` tests them -/
def shmTypes : List (String × Nat) :=
  [("write", LockTypeWrite), ("ckpt", LockTypeCkpt), ("recover", LockTypeRecover),
   ("read0", LockTypeRead0), ("read1", LockTypeRead1), ("read2", LockTypeRead2),
   ("read3", LockTypeRead3), ("read4", LockTypeRead4), ("dms", LockTypeDMS)]

def parse (types : List (String × Nat)) (start end_ : Nat) : List String :=
  (types.filter fun t => start ≤ t.2 && t.2 ≤ end_).map (·.1)

def parseDatabaseLockRange (start end_ : Nat) : List String := parse dbTypes start end_
def parseSHMLockRange (start end_ : Nat) : List String := parse shmTypes start end_

end LiteFSVerif.LockRange
