/-
  The mount side of the halt lock (fuse/lock_node.go `LockHandle`, db.go `AcquireRemoteHaltLock` /
  `ReleaseRemoteHaltLock` / `UnsetRemoteHaltLock`, the primary's `ReleaseHaltLock`): one open handle
  of a database's `-lock` file on a replica, the replica's local reference to the remote lock, and
  the lock the primary holds for it.  A request can be interrupted (its context is cancelled: FUSE
  INTERRUPT, a dropped connection) at two points of a release: while the replica's own recovery
  waits for the write lock, or before the request to the primary is sent.
-/
namespace LiteFSVerif.HaltHandle

structure St where
  handleHeld : Bool := false          -- LockHandle.haltLock != nil
  id : Nat := 1                       -- LockHandle.haltLockID (fixed when the file is opened)
  local_ : Option Nat := none         -- DB.remoteHaltLock on the replica (its id)
  primary : Option Nat := none        -- the halt lock the primary holds (its id)
  deriving DecidableEq, Repr

/-- where a release request is interrupted -/
inductive Intr where
  | none          -- not interrupted
  | atRecovery    -- while `Recover` waits for the replica's write lock (an application connection holds a lock)
  | beforeSend    -- after the local reference was dropped, before the request reaches the primary
  deriving DecidableEq, Repr

inductive Res where
  | ok | eintr | enolck | eagain
  deriving DecidableEq, Repr

/-- `ReleaseRemoteHaltLock(ctx, id)`: `UnsetRemoteHaltLock` (recovery, then drop the local
    reference if it is this lock), then the request to the primary.  Returns whether it was
    interrupted. -/
def releaseRemote (s : St) (id : Nat) (i : Intr) : St × Bool :=
  let mine := s.local_ = some id
  if mine ∧ i = .atRecovery then (s, true) else
  let s := if mine then { s with local_ := none } else s
  if i = .beforeSend ∨ (i = .atRecovery ∧ ¬ mine) then (s, true) else
  ({ s with primary := if s.primary = some id then none else s.primary }, false)

/-- `LockHandle.unlockHalt` (Unlock of the HALT byte, and Flush at close): nothing to do when the
    handle holds nothing; an interrupted release answers EINTR and *keeps* the handle's lock, so
    that the retry or the close performs the release -/
def unlockHalt (s : St) (i : Intr) : St × Res :=
  if s.handleHeld = false then (s, .ok) else
  if (releaseRemote s s.id i).2 = true then ((releaseRemote s s.id i).1, .eintr)
  else ({ (releaseRemote s s.id i).1 with handleHeld := false }, .ok)

/-- `LockHandle.lockWaitHalt` with a write lock request, granted by the primary (the primary is
    free or already holds this very id) -/
def lockWait (s : St) : St × Res :=
  if s.handleHeld then (s, .enolck) else
  match s.primary with
  | some p => if p = s.id then ({ s with handleHeld := true, local_ := some s.id }, .ok) else (s, .eagain)
  | none => ({ s with handleHeld := true, local_ := some s.id, primary := some s.id }, .ok)

/-- a run of release attempts, each interrupted somewhere or not -/
def releases (s : St) : List Intr → St
  | [] => s
  | i :: is => releases (unlockHalt s i).1 is

end LiteFSVerif.HaltHandle
