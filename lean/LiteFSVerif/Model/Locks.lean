/-
  M2: the per-database lock table of db.go — twelve `RWMutex`es, one `GuardSet` per lock owner —
  built on the *generated* guard methods of M1 (`RWMutex.step`).

  `TryLocks` (with the checkpoint gate), `TryRLocks`, `CanLock`, `CanRLock`, `Unlock`,
  `TryAcquireWriteLock`, `GuardSet.Unlock`.
-/
import LiteFSVerif.Model.RWMutex

namespace LiteFSVerif.Locks
open LiteFSVerif LiteFSVerif.RWMutex

inductive LockType where
  | pending | reserved | shared | write | ckpt | recover | read0 | read1 | read2 | read3 | read4 | dms
  deriving DecidableEq, Repr, Inhabited

def LockType.all : List LockType :=
  [.pending, .reserved, .shared, .write, .ckpt, .recover, .read0, .read1, .read2, .read3, .read4, .dms]

def LockType.idx : LockType → Nat
  | .pending => 0 | .reserved => 1 | .shared => 2 | .write => 3 | .ckpt => 4 | .recover => 5
  | .read0 => 6 | .read1 => 7 | .read2 => 8 | .read3 => 9 | .read4 => 10 | .dms => 11

def LockType.name : LockType → String
  | .pending => "PENDING" | .reserved => "RESERVED" | .shared => "SHARED" | .write => "WRITE"
  | .ckpt => "CKPT" | .recover => "RECOVER" | .read0 => "READ0" | .read1 => "READ1" | .read2 => "READ2"
  | .read3 => "READ3" | .read4 => "READ4" | .dms => "DMS"

def LockType.ofName (s : String) : Option LockType := LockType.all.find? (·.name == s)

/-- The lock table: `owners[i]` is the owner id of guard set `i`; guard `i` of every mutex
    belongs to that guard set.  Internal guard sets (`newGuardSet(0)`) are fresh entries. -/
structure Table where
  owners : List Nat := []
  internal : List Bool := []            -- parallel to owners: created by newGuardSet(0), not in the map
  mus : List Mutex := List.replicate 12 (Mutex.init 0)
  deriving Repr

def Table.mu (t : Table) (l : LockType) : Mutex := t.mus.getD l.idx (Mutex.init 0)
def Table.setMu (t : Table) (l : LockType) (m : Mutex) : Table := { t with mus := t.mus.set l.idx m }

/-- index of the registered guard set of `owner` (`db.guardSets.m[owner]`) -/
def Table.find (t : Table) (owner : Nat) : Option Nat :=
  (List.range t.owners.length).find? fun i => t.owners.getD i 0 == owner && !(t.internal.getD i false)

/-- add a guard set: one fresh unlocked guard on each mutex -/
def Table.add (t : Table) (owner : Nat) (isInternal : Bool) : Table × Nat :=
  ({ owners := t.owners ++ [owner], internal := t.internal ++ [isInternal],
     mus := t.mus.map fun m => { m with gs := m.gs ++ [.unlocked] } }, t.owners.length)

/-- `CreateGuardSetIfNotExists` -/
def Table.ensure (t : Table) (owner : Nat) : Table × Nat :=
  match t.find owner with
  | some i => (t, i)
  | none => t.add owner false

/-- a guard method on lock `l`, guard set `i` -/
def Table.call (t : Table) (l : LockType) (op : Nat → Op) (i : Nat) : Table × Res :=
  let r := step (t.mu l) (op i)
  (t.setMu l r.1, r.2)

def Table.guardState (t : Table) (l : LockType) (i : Nat) : GS := (t.mu l).gs.getD i .unlocked
def Table.state (t : Table) (l : LockType) : GS := (t.mu l).state

inductive LRes where
  | bool (b : Bool) | query (b : Bool) (st : GS) | panic (msg : String)
  deriving Repr

/-- `TryLocks(owner, lockTypes)`; no roll-back of the locks already taken when a later one fails -/
def Table.tryLocks (t : Table) (owner : Nat) (ls : List LockType) : Table × LRes :=
  let (t, i) := t.ensure owner
  let rec go (t : Table) : List LockType → Table × LRes
    | [] => (t, .bool true)
    | l :: rest =>
      -- checkpoint gate: somebody writes and it is not this owner
      if l = .ckpt && t.state .write != .unlocked && t.guardState .write i != .exclusive then (t, .bool false) else
      match t.call l .tryLock i with
      | (t', .bool true) => go t' rest
      | (t', .bool false) => (t', .bool false)
      | (t', .panic s) => (t', .panic s)
      | (t', _) => (t', .panic "unexpected")
  go t ls

/-- `TryRLocks` -/
def Table.tryRLocks (t : Table) (owner : Nat) (ls : List LockType) : Table × LRes :=
  let (t, i) := t.ensure owner
  let rec go (t : Table) : List LockType → Table × LRes
    | [] => (t, .bool true)
    | l :: rest =>
      match t.call l .tryRLock i with
      | (t', .bool true) => go t' rest
      | (t', .bool false) => (t', .bool false)
      | (t', .panic s) => (t', .panic s)
      | (t', _) => (t', .panic "unexpected")
  go t ls

/-- `CanLock` -/
def Table.canLock (t : Table) (owner : Nat) (ls : List LockType) : Table × LRes :=
  let (t, i) := t.ensure owner
  let rec go : List LockType → LRes
    | [] => .query true .unlocked
    | l :: rest =>
      match (t.call l .canLock i).2 with
      | .query true _ => go rest
      | .query false st => .query false st
      | .panic s => .panic s
      | _ => .panic "unexpected"
  (t, go ls)

/-- `CanRLock` -/
def Table.canRLock (t : Table) (owner : Nat) (ls : List LockType) : Table × LRes :=
  let (t, i) := t.ensure owner
  let rec go : List LockType → LRes
    | [] => .bool true
    | l :: rest =>
      match (t.call l .canRLock i).2 with
      | .bool true => go rest
      | .bool false => .bool false
      | .panic s => .panic s
      | _ => .panic "unexpected"
  (t, go ls)

/-- unlock the given locks of guard set `i` (`guard.Unlock()` for each) -/
def Table.unlockIdx (t : Table) (i : Nat) (ls : List LockType) : Table :=
  ls.foldl (fun t l => (t.call l .unlock i).1) t

/-- `GuardSet.Unlock()` -/
def Table.unlockAll (t : Table) (i : Nat) : Table := t.unlockIdx i LockType.all

/-- one pass over a list of (lock, exclusive?) requests for guard set `i`; stops at the first refusal -/
def Table.attempt (t : Table) (i : Nat) : List (LockType × Bool) → Table × Bool
  | [] => (t, true)
  | (l, ex) :: rest =>
    match t.call l (if ex then .tryLock else .tryRLock) i with
    | (t', .bool true) => t'.attempt i rest
    | (t', _) => (t', false)

/-- what `TryAcquireWriteLock` requests after the initial PENDING/SHARED probe, by journal mode -/
def writeLockPlan (walMode : Bool) : List (LockType × Bool) :=
  if !walMode then [(.reserved, true), (.pending, true), (.shared, true)]
  else [(.dms, false), (.write, true), (.ckpt, true), (.recover, true), (.read0, true), (.read1, true),
        (.read2, true), (.read3, true), (.read4, true)]

/-- `TryAcquireWriteLock`: returns the index of the internal guard set on success; on failure
    everything it took is released again (the deferred `gs.Unlock()`) -/
def Table.tryAcquireWriteLock (t : Table) (walMode : Bool) : Table × Option Nat :=
  let (t, i) := t.add 0 true
  let (t, ok) := t.attempt i [(.pending, false), (.shared, false)]
  if !ok then (t.unlockAll i, none) else
  let t := (t.call .pending .unlock i).1
  let (t, ok) := t.attempt i (writeLockPlan walMode)
  if ok then (t, some i) else (t.unlockAll i, none)

/-- the lock sequence of `Export` / `WriteSnapshotTo` when nothing blocks; `none` if some step
    would block (the real code then waits; the driver reports `busy`) -/
def Table.snapshotLocksFree (t : Table) (walMode : Bool) : Bool :=
  let (t, i) := t.add 0 true
  let ok1 := (t.call .pending .tryRLock i)
  match ok1 with
  | (t, .bool true) =>
    match t.call .shared .tryRLock i with
    | (t, .bool true) =>
      let t := (t.call .pending .unlock i).1
      let (t, okw) := if walMode then
          match t.call .write .tryLock i with
          | (t, .bool true) => ((t.call .write .unlock i).1, true)
          | (t, _) => (t, false)
        else (t, true)
      okw && [LockType.ckpt, .recover, .read0, .read1, .read2, .read3, .read4].all fun l =>
        match (t.call l .canRLock i).2 with
        | .bool true => true
        | _ => false
    | _ => false
  | _ => false

end LiteFSVerif.Locks
