/-
  M8: restart.  `JournalReader` (`Next`, `ReadFrame`), `rollbackJournal`, `syncWALToLTX`, `recover`,
  `initFromDatabaseHeader`, `initDatabaseFile`, `DB.Open` — on the durable part of the engine state
  (database / journal / WAL bytes and the LTX files).  Everything volatile is rebuilt.
-/
import LiteFSVerif.Model.Engine

namespace LiteFSVerif.Recovery
open LiteFSVerif LiteFSVerif.BA LiteFSVerif.Cks LiteFSVerif.Locks LiteFSVerif.Sqlite LiteFSVerif.Engine

/-- `journalHeaderOffset(offset, sectorSize)`; Go divides by the sector size -/
def journalHeaderOffset (offset sectorSize : Nat) : Except String Nat :=
  if offset = 0 then .ok 0
  else if sectorSize = 0 then .error "panic runtime error: integer divide by zero (journalHeaderOffset)"
  else .ok (((offset - 1) / sectorSize + 1) * sectorSize)

structure JR where
  offset : Nat := 0
  isValid : Bool := false
  frameN : Int := 0
  nonce : Nat := 0
  commit : Nat := 0
  sectorSize : Nat := 0
  pageSize : Nat

inductive NextRes where
  | ok (r : JR) | eof (r : JR) | err (msg : String)

/-- int32 conversion of a uint32 value -/
def toInt32 (n : Nat) : Int := if n ≥ 2147483648 then (n : Int) - 4294967296 else n

/-- Go's `int32(x / y)` for non-negative int64 operands (truncation to 32 bits, two's complement) -/
def int32OfNat (n : Nat) : Int := toInt32 (n % 4294967296)

def badSector (sector : Nat) : Bool := sector < 32 || sector > 65536 || (sector &&& (sector - 1)) != 0

/-- frame count of a segment: the header's count, or derived from the journal size when the count
    is -1 (no-sync) or 0 (not synced) -/
def segFrameN (n : Int) (size off sector ps : Nat) : Int :=
  if n = -1 then
    (if size ≥ sector then int32OfNat ((size - sector) / ps) else - int32OfNat ((sector - size) / ps))
  else if n = 0 then int32OfNat ((size - off) / ps)
  else n

/-- `JournalReader.Next` (after the fixes 2a86cf3 and 17e62fc: sector and page size are validated and
    resolved from the first header before they are used) -/
def JR.nextAt (r : JR) (j : ByteArray) (off : Nat) : Except String NextRes :=
    let r := { r with offset := off }
    if j.size < off + 28 then .ok (.eof r) else
    let hdr := j.extract off (off + 28)
    if isZero hdr then .ok (.eof r) else
    if off > 0 && hdr.extract 0 8 != journalMagic then .ok (.eof r) else
    let sector := be32 hdr 20
    if off = 0 && badSector sector then .ok (.eof { r with sectorSize := sector }) else
    let ps := if be32 hdr 24 = 0 then r.pageSize else be32 hdr 24
    let r1 : JR := if off = 0 then { r with sectorSize := sector, pageSize := if r.pageSize = 0 then ps else r.pageSize } else r
    if off = 0 && ps ≠ r1.pageSize then .error "journal header page size does not match database" else
    if r1.pageSize = 0 then .ok (.eof r1) else
    let r2 := { r1 with frameN := segFrameN (toInt32 (be32 hdr 8)) j.size off r1.sectorSize r1.pageSize,
                        nonce := be32 hdr 12, commit := be32 hdr 16 }
    if off + r2.sectorSize > j.size then .ok (.eof r2)
    else .ok (.ok { r2 with offset := off + r2.sectorSize, isValid := true })

def JR.next (r : JR) (j : ByteArray) : Except String NextRes :=
  match journalHeaderOffset r.offset r.sectorSize with
  | .error m => .error m
  | .ok off => r.nextAt j off

/-- `JournalReader.ReadFrame`: `none` = io.EOF -/
def JR.readFrame (r : JR) (j : ByteArray) : JR × Option (Nat × ByteArray) :=
  if r.frameN = 0 then (r, none) else
  let fsz := r.pageSize + 8
  if j.size < r.offset + fsz then (r, none) else
  let pgno := be32 j r.offset
  let data := j.extract (r.offset + 4) (r.offset + 4 + r.pageSize)
  let chk := be32 j (r.offset + 4 + r.pageSize)
  if chk ≠ journalChecksum data r.nonce then (r, none)
  else ({ r with frameN := r.frameN - 1, offset := r.offset + fsz }, some (pgno, data))

/-- `rollbackJournal`: error string = the Go error / panic -/
def rollbackJournal (s : Eng) : Except String Eng := do
  match s.journal with
  | none => return s
  | some j =>
    if s.dbFile.isNone then throw "open database: no such file"
    let liftM (x : M Eng) : Except String Eng := match x with
      | .ok a => .ok a
      | .error (_, .panic m) => .error m
      | .error (_, _) => .error "write to database"
    -- segments (fuel: every segment consumes at least one sector or ends)
    let rec segs (fuel : Nat) (r : JR) (s : Eng) : Except String (JR × Eng) :=
      match fuel with
      | 0 => .ok (r, s)
      | fuel + 1 => do
        match ← r.next j with
        | .eof r => return (r, s)
        | .err m => throw m
        | .ok r =>
          -- empty database file: the page size is known from the journal only
          let s := if s.pageSize = 0 then { s with pageSize := r.pageSize } else s
          let rec frames (fuel2 : Nat) (r : JR) (s : Eng) : Except String (JR × Eng) :=
            match fuel2 with
            | 0 => .ok (r, s)
            | fuel2 + 1 =>
              match r.readFrame j with
              | (r, none) => .ok (r, s)
              | (r, some (pgno, data)) =>
                -- SQLite's playback rules: page zero or the lock page ends the segment, a page
                -- beyond the original database size is skipped
                if pgno = 0 ∨ pgno = 1073741824 / s.pageSize + 1 then .ok (r, s)
                else if pgno > r.commit then frames fuel2 r s
                else do
                  let s ← liftM (writeDatabasePage s pgno data)
                  frames fuel2 r s
          let (r, s) ← frames (j.size + 1) r s
          segs fuel r s
    let (r, s) ← segs (j.size + 1) { pageSize := s.pageSize } s
    let s ← (if r.isValid then do
        let s ← liftM (truncateDatabaseFile s r.commit)
        pure { s with pageN := r.commit }
      else pure s)
    return { s with journal := none }

/-- `syncWALToLTX` for the newest LTX file -/
def syncWALToLTX (s : Eng) (f : LTXFile) : Except String Eng := do
  match s.wal with
  | none => return s
  | some w =>
    if w.size < 32 then return s
    if be32 w 16 ≠ f.salt1 ∨ be32 w 20 ≠ f.salt2 then return { s with wal := none }   -- renamed to wal.removed
    if w.size < f.walOffset then throw "wal-sync: short wal size"
    if w.size > f.walOffset + f.walSize then return { s with wal := some (truncate w (f.walOffset + f.walSize)) }
    return s

/-- `maxLTXFile`: the file with the highest max TXID (first in name order among equals) -/
def maxLTXFile (l : List LTXFile) : Option LTXFile :=
  l.foldl (fun (best : Option LTXFile) f => match best with
    | none => if f.maxTxid > 0 then some f else none
    | some b => if f.maxTxid > b.maxTxid then some f else some b) none

/-- `DB.Open` on the durable state; `.error` = the store cannot start -/
def openDB (d : Eng) : Except String Eng := do
  -- volatile state starts from scratch
  let s : Eng := { opened := true, primary := d.primary, hasDB := true, dbFile := d.dbFile, journal := d.journal,
                   wal := d.wal, ltx := d.ltx, compress := d.compress, backup := d.backup }
  -- initFromDatabaseHeader
  let s ← (match s.dbFile with
    | none => pure s
    | some f => match readDBHeader f with
      | .error .eof => pure s
      | .error .invalid => pure { s with dbFile := none, journal := none, wal := none, ltx := [] }   -- clean()
      | .ok h => pure { s with pageSize := h.pageSize, pageN := h.pageN, walMode := h.writeVersion = 2 ∧ h.readVersion = 2 })
  let last := maxLTXFile s.ltx
  let s ← (match last with | some f => syncWALToLTX s f | none => pure s)
  -- recover
  let s ← rollbackJournal s
  let s ← (match checkpointNoLock s with
    | .ok s => pure s
    | .error (_, .panic m) => throw m
    | .error (_, _) => throw "checkpoint")
  -- initDatabaseFile
  let s ← (match s.dbFile with
    | none => pure s
    | some f => match readDBHeader f with
      | .error .eof => pure s
      | .error .invalid => throw "cannot read database header"
      | .ok h => do
        if h.pageSize = 0 then throw "cannot read database header"
        let lock := 1073741824 / h.pageSize + 1
        -- checksums of the pages present in the file; later pages (short file) stay 0
        let full := f.size / h.pageSize
        let pages := (List.range h.pageN).map fun i =>
          if i < full && i + 1 ≠ lock then pageChk (i + 1) (f.extract (i * h.pageSize) ((i + 1) * h.pageSize)) else 0
        -- "zero out any checksums after the last good page": all pages after the first missing one
        pure { s with pageSize := h.pageSize, pageN := h.pageN,
                      ck := { pages := pages, blocks := List.replicate ((h.pageN - 1) / blockSize) 0 } })
  -- re-apply the newest LTX file so that database and position agree with the log
  match last with
  | none => pure s
  | some f =>
    match applyLTX s f false with
    | .ok s => pure s
    | .error (_, .panic m) => throw m
    | .error (_, _) => throw "recover ltx"

end LiteFSVerif.Recovery
