/-
  M12: request routing and validation of http/server.go — which handler a (path, method) pair
  reaches and in which order each handler validates its parameters before it touches the store.
  The state-changing tails (import, export, forwarded transaction, halt lock) are the engine
  model's operations (Driver/ApiD.lean).
-/
namespace LiteFSVerif.API

inductive Handler where
  | getExport | postHalt | deleteHalt | postHandoff | postImport | getInfo | postPromote | postStream | postTx | getEvents
  deriving Repr, DecidableEq

/-- the routing table of `serveHTTP`: path → (method → handler) -/
def routes : List (String × List (String × Handler)) :=
  [("/export", [("GET", .getExport)]),
   ("/halt", [("POST", .postHalt), ("DELETE", .deleteHalt)]),
   ("/handoff", [("POST", .postHandoff)]),
   ("/import", [("POST", .postImport)]),
   ("/info", [("GET", .getInfo)]),
   ("/promote", [("POST", .postPromote)]),
   ("/stream", [("POST", .postStream)]),
   ("/tx", [("POST", .postTx)]),
   ("/events", [("GET", .getEvents)])]

inductive Routed where
  | notFound | methodNotAllowed | handler (h : Handler)
  deriving Repr, DecidableEq

def route (path method : String) : Routed :=
  match routes.lookup path with
  | none => .notFound
  | some ms => match ms.lookup method with
    | none => .methodNotAllowed
    | some h => .handler h

/-- `strconv.ParseInt(s, 10, 64)` -/
def parseInt64 (s : String) : Option Int :=
  let (neg, digits) := if s.startsWith "-" then (true, (s.drop 1).toString) else if s.startsWith "+" then (false, (s.drop 1).toString) else (false, s)
  if digits.isEmpty || !digits.all Char.isDigit then none else
  let v : Int := digits.toNat!
  let v := if neg then -v else v
  if v < -9223372036854775808 || v > 9223372036854775807 then none else some v

def hexVal (c : Char) : Option Nat :=
  if '0' ≤ c ∧ c ≤ '9' then some (c.toNat - '0'.toNat)
  else if 'a' ≤ c ∧ c ≤ 'f' then some (c.toNat - 'a'.toNat + 10)
  else if 'A' ≤ c ∧ c ≤ 'F' then some (c.toNat - 'A'.toNat + 10)
  else none

/-- `ParseNodeID` = `strconv.ParseUint(s, 16, 64)` -/
def parseNodeID (s : String) : Option Nat :=
  if s.isEmpty then none else
  match s.toList.foldlM (fun (acc : Nat) c => (hexVal c).map (acc * 16 + ·)) 0 with
  | some v => if v < 18446744073709551616 then some v else none
  | none => none

/-- `isValidDBName` (store.go, after 90bf507) -/
def validDBName (n : List Char) : Bool :=
  !n.isEmpty && n != ['.'] && n != ['.', '.'] && !n.contains '/' && !n.contains (Char.ofNat 0)

inductive NodeHdr where | own | other | none
  deriving Repr, DecidableEq

/-- the verdict of a handler's validation prefix: refuse with a status, or go on to the store -/
inductive Verdict where
  | refuse (status : Nat)
  | proceed
  deriving Repr, DecidableEq

structure Params where
  name : List Char            -- decoded `name` parameter ("" if absent)
  id : Option Int             -- `id` parsed (none = missing / malformed)
  lockID : Option Int         -- `lockID` parsed
  nodeID : Option Nat         -- `nodeID` parsed
  node : NodeHdr
  http2 : Bool
  deriving Repr

/-- validation prefix of each handler, in source order; `isPrimary` / `candidate` / `dbExists` /
    `haltHeld` are what the store answers at that moment -/
def validate (h : Handler) (p : Params) (isPrimary candidate dbExists : Bool) (haltHeld : Option Int) : Verdict :=
  match h with
  | .getInfo | .getEvents => .proceed
  | .getExport =>
    if p.name.isEmpty then .refuse 400 else if !dbExists then .refuse 404 else .proceed
  | .postImport =>
    if p.name.isEmpty then .refuse 400 else if !isPrimary then .refuse 503
    else if !validDBName p.name then .refuse 500 else .proceed
  | .postHalt =>
    match p.id with
    | none => .refuse 400
    | some id =>
      if p.node == .own then .refuse 400 else if id == 0 then .refuse 400
      else if !isPrimary then .refuse 503 else if !validDBName p.name then .refuse 500 else .proceed
  | .deleteHalt =>
    match p.id with
    | none => .refuse 400
    | some _ => if p.node == .own then .refuse 400 else if !dbExists then .refuse 404 else .proceed
  | .postHandoff =>
    match p.nodeID with
    | none => .refuse 400
    | some _ => .refuse 500        -- not primary, or the target is not a connected replica
  | .postPromote =>
    if !candidate then .refuse 409 else if isPrimary then .proceed else .refuse 500
  | .postTx =>
    if p.node == .own then .refuse 400 else if !dbExists then .refuse 404 else
    match p.lockID with
    | none => .refuse 400
    | some l => if haltHeld == some l then .proceed else .refuse 409
  | .postStream =>
    if !p.http2 then .refuse 426 else if p.node == .own then .refuse 400 else if !isPrimary then .refuse 503 else .proceed

end LiteFSVerif.API
