/-
  M1: one `litefs.RWMutex` with any number of guards (one guard per lock owner).

  The five guard methods are *not* written here: they are `Gen.RWMutex.*`,
  regenerated from /repo/rwmutex.go on every run.  This file only adds the
  plumbing the Go runtime provides for free: a mutex shared by several guards
  (`Mutex`), and calling a guard method on guard `i` (`call`).
-/
import LiteFSVerif.Base.RWCell
import LiteFSVerif.Gen.RWMutex

namespace LiteFSVerif.RWMutex
open LiteFSVerif

/-- A mutex together with the guards that point to it. -/
structure Mutex where
  sharedN : Int
  excl    : Option Nat
  gs      : List GS
  deriving DecidableEq, Repr

/-- `n` fresh guards on a fresh mutex (Go zero values). -/
def Mutex.init (n : Nat) : Mutex := { sharedN := 0, excl := none, gs := List.replicate n .unlocked }

def Mutex.cell (m : Mutex) (i : Nat) : Cell :=
  { sharedN := m.sharedN, excl := m.excl, gstate := m.gs.getD i .unlocked }

def Mutex.put (m : Mutex) (i : Nat) (c : Cell) : Mutex :=
  { sharedN := c.sharedN, excl := c.excl, gs := m.gs.set i c.gstate }

/-- One call of a guard method on guard `i` of mutex `m`. A panic leaves the
    model state as it was (the process is gone; the state is irrelevant). -/
def step (m : Mutex) (op : Op) : Mutex × Res :=
  if op.owner ≥ m.gs.length then (m, .badOwner) else
  match op with
  | .tryLock i  => match Gen.RWMutex.tryLock i (m.cell i) with
      | .ret v c => (m.put i c, .bool v) | .panic s => (m, .panic s)
  | .tryRLock i => match Gen.RWMutex.tryRLock i (m.cell i) with
      | .ret v c => (m.put i c, .bool v) | .panic s => (m, .panic s)
  | .unlock i   => match Gen.RWMutex.unlock i (m.cell i) with
      | .ret _ c => (m.put i c, .unit) | .panic s => (m, .panic s)
  | .canLock i  => match Gen.RWMutex.canLock i (m.cell i) with
      | .ret v c => (m.put i c, .query v.1 v.2) | .panic s => (m, .panic s)
  | .canRLock i => match Gen.RWMutex.canRLock i (m.cell i) with
      | .ret v c => (m.put i c, .bool v) | .panic s => (m, .panic s)

def run (m : Mutex) : List Op → Mutex
  | [] => m
  | op :: ops => run (step m op).1 ops

/-- State of the mutex as `RWMutex.State()` reports it. -/
def Mutex.state (m : Mutex) : GS := Gen.RWMutex.mutexState (m.cell 0)

end LiteFSVerif.RWMutex
