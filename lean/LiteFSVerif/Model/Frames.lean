/-
  M3a: stream frames (client.go `ReadStreamFrame` / `WriteStreamFrame` and the seven frame types).
-/
import LiteFSVerif.Base.Bytes

namespace LiteFSVerif.Frames
open LiteFSVerif

/-- A stream frame value. Integers are the unsigned bit patterns put on the wire
    (`uint64(f.Size)`, `uint64(f.TXID)`, the two's complement of `Timestamp`). -/
inductive Frame where
  | ltx (size : Nat) (name : Bytes)
  | ready
  | end_
  | dropDB (name : Bytes)
  | handoff (leaseID : Bytes)
  | hwm (txid : Nat) (name : Bytes)
  | heartbeat (ts : Nat)
  deriving DecidableEq, Repr

/-- values a node can write: integers fit their wire width, strings are shorter than 2^32 -/
def Frame.WF : Frame → Prop
  | .ltx size name => size < 256 ^ 8 ∧ name.length < 256 ^ 4
  | .ready | .end_ => True
  | .dropDB name => name.length < 256 ^ 4
  | .handoff id => id.length < 256 ^ 4
  | .hwm txid name => txid < 256 ^ 8 ∧ name.length < 256 ^ 4
  | .heartbeat ts => ts < 256 ^ 8

def Frame.typeCode : Frame → Nat
  | .ltx .. => 1 | .ready => 2 | .end_ => 3 | .dropDB .. => 4 | .handoff .. => 5 | .hwm .. => 6 | .heartbeat .. => 7

def encodeStr (s : Bytes) : Bytes := be 4 s.length ++ s

def encodePayload : Frame → Bytes
  | .ltx size name => be 8 size ++ encodeStr name
  | .ready => []
  | .end_ => []
  | .dropDB name => encodeStr name
  | .handoff id => encodeStr id
  | .hwm txid name => be 8 txid ++ encodeStr name
  | .heartbeat ts => be 8 ts

/-- `WriteStreamFrame` -/
def encodeFrame (f : Frame) : Bytes := be 4 f.typeCode ++ encodePayload f

/-- length-prefixed string inside a frame payload: `binary.Read(&n)`, then `io.ReadFull`;
    each `io.EOF` is turned into `io.ErrUnexpectedEOF` by the frame's `ReadFrom`. -/
def decodeStr : Parser Bytes :=
  ((readUint 4).mapErr DecErr.noEOF).bind fun n => (readFull n).mapErr DecErr.noEOF

def decodeU64 : Parser Nat := (readUint 8).mapErr DecErr.noEOF

def decodePayload (t : Nat) : Parser Frame :=
  if t = 1 then decodeU64.bind fun size => decodeStr.bind fun name => .pure (.ltx size name)
  else if t = 2 then .pure .ready
  else if t = 3 then .pure .end_
  else if t = 4 then decodeStr.bind fun name => .pure (.dropDB name)
  else if t = 5 then decodeStr.bind fun id => .pure (.handoff id)
  else if t = 6 then decodeU64.bind fun txid => decodeStr.bind fun name => .pure (.hwm txid name)
  else if t = 7 then decodeU64.bind fun ts => .pure (.heartbeat ts)
  else .fail (.invalid "stream frame type")

/-- `ReadStreamFrame`: an `io.EOF` while reading the type is the clean end of the stream;
    `ReadStreamFrame` also maps an `io.EOF` from the payload reader to ErrUnexpectedEOF. -/
def decodeFrame : Parser Frame :=
  (readUint 4).bind fun t => (decodePayload t).mapErr DecErr.noEOF

end LiteFSVerif.Frames
