/-
  M3b: chunked bodies (internal/chunk/chunk.go) and position maps (http/http.go).
-/
import LiteFSVerif.Base.Bytes

namespace LiteFSVerif.Chunk
open LiteFSVerif

/-- `chunk.MaxChunkSize` (checked against Gen.Facts.MaxChunkSize in Props/C18) -/
def maxChunk : Nat := 65535

theorem readFull_rest_length {n : Nat} {r b rest : Bytes} (h : readFull n r = .ok b rest) :
    rest.length + n = r.length ∧ b.length = n := by
  unfold readFull at h
  split at h
  · injection h with h1 h2
    subst h1 h2
    simp; omega
  · split at h <;> cases h

theorem readUint_rest_length {w : Nat} {r rest : Bytes} {v : Nat} (h : readUint w r = .ok v rest) :
    rest.length + w = r.length := by
  unfold readUint at h
  split at h
  · rename_i b rest' heq
    injection h with h1 h2
    subst h2
    exact (readFull_rest_length heq).1
  · cases h

/-- `Writer.Write(p)`: split `p` into chunks of at most 65535 bytes (nothing for empty `p`) -/
def splitChunks (p : Bytes) : List Bytes :=
  if h : p = [] then [] else p.take maxChunk :: splitChunks (p.drop maxChunk)
termination_by p.length
decreasing_by
  have : 0 < p.length := List.length_pos_iff.mpr h
  simp [maxChunk]; omega

def encodeChunk (c : Bytes) : Bytes := be 2 c.length ++ c

def chunkWrite (p : Bytes) : Bytes := (splitChunks p).flatMap encodeChunk

/-- `Writer.Close()` -/
def chunkClose : Bytes := be 2 0

/-- the whole body as the peer reads it to EOF (`io.ReadAll(chunk.NewReader(r))`):
    size header, then the chunk; a zero size ends the body.  A read error after a size header
    was read is never a clean end. -/
def decodeChunks (r : Bytes) : Dec Bytes :=
  match h : readUint 2 r with
  | .err e => .err e.noEOF
  | .ok n rest =>
    if n = 0 then .ok [] rest
    else match h2 : readFull n rest with
      | .err e => .err e.noEOF
      | .ok c rest2 =>
        match decodeChunks rest2 with
        | .err e => .err e
        | .ok cs rest3 => .ok (c ++ cs) rest3
termination_by r.length
decreasing_by
  have := readUint_rest_length h
  have := (readFull_rest_length h2).1
  omega

/-! ### the stateful reader, as `Read(p)` sees it -/

structure Reader where
  buf : Bytes := []     -- unread part of the current chunk
  eof : Bool := false   -- closing chunk seen
  deriving Repr

inductive ReadRes where
  | data (d : Bytes)
  | eof
  | err (e : DecErr)
  deriving Repr

/-- one `Reader.Read(p)` with `len(p) = n` on underlying input `src` -/
def Reader.read (rd : Reader) (src : Bytes) (n : Nat) : Reader × Bytes × ReadRes :=
  if rd.buf ≠ [] then
    ({ rd with buf := rd.buf.drop n }, src, .data (rd.buf.take n))
  else if rd.eof then (rd, src, .eof)
  else match readUint 2 src with
    | .err e => (rd, src, .err e.noEOF)
    | .ok size rest =>
      if size = 0 then ({ rd with eof := true }, rest, .eof)
      else match readFull size rest with
        | .err e => (rd, [], .err e.noEOF)
        | .ok c rest2 => ({ rd with buf := c.drop n }, rest2, .data (c.take n))

/-! ### position maps -/

structure Entry where
  name : Bytes
  txid : Nat
  chk  : Nat
  deriving DecidableEq, Repr

def Entry.WF (e : Entry) : Prop := e.name.length < 256 ^ 4 ∧ e.txid < 256 ^ 8 ∧ e.chk < 256 ^ 8

def encodeEntry (e : Entry) : Bytes := be 4 e.name.length ++ e.name ++ be 8 e.txid ++ be 8 e.chk

/-- `WritePosMapTo` (entries in the sorted order of the Go map's keys) -/
def encodePosMap (m : List Entry) : Bytes := be 4 m.length ++ m.flatMap encodeEntry

/-- one entry of `ReadPosMapFrom`: errors are returned as they come (io.EOF at an entry boundary) -/
def decodeEntry : Parser Entry :=
  (readUint 4).bind fun n => (readFull n).bind fun name =>
  (readUint 8).bind fun t => (readUint 8).bind fun c => .pure ⟨name, t, c⟩

def decodeEntries : Nat → Parser (List Entry)
  | 0 => .pure []
  | n + 1 => decodeEntry.bind fun e => (decodeEntries n).bind fun es => .pure (e :: es)

/-- `ReadPosMapFrom`, entries in wire order; the Go map keeps the last entry of each name -/
def decodePosMap : Parser (List Entry) := (readUint 4).bind decodeEntries

/-- what the resulting Go map holds for `name` -/
def lookup (es : List Entry) (name : Bytes) : Option (Nat × Nat) :=
  (es.reverse.find? (·.name == name)).map fun e => (e.txid, e.chk)

end LiteFSVerif.Chunk
