/-
  M10: backup sync — the decision of `streamBackupDB` (store.go), the backup service's acceptance
  rule (`FileBackupClient.WriteTx`), compaction of a run of transaction files, and the restore.
-/
import LiteFSVerif.Model.Cluster

namespace LiteFSVerif.Backup
open LiteFSVerif LiteFSVerif.Cks LiteFSVerif.Engine

/-- `MaxBackupLTXFileN` -/
def maxBatch : Nat := 256

inductive Decision where
  | restore              -- position mismatch: adopt the service's snapshot
  | nothing              -- nothing written locally yet
  | snapshot             -- the service has nothing: upload a full snapshot
  | inSync
  | upload (first last : Nat)   -- compact files first..last (single-transaction files) and upload
  deriving Repr, DecidableEq

/-- `streamBackupDB`: `loc` = local position (none: no such database locally), `remote` = the
    service's position, `have t` = the log still holds file t-t -/
def syncDecide (loc : Option (Nat × Chk)) (remote : Nat × Chk) (have_ : Nat → Bool) : Decision :=
  match loc with
  | none => .restore
  | some l =>
    if l.1 = 0 ∧ l.2 = 0 then .nothing
    else if remote.1 = 0 ∧ remote.2 = 0 then .snapshot
    else if remote.1 > l.1 then .restore
    else if remote.1 = l.1 then (if remote.2 ≠ l.2 then .restore else .inSync)
    else
      let last := min l.1 (remote.1 + maxBatch)
      if (List.range (last - remote.1)).all (fun i => have_ (remote.1 + 1 + i)) then .upload (remote.1 + 1) last
      else .restore

/-- header-level view of a file -/
structure Hdr where
  min : Nat
  max : Nat
  pre : Chk
  post : Chk
  deriving Repr, DecidableEq

/-- the service's position: its newest file -/
def svcPos (svc : List Hdr) : Nat × Chk :=
  match svc.getLast? with
  | some f => (f.max, f.post)
  | none => (0, 0)

/-- `WriteTx`: the file must extend the service's position exactly -/
def svcAccept (svc : List Hdr) (f : Hdr) : Option (List Hdr) :=
  if (svcPos svc).1 + 1 = f.min ∧ (svcPos svc).2 = f.pre then some (svc ++ [f]) else none

/-- the service's files form one chain starting at TXID 1 -/
def chain : List Hdr → Bool
  | [] => true
  | [f] => f.min == 1 || true
  | a :: b :: rest => b.min == a.max + 1 && b.pre == a.post && chain (b :: rest)

/-- `ltx.Compactor` on a run of files: newest version of each page, pages beyond the final size
    dropped, in page order -/
def compact (files : List LTXFile) : Option LTXFile :=
  match files.head?, files.getLast? with
  | some a, some z =>
    let pages := files.foldl (fun (acc : List (Nat × ByteArray)) f =>
      f.pages.foldl (fun acc p => Sqlite.mapSet acc p.1 p.2) acc) []
    let pages := (pages.filter fun p => p.1 ≤ z.commit)
    let sorted := (sortNat (pages.map (·.1))).filterMap fun k => (pages.lookup k).map fun d => (k, d)
    some { minTxid := a.minTxid, maxTxid := z.maxTxid, pre := a.pre, post := z.post, commit := z.commit,
           pageSize := z.pageSize, pages := sorted, nodeID := z.nodeID }
  | _, _ => none

end LiteFSVerif.Backup
