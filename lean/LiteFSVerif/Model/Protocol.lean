/-
  M9a: the replication protocol at the level of positions, images and transaction files —
  abstract nodes that commit, create snapshots, trim their logs and deliver files to each other
  through the replica's acceptance rule (`processLTXStreamFrame`) and the primary's stream loop
  (`streamDB` / `streamLTX`, `Cluster.streamDecide`).

  Images are an abstract type `I` with a checksum `H : I → Chk`.  Every node may commit (a former
  primary with unreplicated writes is just another committer), so the ghost history `hist` is the
  set of all (position, image) pairs any primary ever committed — a tree, not a list.
-/
import LiteFSVerif.Model.Cluster

namespace LiteFSVerif.Protocol
open LiteFSVerif LiteFSVerif.Cks LiteFSVerif.Cluster

abbrev Pos := Nat × Chk

/-- a transaction file: header fields and its effect on an image -/
structure AFile (I : Type) where
  min : Nat
  max : Nat
  pre : Chk
  post : Chk
  nodeID : Nat
  app : I → I

structure ANode (I : Type) where
  ident : Nat
  pos : Pos
  img : I
  log : List (AFile I)

/-- `processLTXStreamFrame`'s position rule: a snapshot always, otherwise the file must extend
    exactly the node's (TXID, checksum) -/
def accepts {I} (n : ANode I) (f : AFile I) : Bool :=
  f.min == 1 || (n.pos.1 + 1 == f.min && n.pos.2 == f.pre)

/-- own-file skip (after 71ecab6): the node created the file and its position still covers it -/
def skips {I} (n : ANode I) (f : AFile I) : Bool := f.nodeID == n.ident && n.pos.1 ≥ f.max

inductive Outcome where
  | skipped | refused | failedVerify | applied
  deriving DecidableEq, Repr

/-- deliver one file to a node: skip / refuse / apply + post-apply checksum verification (a node
    whose verification fails exits; its state is not used afterwards) -/
def deliver {I} (H : I → Chk) (n : ANode I) (f : AFile I) : ANode I × Outcome :=
  if skips n f then (n, .skipped)
  else if !accepts n f then (n, .refused)
  else if H (f.app n.img) ≠ f.post then (n, .failedVerify)
  else ({ n with pos := (f.max, f.post), img := f.app n.img,
                 log := if f.min = 1 then [f] else n.log ++ [f] }, .applied)

/-- `WriteSnapshotTo` at quiescence -/
def snapshotOf {I} (n : ANode I) : AFile I :=
  { min := 1, max := n.pos.1, pre := 0, post := n.pos.2, nodeID := n.ident, app := fun _ => n.img }

/-- a local commit whose effect on the image is `app`.  The first transaction of a database
    (TXID 1) writes every page of the new image, so its file yields that image from anything
    (LiteFS treats every file with minimum TXID 1 as a snapshot). -/
def commit {I} (H : I → Chk) (n : ANode I) (app : I → I) : ANode I :=
  let b := app n.img
  let f : AFile I := { min := n.pos.1 + 1, max := n.pos.1 + 1, pre := n.pos.2, post := H b, nodeID := n.ident,
                       app := if n.pos.1 = 0 then fun _ => b else app }
  { n with pos := (n.pos.1 + 1, H b), img := b, log := n.log ++ [f] }

structure World (I : Type) where
  nodes : List (ANode I)
  hist : List (Pos × I)

inductive Op (I : Type) where
  | commit (k : Nat) (app : I → I)             -- node k commits (it believes to be primary)
  | send (src dst i : Nat)                     -- file i of src's log is delivered to dst
  | snap (src dst : Nat)                       -- a snapshot of src is delivered to dst
  | trim (k j : Nat)                           -- retention on node k: the j oldest files go
  | restart (k id : Nat)                       -- node k restarts with a new identity

def setNode {I} (w : World I) (k : Nat) (n : ANode I) : World I := { w with nodes := w.nodes.set k n }

def step {I} (H : I → Chk) (w : World I) : Op I → World I
  | .commit k app =>
    match w.nodes[k]? with
    | some n => { (setNode w k (commit H n app)) with hist := ((n.pos.1 + 1, H (app n.img)), app n.img) :: w.hist }
    | none => w
  | .send src dst i =>
    match w.nodes[src]?, w.nodes[dst]? with
    | some s, some d => (match s.log[i]? with
      | some f => setNode w dst (deliver H d f).1
      | none => w)
    | _, _ => w
  | .snap src dst =>
    match w.nodes[src]?, w.nodes[dst]? with
    | some s, some d => setNode w dst (deliver H d (snapshotOf s)).1
    | _, _ => w
  | .trim k j =>
    match w.nodes[k]? with
    | some n => setNode w k { n with log := n.log.drop (min j (n.log.length - 1)) }
    | none => w
  | .restart k id =>
    match w.nodes[k]? with
    | some n => setNode w k { n with ident := id }
    | none => w

def run {I} (H : I → Chk) (w : World I) (ops : List (Op I)) : World I := ops.foldl (step H) w

/-- `n` fresh nodes on the empty image `e0` -/
def init {I} (e0 : I) (n : Nat) : World I :=
  { nodes := (List.range n).map fun i => { ident := i + 1, pos := (0, 0), img := e0, log := [] },
    hist := [((0, 0), e0)] }

/-- the file `t-t` of a log (`OpenLTXFile`) -/
def openFile {I} (log : List (AFile I)) (t : Nat) : Option (AFile I) :=
  log.find? fun f => f.min == t && f.max == t

/-- one stream session between primary `p` and replica `r` (abstract counterpart of
    `Cluster.session`): iterate `streamDecide` from the position the replica connected with -/
def session {I} (H : I → Chk) (p : ANode I) (r : ANode I) : Nat → Pos → ANode I × Bool
  | 0, _ => (r, false)
  | fuel + 1, client =>
    match streamDecide (·.pre) client p.pos (openFile p.log) with
    | .done => (r, true)
    | .snapshot =>
      let f := snapshotOf p
      match deliver H r f with
      | (r', .applied) => session H p r' fuel (f.max, f.post)
      | (r', .skipped) => session H p r' fuel (f.max, f.post)
      | (r', _) => (r', false)
    | .file f =>
      match deliver H r f with
      | (r', .applied) => session H p r' fuel (f.max, f.post)
      | (r', .skipped) => session H p r' fuel (f.max, f.post)
      | (r', _) => (r', false)

end LiteFSVerif.Protocol
