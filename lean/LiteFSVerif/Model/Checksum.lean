/-
  M6: the in-memory checksum cache of db.go (`chksums.pages`, `chksums.blocks`, `wal.chksums`)
  and the functions that read and update it: `databasePageChecksum`, `setDatabasePageChecksum`,
  `resetDatabasePageChecksumsAfter`, `blockChksum`/`recomputeBlockChksum`, `pageChecksum`,
  `checksum`.  Checksums are `UInt64` with the top bit (`ltx.ChecksumFlag`) set; 0 = "no checksum".

  Every Go operation that can panic (`assert`, slice index, division by zero) is an explicit
  `Except String` error starting with "panic".
-/
namespace LiteFSVerif.Cks

abbrev Chk := UInt64
def flag : Chk := 0x8000000000000000

/-- `ChecksumBlockSize` -/
def blockSize : Nat := 256

/-- `ltx.LockPgno(pageSize)`; Go panics (integer divide by zero) for page size 0 -/
def lockPgno (pageSize : Nat) : Except String Nat :=
  if pageSize = 0 then .error "panic integer divide by zero (LockPgno)" else .ok (1073741824 / pageSize + 1)

/-- `pageChksumBlock(pgno)` -/
def blockOf (pgno : Nat) : Except String Nat :=
  if pgno = 0 then .error "panic assertion failed: pgno must be greater than zero" else .ok ((pgno - 1) / blockSize)

structure Cache where
  pages  : List Chk := []      -- chksums.pages  (index pgno-1)
  blocks : List Chk := []      -- chksums.blocks (0 = not cached)
  deriving Repr

/-- per-page checksums of committed WAL frames: `wal.chksums[pgno]` (last entry is current) -/
abbrev WalCks := List (Nat × List Chk)

def walLast (w : WalCks) (pgno : Nat) : Option Chk :=
  match w.lookup pgno with
  | some l => l.getLast?
  | none => none

/-- `databasePageChecksum` -/
def Cache.dbPage (c : Cache) (pgno : Nat) : Except String Chk :=
  if pgno = 0 then .error "panic assertion failed: database pgno must be larger than zero"
  else .ok (c.pages.getD (pgno - 1) 0)

def padTo (l : List Chk) (n : Nat) : List Chk := if l.length < n then l ++ List.replicate (n - l.length) 0 else l

/-- `setDatabasePageChecksum` -/
def Cache.set (c : Cache) (pageSize pgno : Nat) (chk : Chk) : Except String Cache := do
  if pgno = 0 then throw "panic assertion failed: database pgno must be larger than zero"
  let lock ← lockPgno pageSize
  let chk := if pgno = lock then 0 else chk
  let pages := (padTo c.pages pgno).set (pgno - 1) chk
  let block := (pgno - 1) / blockSize
  let blocks := if block < c.blocks.length then c.blocks.set block 0 else c.blocks
  pure { pages, blocks }

/-- `resetDatabasePageChecksumsAfter(commit)` -/
def Cache.resetAfter (c : Cache) (pageSize commit : Nat) : Except String Cache :=
  (List.range (c.pages.length - commit)).foldlM (fun c i => c.set pageSize (commit + i + 1) 0) c

/-- `recomputeBlockChksum` -/
def Cache.recompute (c : Cache) (block : Nat) : Cache :=
  let blocks := padTo c.blocks (block + 1)
  let v := (List.range blockSize).foldl
    (fun (acc : Chk) i => flag ||| (acc ^^^ c.pages.getD (block * blockSize + i) 0)) 0
  { c with blocks := blocks.set block v }

/-- `blockChksum` -/
def Cache.blockChksum (c : Cache) (block : Nat) : Cache × Chk :=
  let c := if block ≥ c.blocks.length ∨ c.blocks.getD block 0 = 0 then c.recompute block else c
  (c, c.blocks.getD block 0)

/-- `pageChecksum(pgno, pageN, newWALChecksums)` -/
def Cache.pageChecksum (c : Cache) (w : WalCks) (pageSize pgno pageN : Nat) (newWAL : List (Nat × Chk)) :
    Except String (Chk × Bool) := do
  let lock ← lockPgno pageSize
  if pgno = lock then return (0, true)
  if pgno > pageN then return (0, false)
  match newWAL.lookup pgno with
  | some v => return (v, true)
  | none =>
    match walLast w pgno with
    | some v => return (v, true)
    | none =>
      let v ← c.dbPage pgno
      return (v, v != 0)

/-- body of the per-page loop inside `checksum`: stop at the first page beyond `pageN`; a page
    without a checksum is an error; otherwise `chksum = flag | (chksum ^ pageChksum)` -/
def pageStep (g : Nat → Except String (Chk × Bool)) (block pageN : Nat) (st : Chk × Bool) (i : Nat) : Except String (Chk × Bool) := do
  if st.2 then pure st else
  let pgno := block * blockSize + i + 1
  if pgno > pageN then pure (st.1, true) else
  let (v, ok) ← g pgno
  if !ok then throw s!"missing checksum for page {pgno}"
  pure (flag ||| (st.1 ^^^ v), false)

/-- one block of the loop of `checksum` -/
def Cache.checksumBlock (c : Cache) (w : WalCks) (pageSize pageN : Nat) (newWAL : List (Nat × Chk))
    (ignored : Bool) (block : Nat) (acc : Chk) : Except String (Cache × Chk) := do
  if !ignored then
    let (c', b) := c.blockChksum block
    if b != 0 then return (c', flag ||| (acc ^^^ b))
    -- unreachable in practice (a recomputed block always carries the flag); falls through like the code
    let r ← (List.range blockSize).foldlM (pageStep (fun p => c'.pageChecksum w pageSize p pageN newWAL) block pageN) (acc, false)
    return (c', r.1)
  else
    let r ← (List.range blockSize).foldlM (pageStep (fun p => c.pageChecksum w pageSize p pageN newWAL) block pageN) (acc, false)
    return (c, r.1)

/-- a block is summed page by page (not from the cache) when the WAL, or the transaction being
    committed, holds one of its pages -/
def blockIgnored (w : WalCks) (newWAL : List (Nat × Chk)) (b : Nat) : Bool :=
  w.any (fun e => (e.1 - 1) / blockSize == b) || newWAL.any (fun e => (e.1 - 1) / blockSize == b)

/-- `checksum(pageN, newWALChecksums)` (after the fix of 5001209: blocks beyond the new size are
    not marked) -/
def Cache.checksum (c : Cache) (w : WalCks) (pageSize pageN : Nat) (newWAL : List (Nat × Chk)) :
    Except String (Cache × Chk) := do
  if pageN = 0 then return (c, flag)
  let blockN := (pageN - 1) / blockSize + 1
  -- pageChksumBlock asserts pgno > 0 for every key of the two maps
  if w.any (fun e => e.1 == 0) || newWAL.any (fun e => e.1 == 0) then
    throw "panic assertion failed: pgno must be greater than zero"
  (List.range blockN).foldlM (fun (st : Cache × Chk) block =>
    st.1.checksumBlock w pageSize pageN newWAL (blockIgnored w newWAL block) block st.2) (c, 0)

/-- the specification: checksum of a logical image given as per-page checksums (index pgno-1),
    XOR over all pages except the lock page, with the flag; `flag` alone for the empty image -/
def specChecksum (lock : Nat) (img : List Chk) : Chk :=
  (List.range img.length).foldl (fun acc i => if i + 1 = lock then acc else acc ^^^ img.getD i 0) 0 ||| flag

end LiteFSVerif.Cks
