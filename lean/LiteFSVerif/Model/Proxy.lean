/-
  M11: the decision logic of http/proxy_server.go — routing (`serveHTTP`), the read path that
  waits for the tracked database to reach the cookie's TXID (`serveRead`), and the non-read path
  (`serveNonRead`).  Time is a timeline: the positions the tracked database passes through while
  the request waits (`none` = the database does not exist on this node).
-/
namespace LiteFSVerif.Proxy

inductive Role where
  | primary | replica (host : String) | orphan      -- orphan: not primary, no primary known
  deriving Repr, DecidableEq

structure Req where
  method : String
  path : String
  cookie : Option String
  deriving Repr

def hexVal (c : Char) : Option Nat :=
  if '0' ≤ c ∧ c ≤ '9' then some (c.toNat - '0'.toNat)
  else if 'a' ≤ c ∧ c ≤ 'f' then some (c.toNat - 'a'.toNat + 10)
  else if 'A' ≤ c ∧ c ≤ 'F' then some (c.toNat - 'A'.toNat + 10)
  else none

/-- `ltx.ParseTXID`: exactly 16 hex digits; anything else counts as "no TXID" (0) -/
def parseTXID (s : String) : Nat :=
  if s.length ≠ 16 then 0 else
  match s.toList.foldlM (fun (acc : Nat) c => (hexVal c).map (acc * 16 + ·)) 0 with
  | some v => v
  | none => 0

/-- the expressions are matched against the URL's path only, never its query string -/
def pathOnly (p : String) : List Char := p.toList.takeWhile (· ≠ '?')

/-- the configured expressions of the suite: `^/pt/` and `*.png` pass through, `^/fw/` and `*.fwd`
    always forward -/
def isPassthrough (p : String) : Bool :=
  "/pt/".toList.isPrefixOf (pathOnly p) || ".png".toList.reverse.isPrefixOf (pathOnly p).reverse
def isAlwaysForward (p : String) : Bool :=
  "/fw/".toList.isPrefixOf (pathOnly p) || ".fwd".toList.reverse.isPrefixOf (pathOnly p).reverse

def isReadMethod (m : String) : Bool := m == "GET" || m == "HEAD"

inductive Route where
  | passthrough | health | read (txid : Nat) | nonRead
  deriving Repr, DecidableEq

/-- `serveHTTP` -/
def route (r : Req) : Route :=
  if isPassthrough r.path then .passthrough
  else if r.method == "GET" && pathOnly r.path == "/litefs/health".toList then .health
  else if isReadMethod r.method && !isAlwaysForward r.path then .read (match r.cookie with | some c => parseTXID c | none => 0)
  else .nonRead

inductive ReadOutcome where
  | forwardAt (i : Nat)     -- forwarded to the application when the timeline was at index i
  | timeout                 -- 504
  deriving Repr, DecidableEq

/-- `serveRead`: no TXID → forward at once; otherwise wait (database absent counts as "not there
    yet") until the tracked database reaches the TXID -/
def serveRead (txid : Nat) (timeline : List (Option Nat)) : ReadOutcome :=
  if txid = 0 then .forwardAt 0 else
  match timeline.findIdx? (fun p => match p with | some t => t ≥ txid | none => false) with
  | some i => .forwardAt i
  | none => .timeout

inductive NonRead where
  | toTarget | unavailable | redirect (host : String)
  deriving Repr, DecidableEq

/-- `serveNonRead` -/
def serveNonRead : Role → NonRead
  | .primary => .toTarget
  | .orphan => .unavailable
  | .replica h => .redirect h

/-- does a request forwarded to the application get a TXID cookie (`proxyToTarget`) -/
def setsCookie (r : Req) (passthrough : Bool) (hasDB : Bool) : Bool :=
  !passthrough && !isReadMethod r.method && hasDB

/-- `proxyToTarget`'s response headers: the proxy's own headers so far (the TXID cookie, if it set
    one, as a `Set-Cookie` value) followed by every header value of the application's response,
    *added* to the values already there (`w.Header().Add`) -/
def responseHeaders (own : List (String × String)) (app : List (String × String)) : List (String × String) :=
  own ++ app

/-- the `Set-Cookie` values a client receives -/
def setCookies (hs : List (String × String)) : List String :=
  (hs.filter (·.1 == "Set-Cookie")).map (·.2)

end LiteFSVerif.Proxy
