/-
  M4: byte-level readers of litefs.go / db.go for SQLite's file formats:
  database header, WAL header / frames / running checksum (`WALReader`, `WALChecksum`,
  `readWALPageOffsets`, `buildTxFrameOffsets`), rollback journal (`JournalReader`, `JournalChecksum`).
-/
import LiteFSVerif.Base.BA

namespace LiteFSVerif.Sqlite
open LiteFSVerif LiteFSVerif.BA

def dbMagic : ByteArray := "SQLite format 3".toUTF8.push 0

structure DBHeader where
  writeVersion : Nat
  readVersion : Nat
  pageSize : Nat
  pageN : Nat
  deriving Repr

inductive HdrErr where | eof | invalid deriving Repr, DecidableEq

/-- `readSQLiteDatabaseHeader` on the first bytes of a file / stream -/
def readDBHeader (b : ByteArray) : Except HdrErr DBHeader :=
  if b.size = 0 then .error .eof
  else if b.size < 100 then .error .invalid
  else if b.extract 0 16 != dbMagic then .error .invalid
  else
    let ps := be16 b 16
    .ok { writeVersion := (getD b 18).toNat, readVersion := (getD b 19).toNat,
          pageSize := if ps = 1 then 65536 else ps, pageN := be32 b 28 }

/-- `ltx.IsValidPageSize` -/
def validPageSize (n : Nat) : Bool := [512, 1024, 2048, 4096, 8192, 16384, 32768, 65536].contains n

def u32 (n : Nat) : Nat := n % 4294967296

/-- `WALChecksum(bo, s0, s1, b)`; Go asserts `len(b) % 8 == 0` -/
def walChecksum (bigEndian : Bool) (s0 s1 : Nat) (b : ByteArray) : Except String (Nat × Nat) :=
  if b.size % 8 ≠ 0 then .error "panic assertion failed: misaligned checksum byte slice" else
  .ok <| (List.range (b.size / 8)).foldl (fun (s : Nat × Nat) i =>
    let a := if bigEndian then be32 b (8*i) else le32 b (8*i)
    let c := if bigEndian then be32 b (8*i+4) else le32 b (8*i+4)
    let s0 := u32 (s.1 + a + s.2)
    let s1 := u32 (s.2 + c + s0)
    (s0, s1)) (s0, s1)

/-- `JournalChecksum(data, initial)` -/
def journalChecksum (data : ByteArray) (initial : Nat) : Nat :=
  -- for i := len-200; i > 0; i -= 200
  let n := if data.size > 200 then (data.size - 200 - 1) / 200 + 1 else 0
  (List.range n).foldl (fun c k => u32 (c + (getD data (data.size - 200 - 200 * k)).toNat)) initial

def walMagicLE : Nat := 0x377f0682
def walMagicBE : Nat := 0x377f0683

structure WalHeader where
  bigEndian : Bool
  pageSize : Nat
  salt1 : Nat
  salt2 : Nat
  chk1 : Nat
  chk2 : Nat
  deriving Repr

inductive WalHdrRes where
  | ok (h : WalHeader)
  | eof                 -- io.EOF: no usable WAL
  | err (msg : String)  -- other error (bad magic, bad version)
  deriving Repr

/-- `WALReader.ReadHeader` -/
def readWalHeader (w : ByteArray) : Except String WalHdrRes := do
  if w.size < 32 then return .eof      -- io.EOF (empty) or ErrUnexpectedEOF → EOF
  let magic := be32 w 0
  if magic ≠ walMagicLE ∧ magic ≠ walMagicBE then return .err "invalid wal header magic"
  let bigE := magic = walMagicBE
  let (c1, c2) ← walChecksum bigE 0 0 (w.extract 0 24)
  if c1 ≠ be32 w 24 ∨ c2 ≠ be32 w 28 then return .eof
  if be32 w 4 ≠ 3007000 then return .err "unsupported wal version"
  return .ok { bigEndian := bigE, pageSize := be32 w 8, salt1 := be32 w 16, salt2 := be32 w 20, chk1 := c1, chk2 := c2 }

/-- assoc-list map update (Go map assignment) -/
def mapSet {β} (m : List (Nat × β)) (k : Nat) (v : β) : List (Nat × β) :=
  if m.any (·.1 == k) then m.map fun e => if e.1 == k then (k, v) else e else m ++ [(k, v)]

/-- `readWALPageOffsets` after the fix of its error handling: any header problem means
    "no valid frames".  Returns (pgno → offset of last committed frame), last commit. -/
def walPageOffsets (w : ByteArray) (dbPageSize : Nat) : Except String (List (Nat × Nat) × Nat) := do
  match ← readWalHeader w with
  | .eof => return ([], 0)
  | .err _ => return ([], 0)
  | .ok h =>
    if h.pageSize ≠ dbPageSize then return ([], 0)    -- a WAL for another page size has no valid frames here
    let ps := h.pageSize
    let fsz := 24 + ps
    let nmax := (w.size - 32) / fsz
    let r ← (List.range nmax).foldlM (fun (st : (List (Nat × Nat) × List (Nat × Nat) × Nat × Nat × Nat × Bool)) i => do
      let (offs, tx, commit, c1, c2, stop) := st
      if stop then pure st else
      let off := 32 + i * fsz
      if be32 w (off + 8) ≠ h.salt1 ∨ be32 w (off + 12) ≠ h.salt2 then pure (offs, tx, commit, c1, c2, true) else
      let (d1, d2) ← walChecksum h.bigEndian c1 c2 (w.extract off (off + 8))
      let (d1, d2) ← walChecksum h.bigEndian d1 d2 (w.extract (off + 24) (off + fsz))
      if d1 ≠ be32 w (off + 16) ∨ d2 ≠ be32 w (off + 20) then pure (offs, tx, commit, c1, c2, true) else
      let tx := mapSet tx (be32 w off) off
      let cm := be32 w (off + 4)
      if cm = 0 then pure (offs, tx, commit, d1, d2, false)
      else pure (tx.foldl (fun o e => mapSet o e.1 e.2) offs, [], cm, d1, d2, false))
      ([], [], 0, h.chk1, h.chk2, false)
    return (r.1, r.2.2.1)

structure TxFrames where
  offsets : List (Nat × Nat)   -- pgno → offset of its last frame in the transaction
  commit : Nat
  chk1 : Nat
  chk2 : Nat
  endOffset : Nat
  deriving Repr

abbrev TxScan := List (Nat × Nat) × Nat × Nat × Option (Option TxFrames)

/-- one frame of the scan of `buildTxFrameOffsets`: a frame whose salts or running checksum do
    not match ends the scan without a transaction; a commit frame ends it with one -/
def txFrameStep (w : ByteArray) (pageSize walOffset : Nat) (bo : Option Bool) (salt1 salt2 : Nat)
    (st : TxScan) (i : Nat) : Except String TxScan := do
  let fsz := 24 + pageSize
  let (m, c1, c2, done) := st
  if done.isSome then pure st else
  let off := walOffset + i * fsz
  if be32 w (off + 8) ≠ salt1 ∨ be32 w (off + 12) ≠ salt2 then pure (m, c1, c2, some none) else
  match bo with
  | none => throw "panic runtime error: invalid memory address or nil pointer dereference (wal byte order)"
  | some bigE =>
    let (d1, d2) ← walChecksum bigE c1 c2 (w.extract off (off + 8))
    let (d1, d2) ← walChecksum bigE d1 d2 (w.extract (off + 24) (off + fsz))
    if d1 ≠ be32 w (off + 16) ∨ d2 ≠ be32 w (off + 20) then pure (m, c1, c2, some none) else
    let m := mapSet m (be32 w off) off
    let cm := be32 w (off + 4)
    if cm ≠ 0 then pure (m, d1, d2, some (some { offsets := m, commit := cm, chk1 := d1, chk2 := d2, endOffset := off + fsz }))
    else pure (m, d1, d2, none)

/-- `buildTxFrameOffsets`: scan from `walOffset` for one complete transaction.
    `none` = errNoTransaction. `bo = none` is Go's nil byte order (nil dereference). -/
def buildTxFrames (w : ByteArray) (pageSize walOffset : Nat) (bo : Option Bool) (salt1 salt2 chk1 chk2 : Nat) :
    Except String (Option TxFrames) := do
  let fsz := 24 + pageSize
  let nmax := if w.size ≥ walOffset + fsz then (w.size - walOffset) / fsz else 0
  let r ← (List.range nmax).foldlM (txFrameStep w pageSize walOffset bo salt1 salt2) ([], chk1, chk2, none)
  match r.2.2.2 with
  | some res => return res
  | none => return none    -- ran out of complete frames: short read → errNoTransaction

/-! ### independent reference for "what SQLite sees" in a WAL (Spec): the committed frames of the
    longest valid prefix -/

/-- last committed version of each page and the size from the last commit frame -/
def walView (w : ByteArray) (pageSize : Nat) : List (Nat × ByteArray) × Nat :=
  match walPageOffsets w pageSize with
  | .ok (offs, commit) =>
    match readWalHeader w with
    | .ok (.ok h) => if h.pageSize = pageSize then (offs.map fun e => (e.1, w.extract (e.2 + 24) (e.2 + 24 + pageSize)), commit) else ([], 0)
    | _ => ([], 0)
  | .error _ => ([], 0)

end LiteFSVerif.Sqlite
