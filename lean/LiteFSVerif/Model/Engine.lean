/-
  M7: the data path of db.go for one database, at byte level, as total functions.

  Files are byte arrays (absent = `none`), like the code (journal and WAL are re-read from disk at
  commit).  LTX files are kept at the decoded level (header fields, page list, post-apply
  checksum); the on-disk LTX encoding (LZ4 framing, file checksum) is not modelled — the harness
  checks it with `ltx.Decoder.Verify`.

  Each operation returns the new state and a result class (`Res`).  A Go panic is `Res.panic`;
  `Store.Exit(99)` is recorded in `exit` (the process would be gone: the driver answers `exited`).
-/
import LiteFSVerif.Base.BA
import LiteFSVerif.Model.Checksum
import LiteFSVerif.Model.Locks
import LiteFSVerif.Model.Sqlite

namespace LiteFSVerif.Engine
open LiteFSVerif LiteFSVerif.BA LiteFSVerif.Cks LiteFSVerif.Locks LiteFSVerif.Sqlite

structure LTXFile where
  minTxid : Nat
  maxTxid : Nat
  pre : Chk
  post : Chk
  commit : Nat
  pageSize : Nat
  walOffset : Nat := 0
  walSize : Nat := 0
  salt1 : Nat := 0
  salt2 : Nat := 0
  pages : List (Nat × ByteArray)
  old : Bool := false     -- modification time before the retention cut-off
  nodeID : Nat := 0       -- identity of the node that created the file (0 = not tracked)

structure WalSt where
  offset : Nat := 0
  bo : Option Bool := none
  salt1 : Nat := 0
  salt2 : Nat := 0
  chk1 : Nat := 0
  chk2 : Nat := 0
  frameOffsets : List (Nat × Nat) := []
  chksums : WalCks := []

/-- an `Export` / `WriteSnapshotTo` in progress in another goroutine (small-step: one lock call or
    the page copy per step) -/
structure BgSt where
  snapshot : Bool
  idx : Nat
  pc : Nat := 0
  pauseAt : Option (LockType × GS × GS) := none
  paused : Bool := false
  capTxid : Nat := 0
  capChk : Chk := 0
  capPageSize : Nat := 0
  capPageN : Nat := 0
  capOffsets : List (Nat × Nat) := []
  capWal : Bool := false

structure Eng where
  opened : Bool := false
  primary : Bool := false
  remoteHalt : Bool := false
  remoteHaltTxid : Nat := 0        -- TXID of the position the remote halt lock was granted at
  remoteOK : Bool := true        -- would the primary accept a transaction forwarded now (halt lock held there)
  backup : Bool := false         -- a backup client is configured
  hwm : Nat := 0                 -- high-water mark acknowledged by the backup service (volatile)
  hasDB : Bool := false
  pageSize : Nat := 0
  pageN : Nat := 0
  posTxid : Nat := 0
  posChk : Chk := 0
  walMode : Bool := false
  dbFile : Option ByteArray := none
  journal : Option ByteArray := none
  wal : Option ByteArray := none
  dirty : List Nat := []
  ck : Cache := {}
  w : WalSt := {}
  ltx : List LTXFile := []
  locks : Table := {}
  exit : Nat := 0
  compress : Bool := false
  held : Option Nat := none      -- internal guard set held by the driver's `whold` op
  bg : Option BgSt := none
  bgResult : String := ""

inductive Res where
  | ok | readonly | exists_ | enoent | eexist | err | busy | rejected | applyFailed
  | bool (b : Bool) | query (b : Bool) (st : GS)
  | panic (msg : String)
  deriving Repr

def Eng.writeable (s : Eng) : Bool := s.remoteHalt || s.primary

/-- result of an internal step: new state or a failure class -/
abbrev M := Except (Eng × Res)

def fail {α} (s : Eng) (r : Res) : M α := .error (s, r)

/-- a check of the code: continue if `p` holds, otherwise fail with result `r` (state `s`) -/
def ensure (s : Eng) (p : Prop) [Decidable p] (r : Res) : M Unit := if p then pure () else fail s r

def liftCk {α} (s : Eng) (x : Except String α) : M α :=
  match x with
  | .ok a => pure a
  | .error msg => if msg.startsWith "panic" then fail s (.panic msg) else fail s .err

/-- `writeDatabasePage(f, pgno, data)` (the caller has the file open) -/
def writeDatabasePage (s : Eng) (pgno : Nat) (data : ByteArray) : M Eng := do
  ensure s (¬ (s.pageSize = 0)) (.panic "panic assertion failed: page size required")
  ensure s (¬ (data.size ≠ s.pageSize)) .err
  ensure s (¬ (pgno = 0)) .err        -- `WriteAt` at offset `(0 - 1) * pageSize`: negative offset
  let f := s.dbFile.getD ByteArray.empty
  let f := writeAt f ((pgno - 1) * s.pageSize) data
  let s := { s with dbFile := some f }
  let ck ← liftCk s (s.ck.set s.pageSize pgno (pageChk pgno data))
  pure { s with ck := ck }

/-- `truncateDatabase(f, pageN)` -/
def truncateDatabaseFile (s : Eng) (pageN : Nat) : M Eng := do
  let f := s.dbFile.getD ByteArray.empty
  let s := { s with dbFile := some (truncate f (pageN * s.pageSize)) }
  let ck ← liftCk s (s.ck.resetAfter s.pageSize pageN)
  pure { s with ck := ck }

/-- `WriteDatabaseAt` (file handle already open) -/
def writeDatabaseAt (s : Eng) (offset : Nat) (data : ByteArray) : M Eng := do
  ensure s (¬ (!s.writeable)) .readonly
  if data.size = 0 then return s
  let s ← (if s.pageSize = 0 then do
      ensure s (¬ (offset ≠ 0)) .err
      match readDBHeader data with
      | .error _ => fail s .err
      | .ok h => pure { s with pageSize := h.pageSize }
    else pure s)
  ensure s (¬ (s.pageSize = 0)) (.panic "panic runtime error: integer divide by zero")
  ensure s (¬ (offset % s.pageSize ≠ 0)) .err
  ensure s (¬ (data.size ≠ s.pageSize)) .err
  let pgno := offset / s.pageSize + 1
  -- dirty pages are tracked in rollback mode, and for a rollback-journal transaction on a database
  -- still recorded as WAL (`InWriteTx()`: RESERVED held exclusively — the switch away from WAL)
  let s := if (!s.walMode || s.locks.state .reserved == .exclusive) && !s.dirty.contains pgno then { s with dirty := pgno :: s.dirty } else s
  writeDatabasePage s pgno data

/-- `TruncateDatabase(size)` -/
def truncateDatabase (s : Eng) (size : Nat) : M Eng := do
  ensure s (¬ (s.pageSize = 0)) .err
  ensure s (¬ (size % s.pageSize ≠ 0)) .err
  let pageN := size / s.pageSize
  ensure s (¬ (pageN ≠ s.pageN)) .err
  ensure s (¬ (s.dbFile.isNone)) .enoent
  truncateDatabaseFile s pageN

/-- `invalidateJournal(mode)`; modes: 0 DELETE, 1 TRUNCATE, 2 PERSIST -/
def invalidateJournal (s : Eng) (mode : Nat) : M Eng := do
  let s ← (match mode with
    | 0 => if s.journal.isNone then fail s .enoent else pure { s with journal := none }
    | 1 => if s.journal.isNone then fail s .enoent else pure { s with journal := some ByteArray.empty }
    | _ => match s.journal with
      | none => pure s
      | some j => pure { s with journal := some (writeAt j 0 (zeros 28)) })
  pure { s with dirty := [] }

def journalMagic : ByteArray := ByteArray.mk #[0xd9, 0xd5, 0x05, 0xf9, 0x20, 0xa1, 0x63, 0xd7]

def insertSorted (n : Nat) : List Nat → List Nat
  | [] => [n]
  | x :: xs => if n ≤ x then n :: x :: xs else x :: insertSorted n xs

def sortNat (l : List Nat) : List Nat := l.foldl (fun acc n => insertSorted n acc) []

/-- the ordering rule of `ltx.Encoder.EncodePage` -/
def encodePageOK (minTxid commit pageSize prev pgno : Nat) : Bool :=
  let lock := 1073741824 / pageSize + 1
  if pgno > commit || pgno = 0 || pgno = lock then false
  else if minTxid = 1 then
    if prev = 0 then pgno = 1
    else if prev = lock - 1 then pgno = prev + 2
    else pgno = prev + 1
  else prev < pgno

/-- `ltx.Header.Validate` as far as the engine can violate it -/
def headerOK (h : LTXFile) : Bool :=
  validPageSize h.pageSize && h.minTxid ≠ 0 && h.maxTxid ≠ 0 && h.minTxid ≤ h.maxTxid &&
  (if h.salt1 ≠ 0 || h.salt2 ≠ 0 then h.walOffset ≠ 0 && h.walSize ≠ 0 else true) &&
  ((h.walOffset ≠ 0) == (h.walSize ≠ 0)) &&
  (if h.minTxid = 1 then h.pre = 0 else h.pre ≠ 0 && h.pre &&& flag ≠ 0)

/-- add a file to the log directory (rename over an existing name replaces it) -/
def addLTX (l : List LTXFile) (f : LTXFile) : List LTXFile :=
  let l := l.filter fun g => !(g.minTxid == f.minTxid && g.maxTxid == f.maxTxid)
  let rec ins : List LTXFile → List LTXFile
    | [] => [f]
    | g :: gs => if f.minTxid < g.minTxid || (f.minTxid == g.minTxid && f.maxTxid < g.maxTxid) then f :: g :: gs else g :: ins gs
  ins l

/-- `CommitJournal(mode)` once the journal header is known to be valid and the page size known -/
def commitJournalValid (s : Eng) (mode : Nat) : M Eng := do
  let txid := s.posTxid + 1
  let dbf ← (match s.dbFile with | none => fail s .err | some f => pure f)
  ensure s (¬ (dbf.size < 32)) .err
  let commit := be32 dbf 28
  let pgnos := sortNat (s.dirty.filter (· ≤ commit))
  let hdr : LTXFile := { minTxid := txid, maxTxid := txid, pre := s.posChk, post := 0, commit, pageSize := s.pageSize, pages := [] }
  ensure s (¬ (!headerOK hdr)) .err
  let s := { s with w := { s.w with chksums := [] } }
  let lock ← liftCk s (lockPgno s.pageSize)
  -- copy pages
  let (pages, _, walMode) ← pgnos.foldlM (fun (st : List (Nat × ByteArray) × Nat × Bool) pgno => do
    let (pages, prev, wm) := st
    if pgno = lock then pure st else
    let off := (pgno - 1) * s.pageSize
    ensure s (¬ (dbf.size < off + s.pageSize)) .err
    let buf := dbf.extract off (off + s.pageSize)
    ensure s (¬ (!encodePageOK txid commit s.pageSize prev pgno)) .err
    let wm := if pgno = 1 && getD buf 18 == 2 && getD buf 19 == 2 then true else wm
    let (c, ok) ← liftCk s (s.ck.pageChecksum s.w.chksums s.pageSize pgno commit [])
    ensure s (¬ (!ok)) .err
    ensure s (¬ (pageChk pgno buf != c)) .err
    pure (pages ++ [(pgno, buf)], pgno, wm)) ([], 0, false)
  -- remove all checksums after the last page
  let ck ← liftCk s ((List.range (s.ck.pages.length - commit)).foldlM (fun (c : Cache) i =>
      let pgno := commit + i + 1
      if pgno = lock then pure c else c.set s.pageSize pgno 0) s.ck)
  let s := { s with ck := ck }
  let (ck, post) ← liftCk s (s.ck.checksum s.w.chksums s.pageSize commit [])
  let s := { s with ck := ck }
  -- under a remote halt lock the file is sent to the primary first; a refusal fails the commit
  ensure s (¬ (s.remoteHalt ∧ !s.remoteOK)) .err
  let file := { hdr with post := post, pages := pages }
  let s := { s with ltx := addLTX s.ltx file }
  let s ← invalidateJournal s mode
  pure { s with pageN := commit, walMode := walMode, posTxid := txid, posChk := post }

/-- `CommitJournal(mode)` -/
def commitJournal (s : Eng) (mode : Nat) : M Eng := do
  ensure s (¬ (!s.writeable)) .readonly
  -- isJournalHeaderValid
  let j ← (match s.journal with | none => fail s .enoent | some j => pure j)
  ensure s (¬ (j.size < 8)) .err
  if j.extract 0 8 != journalMagic then return ← invalidateJournal s mode
  if s.pageSize = 0 then return ← invalidateJournal s mode
  commitJournalValid s mode

/-- `WriteJournalAt` (journal handle open) -/
def writeJournalAt (s : Eng) (offset : Nat) (data : ByteArray) : M Eng := do
  ensure s (¬ (!s.writeable)) .readonly
  let s := if offset = 0 && data.size ≥ 28 && s.pageSize = 0 then { s with pageSize := be32 data 24 } else s
  let s ← (if offset = 0 && data.size = 28 && isZero data then commitJournal s 2 else pure s)
  match s.journal with
  | none => pure { s with journal := some (writeAt ByteArray.empty offset data) }   -- unlinked but open handle: not reachable here
  | some j => pure { s with journal := some (writeAt j offset data) }

/-- `WriteWALAt` (WAL handle open) -/
def writeWALAt (s : Eng) (offset : Nat) (data : ByteArray) : M Eng := do
  ensure s (¬ (!s.writeable)) .readonly
  if data.size = 0 then return s
  ensure s (¬ (s.pageSize = 0)) (.panic "panic assertion failed: page size cannot be zero for wal write")
  let frameSize := 24 + s.pageSize
  let excl := s.locks.state .write == .exclusive
  let put (s : Eng) : Eng := { s with wal := some (writeAt (s.wal.getD ByteArray.empty) offset data) }
  if offset = 0 then
    ensure s (¬ (data.size ≠ 32)) .err
    ensure s (¬ (!excl)) .err
    let magic := be32 data 0
    ensure s (¬ (magic ≠ walMagicLE ∧ magic ≠ walMagicBE)) .err
    let w : WalSt := { offset := 32, bo := some (magic = walMagicBE), salt1 := be32 data 16, salt2 := be32 data 20,
                       chk1 := be32 data 24, chk2 := be32 data 28, frameOffsets := [], chksums := [] }
    return put { s with w := w }
  -- frame header (full or partial) or frame data: same guards
  ensure s (¬ (!excl)) .err
  ensure s (¬ (offset < s.w.offset)) .err
  let _ := frameSize
  return put s

/-- `TruncateWAL(size)` -/
def truncateWAL (s : Eng) (size : Nat) : M Eng := do
  ensure s (¬ (size ≠ 0)) .err
  ensure s (¬ (s.wal.isNone)) .enoent
  pure { s with wal := some ByteArray.empty, w := { s.w with frameOffsets := [], chksums := [] } }

/-- `RemoveWAL` -/
def removeWAL (s : Eng) : M Eng := do
  ensure s (¬ (s.wal.isNone)) .enoent
  pure { s with wal := none, w := { s.w with frameOffsets := [], chksums := [] } }

/-- `readPage`: latest version of a page before the current transaction -/
def readPage (s : Eng) (dbf wal : ByteArray) (pgno : Nat) : M ByteArray :=
  match s.w.frameOffsets.lookup pgno with
  | some off =>
    if wal.size < off + 24 + s.pageSize then fail s .err else pure (wal.extract (off + 24) (off + 24 + s.pageSize))
  | none =>
    let off := (pgno - 1) * s.pageSize
    if dbf.size < off + s.pageSize then fail s .err else pure (dbf.extract off (off + s.pageSize))

/-- body of `CommitWAL` (errors here are fatal: the deferred handler calls `Store.Exit(99)`) -/
def commitWALBody (s : Eng) : M Eng := do
  let wal ← (match s.wal with | none => fail s .err | some w => pure w)
  let tx ← liftCk s (buildTxFrames wal s.pageSize s.w.offset s.w.bo s.w.salt1 s.w.salt2 s.w.chk1 s.w.chk2)
  match tx with
  | none => return s      -- errNoTransaction
  | some tx =>
    let dbf ← (match s.dbFile with | none => fail s .err | some f => pure f)
    let txid := s.posTxid + 1
    let commit := tx.commit
    let prevPageN := s.pageN
    let hdr : LTXFile := { minTxid := txid, maxTxid := txid, pre := s.posChk, post := 0, commit, pageSize := s.pageSize,
                           walOffset := s.w.offset, walSize := tx.endOffset - s.w.offset, salt1 := s.w.salt1, salt2 := s.w.salt2, pages := [] }
    ensure s (¬ (!headerOK hdr)) .err
    let pgnos := sortNat (tx.offsets.map (·.1))
    let lock ← liftCk s (lockPgno s.pageSize)
    let (pages, newCks, _) ← pgnos.foldlM (fun (st : List (Nat × ByteArray) × List (Nat × Chk) × Nat) pgno => do
      let (pages, nc, prev) := st
      if pgno = lock then pure st else
      let off := (tx.offsets.lookup pgno).getD 0
      let data := wal.extract (off + 24) (off + 24 + s.pageSize)
      ensure s (¬ (!encodePageOK txid commit s.pageSize prev pgno)) .err
      let _ ← liftCk s (s.ck.pageChecksum s.w.chksums s.pageSize pgno s.pageN [])
      pure (pages ++ [(pgno, data)], mapSet nc pgno (pageChk pgno data), pgno)) ([], [], 0)
    -- remove checksum of truncated pages
    let newCks ← (List.range (prevPageN - commit)).foldlM (fun (nc : List (Nat × Chk)) i => do
      let pgno := commit + 1 + i
      if pgno = lock then pure nc else
      let page ← readPage s dbf wal pgno
      let (prevChk, _) ← liftCk s (s.ck.pageChecksum s.w.chksums s.pageSize pgno s.pageN [])
      ensure s (¬ (pageChk pgno page != prevChk)) .err
      pure (mapSet nc pgno 0)) newCks
    let (ck, post) ← liftCk s (s.ck.checksum s.w.chksums s.pageSize commit newCks)
    let s := { s with ck := ck }
    ensure s (¬ (s.remoteHalt ∧ !s.remoteOK)) .err
    ensure s (¬ (!s.writeable)) .err
    let file := { hdr with post := post, pages := pages }
    let fo := tx.offsets.foldl (fun m e => mapSet m e.1 e.2) s.w.frameOffsets
    let cks := newCks.foldl (fun (m : WalCks) e => mapSet m e.1 ((m.lookup e.1).getD [] ++ [e.2])) s.w.chksums
    pure { s with ltx := addLTX s.ltx file, pageN := commit, posTxid := txid, posChk := post,
                  w := { s.w with frameOffsets := fo, chksums := cks, offset := tx.endOffset, chk1 := tx.chk1, chk2 := tx.chk2 } }

/-- `CommitWAL`: on error the store exits with code 99 -/
def commitWAL (s : Eng) : Eng × Bool :=
  match commitWALBody s with
  | .ok s' => (s', true)
  | .error (s', .panic _) => ({ s' with exit := if s'.exit = 0 then 98 else s'.exit }, false)  -- marker: panic escapes (handled by caller)
  | .error (s', _) => ({ s' with exit := if s'.exit = 0 then 99 else s'.exit }, false)

/-- `Unlock(owner, lockTypes)` -/
def unlock (s : Eng) (owner : Nat) (ls : List LockType) : Eng × Res :=
  match s.locks.find owner with
  | none => (s, .ok)
  | some i =>
    let (s, panicMsg) :=
      if ls.contains .write && s.locks.guardState .write i == .exclusive then
        match commitWALBody s with
        | .ok s' => (s', none)
        | .error (s', .panic m) => (s', some m)
        | .error (s', _) => ({ s' with exit := if s'.exit = 0 then 99 else s'.exit }, none)
      else (s, none)
    match panicMsg with
    | some m => (s, .panic m)
    | none => ({ s with locks := s.locks.unlockIdx i ls }, .ok)

/-- `UnlockSHM(owner)` (the shm handle is flushed / closed): a WAL commit if the owner holds
    WRITE exclusively, then every guard on the shm file is released -/
def unlockSHM (s : Eng) (owner : Nat) : Eng × Res :=
  match s.locks.find owner with
  | none => (s, .ok)
  | some i =>
    let (s, panicMsg) :=
      if s.locks.guardState .write i == .exclusive then
        match commitWALBody s with
        | .ok s' => (s', none)
        | .error (s', .panic m) => (s', some m)
        | .error (s', _) => ({ s' with exit := if s'.exit = 0 then 99 else s'.exit }, none)
      else (s, none)
    match panicMsg with
    | some m => (s, .panic m)
    | none => ({ s with locks := s.locks.unlockIdx i [.write, .ckpt, .recover, .read0, .read1, .read2, .read3, .read4, .dms] }, .ok)

/-- `UnlockDatabase(owner)` (the database handle is flushed / closed) -/
def unlockDatabase (s : Eng) (owner : Nat) : Eng × Res :=
  match s.locks.find owner with
  | none => (s, .ok)
  | some i => ({ s with locks := s.locks.unlockIdx i [.pending, .shared, .reserved] }, .ok)

/-- `Drop` (behind the mount's primary-only gate) -/
def drop (s : Eng) : M Eng := do
  ensure s (¬ (!s.primary)) .readonly
  let txid := s.posTxid + 1
  let hdr : LTXFile := { minTxid := txid, maxTxid := txid, pre := s.posChk, post := flag, commit := 0, pageSize := s.pageSize, pages := [] }
  ensure s (¬ (!headerOK hdr)) .err
  ensure s (¬ (!s.writeable)) .err
  pure { s with ltx := addLTX s.ltx hdr, dbFile := none, journal := none, wal := none,
                walMode := false, pageN := 0, posTxid := txid, posChk := flag,
                w := { s.w with offset := 0, chk1 := 0, chk2 := 0, frameOffsets := [], chksums := [] } }

/-- `CheckpointNoLock` -/
def checkpointNoLock (s : Eng) : M Eng := do
  if s.dbFile.isNone then return s
  if s.wal.isNone then return s
  let wal := s.wal.getD ByteArray.empty
  let (offs, commit) ← liftCk s (walPageOffsets wal s.pageSize)
  let s ← (if offs.isEmpty then pure s else do
    let s ← offs.foldlM (fun (s : Eng) e => writeDatabasePage s e.1 (wal.extract (e.2 + 24) (e.2 + 24 + s.pageSize))) s
    let s ← truncateDatabaseFile s commit
    pure { s with pageN := commit })
  let s ← truncateWAL s 0
  pure { s with w := { s.w with chksums := [] } }

/-- `Checkpoint` = write-lock bracket around `CheckpointNoLock` -/
def checkpoint (s : Eng) : M Eng := do
  match s.locks.tryAcquireWriteLock s.walMode with
  | (t, none) => fail { s with locks := t } .busy
  | (t, some i) =>
    let s := { s with locks := t }
    match checkpointNoLock s with
    | .ok s' => pure { s' with locks := s'.locks.unlockAll i }
    | .error (s', r) => fail { s' with locks := s'.locks.unlockAll i } r

/-- the logical image as `Export` / `WriteSnapshotTo` read it: database file overlaid with the
    frames `wal.frameOffsets` points to; `none` on a short read -/
def logicalPages (s : Eng) : Option (List ByteArray) :=
  let dbf := s.dbFile.getD ByteArray.empty
  let wal := s.wal.getD ByteArray.empty
  (List.range s.pageN).mapM fun i =>
    let pgno := i + 1
    match s.w.frameOffsets.lookup pgno with
    | some off => if wal.size < off + 24 + s.pageSize then none else some (wal.extract (off + 24) (off + 24 + s.pageSize))
    | none => let off := i * s.pageSize
              if dbf.size < off + s.pageSize then none else some (dbf.extract off (off + s.pageSize))

/-- `WriteLTXFileAt`: position check, then (file-level validity is the harness's business) add to
    the log; a snapshot replaces the whole log -/
def writeLTXFile (s : Eng) (f : LTXFile) : M Eng := do
  ensure s (f.minTxid = 1 ∨ f.minTxid = s.posTxid + 1) .rejected
  ensure s (f.minTxid = 1 ∨ f.pre = s.posChk) .rejected
  pure { s with ltx := addLTX (if f.minTxid = 1 then [] else s.ltx) f }

/-- `ApplyLTXNoLock(path, fatalOnError)` -/
def applyLTX (s : Eng) (f : LTXFile) (fatal : Bool) : M Eng := do
  let s := if s.pageSize = 0 then { s with pageSize := f.pageSize } else s
  let s := if f.commit > 0 && s.dbFile.isNone then { s with dbFile := some ByteArray.empty } else s
  let wrap {α} (x : M α) : M α := match x with
    | .ok a => .ok a
    | .error (s', .panic m) => .error (s', .panic m)
    | .error (s', _) => .error ({ s' with exit := if fatal && s'.exit = 0 then 99 else s'.exit }, .applyFailed)
  wrap (do
    let (s, wm) ← f.pages.foldlM (fun (st : Eng × Bool) p => do
      let (s, wm) := st
      ensure s (¬ (p.2.size ≠ f.pageSize)) .err
      let wm := if p.1 = 1 then (getD p.2 18 == 2 && getD p.2 19 == 2) else wm
      let s ← writeDatabasePage s p.1 p.2
      pure (s, wm)) (s, s.walMode)
    let (s, wm) ← (if f.commit > 0 then do
        let s ← truncateDatabaseFile s f.commit
        pure (s, wm)
      else pure ({ s with dbFile := none, journal := none, wal := none }, false))
    let s := { s with pageN := f.commit, walMode := wm }
    let (ck, chk) ← liftCk s (s.ck.checksum s.w.chksums s.pageSize f.commit [])
    let s := { s with ck := ck }
    ensure s (¬ (chk ≠ f.post)) .err
    pure { s with posTxid := f.maxTxid, posChk := f.post })

/-- the stream / forwarding path: write-lock bracket, `WriteLTXFileAt`, `ApplyLTXNoLock(fatal)` -/
def receiveLTX (s : Eng) (f : LTXFile) : M Eng := do
  match s.locks.tryAcquireWriteLock s.walMode with
  | (t, none) => fail { s with locks := t } .busy
  | (t, some i) =>
    let s := { s with locks := t }
    let r := (do let s ← writeLTXFile s f; applyLTX s f true)
    match r with
    | .ok s' => pure { s' with locks := s'.locks.unlockAll i }
    | .error (s', r) => fail { s' with locks := s'.locks.unlockAll i } r

/-- the forwarding endpoint's path (`handlePostTx`): no lock bracket of its own -/
def receiveTx (s : Eng) (f : LTXFile) : M Eng := do
  let s ← writeLTXFile s f
  applyLTX s f true

/-- `importToLTX` + `Import` -/
def importDB (s : Eng) (data : ByteArray) : M Eng := do
  ensure s (¬ (!s.primary)) .readonly
  match s.locks.tryAcquireWriteLock s.walMode with
  | (t, none) => fail { s with locks := t } .busy
  | (t, some i) =>
    let s := { s with locks := t }
    let body : M Eng := do
      -- importToLTX: the whole input is read and converted before journal or WAL are touched
      let h ← (match readDBHeader data with | .error _ => fail s .err | .ok h => pure h)
      ensure s (¬ (s.pageSize ≠ 0 ∧ h.pageSize ≠ s.pageSize)) .err
      let txid := s.posTxid + 1
      let hdr : LTXFile := { minTxid := txid, maxTxid := txid, pre := s.posChk, post := 0, commit := h.pageN, pageSize := h.pageSize, pages := [] }
      ensure s (¬ (!headerOK hdr)) .err
      let lock := 1073741824 / h.pageSize + 1
      let (pages, chk, _) ← (List.range h.pageN).foldlM (fun (st : List (Nat × ByteArray) × Chk × Nat) i => do
        let (pages, chk, prev) := st
        let pgno := i + 1
        ensure s (¬ (data.size < (i + 1) * h.pageSize)) .err
        if pgno = lock then pure st else
        let buf := data.extract (i * h.pageSize) ((i + 1) * h.pageSize)
        let buf := if pgno = 1 then writeAt (writeAt buf 24 (zeros 4)) 40 (zeros 4) else buf
        ensure s (¬ (!encodePageOK txid h.pageN h.pageSize prev pgno)) .err
        pure (pages ++ [(pgno, buf)], flag ||| (chk ^^^ pageChk pgno buf), pgno)) ([], 0, 0)
      -- Close: trailer validation (post-apply checksum must carry the flag; empty database ⇒ flag only)
      ensure s (¬ (chk = 0)) .err
      let file := { hdr with post := chk, pages := pages }
      let s := { s with ltx := addLTX s.ltx file }
      let s ← invalidateJournal s 2
      let s ← (if s.wal.isSome then truncateWAL s 0 else pure s)
      applyLTX s file true
    match body with
    | .ok s' => pure { s' with locks := s'.locks.unlockAll i }
    | .error (s', r) => fail { s' with locks := s'.locks.unlockAll i } r

/-- one step of a background `Export` / `WriteSnapshotTo` -/
inductive BgStep where
  | lock (l : LockType) (req : Nat)     -- 0 = RLock, 1 = Lock, 2 = Unlock
  | capture
  | read
  deriving Repr, DecidableEq

/-- `WriteSnapshotTo`: the write lock is released right after the capture (a later self-check
    of the checksum catches interference); `Export` (after 068dfa9): the write lock is kept until
    the checkpoint and read locks are held -/
def bgSeq (snapshot wal : Bool) : List BgStep :=
  let head : List BgStep := [.lock .pending 0, .lock .shared 0, .lock .pending 2] ++ (if wal then [.lock .write 1] else []) ++ [.capture]
  let reads : List BgStep := [.lock .ckpt 0, .lock .recover 0, .lock .read0 0, .lock .read1 0, .lock .read2 0, .lock .read3 0, .lock .read4 0]
  if snapshot then head ++ [.lock .write 2] ++ reads ++ [.lock .ckpt 2, .lock .recover 2, .read]
  else head ++ reads ++ [.lock .write 2, .read]

/-- pages as the background op reads them: captured size and WAL offsets, current file contents -/
def bgPages (s : Eng) (b : BgSt) : Option (List ByteArray) :=
  let dbf := s.dbFile.getD ByteArray.empty
  let wal := s.wal.getD ByteArray.empty
  if s.dbFile.isNone && b.capPageN > 0 then none else
  if !b.capOffsets.isEmpty && s.wal.isNone then none else
  (List.range b.capPageN).mapM fun i =>
    match b.capOffsets.lookup (i + 1) with
    | some off => if wal.size < off + 24 + b.capPageSize then none else some (wal.extract (off + 24) (off + 24 + b.capPageSize))
    | none => let off := i * b.capPageSize
              if dbf.size < off + b.capPageSize then none else some (dbf.extract off (off + b.capPageSize))

/-- `EnforceRetention(minTime)`: every file older than the cut-off is removed, except the newest
    file of the listing and, with a backup client, every file at or above the high-water mark -/
def enforceRetention (s : Eng) : Eng :=
  let n := s.ltx.length
  { s with ltx := (s.ltx.zipIdx.filter fun p => !(p.1.old && p.2 + 1 ≠ n && (!s.backup || p.1.maxTxid < s.hwm))).map (·.1) }

end LiteFSVerif.Engine
