/-
  A model of the part of Go's `context` package that LiteFS's primary-scoped context
  (`store.go`: `primaryCtx`, `newPrimaryCtx`) relies on, and of that context itself.

  Why it exists: `DB.AcquireWriteLock`, `RWMutexGuard.Lock` / `RLock` and `DB.WaitPosExact` return
  `context.Cause(ctx)` when `ctx` is done.  `context.Cause` does not call `ctx.Err()`: it looks the
  nearest *standard* cancelable context up through `ctx.Value(&cancelCtxKey)` and returns the cause
  recorded there — `nil` while that context has not been canceled.  A custom context type that
  has its own `Done` / `Err` but delegates `Value` to its parent (as `primaryCtx` does) is therefore
  done with a nil cause whenever its parent is a live cancelable context (an HTTP request's
  context).  The lock wait then returned a nil error without the lock (fix 55d1f52).

  Contexts are built by a script (`Cmd`), the mutable facts live in a `World`, and `settle` runs
  the propagation goroutines (`propagateCancel` for standard children of a custom parent, the
  goroutine inside `newPrimaryCtx`) to quiescence.  `goctx` suite: the same scripts run on real
  contexts (`context.WithCancelCause`, `litefs.VerifNewPrimaryCtx`) and the observations are diffed.
-/
namespace LiteFSVerif.GoCtx

inductive Err where
  | canceled | leaseExpired | user (n : Nat)
  deriving DecidableEq, Repr, Inhabited

def Err.toString : Err → String
  | .canceled => "canceled" | .leaseExpired => "lease-expired" | .user n => s!"user{n}"

/-- how a context value was made; `parent` is an index into the list of contexts made so far
    (`none` = `context.Background()`) -/
inductive Kind where
  | cancel                    -- context.WithCancelCause(parent)
  | primaryOld                -- primaryCtx as before fix 55d1f52: wraps the parent directly
  | primary (inner : Nat)     -- primaryCtx after the fix: wraps `inner`, a WithCancelCause child of the parent made by newPrimaryCtx itself
  deriving DecidableEq, Repr

structure Node where
  kind : Kind
  parent : Option Nat
  deriving DecidableEq, Repr

structure World where
  nodes : List Node := []
  cancelled : List (Nat × Err × Err) := []   -- standard cancelable contexts that were canceled: (error, cause) recorded by the first cancel
  closed : List Nat := []              -- primary contexts whose `primaryCh` was closed (the node lost its lease)
  deriving Repr

def World.cause? (w : World) (i : Nat) : Option Err := (w.cancelled.lookup i).map (·.2)
def World.err? (w : World) (i : Nat) : Option Err := (w.cancelled.lookup i).map (·.1)

/-- `ctx.Value(&cancelCtxKey)`: the nearest standard cancelable context, seen through custom
    contexts that delegate `Value` to their parent.  `fuel` bounds the walk (parents precede). -/
def valueCancel (w : World) : Nat → Option Nat → Option Nat
  | 0, _ => none
  | _, none => none
  | fuel + 1, some i =>
    match w.nodes[i]? with
    | none => none
    | some n =>
      match n.kind with
      | .cancel => some i
      | .primaryOld => valueCancel w fuel n.parent
      | .primary inner => valueCancel w fuel (some inner)

/-- `ctx.Err()` -/
def err (w : World) : Nat → Option Nat → Option Err
  | 0, _ => none
  | _, none => none
  | fuel + 1, some i =>
    match w.nodes[i]? with
    | none => none
    | some n =>
      match n.kind with
      | .cancel => w.err? i
      | .primaryOld => if w.closed.contains i then some .leaseExpired else err w fuel n.parent
      | .primary inner => if w.closed.contains i then some .leaseExpired else err w fuel (some inner)

def World.fuel (w : World) : Nat := w.nodes.length + 1

def World.err (w : World) (i : Nat) : Option Err := GoCtx.err w w.fuel (some i)
def World.done (w : World) (i : Nat) : Bool := (w.err i).isSome

/-- `context.Cause(ctx)` -/
def World.cause (w : World) (i : Nat) : Option Err :=
  match valueCancel w w.fuel (some i) with
  | some c => w.cause? c
  | none => w.err i

/-- `cancelCtx.cancel(err, cause)` of a standard cancelable context: the first call wins (a nil
    cause is recorded as the error itself by the callers below) -/
def World.cancel (w : World) (i : Nat) (e cause : Err) : World :=
  if (w.cancelled.lookup i).isSome then w else { w with cancelled := (i, e, cause) :: w.cancelled }

/-- one round of the propagation goroutines, in creation order (parents first):
    * a standard child whose parent is done is canceled with the parent's error and the parent's
      cause (or, when that is nil, the parent's error) — `propagateCancel`;
    * the inner context of a fixed primary context is canceled with `ErrLeaseExpired` once the
      primary channel is closed — the goroutine in `newPrimaryCtx`. -/
def settleOnce (w : World) : World :=
  (List.range w.nodes.length).foldl (fun w i =>
    match w.nodes[i]? with
    | none => w
    | some n =>
      let w := match n.kind, n.parent with
        | .cancel, some p =>
          (match w.err p with
           | some e => w.cancel i e ((w.cause p).getD e)
           | none => w)
        | _, _ => w
      match n.kind with
      | .primary inner => if w.closed.contains i then w.cancel inner .canceled .leaseExpired else w
      | _ => w) w

/-- creation order = topological order and every rule only looks upwards, so one round per
    level suffices; `nodes.length` rounds are always enough -/
def settle (w : World) : World := (List.range w.nodes.length).foldl (fun w _ => settleOnce w) w

inductive Cmd where
  | mkCancel (parent : Option Nat)
  | mkPrimaryOld (parent : Option Nat)
  | mkPrimary (parent : Option Nat)     -- makes two nodes: the inner cancelable context, then the primary context
  | cancel (i : Nat) (cause : Option Nat)
  | close (i : Nat)
  deriving Repr

def World.validParent (w : World) : Option Nat → Bool
  | none => true
  | some p => p < w.nodes.length

def step (w : World) : Cmd → Option World
  | .mkCancel p => if w.validParent p then some (settle { w with nodes := w.nodes ++ [⟨.cancel, p⟩] }) else none
  | .mkPrimaryOld p => if w.validParent p then some (settle { w with nodes := w.nodes ++ [⟨.primaryOld, p⟩] }) else none
  | .mkPrimary p =>
    if w.validParent p then
      let inner := w.nodes.length
      some (settle { w with nodes := w.nodes ++ [⟨.cancel, p⟩, ⟨.primary inner, p⟩] })
    else none
  | .cancel i c =>
    match w.nodes[i]? with
    | some ⟨.cancel, _⟩ => some (settle (w.cancel i .canceled (match c with | some n => .user n | none => .canceled)))
    | _ => none
  | .close i =>
    match w.nodes[i]? with
    | some ⟨.primaryOld, _⟩ | some ⟨.primary _, _⟩ =>
      some (settle { w with closed := if w.closed.contains i then w.closed else i :: w.closed })
    | _ => none

/-- what a blocked `Lock(ctx)` / `AcquireWriteLock(ctx)` returns when `ctx` is done before the
    lock is free: `context.Cause(ctx)`; `none` is Go's nil error — the caller believes it holds
    the lock -/
def lockWaitError (w : World) (ctx : Nat) : Option Err := w.cause ctx

end LiteFSVerif.GoCtx
