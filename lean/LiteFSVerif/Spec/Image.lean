/-
  Spec: the logical database image at page-checksum level, the LTX "apply" function, the
  from-scratch checksum, and the chain predicate on a transaction log.  Independent of the engine
  model (no import of Model/Engine).
-/
namespace LiteFSVerif.Spec

abbrev Chk := UInt64
def flag : Chk := 0x8000000000000000

/-- an image: checksum of page `i+1` at index `i` (0 for the lock page) -/
abbrev Img := List Chk

/-- decoded transaction file at checksum level -/
structure Tx where
  minTxid : Nat
  maxTxid : Nat
  pre : Chk
  post : Chk
  commit : Nat
  pages : List (Nat × Chk)
  deriving Repr

/-- from-scratch checksum: XOR over all pages except the lock page, with the flag -/
def checksum (lock : Nat) (img : Img) : Chk :=
  ((img.zipIdx.filter fun p => p.2 + 1 ≠ lock).foldl (fun acc p => acc ^^^ p.1) 0) ||| flag

/-- apply a transaction file to an image: write its pages, resize to `commit` (holes are 0) -/
def apply (img : Img) (tx : Tx) : Img :=
  (List.range tx.commit).map fun i => (tx.pages.lookup (i + 1)).getD (img.getD i 0)

/-- page constraints of a transaction file -/
def pagesOK (lock : Nat) (tx : Tx) : Bool :=
  tx.pages.all (fun p => 1 ≤ p.1 && p.1 ≤ tx.commit && p.1 ≠ lock) &&
  (tx.pages.zip (tx.pages.drop 1)).all fun q => q.1.1 < q.2.1

/-- the log is one chain -/
def chainOK : List Tx → Bool
  | [] => true
  | [_] => true
  | a :: b :: rest => b.minTxid == a.maxTxid + 1 && b.pre == a.post && chainOK (b :: rest)

end LiteFSVerif.Spec
