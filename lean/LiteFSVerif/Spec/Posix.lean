/-
  Independent specification: POSIX-style byte-range lock rules between distinct
  owners on ONE lock, with upgrade and downgrade.  The abstract state is only
  "what does each owner hold".
-/
import LiteFSVerif.Base.RWCell

namespace LiteFSVerif.Posix
open LiteFSVerif

abbrev Holders := List GS

/-- every owner other than `i` satisfies `p` -/
def others (h : Holders) (i : Nat) (p : GS → Bool) : Bool :=
  (List.range h.length).all fun j => j == i || p (h.getD j .unlocked)

/-- an exclusive lock is granted iff no *other* owner holds anything -/
def canExcl (h : Holders) (i : Nat) : Bool := others h i (· == .unlocked)
/-- a shared lock is granted iff no *other* owner holds it exclusively -/
def canShared (h : Holders) (i : Nat) : Bool := others h i (· != .exclusive)

def tryExcl (h : Holders) (i : Nat) : Holders × Bool :=
  if canExcl h i then (h.set i .exclusive, true) else (h, false)
def tryShared (h : Holders) (i : Nat) : Holders × Bool :=
  if canShared h i then (h.set i .shared, true) else (h, false)
def release (h : Holders) (i : Nat) : Holders := h.set i .unlocked

/-- the lock as a whole: nobody / some shared / one exclusive -/
def state (h : Holders) : GS :=
  if h.contains .exclusive then .exclusive else if h.contains .shared then .shared else .unlocked

open RWMutex in
/-- the specification of every operation of one lock, on holders only -/
def specStep (h : Holders) : Op → Holders × Res
  | .tryLock i  => ((tryExcl h i).1, .bool (tryExcl h i).2)
  | .tryRLock i => ((tryShared h i).1, .bool (tryShared h i).2)
  | .unlock i   => (release h i, .unit)
  | .canLock i  => (h, .query (canExcl h i) (state h))
  | .canRLock i => (h, .bool (canShared h i))

end LiteFSVerif.Posix
