/-
  Spec: the twelve advisory locks of one database as POSIX byte-range locks between owners, the
  checkpoint gate, and LiteFS's internal write-lock bracket.  Built on Spec/Posix only (no
  generated code, no engine model).
-/
import LiteFSVerif.Spec.Posix

namespace LiteFSVerif.SpecLocks
open LiteFSVerif LiteFSVerif.Posix LiteFSVerif.RWMutex

def lockNames : List String :=
  ["PENDING", "RESERVED", "SHARED", "WRITE", "CKPT", "RECOVER", "READ0", "READ1", "READ2", "READ3", "READ4", "DMS"]

def lockIdx (n : String) : Option Nat := lockNames.idxOf? n

structure T where
  owners : List Nat := []                 -- owner ids; position = holder index in every lock
  locks : List Holders := List.replicate 12 []
  deriving Repr

def T.find (t : T) (o : Nat) : Option Nat := t.owners.idxOf? o

def T.add (t : T) (o : Nat) : T × Nat :=
  ({ owners := t.owners ++ [o], locks := t.locks.map (· ++ [.unlocked]) }, t.owners.length)

def T.ensure (t : T) (o : Nat) : T × Nat := match t.find o with | some i => (t, i) | none => t.add o

def T.h (t : T) (l : Nat) : Holders := t.locks.getD l []
def T.set (t : T) (l : Nat) (h : Holders) : T := { t with locks := t.locks.set l h }

def T.stepOn (t : T) (l : Nat) (op : Op) : T × Res :=
  let r := specStep (t.h l) op
  (t.set l r.1, r.2)

/-- fresh pseudo-owner ids for LiteFS's own guard sets -/
def internalBase : Nat := 1000000

def tryLocks (t : T) (o : Nat) (ls : List Nat) : T × Bool :=
  let (t, i) := t.ensure o
  ls.foldl (fun (st : T × Bool) l =>
    if !st.2 then st else
    -- checkpoint gate (CKPT = 4, WRITE = 3)
    if l = 4 && state (st.1.h 3) != .unlocked && (st.1.h 3).getD i .unlocked != .exclusive then (st.1, false) else
    match st.1.stepOn l (.tryLock i) with
    | (t', .bool true) => (t', true)
    | (t', _) => (t', false)) (t, true)

def tryRLocks (t : T) (o : Nat) (ls : List Nat) : T × Bool :=
  let (t, i) := t.ensure o
  ls.foldl (fun (st : T × Bool) l =>
    if !st.2 then st else
    match st.1.stepOn l (.tryRLock i) with
    | (t', .bool true) => (t', true)
    | (t', _) => (t', false)) (t, true)

def unlock (t : T) (o : Nat) (ls : List Nat) : T :=
  match t.find o with
  | none => t
  | some i => ls.foldl (fun t l => (t.stepOn l (.unlock i)).1) t

def canLock (t : T) (o : Nat) (ls : List Nat) : T × Bool × GS :=
  let (t, i) := t.ensure o
  (t, ls.foldl (fun (st : Bool × GS) l =>
    if !st.1 then st else
    if canExcl (t.h l) i then (true, .unlocked) else (false, state (t.h l))) (true, .unlocked))

def canRLock (t : T) (o : Nat) (ls : List Nat) : T × Bool :=
  let (t, i) := t.ensure o
  (t, ls.all fun l => canShared (t.h l) i)

/-- what LiteFS must hold before it changes a database file on its own: in rollback mode the
    database exclusively (RESERVED, PENDING, SHARED); in WAL mode SHARED and DMS shared and WRITE,
    CKPT, RECOVER, READ0..4 exclusively.  Granted iff POSIX rules allow all of it. -/
def internalAcquire (t : T) (walMode : Bool) (id : Nat) : T × Bool :=
  let (t0, i) := t.add id
  let want : List (Nat × Bool) :=
    if !walMode then [(1, true), (0, true), (2, true)]
    else [(2, false), (11, false), (3, true), (4, true), (5, true), (6, true), (7, true), (8, true), (9, true), (10, true)]
  -- PENDING must be available for a shared probe first (SQLite's SHARED acquisition)
  let probe := canShared (t0.h 0) i && canShared (t0.h 2) i
  let ok := probe && want.all fun w => if w.2 then canExcl (t0.h w.1) i else canShared (t0.h w.1) i
  if !ok then (t0, false) else
  (want.foldl (fun t w => (t.stepOn w.1 (if w.2 then .tryLock i else .tryRLock i)).1) t0, true)

def internalRelease (t : T) (id : Nat) : T :=
  match t.find id with
  | none => t
  | some i => (List.range 12).foldl (fun t l => (t.stepOn l (.unlock i)).1) t

def showLocks (t : T) : String :=
  " ".intercalate ((lockNames.zipIdx).map fun p => s!"{p.1.toLower}={(state (t.h p.2)).toString}")

end LiteFSVerif.SpecLocks
