import LiteFSVerif.Base.RWCell
import LiteFSVerif.Gen.RWMutex
import LiteFSVerif.Gen.Facts
import LiteFSVerif.Gen.Ints
import LiteFSVerif.Model.RWMutex
import LiteFSVerif.Spec.Posix
import LiteFSVerif.Proofs.RWMutex
import LiteFSVerif.Props.C12
