package main

import (
	"fmt"
	"go/ast"
	"go/printer"
	"go/token"
	"path/filepath"
	"strings"
)

// skeletonFuncs lists the functions whose control skeleton is regenerated: (file, receiver, name).
var skeletonFuncs = [][3]string{
	{"db.go", "DB", "WriteDatabaseAt"},
	{"db.go", "DB", "TruncateDatabase"},
	{"db.go", "DB", "truncateDatabase"},
	{"db.go", "DB", "writeDatabasePage"},
	{"db.go", "DB", "CommitJournal"},
	{"db.go", "DB", "invalidateJournal"},
	{"db.go", "DB", "WriteWALAt"},
	{"db.go", "DB", "CommitWAL"},
	{"db.go", "DB", "Unlock"},
	{"db.go", "DB", "UnlockSHM"},
	{"db.go", "DB", "UnlockDatabase"},
	{"db.go", "DB", "WriteLTXFileAt"},
	{"db.go", "DB", "ApplyLTXNoLock"},
	{"db.go", "DB", "EnforceRetention"},
	{"db.go", "DB", "Drop"},
	{"db.go", "DB", "Import"},
	{"db.go", "DB", "importToLTX"},
	{"db.go", "DB", "AcquireHaltLock"},
	{"db.go", "DB", "ReleaseHaltLock"},
	{"db.go", "DB", "AcquireRemoteHaltLock"},
	{"db.go", "DB", "ReleaseRemoteHaltLock"},
	{"db.go", "DB", "CheckpointNoLock"},
	{"db.go", "DB", "rollbackJournal"},
	{"db.go", "DB", "rollbackJournalSegment"},
	{"db.go", "DB", "recover"},
	{"db.go", "DB", "maxLTXFile"},
	{"db.go", "DB", "checksum"},
	{"db.go", "DB", "setDatabasePageChecksum"},
	{"db.go", "DB", "resetDatabasePageChecksumsAfter"},
	{"db.go", "JournalReader", "Next"},
	{"db.go", "JournalReader", "ReadFrame"},
	{"store.go", "Store", "processLTXStreamFrame"},
	{"store.go", "Store", "monitorLeaseAsPrimary"},
	{"store.go", "Store", "streamBackupDB"},
	{"store.go", "Store", "restoreDBFromBackup"},
	{"internal/chunk/chunk.go", "Writer", "Write"},
	{"internal/chunk/chunk.go", "Reader", "Read"},
	// second batch
	{"db.go", "DB", "Open"},
	{"db.go", "DB", "initFromDatabaseHeader"},
	{"db.go", "DB", "initDatabaseFile"},
	{"db.go", "DB", "syncWALToLTX"},
	{"db.go", "DB", "Checkpoint"},
	{"db.go", "DB", "TruncateWAL"},
	{"db.go", "DB", "RemoveWAL"},
	{"db.go", "DB", "CreateJournal"},
	{"db.go", "DB", "WriteJournalAt"},
	{"db.go", "DB", "readPage"},
	{"db.go", "DB", "Export"},
	{"db.go", "DB", "WriteSnapshotTo"},
	{"db.go", "DB", "AcquireWriteLock"},
	{"db.go", "DB", "TryAcquireWriteLock"},
	{"db.go", "DB", "WaitPosExact"},
	{"db.go", "DB", "unsetRemoteHaltLock"},
	{"db.go", "DB", "HasHaltLock"},
	{"store.go", "Store", "monitorLease"},
	{"store.go", "Store", "acquireLeaseOrPrimaryInfo"},
	{"store.go", "Store", "monitorLeaseAsReplica"},
	{"store.go", "Store", "Recover"},
	{"store.go", "Store", "EnforceRetention"},
	{"store.go", "Store", "streamBackup"},
	{"store.go", "Store", "streamBackupDBSnapshot"},
	{"store.go", "Store", "CreateDB"},
	{"store.go", "Store", "CreateDBIfNotExists"},
	{"backup_client.go", "FileBackupClient", "PosMap"},
	{"backup_client.go", "FileBackupClient", "pos"},
	{"backup_client.go", "FileBackupClient", "WriteTx"},
	{"backup_client.go", "FileBackupClient", "FetchSnapshot"},
	{"client.go", "", "ReadStreamFrame"},
	{"client.go", "", "WriteStreamFrame"},
	{"client.go", "LTXStreamFrame", "ReadFrom"},
	{"client.go", "LTXStreamFrame", "WriteTo"},
	{"client.go", "DropDBStreamFrame", "ReadFrom"},
	{"client.go", "DropDBStreamFrame", "WriteTo"},
	{"client.go", "HandoffStreamFrame", "ReadFrom"},
	{"client.go", "HandoffStreamFrame", "WriteTo"},
	{"client.go", "HWMStreamFrame", "ReadFrom"},
	{"client.go", "HWMStreamFrame", "WriteTo"},
	{"client.go", "HeartbeatStreamFrame", "ReadFrom"},
	{"client.go", "HeartbeatStreamFrame", "WriteTo"},
	{"http/http.go", "", "ReadPosMapFrom"},
	{"http/http.go", "", "WritePosMapTo"},
	{"http/proxy_server.go", "ProxyServer", "serveHTTP"},
	{"http/proxy_server.go", "ProxyServer", "serveRead"},
	{"http/proxy_server.go", "ProxyServer", "serveNonRead"},
	{"http/proxy_server.go", "ProxyServer", "proxyToTarget"},
	{"http/proxy_server.go", "ProxyServer", "isWriteRequest"},
	{"http/proxy_server.go", "ProxyServer", "isPassthrough"},
	{"http/proxy_server.go", "ProxyServer", "isAlwaysForwarded"},
	{"http/server.go", "Server", "serveHTTP"},
	{"http/server.go", "Server", "handlePostImport"},
	{"http/server.go", "Server", "handleGetExport"},
	{"http/server.go", "Server", "handlePostHalt"},
	{"http/server.go", "Server", "handleDeleteHalt"},
	{"http/server.go", "Server", "handlePostPromote"},
	{"http/server.go", "Server", "handlePostHandoff"},
	{"http/server.go", "Server", "handlePostTx"},
	{"http/server.go", "Server", "handlePostStream"},
	{"http/server.go", "Server", "streamDB"},
	{"http/server.go", "Server", "streamLTX"},
	{"http/server.go", "Server", "streamLTXSnapshot"},
	// third batch: the Consul leaser
	{"consul/consul.go", "Leaser", "Acquire"},
	{"consul/consul.go", "Leaser", "AcquireExisting"},
	{"consul/consul.go", "Leaser", "PrimaryInfo"},
	{"consul/consul.go", "Leaser", "ClusterID"},
	{"consul/consul.go", "Leaser", "SetClusterID"},
	{"consul/consul.go", "Lease", "Renew"},
	{"consul/consul.go", "Lease", "Handoff"},
	{"consul/consul.go", "Lease", "Close"},
	// write authority across a lost lease (C07)
	{"store.go", "", "newPrimaryCtx"},
	{"store.go", "primaryCtx", "Err"},
	{"rwmutex.go", "RWMutexGuard", "Lock"},
	{"rwmutex.go", "RWMutexGuard", "RLock"},
	// the mount layer (driven without a kernel by harness/mount.go)
	{"fuse/fuse.go", "", "ToError"},
	{"fuse/database_node.go", "DatabaseHandle", "Write"},
	{"fuse/database_node.go", "DatabaseNode", "Setattr"},
	{"fuse/database_node.go", "", "lock"},
	{"fuse/database_node.go", "", "queryLock"},
	{"fuse/journal_node.go", "JournalHandle", "Write"},
	{"fuse/journal_node.go", "JournalNode", "Setattr"},
	{"fuse/wal_node.go", "WALHandle", "Write"},
	{"fuse/root_node.go", "RootNode", "Lookup"},
	{"fuse/root_node.go", "RootNode", "Create"},
	{"fuse/root_node.go", "RootNode", "Remove"},
	{"litefs.go", "", "ParseDatabaseLockRange"},
	{"litefs.go", "", "ParseSHMLockRange"},
	// the LiteFS Cloud backup client (driven against harness/lfsc_fake.go)
	{"lfsc/backup_client.go", "BackupClient", "PosMap"},
	{"lfsc/backup_client.go", "BackupClient", "WriteTx"},
	{"lfsc/backup_client.go", "BackupClient", "FetchSnapshot"},
	{"lfsc/backup_client.go", "BackupClient", "doRequest"},
	{"lfsc/backup_client.go", "", "readResponseError"},
	// the mount side of the halt lock (C13)
	{"fuse/lock_node.go", "LockHandle", "LockWait"},
	{"fuse/lock_node.go", "LockHandle", "lockWaitHalt"},
	{"fuse/lock_node.go", "LockHandle", "Unlock"},
	{"fuse/lock_node.go", "LockHandle", "unlockHalt"},
	{"fuse/lock_node.go", "LockHandle", "Flush"},
	{"fuse/lock_node.go", "LockHandle", "QueryLock"},
	// fifth mutant round: replica stream client, expiry, backup loop, start-up, remaining mount handlers
	{"http/client.go", "Client", "Stream"},
	{"fuse/pos_node.go", "PosNode", "Read"},
	{"http/client.go", "Client", "AcquireHaltLock"},
	{"http/client.go", "Client", "ReleaseHaltLock"},
	{"http/client.go", "Client", "Commit"},
	{"store.go", "Store", "EnforceHaltLockExpiration"},
	{"db.go", "DB", "EnforceHaltLockExpiration"},
	{"store.go", "Store", "monitorPrimaryBackup"},
	{"store.go", "Store", "SyncBackup"},
	{"store.go", "Store", "openDatabases"},
	{"store.go", "Store", "openDatabase"},
	{"fuse/root_node.go", "RootNode", "createDatabase"},
	{"fuse/root_node.go", "RootNode", "lookupDBNode"},
	{"fuse/shm_node.go", "SHMHandle", "Flush"},
	{"fuse/root_node.go", "RootNode", "createWAL"},
	{"fuse/root_node.go", "RootNode", "createSHM"},
	{"fuse/wal_node.go", "WALNode", "Setattr"},
	{"fuse/wal_node.go", "WALNode", "Open"},
	{"fuse/shm_node.go", "SHMNode", "Open"},
	{"fuse/root_node.go", "RootNode", "createJournal"},
	{"fuse/journal_node.go", "JournalNode", "Open"},
	{"fuse/database_node.go", "DatabaseHandle", "Flush"},
	{"fuse/database_node.go", "DatabaseHandle", "Lock"},
	{"fuse/database_node.go", "DatabaseHandle", "Unlock"},
	{"fuse/database_node.go", "DatabaseHandle", "QueryLock"},
	{"fuse/shm_node.go", "SHMHandle", "Lock"},
	{"fuse/shm_node.go", "SHMHandle", "Unlock"},
	{"fuse/shm_node.go", "SHMHandle", "QueryLock"},
}

// genSkeletons renders, for each listed function, its control skeleton in source order:
// branch conditions, loop heads, returns (string literals blanked), and the names of the calls it
// makes (logging left out).  The Lean side proves each equal to the skeleton the hand-written
// model was written against, so any reordering, dropped or altered check or call in these
// functions breaks a proof obligation.
func genSkeletons(repo string) []byte {
	var b strings.Builder
	b.WriteString("-- GENERATED by /verif/translator from /repo sources. DO NOT EDIT.\n")
	b.WriteString("namespace LiteFSVerif.Gen.Skel\n\n")
	cache := map[string]*ast.File{}
	for _, e := range skeletonFuncs {
		f, ok := cache[e[0]]
		if !ok {
			f = parseFile(filepath.Join(repo, e[0]))
			cache[e[0]] = f
		}
		name := e[1] + "_" + e[2]
		if e[1] == "" {
			name = "fn_" + e[2]
		}
		fd := findFunc(f, e[1], e[2])
		if fd == nil || fd.Body == nil {
			fmt.Fprintf(&b, "def %s : List (String × String) := []\n\n", name)
			continue
		}
		rows := skeletonOf(fd)
		fmt.Fprintf(&b, "/-- control skeleton of `(%s).%s` (%s) -/\ndef %s : List (String × String) := [\n  %s\n]\n\n",
			e[1], e[2], e[0], name, strings.Join(rows, ",\n  "))
	}
	b.WriteString("end LiteFSVerif.Gen.Skel\n")
	return []byte(b.String())
}

func skeletonOf(fd *ast.FuncDecl) []string {
	var out []string
	emit := func(kind, text string) { out = append(out, fmt.Sprintf("(%q, %q)", kind, text)) }
	src := func(n ast.Node) string {
		if n == nil {
			return ""
		}
		// blank string literals: messages are not behaviour
		c := n
		var sb strings.Builder
		_ = printer.Fprint(&sb, fset, c)
		s := strings.Join(strings.Fields(sb.String()), " ")
		return blankStrings(s)
	}
	isLog := func(fn string) bool {
		return strings.HasPrefix(fn, "TraceLog.") || strings.HasPrefix(fn, "log.") || strings.HasPrefix(fn, "slog.") ||
			strings.HasSuffix(fn, "MetricVec.WithLabelValues") || strings.Contains(fn, "Metric")
	}
	// calls inside an expression, in evaluation (source) order
	var callsIn func(n ast.Node)
	callsIn = func(n ast.Node) {
		if n == nil {
			return
		}
		ast.Inspect(n, func(x ast.Node) bool {
			switch c := x.(type) {
			case *ast.FuncLit:
				return false // closures are summarised by the statement that holds them
			case *ast.CallExpr:
				fn := src(c.Fun)
				for _, a := range c.Args {
					callsIn(a)
				}
				if !isLog(fn) && !isBuiltinLike(fn) {
					emit("call", fn)
				}
				// receiver chain calls (a.b().c()) are visited through c.Fun
				callsIn(c.Fun)
				return false
			}
			return true
		})
	}
	var walk func(list []ast.Stmt)
	var stmt func(st ast.Stmt)
	stmt = func(st ast.Stmt) {
		switch x := st.(type) {
		case nil:
		case *ast.IfStmt:
			if x.Init != nil {
				stmt(x.Init)
			}
			callsIn(x.Cond)
			emit("if", src(x.Cond))
			walk(x.Body.List)
			switch e := x.Else.(type) {
			case *ast.IfStmt:
				emit("else", "")
				stmt(e)
			case *ast.BlockStmt:
				emit("else", "")
				walk(e.List)
			}
			emit("end", "")
		case *ast.ForStmt:
			if x.Init != nil {
				stmt(x.Init)
			}
			emit("for", strings.TrimSpace(src(x.Cond)+" ; "+src(x.Post)))
			walk(x.Body.List)
			emit("end", "")
		case *ast.RangeStmt:
			callsIn(x.X)
			emit("range", src(x.X))
			walk(x.Body.List)
			emit("end", "")
		case *ast.SwitchStmt:
			if x.Init != nil {
				stmt(x.Init)
			}
			emit("switch", src(x.Tag))
			for _, cc := range x.Body.List {
				c := cc.(*ast.CaseClause)
				var es []string
				for _, e := range c.List {
					es = append(es, src(e))
				}
				emit("case", strings.Join(es, ", "))
				walk(c.Body)
			}
			emit("end", "")
		case *ast.TypeSwitchStmt:
			emit("typeswitch", src(x.Assign))
			for _, cc := range x.Body.List {
				c := cc.(*ast.CaseClause)
				var es []string
				for _, e := range c.List {
					es = append(es, src(e))
				}
				emit("case", strings.Join(es, ", "))
				walk(c.Body)
			}
			emit("end", "")
		case *ast.SelectStmt:
			emit("select", "")
			for _, cc := range x.Body.List {
				c := cc.(*ast.CommClause)
				emit("comm", src(c.Comm))
				walk(c.Body)
			}
			emit("end", "")
		case *ast.BlockStmt:
			walk(x.List)
		case *ast.LabeledStmt:
			emit("label", x.Label.Name)
			stmt(x.Stmt)
		case *ast.ReturnStmt:
			for _, r := range x.Results {
				callsIn(r)
			}
			emit("return", src(x))
		case *ast.BranchStmt:
			emit("branch", src(x))
		case *ast.DeferStmt:
			if fl, ok := x.Call.Fun.(*ast.FuncLit); ok {
				emit("defer", "func")
				walk(fl.Body.List)
				emit("end", "")
			} else if fn := src(x.Call.Fun); !isLog(fn) {
				emit("defer", fn)
			}
		case *ast.GoStmt:
			emit("go", src(x.Call.Fun))
		case *ast.ExprStmt:
			callsIn(x.X)
		case *ast.AssignStmt:
			for _, r := range x.Rhs {
				callsIn(r)
			}
			// assignments to fields of the receiver or to named results carry state
			for i, l := range x.Lhs {
				ls := src(l)
				if strings.Contains(ls, ".") || strings.Contains(ls, "[") {
					rs := ""
					if len(x.Rhs) == len(x.Lhs) {
						rs = src(x.Rhs[i])
					} else if len(x.Rhs) == 1 {
						rs = src(x.Rhs[0])
					}
					emit("set", ls+" "+x.Tok.String()+" "+rs)
				}
			}
		case *ast.IncDecStmt:
			emit("set", src(x))
		case *ast.DeclStmt:
			// var declarations: initialisers may call
			ast.Inspect(x, func(n ast.Node) bool {
				if vs, ok := n.(*ast.ValueSpec); ok {
					for _, v := range vs.Values {
						callsIn(v)
					}
				}
				return true
			})
		case *ast.SendStmt:
			emit("send", src(x.Chan))
		default:
			emit("stmt", src(st))
		}
	}
	walk = func(list []ast.Stmt) {
		for _, st := range list {
			stmt(st)
		}
	}
	walk(fd.Body.List)
	return out
}

func isBuiltinLike(fn string) bool {
	switch fn {
	case "len", "cap", "make", "append", "copy", "new", "delete", "uint32", "uint64", "int64", "int", "int32", "uint16",
		"string", "byte", "min", "max", "assert", "ltx.TXID", "ltx.Checksum", "time.Duration", "errors.New", "fmt.Errorf", "fmt.Sprintf",
		"close", "panic", "float64", "errorKeyValue":
		return true
	}
	return false
}

// blankStrings replaces the content of every double-quoted or back-quoted string literal.
func blankStrings(s string) string {
	var b strings.Builder
	in := byte(0)
	for i := 0; i < len(s); i++ {
		ch := s[i]
		switch {
		case in == 0 && (ch == '"' || ch == '`'):
			in = ch
			b.WriteByte('"')
		case in == '"' && ch == '\\' && i+1 < len(s):
			i++
		case in != 0 && ch == in:
			in = 0
			b.WriteByte('"')
		case in != 0:
		default:
			b.WriteByte(ch)
		}
	}
	return b.String()
}

var _ = token.NoPos
