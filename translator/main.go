// Command translator regenerates Lean definitions and fact tables from the
// current /repo sources (go/ast only; no type checking needed for the subset).
//
//	translator -repo /repo -out /verif/lean/LiteFSVerif/Gen
//
// It fails (exit 2) on any construct outside the supported subset: an
// unsupported construct is a broken proof obligation, not something to guess.
package main

import (
	"bytes"
	"flag"
	"fmt"
	"go/ast"
	"go/parser"
	"go/printer"
	"go/token"
	"os"
	"path/filepath"
	"sort"
	"strconv"
	"strings"
)

var fset = token.NewFileSet()

func fatalf(format string, args ...any) {
	fmt.Fprintf(os.Stderr, "translator: "+format+"\n", args...)
	os.Exit(2)
}

func parseFile(path string) *ast.File {
	f, err := parser.ParseFile(fset, path, nil, parser.ParseComments)
	if err != nil {
		fatalf("parse %s: %v", path, err)
	}
	return f
}

func findFunc(f *ast.File, recv, name string) *ast.FuncDecl {
	for _, d := range f.Decls {
		fd, ok := d.(*ast.FuncDecl)
		if !ok || fd.Name.Name != name {
			continue
		}
		if recv == "" {
			if fd.Recv == nil {
				return fd
			}
			continue
		}
		if fd.Recv == nil || len(fd.Recv.List) != 1 {
			continue
		}
		t := fd.Recv.List[0].Type
		if st, ok := t.(*ast.StarExpr); ok {
			t = st.X
		}
		if id, ok := t.(*ast.Ident); ok && id.Name == recv {
			return fd
		}
	}
	return nil
}

func pos(n ast.Node) string { return fset.Position(n.Pos()).String() }

func writeIfChanged(path string, data []byte) {
	old, err := os.ReadFile(path)
	if err == nil && bytes.Equal(old, data) {
		return
	}
	if err := os.MkdirAll(filepath.Dir(path), 0o755); err != nil {
		fatalf("%v", err)
	}
	if err := os.WriteFile(path, data, 0o644); err != nil {
		fatalf("%v", err)
	}
}

func main() {
	repo := flag.String("repo", "/repo", "path of litefs working tree")
	out := flag.String("out", "", "output directory for Gen/*.lean")
	flag.Parse()
	if *out == "" {
		fatalf("-out required")
	}
	writeIfChanged(filepath.Join(*out, "RWMutex.lean"), genRWMutex(*repo))
	writeIfChanged(filepath.Join(*out, "Facts.lean"), genFacts(*repo))
	writeIfChanged(filepath.Join(*out, "Ints.lean"), genInts(*repo))
	writeIfChanged(filepath.Join(*out, "Skel.lean"), genSkeletons(*repo))
}

// ---------------------------------------------------------------------------
// RWMutex guard methods -> Lean (Cell-passing style)
// ---------------------------------------------------------------------------

type rwTr struct {
	recv string // receiver identifier ("g" or "rw")
	unit bool   // function returns nothing
}

var gsNames = map[string]string{
	"RWMutexStateUnlocked":  "GS.unlocked",
	"RWMutexStateShared":    "GS.shared",
	"RWMutexStateExclusive": "GS.exclusive",
}

// selector path as dotted string, e.g. g.rw.sharedN
func selPath(e ast.Expr) (string, bool) {
	switch x := e.(type) {
	case *ast.Ident:
		return x.Name, true
	case *ast.SelectorExpr:
		p, ok := selPath(x.X)
		if !ok {
			return "", false
		}
		return p + "." + x.Sel.Name, true
	}
	return "", false
}

func (t *rwTr) field(path string) (string, bool) {
	switch {
	case t.recv == "g" && path == "g.rw.sharedN", t.recv == "rw" && path == "rw.sharedN":
		return "sharedN", true
	case t.recv == "g" && path == "g.rw.excl", t.recv == "rw" && path == "rw.excl":
		return "excl", true
	case t.recv == "g" && path == "g.state":
		return "gstate", true
	}
	return "", false
}

func (t *rwTr) expr(e ast.Expr) string {
	switch x := e.(type) {
	case *ast.ParenExpr:
		return "(" + t.expr(x.X) + ")"
	case *ast.BasicLit:
		if x.Kind == token.INT {
			return "(" + x.Value + " : Int)"
		}
	case *ast.Ident:
		if v, ok := gsNames[x.Name]; ok {
			return v
		}
		switch x.Name {
		case "true", "false":
			return x.Name
		}
	case *ast.SelectorExpr:
		if p, ok := selPath(x); ok {
			if f, ok := t.field(p); ok {
				return "c." + f
			}
		}
	case *ast.CallExpr:
		if p, ok := selPath(x.Fun); ok && len(x.Args) == 0 {
			if (t.recv == "g" && p == "g.rw.state") || (t.recv == "rw" && p == "rw.state") {
				return "(mutexState c)"
			}
		}
	case *ast.UnaryExpr:
		if x.Op == token.NOT {
			return "(!" + t.expr(x.X) + ")"
		}
	case *ast.BinaryExpr:
		// pointer comparisons on excl
		if p, ok := selPath(x.X); ok {
			if f, ok := t.field(p); ok && f == "excl" {
				var rhs string
				if id, ok := x.Y.(*ast.Ident); ok && id.Name == "nil" {
					rhs = "none"
				} else if id, ok := x.Y.(*ast.Ident); ok && id.Name == t.recv && t.recv == "g" {
					rhs = "some g"
				} else {
					fatalf("%s: unsupported excl comparison", pos(x))
				}
				switch x.Op {
				case token.EQL:
					return "(c.excl == " + rhs + ")"
				case token.NEQ:
					return "(c.excl != " + rhs + ")"
				}
				fatalf("%s: unsupported excl operator", pos(x))
			}
		}
		l, r := t.expr(x.X), t.expr(x.Y)
		switch x.Op {
		case token.LAND:
			return "(" + l + " && " + r + ")"
		case token.LOR:
			return "(" + l + " || " + r + ")"
		case token.EQL:
			return "(" + l + " == " + r + ")"
		case token.NEQ:
			return "(" + l + " != " + r + ")"
		case token.GTR:
			return "(decide (" + l + " > " + r + "))"
		case token.LSS:
			return "(decide (" + l + " < " + r + "))"
		case token.GEQ:
			return "(decide (" + l + " ≥ " + r + "))"
		case token.LEQ:
			return "(decide (" + l + " ≤ " + r + "))"
		case token.ADD:
			return "(" + l + " + " + r + ")"
		case token.SUB:
			return "(" + l + " - " + r + ")"
		}
	}
	fatalf("%s: unsupported expression %T", pos(e), e)
	return ""
}

// value assigned to a field
func (t *rwTr) assignVal(field string, e ast.Expr) string {
	if field == "excl" {
		if id, ok := e.(*ast.Ident); ok {
			if id.Name == "nil" {
				return "none"
			}
			if id.Name == "g" && t.recv == "g" {
				return "some g"
			}
		}
		fatalf("%s: unsupported value for excl", pos(e))
	}
	return t.expr(e)
}

func ind(n int) string { return strings.Repeat("  ", n) }

func (t *rwTr) retExpr(results []ast.Expr) string {
	switch len(results) {
	case 0:
		return "()"
	case 1:
		return t.expr(results[0])
	default:
		parts := make([]string, len(results))
		for i, r := range results {
			parts[i] = t.expr(r)
		}
		return "(" + strings.Join(parts, ", ") + ")"
	}
}

// stmts translates a statement list; `fall` is the Lean text used when control
// falls off the end of the list.
func (t *rwTr) stmts(list []ast.Stmt, depth int, fall string) string {
	if len(list) == 0 {
		return ind(depth) + fall + "\n"
	}
	s, rest := list[0], list[1:]
	switch x := s.(type) {
	case *ast.ReturnStmt:
		return ind(depth) + ".ret " + t.retExpr(x.Results) + " c\n"
	case *ast.ExprStmt:
		call, ok := x.X.(*ast.CallExpr)
		if !ok {
			break
		}
		fn, _ := call.Fun.(*ast.Ident)
		if fn != nil && fn.Name == "assert" && len(call.Args) == 2 {
			msg := call.Args[1].(*ast.BasicLit).Value
			return ind(depth) + "if !" + t.expr(call.Args[0]) + " then .panic " + msg + " else\n" + t.stmts(rest, depth, fall)
		}
		if fn != nil && fn.Name == "panic" {
			return ind(depth) + ".panic \"unreachable\"\n"
		}
	case *ast.IfStmt:
		if x.Init != nil || x.Else != nil {
			break
		}
		return ind(depth) + "if " + t.expr(x.Cond) + " then\n" + t.stmts(x.Body.List, depth+1, "FALLTHROUGH_UNSUPPORTED") +
			ind(depth) + "else\n" + t.stmts(rest, depth, fall)
	case *ast.AssignStmt:
		if x.Tok != token.ASSIGN || len(x.Lhs) != len(x.Rhs) {
			break
		}
		var sets []string
		for i := range x.Lhs {
			p, ok := selPath(x.Lhs[i])
			if !ok {
				fatalf("%s: unsupported assignment target", pos(x))
			}
			f, ok := t.field(p)
			if !ok {
				fatalf("%s: unsupported assignment target %s", pos(x), p)
			}
			sets = append(sets, f+" := "+t.assignVal(f, x.Rhs[i]))
		}
		return ind(depth) + "let c : Cell := { c with " + strings.Join(sets, ", ") + " }\n" + t.stmts(rest, depth, fall)
	case *ast.IncDecStmt:
		p, _ := selPath(x.X)
		f, ok := t.field(p)
		if !ok {
			fatalf("%s: unsupported inc/dec target", pos(x))
		}
		op := "+"
		if x.Tok == token.DEC {
			op = "-"
		}
		return ind(depth) + "let c : Cell := { c with " + f + " := c." + f + " " + op + " 1 }\n" + t.stmts(rest, depth, fall)
	case *ast.SwitchStmt:
		if x.Init != nil {
			break
		}
		p, _ := selPath(x.Tag)
		f, ok := t.field(p)
		if !ok || f != "gstate" {
			fatalf("%s: switch tag must be the guard state", pos(x))
		}
		// continuation after the switch
		after := strings.TrimRight(t.stmts(rest, 0, fall), "\n")
		if strings.Contains(after, "\n") {
			fatalf("%s: statements after switch unsupported", pos(x))
		}
		var b strings.Builder
		b.WriteString(ind(depth) + "match c.gstate with\n")
		seen := map[string]bool{}
		for _, cc := range x.Body.List {
			cl := cc.(*ast.CaseClause)
			if cl.List == nil { // default
				if len(cl.Body) != 1 {
					fatalf("%s: default clause must be a single panic", pos(cl))
				}
				es, ok := cl.Body[0].(*ast.ExprStmt)
				if !ok {
					fatalf("%s: default clause must be a single panic", pos(cl))
				}
				call, ok := es.X.(*ast.CallExpr)
				if !ok || call.Fun.(*ast.Ident).Name != "panic" {
					fatalf("%s: default clause must be a single panic", pos(cl))
				}
				continue // unreachable: the guard state type has exactly three values
			}
			var pats []string
			for _, e := range cl.List {
				id, ok := e.(*ast.Ident)
				if !ok || gsNames[id.Name] == "" {
					fatalf("%s: unsupported case label", pos(e))
				}
				seen[id.Name] = true
				pats = append(pats, "| "+gsNames[id.Name])
			}
			b.WriteString(ind(depth) + strings.Join(pats, " ") + " =>\n")
			b.WriteString(t.stmts(cl.Body, depth+1, after))
		}
		if len(seen) != 3 {
			fatalf("%s: switch does not cover the three guard states", pos(x))
		}
		return b.String()
	}
	fatalf("%s: unsupported statement %T", pos(s), s)
	return ""
}

func genRWMutex(repo string) []byte {
	f := parseFile(filepath.Join(repo, "rwmutex.go"))
	var b strings.Builder
	b.WriteString("-- GENERATED by /verif/translator from /repo/rwmutex.go. DO NOT EDIT.\n")
	b.WriteString("import LiteFSVerif.Base.RWCell\nset_option linter.unusedVariables false\n\nnamespace LiteFSVerif.Gen.RWMutex\nopen LiteFSVerif\n\n")

	// state(): method on *RWMutex
	fd := findFunc(f, "RWMutex", "state")
	if fd == nil {
		fatalf("rwmutex.go: (*RWMutex).state not found")
	}
	{
		t := &rwTr{recv: fd.Recv.List[0].Names[0].Name}
		if t.recv != "rw" {
			fatalf("rwmutex.go: unexpected receiver name %q for state()", t.recv)
		}
		// translate `if A { return X } else if B { return Y }; return Z`
		b.WriteString("def mutexState (c : Cell) : GS :=\n")
		b.WriteString(t.stateBody(fd.Body.List, 1))
		b.WriteString("\n")
	}

	type fn struct{ name, lean, ret string }
	for _, m := range []fn{
		{"tryLock", "tryLock", "Bool"},
		{"tryRLock", "tryRLock", "Bool"},
		{"unlock", "unlock", "Unit"},
		{"CanLock", "canLock", "Bool × GS"},
		{"CanRLock", "canRLock", "Bool"},
	} {
		fd := findFunc(f, "RWMutexGuard", m.name)
		if fd == nil {
			fatalf("rwmutex.go: (*RWMutexGuard).%s not found", m.name)
		}
		recv := fd.Recv.List[0].Names[0].Name
		if recv != "g" {
			fatalf("rwmutex.go: unexpected receiver name %q", recv)
		}
		t := &rwTr{recv: "g"}
		body := fd.Body.List
		// public query methods start with `g.rw.mu.Lock(); defer g.rw.mu.Unlock()`
		for len(body) > 0 && isMuStmt(body[0]) {
			body = body[1:]
		}
		fmt.Fprintf(&b, "def %s (g : Nat) (c : Cell) : Out (%s) :=\n", m.lean, m.ret)
		b.WriteString(t.stmts(body, 1, ".ret () c"))
		b.WriteString("\n")
	}

	// The wrappers TryLock/TryRLock/Unlock must call the inner function exactly once
	// between mu.Lock and mu.Unlock; record as facts.
	for _, w := range [][2]string{{"TryLock", "tryLock"}, {"TryRLock", "tryRLock"}, {"Unlock", "unlock"}} {
		fd := findFunc(f, "RWMutexGuard", w[0])
		if fd == nil {
			fatalf("rwmutex.go: %s not found", w[0])
		}
		n := 0
		ast.Inspect(fd.Body, func(nd ast.Node) bool {
			if call, ok := nd.(*ast.CallExpr); ok {
				if p, ok := selPath(call.Fun); ok && p == "g."+w[1] {
					n++
				}
			}
			return true
		})
		fmt.Fprintf(&b, "def wrapperCalls_%s : Nat := %d\n", w[0], n)
	}
	// The blocking variants Lock/RLock: which try-function is called on the fast path and in the
	// retry loop (in source order).
	for _, w := range []string{"Lock", "RLock"} {
		fd := findFunc(f, "RWMutexGuard", w)
		if fd == nil {
			fatalf("rwmutex.go: %s not found", w)
		}
		var calls []string
		ast.Inspect(fd.Body, func(nd ast.Node) bool {
			if call, ok := nd.(*ast.CallExpr); ok {
				if p, ok := selPath(call.Fun); ok && strings.HasPrefix(p, "g.Try") {
					calls = append(calls, fmt.Sprintf("%q", strings.TrimPrefix(p, "g.")))
				}
			}
			return true
		})
		fmt.Fprintf(&b, "def blockingCalls_%s : List String := [%s]\n", w, strings.Join(calls, ", "))
	}
	b.WriteString("\nend LiteFSVerif.Gen.RWMutex\n")
	return []byte(b.String())
}

func isMuStmt(s ast.Stmt) bool {
	var call *ast.CallExpr
	switch x := s.(type) {
	case *ast.ExprStmt:
		call, _ = x.X.(*ast.CallExpr)
	case *ast.DeferStmt:
		call = x.Call
	}
	if call == nil {
		return false
	}
	p, ok := selPath(call.Fun)
	return ok && (p == "g.rw.mu.Lock" || p == "g.rw.mu.Unlock")
}

// stateBody handles the if / else-if / return chain of (*RWMutex).state.
func (t *rwTr) stateBody(list []ast.Stmt, depth int) string {
	if len(list) == 0 {
		fatalf("state(): missing return")
	}
	switch x := list[0].(type) {
	case *ast.ReturnStmt:
		return ind(depth) + t.expr(x.Results[0]) + "\n"
	case *ast.IfStmt:
		return t.stateIf(x, list[1:], depth)
	}
	fatalf("%s: unsupported statement in state()", pos(list[0]))
	return ""
}

func (t *rwTr) stateIf(x *ast.IfStmt, rest []ast.Stmt, depth int) string {
	if x.Init != nil || len(x.Body.List) != 1 {
		fatalf("%s: unsupported if in state()", pos(x))
	}
	ret, ok := x.Body.List[0].(*ast.ReturnStmt)
	if !ok {
		fatalf("%s: unsupported if body in state()", pos(x))
	}
	s := ind(depth) + "if " + t.expr(x.Cond) + " then " + t.expr(ret.Results[0]) + " else\n"
	switch e := x.Else.(type) {
	case nil:
		return s + t.stateBody(rest, depth)
	case *ast.IfStmt:
		return s + t.stateIf(e, rest, depth)
	}
	fatalf("%s: unsupported else in state()", pos(x))
	return ""
}

// ---------------------------------------------------------------------------
// Facts: constants and tables
// ---------------------------------------------------------------------------

// constInt evaluates simple constant expressions (literals, + - * <<, parens,
// references to previously seen constants, conversions T(x)).
type constEnv map[string]int64

func (env constEnv) eval(e ast.Expr, iota int64) (int64, bool) {
	switch x := e.(type) {
	case *ast.BasicLit:
		if x.Kind == token.INT {
			v, err := strconv.ParseInt(x.Value, 0, 64)
			if err != nil {
				u, err2 := strconv.ParseUint(x.Value, 0, 64)
				if err2 != nil {
					return 0, false
				}
				return int64(u), true
			}
			return v, true
		}
	case *ast.Ident:
		if x.Name == "iota" {
			return iota, true
		}
		v, ok := env[x.Name]
		return v, ok
	case *ast.ParenExpr:
		return env.eval(x.X, iota)
	case *ast.SelectorExpr:
		if p, ok := selPath(x); ok {
			switch p {
			case "math.MaxUint16":
				return 65535, true
			case "math.MaxUint32":
				return 4294967295, true
			case "math.MaxInt32":
				return 2147483647, true
			}
		}
	case *ast.CallExpr: // conversion
		if len(x.Args) == 1 {
			return env.eval(x.Args[0], iota)
		}
	case *ast.BinaryExpr:
		l, ok1 := env.eval(x.X, iota)
		r, ok2 := env.eval(x.Y, iota)
		if !ok1 || !ok2 {
			return 0, false
		}
		switch x.Op {
		case token.ADD:
			return l + r, true
		case token.SUB:
			return l - r, true
		case token.MUL:
			return l * r, true
		case token.SHL:
			return l << uint(r), true
		case token.OR:
			return l | r, true
		}
	}
	return 0, false
}

func collectConsts(env constEnv, f *ast.File) {
	for _, d := range f.Decls {
		gd, ok := d.(*ast.GenDecl)
		if !ok || gd.Tok != token.CONST {
			continue
		}
		var last []ast.Expr
		for i, sp := range gd.Specs {
			vs := sp.(*ast.ValueSpec)
			vals := vs.Values
			if len(vals) == 0 {
				vals = last
			} else {
				last = vals
			}
			for j, n := range vs.Names {
				if j < len(vals) {
					if v, ok := env.eval(vals[j], int64(i)); ok {
						env[n.Name] = v
					}
				}
			}
		}
	}
}

// genLockRangeTable translates ParseDatabaseLockRange / ParseSHMLockRange (litefs.go): a sequence
// of `if start <= uint64(X) && uint64(Y) <= end { a = append(a, Z) }`.  Each statement becomes one
// row (X, Y, Z) of lock-type constants (their values); anything else in the body makes the table
// empty, which breaks the theorems about it.
func genLockRangeTable(env constEnv, f *ast.File, fn, name string) string {
	fd := findFunc(f, "", fn)
	rows := []string{}
	ok := fd != nil && fd.Body != nil
	constOf := func(e ast.Expr) (int64, bool) {
		// uint64(LockTypeX)
		if c, isCall := e.(*ast.CallExpr); isCall && len(c.Args) == 1 {
			e = c.Args[0]
		}
		id, isID := e.(*ast.Ident)
		if !isID {
			return 0, false
		}
		v, found := env[id.Name]
		return v, found
	}
	if ok {
		for _, st := range fd.Body.List {
			ifs, isIf := st.(*ast.IfStmt)
			if !isIf {
				continue // declaration of the slice, return
			}
			and, isAnd := ifs.Cond.(*ast.BinaryExpr)
			if !isAnd || and.Op != token.LAND || ifs.Else != nil || len(ifs.Body.List) != 1 {
				ok = false
				break
			}
			l, lok := and.X.(*ast.BinaryExpr)
			r, rok := and.Y.(*ast.BinaryExpr)
			if !lok || !rok || l.Op != token.LEQ || r.Op != token.LEQ {
				ok = false
				break
			}
			ls, lsok := l.X.(*ast.Ident)
			re, reok := r.Y.(*ast.Ident)
			if !lsok || !reok || ls.Name != "start" || re.Name != "end" {
				ok = false
				break
			}
			x, xok := constOf(l.Y)
			y, yok := constOf(r.X)
			as, isAs := ifs.Body.List[0].(*ast.AssignStmt)
			if !xok || !yok || !isAs || len(as.Rhs) != 1 {
				ok = false
				break
			}
			call, isCall := as.Rhs[0].(*ast.CallExpr)
			if !isCall || len(call.Args) != 2 {
				ok = false
				break
			}
			if fnID, isID := call.Fun.(*ast.Ident); !isID || fnID.Name != "append" {
				ok = false
				break
			}
			z, zok := constOf(call.Args[1])
			if !zok {
				ok = false
				break
			}
			rows = append(rows, fmt.Sprintf("(%d, %d, %d)", x, y, z))
		}
	}
	if !ok {
		rows = nil
	}
	return fmt.Sprintf("/-- rows (X, Y, Z) of `%s`: `if start <= X && Y <= end { append Z }` -/\ndef %s : List (Nat × Nat × Nat) := [%s]\n", fn, name, strings.Join(rows, ", "))
}

func genFacts(repo string) []byte {
	env := constEnv{}
	files := map[string]*ast.File{}
	for _, p := range []string{"litefs.go", "client.go", "db.go", "store.go", "internal/chunk/chunk.go"} {
		f := parseFile(filepath.Join(repo, p))
		files[p] = f
		collectConsts(env, f)
	}
	want := []string{
		"WALHeaderSize", "WALFrameHeaderSize", "WALIndexHeaderSize", "WALIndexBlockSize",
		"PENDING_BYTE", "RESERVED_BYTE", "SHARED_FIRST", "SHARED_SIZE",
		"WAL_WRITE_LOCK", "WAL_CKPT_LOCK", "WAL_RECOVER_LOCK", "WAL_READ_LOCK0", "WAL_READ_LOCK1",
		"WAL_READ_LOCK2", "WAL_READ_LOCK3", "WAL_READ_LOCK4",
		"StreamFrameTypeLTX", "StreamFrameTypeReady", "StreamFrameTypeEnd", "StreamFrameTypeDropDB",
		"StreamFrameTypeHandoff", "StreamFrameTypeHWM", "StreamFrameTypeHeartbeat",
		"MaxChunkSize", "EOF", "ChecksumBlockSize", "SQLITE_DATABASE_HEADER_SIZE",
		"SQLITE_JOURNAL_HEADER_SIZE", "MaxBackupLTXFileN", "HaltLockID",
		"LockTypeHalt", "LockTypePending", "LockTypeReserved", "LockTypeShared",
		"LockTypeWrite", "LockTypeCkpt", "LockTypeRecover", "LockTypeRead0", "LockTypeRead1",
		"LockTypeRead2", "LockTypeRead3", "LockTypeRead4", "LockTypeDMS",
	}
	var b strings.Builder
	b.WriteString("-- GENERATED by /verif/translator from /repo constants. DO NOT EDIT.\n")
	b.WriteString("namespace LiteFSVerif.Gen.Facts\n\n")
	missing := []string{}
	for _, n := range want {
		v, ok := env[n]
		if !ok {
			missing = append(missing, n)
			continue
		}
		name := n
		if n == "EOF" {
			name = "ChunkEOF"
		}
		fmt.Fprintf(&b, "def %s : Nat := %d\n", name, v)
	}
	sort.Strings(missing)
	fmt.Fprintf(&b, "\n-- constants not found as simple integer constants: %s\n", strings.Join(missing, " "))

	// Lock types (iota enum in litefs.go / db.go)
	b.WriteString("\n" + genGates(repo, files) + "\n")
	b.WriteString(genLockRangeTable(env, files["litefs.go"], "ParseDatabaseLockRange", "dbLockRangeTable") + "\n")
	b.WriteString(genLockRangeTable(env, files["litefs.go"], "ParseSHMLockRange", "shmLockRangeTable") + "\n")
	b.WriteString(genWriteLockSeq(files["db.go"]) + "\n")
	b.WriteString(genSnapshotSeq(files["db.go"], "Export", "exportSeq") + "\n")
	b.WriteString(genSnapshotSeq(files["db.go"], "WriteSnapshotTo", "snapshotSeq") + "\n")
	srv := parseFile(filepath.Join(repo, "http/server.go"))
	b.WriteString(genCondActions(srv, "Server", "streamDB", "streamDBConds") + "\n")
	b.WriteString(genCondActions(srv, "Server", "streamLTX", "streamLTXConds") + "\n")
	b.WriteString(genCondActions(files["store.go"], "Store", "processLTXStreamFrame", "processFrameConds") + "\n")
	b.WriteString(genRouteTable(srv) + "\n")
	for _, hn := range []string{"handleGetExport", "handlePostHalt", "handleDeleteHalt", "handlePostHandoff", "handlePostImport", "handlePostPromote", "handlePostTx"} {
		b.WriteString(genCondActions(srv, "Server", hn, "api_"+hn+"Conds") + "\n")
	}
	px := parseFile(filepath.Join(repo, "http/proxy_server.go"))
	b.WriteString(genCondActions(px, "ProxyServer", "serveHTTP", "proxyServeHTTPConds") + "\n")
	b.WriteString(genCondActions(px, "ProxyServer", "serveRead", "proxyServeReadConds") + "\n")
	b.WriteString(genCondActions(px, "ProxyServer", "serveNonRead", "proxyServeNonReadConds") + "\n")
	b.WriteString(genCondActions(px, "ProxyServer", "proxyToTarget", "proxyToTargetConds") + "\n")
	b.WriteString("end LiteFSVerif.Gen.Facts\n")
	return []byte(b.String())
}

// genGates records, for every DB / fuse entry point that mutates replicated
// state, whether the function body contains the write-authority refusal.
func genGates(repo string, files map[string]*ast.File) string {
	db := files["db.go"]
	type gate struct{ fn, kind string }
	entries := []string{
		"WriteDatabaseAt", "TruncateDatabase", "CreateJournal", "WriteJournalAt", "CommitJournal",
		"CreateWAL", "WriteWALAt", "TruncateWAL", "RemoveWAL", "CommitWAL", "Drop", "Import",
		"WriteSHMAt", "TruncateSHM", "RemoveSHM", "CreateSHM", "RemoveJournal", "TruncateJournal",
	}
	var b strings.Builder
	b.WriteString("/-- (entry point, contains an `ErrReadOnlyReplica` refusal guarded by `Writeable()`/`IsPrimary()`) -/\n")
	b.WriteString("def gateTable : List (String × Bool) := [\n")
	var rows []string
	for _, name := range entries {
		fd := findFunc(db, "DB", name)
		if fd == nil {
			rows = append(rows, fmt.Sprintf("  (%q, false) -- not found", name))
			continue
		}
		rows = append(rows, fmt.Sprintf("  (%q, %v)", name, hasWriteGate(fd)))
	}
	for i, r := range rows {
		if i < len(rows)-1 {
			// put the comma before any trailing comment
			if k := strings.Index(r, " --"); k >= 0 {
				r = r[:k] + "," + r[k:]
			} else {
				r += ","
			}
		}
		b.WriteString(r + "\n")
	}
	b.WriteString("]\n")
	return b.String()
}

// hasWriteGate: body contains `if !db.Writeable() {... return ... ErrReadOnlyReplica}` or
// `if !db.store.IsPrimary() { return ErrReadOnlyReplica }` at the top level of the function.
func hasWriteGate(fd *ast.FuncDecl) bool {
	for _, s := range fd.Body.List {
		is, ok := s.(*ast.IfStmt)
		if !ok {
			continue
		}
		un, ok := is.Cond.(*ast.UnaryExpr)
		if !ok || un.Op != token.NOT {
			continue
		}
		call, ok := un.X.(*ast.CallExpr)
		if !ok {
			continue
		}
		p, _ := selPath(call.Fun)
		if p != "db.Writeable" && p != "db.store.IsPrimary" {
			continue
		}
		found := false
		ast.Inspect(is.Body, func(n ast.Node) bool {
			if id, ok := n.(*ast.Ident); ok && id.Name == "ErrReadOnlyReplica" {
				found = true
			}
			return true
		})
		if found {
			return true
		}
	}
	return false
}

// ---------------------------------------------------------------------------
// Integer helpers (filled in by ints.go)
// ---------------------------------------------------------------------------

// genWriteLockSeq records, in source order, every guard call `gs.<lock>.<Method>()` made by
// (*DB).TryAcquireWriteLock, and whether the function contains any loop (a loop would hide calls).
func genWriteLockSeq(db *ast.File) string {
	fd := findFunc(db, "DB", "TryAcquireWriteLock")
	var b strings.Builder
	b.WriteString("/-- guard calls of `TryAcquireWriteLock` in source order: (lock, method) -/\n")
	if fd == nil {
		b.WriteString("def writeLockSeq : List (String × String) := []\ndef writeLockLoops : Nat := 0\n")
		return b.String()
	}
	var calls []string
	loops := 0
	ast.Inspect(fd.Body, func(n ast.Node) bool {
		switch x := n.(type) {
		case *ast.ForStmt, *ast.RangeStmt:
			loops++
		case *ast.CallExpr:
			if p, ok := selPath(x.Fun); ok {
				parts := strings.Split(p, ".")
				if len(parts) == 3 && parts[0] == "gs" {
					calls = append(calls, fmt.Sprintf("(%q, %q)", parts[1], parts[2]))
				}
			}
		}
		return true
	})
	fmt.Fprintf(&b, "def writeLockSeq : List (String × String) := [%s]\n", strings.Join(calls, ", "))
	fmt.Fprintf(&b, "def writeLockLoops : Nat := %d\n", loops)
	return b.String()
}

// genSnapshotSeq records, in source order, the guard calls `gs.<lock>.<Method>` and the reads of
// the state that must be captured under the write lock (db.Pos, db.PageN, db.wal.frameOffsets) made
// by Export / WriteSnapshotTo, plus whether a checksum self-check against pos.PostApplyChecksum exists.
func genSnapshotSeq(db *ast.File, fn, lean string) string {
	fd := findFunc(db, "DB", fn)
	var b strings.Builder
	if fd == nil {
		fmt.Fprintf(&b, "def %s : List (String × String) := []\ndef %sSelfCheck : Bool := false\n", lean, lean)
		return b.String()
	}
	var calls []string
	selfCheck := false
	seenOffsets := false
	ast.Inspect(fd.Body, func(n ast.Node) bool {
		switch x := n.(type) {
		case *ast.DeferStmt:
			return false // the deferred gs.Unlock() is not part of the sequence
		case *ast.CallExpr:
			if p, ok := selPath(x.Fun); ok {
				parts := strings.Split(p, ".")
				if len(parts) == 3 && parts[0] == "gs" {
					calls = append(calls, fmt.Sprintf("(%q, %q)", parts[1], parts[2]))
				}
				if p == "db.Pos" {
					calls = append(calls, `("capture", "pos")`)
				}
				if p == "db.PageN" {
					calls = append(calls, `("capture", "pageN")`)
				}
			}
		case *ast.RangeStmt:
			if p, ok := selPath(x.X); ok && p == "db.wal.frameOffsets" && !seenOffsets {
				seenOffsets = true
				calls = append(calls, `("capture", "frameOffsets")`)
			}
		case *ast.BinaryExpr:
			if x.Op == token.NEQ {
				if p, ok := selPath(x.Y); ok && p == "pos.PostApplyChecksum" {
					selfCheck = true
				}
			}
		}
		return true
	})
	fmt.Fprintf(&b, "/-- guard calls and state captures of `%s` in source order -/\n", fn)
	fmt.Fprintf(&b, "def %s : List (String × String) := [%s]\n", lean, strings.Join(calls, ", "))
	fmt.Fprintf(&b, "def %sSelfCheck : Bool := %v\n", lean, selfCheck)
	return b.String()
}

// genCondActions lists, in source order, every `if` condition of a function that is not plain
// error plumbing, with what its body does: clear (resets the client position), snapshot
// (returns streamLTXSnapshot), return-nil, error (returns an error), skip (verifies and discards),
// other.  Composite literals and calls are printed as source text.
func genCondActions(f *ast.File, recv, fn, lean string) string {
	fd := findFunc(f, recv, fn)
	var b strings.Builder
	if fd == nil {
		fmt.Fprintf(&b, "def %s : List (String × String) := []\n", lean)
		return b.String()
	}
	src := func(n ast.Node) string {
		var sb strings.Builder
		_ = printer.Fprint(&sb, fset, n)
		return strings.Join(strings.Fields(sb.String()), " ")
	}
	classify := func(body *ast.BlockStmt) string {
		kind := "other"
		ast.Inspect(body, func(n ast.Node) bool {
			switch x := n.(type) {
			case *ast.AssignStmt:
				if len(x.Lhs) == 1 && len(x.Rhs) == 1 && src(x.Lhs[0]) == "clientPos" && src(x.Rhs[0]) == "ltx.Pos{}" {
					kind = "clear"
				}
			case *ast.ReturnStmt:
				if kind != "other" {
					return true
				}
				txt := src(x)
				switch {
				case txt == "return":
					kind = "return"
				case strings.Contains(txt, "streamLTXSnapshot"):
					kind = "snapshot"
				case txt == "return nil":
					kind = "return-nil"
				case strings.Contains(txt, "fmt.Errorf") || strings.Contains(txt, "err"):
					kind = "error"
				}
			case *ast.CallExpr:
				if strings.Contains(src(x.Fun), "io.Discard") || (len(x.Args) > 0 && src(x.Args[0]) == "io.Discard") {
					kind = "skip"
				}
				if kind == "other" {
					switch fn := src(x.Fun); {
					case fn == "s.proxyToTarget":
						kind = "proxyToTarget " + src(x.Args[len(x.Args)-1])
					case fn == "s.serveGetHealth" || fn == "s.serveRead" || fn == "s.serveNonRead":
						kind = strings.TrimPrefix(fn, "s.")
					case fn == "http.Error" && len(x.Args) == 3:
						kind = "http.Error " + src(x.Args[2])
					case fn == "Error" && len(x.Args) == 4:
						kind = "Error " + src(x.Args[3])
					case fn == "http.SetCookie":
						kind = "set-cookie"
					}
				}
			}
			return true
		})
		return kind
	}
	var out []string
	var walk func(list []ast.Stmt)
	walkIf := func(x *ast.IfStmt) {}
	lastErrCall := ""
	noteAssign := func(x *ast.AssignStmt) {
		for _, l := range x.Lhs {
			if src(l) == "err" && len(x.Rhs) == 1 {
				lastErrCall = src(x.Rhs[0])
			}
		}
		if len(x.Lhs) == 1 && src(x.Lhs[0]) == "expectedPos" {
			out = append(out, fmt.Sprintf("(%q, %q)", "expectedPos", src(x.Rhs[0])))
		}
		for _, r := range x.Rhs {
			if c, ok := r.(*ast.CallExpr); ok {
				t := src(c)
				if strings.Contains(t, "streamLTX(") || strings.Contains(t, "OpenLTXFile(") || strings.Contains(t, "ApplyLTXNoLock(") {
					out = append(out, fmt.Sprintf("(%q, %q)", "call", t))
				}
			}
		}
	}
	walkIf = func(x *ast.IfStmt) {
		if a, ok := x.Init.(*ast.AssignStmt); ok {
			noteAssign(a)
		}
		cond := src(x.Cond)
		if cond != "err != nil" && !strings.HasPrefix(cond, "err == ") && !strings.Contains(cond, "err != nil") {
			out = append(out, fmt.Sprintf("(%q, %q)", cond, classify(x.Body)))
		} else if k := classify(x.Body); cond == "err != nil" && strings.HasPrefix(k, "Error ") {
			out = append(out, fmt.Sprintf("(%q, %q)", "err: "+lastErrCall, k))
		}
		walk(x.Body.List)
		switch e := x.Else.(type) {
		case *ast.IfStmt:
			walkIf(e)
		case *ast.BlockStmt:
			walk(e.List)
		}
	}
	walk = func(list []ast.Stmt) {
		for _, st := range list {
			switch x := st.(type) {
			case *ast.IfStmt:
				walkIf(x)
			case *ast.ForStmt:
				walk(x.Body.List)
			case *ast.LabeledStmt:
				walk([]ast.Stmt{x.Stmt})
			case *ast.SelectStmt:
				for _, cc := range x.Body.List {
					if c, ok := cc.(*ast.CommClause); ok && c.Comm != nil {
						out = append(out, fmt.Sprintf("(%q, %q)", "select "+src(c.Comm), classify(&ast.BlockStmt{List: c.Body})))
					}
				}
			case *ast.BlockStmt:
				walk(x.List)
			case *ast.AssignStmt:
				noteAssign(x)
			}
		}
	}
	walk(fd.Body.List)
	fmt.Fprintf(&b, "/-- conditions of `%s` in source order with the action of each branch -/\n", fn)
	fmt.Fprintf(&b, "def %s : List (String × String) := [\n  %s\n]\n", lean, strings.Join(out, ",\n  "))
	return b.String()
}

// genRouteTable extracts the path / method switch of Server.serveHTTP: path -> [(method, handler)].
func genRouteTable(f *ast.File) string {
	fd := findFunc(f, "Server", "serveHTTP")
	var rows []string
	if fd != nil {
		for _, st := range fd.Body.List {
			sw, ok := st.(*ast.SwitchStmt)
			if !ok {
				continue
			}
			if p, ok := selPath(sw.Tag); !ok || p != "r.URL.Path" {
				continue
			}
			for _, cc := range sw.Body.List {
				c := cc.(*ast.CaseClause)
				for _, e := range c.List {
					lit, ok := e.(*ast.BasicLit)
					if !ok {
						continue
					}
					var ms []string
					for _, inner := range c.Body {
						msw, ok := inner.(*ast.SwitchStmt)
						if !ok {
							continue
						}
						for _, mcc := range msw.Body.List {
							mc := mcc.(*ast.CaseClause)
							for _, me := range mc.List {
								mp, _ := selPath(me)
								handler := ""
								ast.Inspect(&ast.BlockStmt{List: mc.Body}, func(n ast.Node) bool {
									if call, ok := n.(*ast.CallExpr); ok && handler == "" {
										if hp, ok := selPath(call.Fun); ok && strings.HasPrefix(hp, "s.handle") {
											handler = strings.TrimPrefix(hp, "s.")
										}
									}
									return true
								})
								ms = append(ms, fmt.Sprintf("(%q, %q)", strings.TrimPrefix(mp, "http.Method"), handler))
							}
						}
					}
					if len(ms) > 0 {
						rows = append(rows, fmt.Sprintf("(%s, [%s])", lit.Value, strings.Join(ms, ", ")))
					}
				}
			}
		}
	}
	return "/-- the path / method table of `Server.serveHTTP` (paths whose case contains a method switch) -/\ndef apiRoutes : List (String × List (String × String)) := [\n  " + strings.Join(rows, ",\n  ") + "\n]\n"
}
