package main

import (
	"encoding/hex"
	"fmt"
	"strings"
)

var codecInts = []uint64{0, 1, 255, 256, 65535, 65536, 1<<31 - 1, 1 << 31, 1<<32 - 1, 1 << 32, 1<<63 - 1, 1 << 63, 1<<64 - 1}
var codecNameLens = []int{0, 1, 2, 7, 63, 64, 65, 255, 256, 257, 4096, 65534, 65535, 65536, 65537, 70000}

func genCodec(c *Ctx) error {
	c.Stats.Rule = "frames: all 7 types x name lengths {0..70000} x integer extremes x 3 read-split modes, every proper prefix of small encodings and cuts around every field boundary of large ones, random and hostile-length byte strings; position maps: random maps, every prefix, duplicates, hostile counts; chunked bodies: write sizes around 65535 and multiples, read sizes {1,7,4096,65535,65536,100000}, every prefix of small streams and cuts around every chunk boundary of large ones, garbage streams. Non-trivial = the op reaches past the first length/type field (round-trip with non-empty data, a cut inside a value, or garbage with a valid type); distinct = distinct op line."
	r := c.Rng
	one := func(line string, nontrivial bool) string {
		cs := c.Begin()
		obs := cs.Do(line)
		cs.End()
		k := strings.SplitN(line, " ", 2)[0]
		c.Count("op." + k)
		switch {
		case strings.Contains(obs, " ok ") || strings.HasPrefix(obs, "ok "):
			c.Count("res.ok")
		case strings.Contains(obs, "err eof"):
			c.Count("res.eof")
		case strings.Contains(obs, "err unexpected-eof"):
			c.Count("res.unexpected-eof")
		case strings.Contains(obs, "err invalid"):
			c.Count("res.invalid")
		default:
			c.Count("res.other:" + firstWords(obs, 2))
		}
		if strings.Contains(obs, "alloc=excess") || obs == "oom" {
			c.Count("res.alloc-excess")
		}
		if nontrivial {
			c.Nontrivial(line)
		}
		return obs
	}
	nameTok := func(n int) string {
		if n == 0 {
			return "-"
		}
		if n <= 8 && r.Bool() {
			return hex.EncodeToString(r.Bytes(n))
		}
		return fmt.Sprintf("g%dx%d", r.Intn(1000), n)
	}
	frameOf := func(kind int, n uint64, name string) string {
		switch kind {
		case 0:
			return fmt.Sprintf("ltx %d %s", n, name)
		case 1:
			return "ready"
		case 2:
			return "end"
		case 3:
			return "dropdb " + name
		case 4:
			return "handoff " + name
		case 5:
			return fmt.Sprintf("hwm %d %s", n, name)
		default:
			return fmt.Sprintf("hb %d", n)
		}
	}
	encLen := func(kind, nameLen int) int {
		switch kind {
		case 0, 5:
			return 4 + 8 + 4 + nameLen
		case 1, 2:
			return 4
		case 3, 4:
			return 4 + 4 + nameLen
		default:
			return 12
		}
	}
	// --- frames: systematic round trips ---------------------------------------------------------
	for kind := 0; kind < 7; kind++ {
		for _, nl := range codecNameLens {
			if (kind == 1 || kind == 2 || kind == 6) && nl != 0 {
				continue
			}
			ints := codecInts
			if kind == 1 || kind == 2 || kind == 3 || kind == 4 {
				ints = []uint64{0}
			} else if nl > 300 && c.Tier == "quick" {
				ints = []uint64{pick(r, codecInts)}
			}
			for _, n := range ints {
				mode := r.Intn(3)
				if nl > 5000 && mode == 1 && c.Tier == "quick" {
					mode = 2
				}
				one(fmt.Sprintf("frame-rt %d full %s", mode, frameOf(kind, n, nameTok(nl))), nl > 0 || n > 255)
			}
			// prefixes
			total := encLen(kind, nl)
			var cuts []int
			if total <= 40 {
				for k := 0; k < total; k++ {
					cuts = append(cuts, k)
				}
			} else {
				for _, b := range []int{0, 4, 12, 16, 8, total} {
					for d := -2; d <= 2; d++ {
						if k := b + d; k >= 0 && k < total {
							cuts = append(cuts, k)
						}
					}
				}
				cuts = append(cuts, total/2, r.Intn(total))
			}
			for _, k := range cuts {
				one(fmt.Sprintf("frame-rt %d %d %s", r.Intn(3), k, frameOf(kind, pick(r, codecInts), nameTok(nl))), k > 4)
			}
		}
	}
	// --- frames: garbage and hostile lengths ---------------------------------------------------
	nG := 300
	if c.Tier == "thorough" {
		nG = 20000
	}
	for i := 0; i < nG; i++ {
		b := r.Bytes(r.Range(0, 40))
		if len(b) >= 4 && r.Chance(4, 5) { // mostly a valid type so that the payload decoder runs
			b[0], b[1], b[2], b[3] = 0, 0, 0, byte(r.Range(0, 9))
		}
		if len(b) >= 16 && r.Chance(1, 2) { // plausible small name length
			b[12], b[13], b[14] = 0, 0, 0
		}
		if len(b) >= 8 && r.Chance(1, 2) {
			b[4], b[5], b[6] = 0, 0, 0
		}
		one(fmt.Sprintf("frame-dec %d %s", r.Intn(3), tokHex(b)), len(b) > 4 && b[0] == 0 && b[1] == 0 && b[2] == 0 && b[3] >= 1 && b[3] <= 7)
	}
	for _, h := range []string{
		"0000000100000000000000050fffffff", "00000001000000000000000500ffffff", "000000010000000000000005ffffffff",
		"00000004ffffffff", "0000000480000000", "00000005ffffffff6162", "000000060000000000000001ffffffff",
		"000000040100000061", "0000000400000002", "00000007", "0000000700", "00000000", "00000008", "ffffffff",
	} {
		one("frame-dec 0 "+h, true)
	}
	// --- position maps ------------------------------------------------------------------------
	nP := 60
	if c.Tier == "thorough" {
		nP = 3000
	}
	for i := 0; i < nP; i++ {
		n := r.Intn(7)
		var ents []string
		size := 4
		seen := map[string]bool{}
		for j := 0; j < n; j++ {
			nl := pick(r, []int{0, 1, 2, 3, 8, 20, 300})
			nm := nameTok(nl)
			if seen[nm] {
				continue
			}
			seen[nm] = true
			ents = append(ents, fmt.Sprintf("%s:%d:%d", nm, pick(r, codecInts), pick(r, codecInts)))
			size += 4 + nl + 16
		}
		one("posmap-rt full "+strings.Join(ents, " "), len(ents) > 0)
		if size <= 120 {
			for k := 0; k < size; k++ {
				one(fmt.Sprintf("posmap-rt %d %s", k, strings.Join(ents, " ")), k > 4)
			}
		} else {
			for t := 0; t < 6; t++ {
				one(fmt.Sprintf("posmap-rt %d %s", r.Intn(size), strings.Join(ents, " ")), true)
			}
		}
	}
	for _, h := range []string{
		"ffffffff", "00100000", "80000000", "00000001ffffffff", "0000000100ffffff", "000000020000000161" + strings.Repeat("00", 16),
		"00000002" + "0000000161" + "0000000000000001" + "0000000000000002" + "0000000161" + "0000000000000003" + "0000000000000004",
		"00000001" + "00000000" + "00000000000000ff" + "8000000000000000" + "aabb", "", "00", "000000",
	} {
		if h == "" {
			h = "-"
		}
		one("posmap-dec "+h, true)
	}
	for i := 0; i < nG/2; i++ {
		b := r.Bytes(r.Range(0, 60))
		if len(b) >= 4 {
			b[0], b[1], b[2], b[3] = 0, 0, 0, byte(r.Intn(4))
		}
		if len(b) >= 8 {
			b[4], b[5], b[6], b[7] = 0, 0, 0, byte(r.Intn(6))
		}
		one("posmap-dec "+tokHex(b), len(b) > 8)
	}
	// --- chunked bodies -----------------------------------------------------------------------
	readSizes := []int{1, 7, 4096, 65535, 65536, 100000}
	writeSets := [][]int{
		{}, {0}, {1}, {5, 0, 3}, {65534}, {65535}, {65536}, {65537}, {131070}, {131071}, {65535, 65535}, {65535, 1},
		{1, 65535}, {0, 65536, 0}, {200000}, {3, 3, 3, 3, 3, 3, 3, 3}, {1048577},
	}
	if c.Tier == "quick" {
		writeSets = writeSets[:15]
	}
	for _, ws := range writeSets {
		toks := make([]string, len(ws))
		total, stream := 0, 2
		var bounds []int
		for i, n := range ws {
			toks[i] = nameTok(n)
			total += n
			for rem := n; rem > 0; rem -= 65535 {
				bounds = append(bounds, stream)
				stream += 2 + min(rem, 65535)
			}
		}
		bounds = append(bounds, stream-2, stream)
		for _, rs := range readSizes {
			if rs == 1 && total > 70000 {
				continue
			}
			one(fmt.Sprintf("chunk-rt %d %d full %s", r.Intn(3), rs, strings.Join(toks, " ")), total > 0)
		}
		var cuts []int
		if stream <= 48 {
			for k := 0; k < stream; k++ {
				cuts = append(cuts, k)
			}
		} else {
			for _, b := range bounds {
				for d := -1; d <= 3; d++ {
					if k := b + d; k >= 0 && k < stream {
						cuts = append(cuts, k)
					}
				}
			}
			cuts = append(cuts, r.Intn(stream))
		}
		for _, k := range cuts {
			one(fmt.Sprintf("chunk-rt %d %d %d %s", r.Intn(3), pick(r, readSizes[1:]), k, strings.Join(toks, " ")), k > 2)
		}
	}
	nC := 100
	if c.Tier == "thorough" {
		nC = 5000
	}
	for i := 0; i < nC; i++ {
		var ws []string
		for j, n := 0, r.Intn(5); j < n; j++ {
			ws = append(ws, nameTok(pick(r, []int{0, 1, 2, 9, 100, 65535, 65536, 70001})))
		}
		one(fmt.Sprintf("chunk-rt %d %d full %s", r.Intn(3), pick(r, readSizes[1:]), strings.Join(ws, " ")), len(ws) > 0)
		b := r.Bytes(r.Range(0, 30))
		if len(b) >= 2 && r.Chance(3, 4) {
			b[0] = 0
			b[1] = byte(r.Intn(12))
		}
		one(fmt.Sprintf("chunk-dec %d %d %s", r.Intn(3), pick(r, []int{1, 3, 64}), tokHex(b)), len(b) > 2)
	}
	return nil
}

func tokHex(b []byte) string {
	if len(b) == 0 {
		return "-"
	}
	return hex.EncodeToString(b)
}

func firstWords(s string, n int) string {
	f := strings.Fields(s)
	if len(f) > n {
		f = f[:n]
	}
	return strings.Join(f, " ")
}
