package main

import (
	"encoding/hex"
	"fmt"
	"strings"
)

func init() {
	register(&Suite{Name: "cluster", Gen: genCluster, New: func(c *Ctx) Runner { return &clusterImpl{c: c} }})
}

// nodeSim is the application side of one node: a pager simulator bound to that node.
type nodeSim struct {
	p    *pager
	up   bool
	net  bool
	cand bool
}

type histEntry struct {
	img [][]byte
	tok []string
	wal bool
	ctr uint32
}

// pagerStep runs one random application step (transaction, rollback, SQLite checkpoint) through
// the pager simulator; reports whether a transaction was committed.
func pagerStep(c *Ctx, p *pager, maxGrow int) (bool, string) {
	r := p.r
	if !p.wal {
		s := p.randomShape(maxGrow)
		spill, rb := 0, 0
		if r.Chance(1, 5) {
			spill = r.Range(1, 3)
		}
		if r.Chance(1, 8) && len(p.img) > 0 {
			rb = r.Range(1, 2)
		}
		toWAL := r.Chance(1, 4) && len(p.img) > 0 && rb == 0 && !c.Flag("journal")
		if toWAL {
			p.wal = true
			s.newN = max(s.newN, len(p.img))
		}
		p.journalTx(s, spill, rb)
		if rb == 0 {
			c.Count("tx.journal")
			if s.newN < len(p.img) {
				c.Count("tx.shrink")
			}
			return true, fmt.Sprintf("j%d", s.newN)
		}
		c.Count("tx.journal.rollback")
		return false, "jrb"
	}
	switch {
	case r.Chance(1, 6) && len(p.walPages) > 0:
		restart := r.Chance(2, 3)
		p.sqliteCheckpoint(restart, restart && r.Chance(1, 3))
		c.Count("ckpt.sqlite")
		return false, "ck"
	default:
		s := p.randomShape(maxGrow)
		rb := r.Chance(1, 8)
		p.walTx(s, rb, r.Chance(1, 3), r.Chance(1, 4))
		if !rb {
			c.Count("tx.wal")
			return true, fmt.Sprintf("w%d", s.newN)
		}
		c.Count("tx.wal.rollback")
		return false, "wrb"
	}
}

func posOf(state string) string {
	for _, f := range strings.Fields(state) {
		if strings.HasPrefix(f, "pos=") {
			return f[4:]
		}
	}
	return ""
}

// genCluster: 2-3 real nodes (Store + HTTP server each) around a scripted lease service.
func genCluster(c *Ctx) error {
	c.Stats.Rule = "clusters of 2-3 real stores with HTTP servers and a scripted lease service: pager-simulator histories on the current primary (rollback journal and WAL, grow/shrink, LZ4 on/off by suite flag), replicas joining fresh / lagging / behind a retention cut, disconnects and reconnects, graceful restarts, primary changes with and without unreplicated writes (forks of any length, ahead / same TXID other checksum / behind). After every step each live node reports position, decoded log and a from-scratch image. Non-trivial = at least 3 commits and one of: reconnect after lag, primary change, restart; distinct = distinct step signature."
	r := c.Rng
	nHist := 40
	if c.Tier == "thorough" {
		nHist = 300
	}
	directed := [][]string{
		// a node that created transactions, was reset to an older position by a snapshot and then
		// meets a primary that still has its files
		{"n3", "tx", "tx", "tx", "net 2 off", "tx", "tx", "net 1 off", "elect 2", "elect 1", "tx"},
		// former primary with unreplicated writes: ahead, same TXID other checksum, behind
		{"n2", "tx", "tx", "net 1 off", "tx", "tx", "elect 1", "tx"},
		{"n2", "tx", "tx", "net 1 off", "tx", "elect 1", "tx", "net 0 off", "tx", "tx", "net 0 on"},
		// ... and exactly level: the old primary (one unreplicated transaction) is cut off while the new
		// primary commits one transaction of its own, then rejoins while the new primary is idle —
		// same TXID, other checksum, nothing in flight that would expose the difference
		// (`tx1` = exactly one committed transaction, so that both sides advance by the same count)
		{"n2", "tx", "tx", "net 1 off", "tx1", "net 0 off", "elect 1", "tx1", "net 0 on"},
		{"n2", "tx", "net 1 off", "tx1", "tx1", "net 0 off", "elect 1", "tx1", "tx1", "net 0 on"},
		{"n3", "tx", "net 1 off", "net 2 off", "tx", "tx", "elect 1", "tx", "tx", "tx", "net 2 on", "retain", "net 0 off", "tx", "net 0 on"},
		// replica behind a retention cut
		{"n2", "tx", "tx", "net 1 off", "tx", "tx", "tx", "retain", "net 1 on", "tx"},
		// restarts
		{"n2", "tx", "tx", "restart 1", "tx", "restart 0", "tx"},
	}
	if !c.Flag("journal") {
		directedSnapshotRace(c)
		directedShrinkGrowCatchUp(c)
		directedFilteredDatabases(c)
	}
	for h := 0; h < nHist+len(directed); h++ {
		var script []string
		if h < len(directed) {
			script = directed[h]
		}
		ps := pick(r, []int{512, 1024, 4096})
		if r.Chance(1, 8) {
			ps = pick(r, []int{8192, 65536})
		}
		nNodes := r.Range(2, 3)
		if script != nil {
			nNodes = int(script[0][1] - '0')
			script = script[1:]
		}
		cs := c.Begin()
		var sig strings.Builder
		fmt.Fprintf(&sig, "n=%d,ps=%d", nNodes, ps)
		do := func(op string) string {
			obs := cs.Do(op)
			f := strings.Fields(op)
			k := f[0]
			if k == "n" && len(f) > 2 {
				k = "n." + f[2]
			}
			c.Count("op." + k)
			return obs
		}
		nodes := make([]*nodeSim, nNodes)
		hist := map[string]*histEntry{}
		mkPager := func(k int) *pager {
			p := newPager(r, ps, func(op string) string { return do(fmt.Sprintf("n %d %s", k, op)) })
			p.owner = 1
			p.journalMode = pick(r, []string{"DELETE", "TRUNCATE", "PERSIST"})
			p.walBig = r.Bool()
			return p
		}
		do(fmt.Sprintf("cluster %d", nNodes))
		for k := range nodes {
			nodes[k] = &nodeSim{p: mkPager(k), net: true}
		}
		primary := 0
		do("allow 0")
		for k := range nodes {
			do(fmt.Sprintf("up %d", k))
			nodes[k].up = true
		}
		commits, events := 0, 0
		maxGrow := 5
		if r.Chance(1, 5) {
			maxGrow = 280
		}
		if ps >= 8192 {
			maxGrow = 3
		}
		failed := false
		// observe: sync, then every live node reports; Go-side oracles
		observe := func(what string) {
			if out := do("sync"); out != "ok" {
				c.Fail(fmt.Sprintf("history %d %s: cluster did not settle: %s", h, what, out))
				failed = true
			}
			order := []int{primary}
			for k := range nodes {
				if k != primary {
					order = append(order, k)
				}
			}
			var ppos string
			for _, k := range order {
				if !nodes[k].up {
					continue
				}
				st := do(fmt.Sprintf("n %d state", k))
				pos := posOf(st)
				if k == primary && !strings.Contains(st, "exit=") {
					// the primary's position and what SQLite sees there (pager reference)
					p := nodes[k].p
					if pos != "" && !strings.HasPrefix(pos, "0:") {
						if _, ok := hist[pos]; !ok {
							e := &histEntry{wal: p.wal, ctr: p.changeCtr}
							e.img = append(e.img, p.img...)
							e.tok = append(e.tok, p.tok...)
							hist[pos] = e
							do(fmt.Sprintf("hist %s %s", pos, p.refImageDigest()))
						}
					}
				}
				do(fmt.Sprintf("n %d ltx", k))
				raw := do(fmt.Sprintf("n %d raw", k))
				if strings.Contains(st, "exit=") {
					c.Fail(fmt.Sprintf("history %d %s: node %d exited: %s", h, what, k, st))
					failed = true
					continue
				}
				if k == primary {
					ppos = pos
				} else if nodes[k].net && pos != ppos && ppos != "" && !strings.HasPrefix(ppos, "0:") {
					c.Fail(fmt.Sprintf("history %d %s: connected node %d at %s, primary at %s", h, what, k, pos, ppos))
				}
				if e, ok := hist[pos]; ok {
					var all []byte
					for _, b := range e.img {
						all = append(all, b...)
					}
					if want := imageDigest(all, ps); !strings.Contains(raw, "img="+want) {
						c.Fail(fmt.Sprintf("history %d %s: node %d at %s has image %q, the primary had %q there", h, what, k, pos, raw, want))
					}
				} else if pos != "" && !strings.HasPrefix(pos, "0:") {
					c.Fail(fmt.Sprintf("history %d %s: node %d reports position %s that no primary ever committed", h, what, k, pos))
				}
			}
		}
		observe("start")
		do(fmt.Sprintf("n %d createdb", primary))
		steps := r.Range(6, 16)
		if script != nil {
			steps = len(script)
		}
		for i := 0; i < steps && !failed; i++ {
			what := fmt.Sprintf("step %d", i)
			P := nodes[primary]
			k, arg := r.Intn(20), -1
			if c.Flag("diverge") && r.Bool() {
				k = pick(r, []int{10, 11, 14, 15, 12}) // more disconnects, primary changes, retention cuts
			}
			if script != nil {
				f := strings.Fields(script[i])
				if len(f) > 1 {
					arg = int(f[1][0] - '0')
				}
				k = map[string]int{"tx": 0, "tx1": 0, "net": 10, "retain": 12, "elect": 14, "restart": 16}[f[0]]
				if f[0] == "tx1" {
					// exactly one plain committed transaction in the database's current journal mode
					sh := P.p.randomShape(3)
					if P.p.wal {
						P.p.walTx(sh, false, false, false)
					} else {
						P.p.journalTx(sh, 0, 0)
					}
					commits++
					sig.WriteString(",tx1")
					observe(what)
					continue
				}
			}
			choose := func() int {
				if arg >= 0 {
					return arg
				}
				return r.Intn(nNodes)
			}
			switch {
			case k < 10: // application work on the primary
				ok, s := pagerStep(c, P.p, maxGrow)
				for script != nil && !ok { // scripted: insist on a commit
					ok, s = pagerStep(c, P.p, maxGrow)
				}
				if ok {
					commits++
				}
				sig.WriteString("," + s)
			case k < 12: // a replica loses / regains its connection
				x := choose()
				if (x == primary && script == nil) || !nodes[x].up {
					continue // (a script may cut the primary off in advance of its demotion)
				}
				nodes[x].net = !nodes[x].net
				do(fmt.Sprintf("net %d %s", x, map[bool]string{true: "on", false: "off"}[nodes[x].net]))
				if nodes[x].net {
					events++
				}
				fmt.Fprintf(&sig, ",net%d%v", x, nodes[x].net)
			case k < 14 && commits > 0: // retention sweep on the primary: lagging replicas will need a snapshot
				do(fmt.Sprintf("n %d age", primary))
				do(fmt.Sprintf("n %d retain", primary))
				c.Count("retain")
				sig.WriteString(",ret")
			case k < 16 && commits > 0: // primary change
				x := choose()
				if x == primary || !nodes[x].up {
					continue
				}
				do("allow -1")
				do(fmt.Sprintf("demote %d", primary))
				// the new primary's application starts from that node's own image
				st := do(fmt.Sprintf("n %d state", x))
				pos := posOf(st)
				e, ok := hist[pos]
				np := mkPager(x)
				if ok {
					np.img = append(np.img, e.img...)
					np.tok = append(np.tok, e.tok...)
					np.wal, np.changeCtr = e.wal, e.ctr+1000
				} else if !strings.HasPrefix(pos, "0:") && st != "nodb" {
					c.Fail(fmt.Sprintf("history %d %s: node %d at unknown position %q", h, what, x, st))
					failed = true
					continue
				}
				np.restarted()
				nodes[x].p = np
				nodes[primary].p.restarted()
				do(fmt.Sprintf("allow %d", x))
				primary = x
				events++
				c.Count("elect")
				fmt.Fprintf(&sig, ",elect%d", x)
				if st == "nodb" || len(np.img) == 0 {
					observe(what + " (elect)")
					do(fmt.Sprintf("n %d createdb", primary))
					continue
				}
			case k < 18 && commits > 0: // graceful restart of a node
				x := choose()
				if !nodes[x].up {
					continue
				}
				if x == primary {
					do("allow -1")
				}
				do(fmt.Sprintf("down %d", x))
				do(fmt.Sprintf("up %d", x))
				nodes[x].p.restarted()
				nodes[x].net = true
				if x == primary {
					do(fmt.Sprintf("allow %d", x))
				}
				events++
				c.Count("restart")
				fmt.Fprintf(&sig, ",rs%d", x)
			default:
				continue
			}
			observe(what)
		}
		cs.End()
		if commits >= 3 && events >= 1 {
			c.Nontrivial(sig.String())
		}
	}
	return nil
}

// directedSnapshotRace: a replica joins by snapshot (fresh, or behind a retention cut) while the
// primary, in WAL mode, commits between the snapshot's capture of its position and the transfer
// of its pages (the snapshot is suspended at its first shared lock after the capture).
func directedSnapshotRace(c *Ctx) {
	r := c.Rng
	for _, variant := range []string{"fresh", "cut", "fresh-two"} {
		ps := pick(r, []int{512, 1024, 4096})
		cs := c.Begin()
		do := func(op string) string { c.Count("op." + strings.Fields(op)[0]); return cs.Do(op) }
		p := newPager(r, ps, func(op string) string { return do("n 0 " + op) })
		p.journalMode = "DELETE"
		p.walBig = r.Bool()
		states := func() {
			for k := 0; k < 2; k++ {
				st := do(fmt.Sprintf("n %d state", k))
				if k == 0 {
					if pos := posOf(st); pos != "" && !strings.HasPrefix(pos, "0:") {
						do(fmt.Sprintf("hist %s %s", pos, p.refImageDigest()))
					}
				}
				do(fmt.Sprintf("n %d ltx", k))
				do(fmt.Sprintf("n %d raw", k))
			}
		}
		observe := func() {
			if out := do("sync"); out != "ok" {
				c.Fail(fmt.Sprintf("snapshot race (%s): cluster did not settle: %s", variant, out))
			}
			states()
		}
		do("cluster 2")
		do("allow 0")
		do("up 0")
		do("up 1")
		do("sync")
		if variant != "cut" {
			do("net 1 off")
		}
		do("n 0 createdb")
		first := txShape{newN: r.Range(3, 8), pages: map[int]bool{}, commit: true}
		for pg := 1; pg <= first.newN; pg++ {
			first.pages[pg] = true
		}
		p.journalTx(first, 0, 0)
		observe()
		p.wal = true
		p.journalTx(txShape{newN: len(p.img), pages: map[int]bool{1: true}, commit: true}, 0, 0)
		observe()
		p.walTx(p.randomShape(4), false, false, false)
		observe()
		if variant == "cut" {
			do("net 1 off")
			p.walTx(p.randomShape(4), false, false, false)
			p.walTx(p.randomShape(4), false, false, false)
			observe()
			do("n 0 age")
			do("n 0 retain")
			observe()
		}
		do("snap-arm 0")
		do("net 1 on")
		if out := do("snap-wait 0"); out != "paused" {
			c.Fail(fmt.Sprintf("snapshot race (%s): the joining replica was not sent a snapshot", variant))
		}
		// the primary commits while the snapshot is in flight
		p.walTx(p.randomShape(4), false, false, false)
		if variant == "fresh-two" {
			p.walTx(p.randomShape(4), false, false, false)
		}
		do("snap-release 0")
		observe()
		p.walTx(p.randomShape(4), false, false, false)
		observe()
		c.Count("directed.snapshot-race")
		c.Nontrivial("snapshot-race-" + variant)
		cs.End()
	}
}

// directedShrinkGrowCatchUp: an application on the replica has read the whole database (through
// the mount, in mount mode: the pages are in the kernel's page cache); while the replica is cut
// off the primary shrinks the database and then grows it back with new content; the replica
// catches up through the two transaction files without anybody looking at the file in between,
// and the application reads again: it must see the primary's pages at the position reported.
func directedShrinkGrowCatchUp(c *Ctx) {
	r := c.Rng
	for _, ps := range []int{1024, 4096} {
		for _, wal := range []bool{false, true} {
			cs := c.Begin()
			do := func(op string) string { c.Count("op." + strings.Fields(op)[0]); return cs.Do(op) }
			p := newPager(r, ps, func(op string) string { return do("n 0 " + op) })
			p.journalMode = "DELETE"
			states := func() {
				for k := 0; k < 2; k++ {
					st := do(fmt.Sprintf("n %d state", k))
					if k == 0 {
						if pos := posOf(st); pos != "" && !strings.HasPrefix(pos, "0:") {
							do(fmt.Sprintf("hist %s %s", pos, p.refImageDigest()))
						}
					}
					do(fmt.Sprintf("n %d ltx", k))
					do(fmt.Sprintf("n %d raw", k))
				}
			}
			observe := func() {
				if out := do("sync"); out != "ok" {
					c.Fail("shrink-grow catch-up: cluster did not settle: " + out)
				}
				states()
			}
			do("cluster 2")
			do("allow 0")
			do("up 0")
			do("up 1")
			do("sync")
			do("n 0 createdb")
			n := 8
			first := txShape{newN: n, pages: map[int]bool{}, commit: true}
			for pg := 1; pg <= n; pg++ {
				first.pages[pg] = true
			}
			p.journalTx(first, 0, 0)
			observe()
			tx := func(s txShape) {
				if wal {
					p.walTx(s, false, false, false)
				} else {
					p.journalTx(s, 0, 0)
				}
			}
			if wal {
				p.wal = true
				p.journalTx(txShape{newN: n, pages: map[int]bool{1: true}, commit: true}, 0, 0)
				observe()
			}
			do("net 1 off")
			tx(txShape{newN: n / 2, pages: map[int]bool{1: true}, commit: true})
			only0 := do("n 0 state")
			if pos := posOf(only0); pos != "" {
				do(fmt.Sprintf("hist %s %s", pos, p.refImageDigest()))
			}
			grow := txShape{newN: n, pages: map[int]bool{1: true}, commit: true}
			for pg := n/2 + 1; pg <= n; pg++ {
				grow.pages[pg] = true
			}
			tx(grow)
			do("net 1 on")
			observe()
			tx(txShape{newN: n, pages: map[int]bool{1: true, 2: true}, commit: true})
			observe()
			c.Count("directed.shrink-grow-catch-up")
			c.Nontrivial(fmt.Sprintf("shrink-grow-catch-up-%d-%v", ps, wal))
			cs.End()
		}
	}
}

// directedFilteredDatabases: besides "db" the primary has further databases, some with characters
// in their names that are special in URLs; one replica replicates everything, one is configured
// to replicate a subset (Store.DatabaseFilter).  Every replica reaches the primary's position of
// every database it is configured for — at join and after later commits — and of no other.
func directedFilteredDatabases(c *Ctx) {
	r := c.Rng
	cs := c.Begin()
	do := func(op string) string { c.Count("op." + strings.Fields(op)[0]); return cs.Do(op) }
	hx := func(s string) string { return hex.EncodeToString([]byte(s)) }
	names := []string{"plain.db", "user data.db", "a+b&c.db", "100%.db", "scratch.db"}
	do("cluster 3")
	do("filter 2 " + strings.Join([]string{hx("db"), hx("plain.db"), hx("user data.db"), hx("a+b&c.db"), hx("100%.db")}, ","))
	do("allow 0")
	do("up 0")
	do("sync")
	img := func() string {
		v := newVPrimary(r, 512)
		v.commit(r.Range(1, 3), map[int]bool{})
		return v.tok0()
	}
	do("n 0 import " + img())
	for _, n := range names {
		if out := do("xdb 0 " + hx(n) + " " + img()); out != "ok" {
			c.Fail("filtered databases: transaction on " + n + " refused: " + out)
		}
	}
	do("up 1")
	do("up 2")
	do("sync")
	check := func(what string) {
		if out := do("xdb-check"); out != "ok" {
			c.Fail("filtered databases (" + what + "): " + out)
		}
	}
	check("after joining")
	for round := 0; round < 2; round++ {
		for _, n := range names {
			do("xdb 0 " + hx(n) + " " + img())
		}
		do("sync")
		check(fmt.Sprintf("after round %d of commits", round+1))
	}
	do("n 0 state")
	do("n 1 state")
	do("n 2 state")
	cs.End()
	c.Count("directed.filtered-databases")
	c.Nontrivial("filtered-databases")
}
