package main

import (
	"context"
	"fmt"
	"strconv"
	"strings"
	"time"

	"github.com/superfly/litefs"
)

func init() {
	register(&Suite{Name: "rwmutex", Gen: genRWMutex, New: func(*Ctx) Runner { return &rwImpl{} }})
}

type rwOp struct {
	kind  string
	owner int
}

func (o rwOp) String() string { return fmt.Sprintf("%s %d", o.kind, o.owner) }

var rwKinds = []string{"trylock", "tryrlock", "unlock", "canlock", "canrlock"}

type rwImpl struct {
	mu     *litefs.RWMutex
	guards []litefs.RWMutexGuard
}

func (m *rwImpl) Close() {}

func (m *rwImpl) Do(line string) (obs string) {
	defer func() {
		if r := recover(); r != nil {
			obs = "panic " + strings.TrimPrefix(fmt.Sprint(r), "assertion failed: ")
		}
	}()
	var o rwOp
	f := strings.Fields(line)
	switch {
	case len(f) == 2 && f[0] == "init":
		n, err := strconv.Atoi(f[1])
		if err != nil || n < 0 || n > 1<<16 {
			return "bad-op"
		}
		m.mu = &litefs.RWMutex{}
		m.guards = make([]litefs.RWMutexGuard, n)
		for i := range m.guards {
			m.guards[i] = m.mu.Guard()
		}
		return "ok"
	case len(f) == 1 && f[0] == "state":
		if m.mu == nil {
			return "unlocked | "
		}
		ss := make([]string, len(m.guards))
		for i := range m.guards {
			ss[i] = m.guards[i].State().String()
		}
		return m.mu.State().String() + " | " + strings.Join(ss, " ")
	case len(f) == 4 && (f[0] == "block-lock" || f[0] == "block-rlock"):
		// block-(r)lock <i> <releaseOp> <j>: owner i calls the blocking variant while it cannot be
		// granted; then owner j performs releaseOp; report whether/with what the blocked call returned.
		i, e1 := strconv.Atoi(f[1])
		j, e2 := strconv.Atoi(f[3])
		if e1 != nil || e2 != nil || i < 0 || j < 0 || i >= len(m.guards) || j >= len(m.guards) || i == j {
			return "bad-op"
		}
		ctx, cancel := context.WithTimeout(context.Background(), 400*time.Millisecond)
		defer cancel()
		done := make(chan error, 1)
		go func() {
			if f[0] == "block-lock" {
				done <- m.guards[i].Lock(ctx)
			} else {
				done <- m.guards[i].RLock(ctx)
			}
		}()
		time.Sleep(3 * time.Millisecond)
		early := false
		select {
		case <-done:
			early = true
		default:
		}
		if early {
			return "returned-before-release"
		}
		rel := m.Do(f[2] + " " + f[3])
		var res string
		select {
		case err := <-done:
			if err != nil {
				res = "ctx-ended"
			} else {
				res = "acquired"
			}
		case <-time.After(800 * time.Millisecond):
			res = "hang"
		}
		return rel + " " + res
	case len(f) == 2:
		n, err := strconv.Atoi(f[1])
		if err != nil || n < 0 {
			return "bad-op"
		}
		o = rwOp{f[0], n}
	default:
		return "bad-op"
	}
	if o.owner >= len(m.guards) {
		return "bad-owner"
	}
	g := &m.guards[o.owner]
	switch o.kind {
	case "trylock":
		return fmt.Sprint(g.TryLock())
	case "tryrlock":
		return fmt.Sprint(g.TryRLock())
	case "unlock":
		g.Unlock()
		return "ok"
	case "canlock":
		ok, st := g.CanLock()
		return fmt.Sprintf("%v %s", ok, st)
	case "canrlock":
		return fmt.Sprint(g.CanRLock())
	}
	return "bad-op"
}

func genRWMutex(c *Ctx) error {
	c.Stats.Rule = "BFS over the real RWMutex with 1..4 guards: one case per (reachable state, op) pair, the state reached by replaying its BFS path; plus random op sequences with 1..6 guards. Non-trivial = BFS case with a non-empty path, or random case containing a successful acquire and a later refusal; distinct = distinct (n, op list)."
	for n := 1; n <= 4; n++ {
		seen := map[string]bool{}
		{
			cs := c.Begin()
			cs.Do(fmt.Sprintf("init %d", n))
			seen[cs.Do("state")] = true
			cs.End()
		}
		queue := [][]rwOp{{}}
		for len(queue) > 0 {
			path := queue[0]
			queue = queue[1:]
			for _, k := range rwKinds {
				for o := 0; o < n; o++ {
					op := rwOp{k, o}
					cs := c.Begin()
					cs.Do(fmt.Sprintf("init %d", n))
					for _, p := range path {
						cs.Do(p.String())
					}
					res := cs.Do(op.String())
					key := cs.Do("state")
					cs.End()
					c.Count("bfs.transition")
					c.Count("op." + k)
					c.Count("res." + strings.SplitN(res, " ", 2)[0])
					if len(path) > 0 {
						c.Nontrivial(fmt.Sprintf("%d|%v|%v", n, path, op))
					}
					if !seen[key] {
						seen[key] = true
						queue = append(queue, append(append([]rwOp{}, path...), op))
					}
				}
			}
		}
		c.CountN(fmt.Sprintf("bfs.states.n%d", n), len(seen))
	}
	c.Stats.Exhaustive = true
	// blocking variants: a waiter that cannot be granted, then a release / downgrade by the holder
	for n := 2; n <= 3; n++ {
		for _, setup := range [][]string{{"trylock 1"}, {"tryrlock 1"}, {"tryrlock 1", "tryrlock 0"}} {
			for _, blk := range []string{"block-lock", "block-rlock"} {
				for _, rel := range []string{"unlock", "tryrlock"} {
					cs := c.Begin()
					cs.Do(fmt.Sprintf("init %d", n))
					for _, s := range setup {
						cs.Do(s)
					}
					can := cs.Do(map[string]string{"block-lock": "canlock 0", "block-rlock": "canrlock 0"}[blk])
					if strings.HasPrefix(can, "true") {
						cs.End()
						continue // would not block
					}
					res := cs.Do(fmt.Sprintf("%s 0 %s 1", blk, rel))
					cs.Do("state")
					cs.End()
					c.Count("blocking." + strings.ReplaceAll(res, " ", "-"))
					c.Nontrivial(fmt.Sprintf("blk|%d|%v|%s|%s", n, setup, blk, rel))
				}
			}
		}
	}
	nSeq, seqLen := 200, 60
	if c.Tier == "thorough" {
		nSeq, seqLen = 20000, 120
	}
	for s := 0; s < nSeq; s++ {
		n := c.Rng.Range(1, 6)
		cs := c.Begin()
		cs.Do(fmt.Sprintf("init %d", n))
		var sig strings.Builder
		fmt.Fprintf(&sig, "%d", n)
		acq, refused := false, false
		for i := 0; i < seqLen; i++ {
			op := rwOp{pick(c.Rng, rwKinds), c.Rng.Intn(n)}
			if op.kind == "unlock" && c.Rng.Chance(1, 2) {
				op.kind = "tryrlock" // unlock less often so that contention builds up
			}
			res := cs.Do(op.String())
			c.Count("op." + op.kind)
			c.Count("res." + strings.SplitN(res, " ", 2)[0])
			fmt.Fprintf(&sig, ",%s%d", op.kind[:4], op.owner)
			if res == "true" && (op.kind == "trylock" || op.kind == "tryrlock") {
				acq = true
			}
			if res == "false" && acq {
				refused = true
			}
			if i%10 == 9 {
				cs.Do("state")
			}
		}
		cs.End()
		if acq && refused {
			c.Nontrivial(sig.String())
		}
	}
	return nil
}
