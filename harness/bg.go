package main

import (
	"bytes"
	"context"
	"fmt"
	"runtime"
	"strconv"
	"strings"
	"sync"
	"sync/atomic"
	"time"

	"github.com/superfly/litefs"
)

// bgOp is an Export / WriteSnapshotTo running in a second goroutine while the main line issues
// application operations. It can be paused at a chosen lock transition (verif lock hook).
type bgOp struct {
	kind     string
	done     chan string
	progress atomic.Int64 // lock transitions seen since start
	pauseAt  string       // "LOCK:prev:next" or ""
	paused   chan struct{}
	resume   chan struct{}
	isPaused atomic.Bool
	inBG     atomic.Bool
	gid      atomic.Int64
	mu       sync.Mutex
}

var bgCur atomic.Pointer[bgOp]

// installLockHook routes the twelve locks' state changes to the current background op.
func (m *engineImpl) installLockHook() {
	if m.db == nil || m.hooked == m.db {
		return
	}
	m.hooked = m.db
	m.db.VerifSetLockHook(func(t litefs.LockType, prev, next litefs.RWMutexState) {
		b := bgCur.Load()
		if b == nil || !b.inBG.Load() || goid() != b.gid.Load() {
			return // only the background goroutine's own transitions count
		}
		b.progress.Add(1)
		if b.pauseAt != "" && b.pauseAt == fmt.Sprintf("%s:%s:%s", t, prev, next) {
			b.pauseAt = ""
			b.isPaused.Store(true)
			close(b.paused)
			<-b.resume
			b.isPaused.Store(false)
		}
	})
}

func (m *engineImpl) bgStart(kind, pauseAt string) string {
	if m.bg != nil || !m.need() {
		return "bad-op"
	}
	b := &bgOp{kind: kind, done: make(chan string, 1), pauseAt: pauseAt, paused: make(chan struct{}), resume: make(chan struct{})}
	m.bg = b
	bgCur.Store(b)
	db := m.db
	go func() {
		b.gid.Store(goid())
		b.inBG.Store(true)
		ctx, cancel := context.WithTimeout(context.Background(), 4*time.Second)
		defer cancel()
		var buf bytes.Buffer
		var res string
		if kind == "export" {
			pos, err := db.Export(ctx, &buf)
			if err != nil {
				res = "err"
			} else {
				res = fmt.Sprintf("ok pos=%d:%016x img=%s", uint64(pos.TXID), uint64(pos.PostApplyChecksum), imageDigest(buf.Bytes(), pageSizeOf(buf.Bytes())))
			}
		} else {
			_, _, err := db.WriteSnapshotTo(ctx, &buf)
			if err != nil {
				res = "err"
			} else if d, derr := decodeLTX(buf.Bytes(), true); derr != nil {
				res = "err undecodable-snapshot"
			} else {
				res = "ok " + d
			}
		}
		b.inBG.Store(false)
		b.done <- res
	}()
	return m.bgSettle()
}

// bgSettle waits until the background op is paused at its hook, finished, or has made no lock
// progress for a while (blocked on a lock an application holds).
func (m *engineImpl) bgSettle() string {
	b := m.bg
	if b == nil {
		return "none"
	}
	last, stable := b.progress.Load(), 0
	for i := 0; i < 400; i++ {
		select {
		case res := <-b.done:
			m.bg = nil
			bgCur.Store(nil)
			return "finished " + res
		case <-b.paused:
			b.paused = make(chan struct{}) // not reused: pauseAt is cleared after the first match
			return "paused"
		case <-time.After(5 * time.Millisecond):
		}
		if p := b.progress.Load(); p != last {
			last, stable = p, 0
		} else if stable++; stable >= 12 {
			return "blocked"
		}
	}
	return "blocked"
}

func (m *engineImpl) bgResume() string {
	b := m.bg
	if b == nil {
		return "bad-op"
	}
	if b.isPaused.Load() {
		close(b.resume)
		b.resume = make(chan struct{})
	}
	return m.bgSettle()
}

// bgAfterOp: if a background op is blocked on a lock, an application operation may have freed it.
func (m *engineImpl) bgAfterOp(obs string) string {
	if m.bg == nil || m.bg.isPaused.Load() {
		return obs
	}
	st := m.bgSettle()
	if strings.HasPrefix(st, "finished") {
		m.bgResult = st
	}
	return obs
}

// goid returns the current goroutine's id (parsed from the stack header; harness use only).
func goid() int64 {
	var buf [64]byte
	n := runtime.Stack(buf[:], false)
	f := strings.Fields(string(buf[:n]))
	if len(f) < 2 {
		return -1
	}
	id, _ := strconv.ParseInt(f[1], 10, 64)
	return id
}
