package main

import (
	"encoding/json"
	"fmt"
	"io"
	"net"
	"net/http"
	"strconv"
	"strings"
)

// fakeConsul answers the handful of Consul HTTP endpoints consul.Leaser uses (sessions and the
// key/value store) on top of the same scripted lease-service state the simulated leaser uses:
// who may take the free lease (`allow`), renewal failures, expiry, the cluster id and the
// cluster-id fault.  Nodes identify themselves by their ACL token (= node index).
type fakeConsul struct {
	svc      *leaseSvc
	ln       net.Listener
	srv      *http.Server
	nextID   int
	sessions map[string]int // session id -> node that created it
	alive    map[string]bool // sessions that are alive without holding the lock key (made by the suite)
	cur      string         // session holding the lock key
	value    []byte         // value of the lock key
}

const consulKey = "litefs/primary"

func newFakeConsul(svc *leaseSvc) (*fakeConsul, error) {
	ln, err := net.Listen("tcp", "127.0.0.1:0")
	if err != nil {
		return nil, err
	}
	c := &fakeConsul{svc: svc, ln: ln, sessions: map[string]int{}}
	c.srv = &http.Server{Handler: c}
	go func() { _ = c.srv.Serve(ln) }()
	return c, nil
}

func (c *fakeConsul) Close() { _ = c.srv.Close() }

// URL for node k: the token in the user-info part becomes the X-Consul-Token header.
func (c *fakeConsul) URL(k int) string {
	return fmt.Sprintf("http://node:%d@%s", k, c.ln.Addr().String())
}

func (c *fakeConsul) ServeHTTP(w http.ResponseWriter, r *http.Request) {
	s := c.svc
	s.mu.Lock()
	defer s.mu.Unlock()
	w.Header().Set("X-Consul-Index", "1")
	w.Header().Set("X-Consul-LastContact", "0")
	w.Header().Set("X-Consul-KnownLeader", "true")
	node, _ := strconv.Atoi(r.Header.Get("X-Consul-Token"))
	writeJSON := func(v any) {
		w.Header().Set("Content-Type", "application/json")
		_ = json.NewEncoder(w).Encode(v)
	}
	unavailable := func() { http.Error(w, "No cluster leader", http.StatusInternalServerError) }
	p := r.URL.Path
	switch {
	case p == "/v1/session/create":
		c.nextID++
		id := fmt.Sprintf("session-%d", c.nextID)
		c.sessions[id] = node
		writeJSON(map[string]string{"ID": id})
	case strings.HasPrefix(p, "/v1/session/renew/"):
		id := strings.TrimPrefix(p, "/v1/session/renew/")
		if c.alive[id] { // a live session that does not hold the key
			writeJSON([]map[string]any{{"ID": id, "TTL": "1s"}})
			return
		}
		if _, ok := c.sessions[id]; !ok || id != c.cur || s.holder == -1 {
			http.NotFound(w, r) // the session is gone: the lease has expired
			return
		}
		if s.renewErr {
			unavailable()
			return
		}
		if s.failNext > 0 {
			s.failNext--
			unavailable()
			return
		}
		writeJSON([]map[string]any{{"ID": id, "TTL": "1s"}})
	case strings.HasPrefix(p, "/v1/session/destroy/"):
		id := strings.TrimPrefix(p, "/v1/session/destroy/")
		delete(c.sessions, id)
		if id == c.cur && s.holder != -1 {
			s.event("release %d", s.holder)
			s.holder = -1
		}
		writeJSON(true)
	case p == "/v1/kv/"+consulKey+"/clusterid":
		if s.cidErr {
			unavailable()
			return
		}
		if r.Method == "GET" {
			if s.clusterID == "" {
				http.NotFound(w, r)
				return
			}
			writeJSON([]map[string]any{{"Key": consulKey + "/clusterid", "Value": []byte(s.clusterID), "CreateIndex": 1, "ModifyIndex": 1, "LockIndex": 0, "Flags": 0}})
			return
		}
		body, _ := io.ReadAll(r.Body)
		s.clusterID = string(body)
		writeJSON(true)
	case p == "/v1/kv/"+consulKey:
		q := r.URL.Query()
		switch {
		case r.Method == "GET":
			if s.holder == -1 {
				http.NotFound(w, r)
				return
			}
			writeJSON([]map[string]any{{"Key": consulKey, "Value": c.value, "Session": c.cur, "CreateIndex": 1, "ModifyIndex": 1, "LockIndex": 1, "Flags": 0}})
		case q.Get("acquire") != "":
			id := q.Get("acquire")
			body, _ := io.ReadAll(r.Body)
			if _, ok := c.sessions[id]; !ok {
				writeJSON(false)
				return
			}
			if s.holder == -1 {
				if s.allow != node {
					writeJSON(false)
					return
				}
				s.holder = node
				s.leaseID++
				c.cur, c.value = id, body
				s.event("acquire %d", node)
				if s.cidArmed {
					s.cidArmed, s.cidErr = false, true
				}
				writeJSON(true)
				return
			}
			if id == c.cur { // the holder's session presented by the node it was handed to
				s.holder = node
				c.value = body
				s.event("acquire-existing %d", node)
				writeJSON(true)
				return
			}
			writeJSON(false)
		case q.Get("release") != "":
			id := q.Get("release")
			if id == c.cur && s.holder != -1 {
				s.event("release %d", s.holder)
				s.holder = -1
				writeJSON(true)
				return
			}
			writeJSON(false)
		default:
			http.Error(w, "unsupported", http.StatusNotImplemented)
		}
	default:
		http.Error(w, "not implemented: "+p, http.StatusNotImplemented)
	}
}

// strangerSession makes a live session for node k that does not hold the lock key: what a node is
// handed when the key was taken over by another session between the old primary's last renewal
// and the target's acquisition.
func (c *fakeConsul) strangerSession(k int) string {
	c.svc.mu.Lock()
	defer c.svc.mu.Unlock()
	c.nextID++
	id := fmt.Sprintf("session-%d", c.nextID)
	c.sessions[id] = k
	if c.alive == nil {
		c.alive = map[string]bool{}
	}
	c.alive[id] = true
	return id
}
