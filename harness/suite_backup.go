package main

import (
	"bytes"
	"context"
	"encoding/hex"
	"fmt"
	"io"
	"net/url"
	"os"
	"path/filepath"
	"sort"
	"strconv"
	"strings"
	"time"

	"github.com/superfly/litefs"
	"github.com/superfly/litefs/lfsc"
	"github.com/superfly/ltx"
)

func init() {
	register(&Suite{Name: "backup", Gen: genBackup, New: func(c *Ctx) Runner { return &backupImpl{eng: engineImpl{c: c}} }})
}

// backupImpl: a real primary Store with the file-based backup client; the harness plays the
// backup service's operator (it can lose, replace or extend what the service holds).
//
//	open primary           (with BackupClient = FileBackupClient(<dir>/backup))
//	backup-sync            Store.SyncBackup (one pass of the sync loop)
//	svc                    what the service holds for "db": files, position, restored image
//	hwm                    the database's high-water mark
//	svc-drop-last          the service loses its newest file
//	svc-clear              the service loses the database
//	svc-put <ltxspec>      the service gets this file (as written by some other primary)
//	svc-put-force <spec>   ... even if it does not extend what the service has
type backupImpl struct {
	eng       engineImpl
	client    *litefs.FileBackupClient
	xdbs      map[string]bool // names of second databases made with `xdb`
	cloud     *fakeLFSC // non-nil: the store uses the LiteFS Cloud client against this local server
	dir       string
	loop      bool      // the store was opened with the continuous sync loop
	loopStart time.Time // when
}

func (m *backupImpl) Close() {
	m.eng.Close()
	if m.cloud != nil {
		m.cloud.Close()
	}
	if m.dir != "" {
		_ = os.RemoveAll(m.dir)
	}
}

func (m *backupImpl) svcDir() string { return filepath.Join(m.dir, "db") }

func (m *backupImpl) svcFiles() []string {
	ents, _ := os.ReadDir(m.svcDir())
	var names []string
	for _, e := range ents {
		if filepath.Ext(e.Name()) == ".ltx" {
			names = append(names, e.Name())
		}
	}
	sort.Strings(names)
	return names
}

func (m *backupImpl) Do(line string) string {
	f := strings.Fields(line)
	if len(f) == 0 {
		return "bad-op"
	}
	ctx, cancel := context.WithTimeout(context.Background(), 3*time.Second)
	defer cancel()
	switch f[0] {
	case "ref":
		return "ok"
	case "open":
		if m.eng.store != nil || !(len(f) == 2 || (len(f) == 3 && f[2] == "lfsc")) {
			return "bad-op"
		}
		d, err := os.MkdirTemp(os.Getenv("VERIF_SCRATCH"), "verif-backup-")
		if err != nil {
			return "err"
		}
		m.dir = d
		m.client = litefs.NewFileBackupClient(d)
		if err := m.client.Open(); err != nil {
			return "err"
		}
		if len(f) == 3 {
			// the LiteFS Cloud client (lfsc/backup_client.go) against a local server that keeps its
			// state with the file client on the same directory
			fk, err := newFakeLFSC(m.client)
			if err != nil {
				return "err"
			}
			m.cloud = fk
		}
		m.eng.configure = func(st *litefs.Store) error {
			st.BackupClient = m.client
			if m.cloud != nil {
				bc := lfsc.NewBackupClient(st, url.URL{Scheme: "http", Host: m.cloud.Host()})
				bc.Cluster = "verif"
				if err := bc.Open(); err != nil {
					return err
				}
				st.BackupClient = bc
			}
			st.BackupDelay = 0 // no background loop: the suite calls SyncBackup
			if m.loop {
				st.BackupDelay = 2 * time.Millisecond // continuous loop (starts with the node's first backup tick, 1 s after it became primary)
				st.BackupFullSyncInterval = time.Hour
			}
			st.Leaser = litefs.NewStaticLeaser(f[1] != "replica", "localhost", "http://127.0.0.1:1")
			return nil
		}
		if err := m.eng.openStore(f[1]); err != nil {
			return "err"
		}
		for i := 0; i < 500 && f[1] != "replica" && !m.eng.store.IsPrimary(); i++ {
			time.Sleep(time.Millisecond)
		}
		return "ok"
	case "hwm-frame": // <txid>: a replica receives the primary's high-water mark (HWM stream frame)
		if m.eng.db == nil || len(f) != 2 {
			return "bad-op"
		}
		n, err := strconv.ParseUint(f[1], 10, 64)
		if err != nil {
			return "bad-op"
		}
		m.eng.db.SetHWM(ltx.TXID(n))
		return "ok"
	case "reopen-loop": // restart with the continuous sync loop instead of explicit one-pass syncs
		if m.eng.store == nil {
			return "bad-op"
		}
		m.loop = true
		out := m.eng.Do("reopen")
		m.loopStart = time.Now()
		for i := 0; i < 500 && m.eng.store != nil && !m.eng.store.IsPrimary(); i++ {
			time.Sleep(time.Millisecond)
		}
		return out
	case "backup-wait": // let the loop finish the pass a change (or its start) triggered
		if !m.loop {
			return "bad-op"
		}
		if d := 1300*time.Millisecond - time.Since(m.loopStart); d > 0 {
			time.Sleep(d)
		}
		last, stable := "", 0
		for i := 0; i < 400 && stable < 12; i++ {
			cur := strings.Join(m.svcFiles(), ",")
			if cur == last {
				stable++
			} else {
				last, stable = cur, 0
			}
			time.Sleep(10 * time.Millisecond)
		}
		if m.eng.db == nil && m.eng.store != nil {
			if m.eng.db = m.eng.store.DB("db"); m.eng.db != nil {
				m.eng.db.Now = func() time.Time { return fixedNow }
			}
		}
		return "ok"
	case "backup-sync":
		if m.eng.store == nil {
			return "bad-op"
		}
		err := m.eng.store.SyncBackup(ctx)
		if m.eng.db == nil {
			if m.eng.db = m.eng.store.DB("db"); m.eng.db != nil {
				m.eng.db.Now = func() time.Time { return fixedNow }
			}
		}
		if err != nil {
			if m.eng.c != nil {
				m.eng.c.Stats.Notes = append(m.eng.c.Stats.Notes, "backup-sync: "+oneLine(err.Error()))
			}
			return m.eng.withExit("err")
		}
		return m.eng.withExit("ok")
	case "xdb": // xdb <hex of name> <image>: a second database of the node (created if absent), one transaction that replaces its content
		if len(f) != 3 || m.eng.store == nil {
			return "bad-op"
		}
		nb, err := hex.DecodeString(f[1])
		data, ok := bytesOf(f[2])
		if err != nil || !ok || len(nb) == 0 {
			return "bad-op"
		}
		db, err := m.eng.store.CreateDBIfNotExists(string(nb))
		if err != nil {
			return "err"
		}
		db.Now = func() time.Time { return fixedNow }
		if err := db.Import(ctx, bytes.NewReader(data)); err != nil {
			return "err"
		}
		if m.xdbs == nil {
			m.xdbs = map[string]bool{}
		}
		m.xdbs[string(nb)] = true
		return "ok"
	case "xdb-check": // after a sync: the service holds every second database under its own name at the node's position
		if m.eng.store == nil {
			return "bad-op"
		}
		pm, err := m.client.PosMap(ctx)
		if err != nil {
			return "err"
		}
		for name := range pm {
			if name != "db" && !m.xdbs[name] {
				return fmt.Sprintf("mismatch: the service holds a database %q the node does not have", name)
			}
		}
		for name := range m.xdbs {
			db := m.eng.store.DB(name)
			if db == nil {
				return fmt.Sprintf("mismatch: database %q is gone", name)
			}
			if got, want := pm[name], db.Pos(); got != want {
				return fmt.Sprintf("mismatch: the service holds %q at %s, the node is at %s", name, got, want)
			}
			if uint64(db.HWM()) > uint64(pm[name].TXID) {
				return fmt.Sprintf("mismatch: high-water mark of %q (%d) exceeds the service's position (%d)", name, uint64(db.HWM()), uint64(pm[name].TXID))
			}
		}
		return "ok"
	case "hwm":
		if m.eng.db == nil {
			return "nodb"
		}
		return fmt.Sprintf("hwm=%d", uint64(m.eng.db.HWM()))
	case "svc":
		names := m.svcFiles()
		if len(names) == 0 {
			return "files=[] pos=0:0000000000000000 img=0:-"
		}
		var ranges []string
		var img []byte
		ps := 0
		var pos ltx.Pos
		chain := "chain"
		var prev ltx.Pos
		for i, n := range names {
			b, err := os.ReadFile(filepath.Join(m.svcDir(), n))
			if err != nil {
				return "err"
			}
			dec := ltx.NewDecoder(bytes.NewReader(b))
			if err := dec.DecodeHeader(); err != nil {
				return "err decode " + n
			}
			h := dec.Header()
			ps = int(h.PageSize)
			buf := make([]byte, ps)
			for {
				var ph ltx.PageHeader
				if err := dec.DecodePage(&ph, buf); err == io.EOF {
					break
				} else if err != nil {
					return "err decode " + n
				}
				off := int(ph.Pgno-1) * ps
				if len(img) < off+ps {
					img = append(img, make([]byte, off+ps-len(img))...)
				}
				copy(img[off:], buf)
			}
			if err := dec.Close(); err != nil {
				return "err verify " + n
			}
			if len(img) > int(h.Commit)*ps {
				img = img[:int(h.Commit)*ps]
			} else if len(img) < int(h.Commit)*ps {
				img = append(img, make([]byte, int(h.Commit)*ps-len(img))...)
			}
			if i > 0 && (h.MinTXID != prev.TXID+1 || h.PreApplyChecksum != prev.PostApplyChecksum) {
				chain = "broken"
			}
			if i == 0 && h.MinTXID != 1 {
				chain = "broken"
			}
			pos = ltx.Pos{TXID: h.MaxTXID, PostApplyChecksum: dec.Trailer().PostApplyChecksum}
			prev = pos
			ranges = append(ranges, fmt.Sprintf("%d-%d", uint64(h.MinTXID), uint64(h.MaxTXID)))
		}
		return fmt.Sprintf("files=[%s] pos=%d:%016x img=%s %s", strings.Join(ranges, ","), uint64(pos.TXID), uint64(pos.PostApplyChecksum), imageDigest(img, ps), chain)
	case "svc-drop-last":
		names := m.svcFiles()
		if len(names) == 0 {
			return "empty"
		}
		_ = os.Remove(filepath.Join(m.svcDir(), names[len(names)-1]))
		return "ok"
	case "svc-clear":
		_ = os.RemoveAll(m.svcDir())
		return "ok"
	case "svc-put", "svc-put-force":
		b, ok := buildLTX(f[1:], false)
		if !ok {
			return "bad-op"
		}
		if f[0] == "svc-put" {
			if _, err := m.client.WriteTx(ctx, "db", bytes.NewReader(b)); err != nil {
				return "rejected"
			}
			return "ok"
		}
		dec := ltx.NewDecoder(bytes.NewReader(b))
		if err := dec.DecodeHeader(); err != nil {
			return "bad-op"
		}
		_ = os.MkdirAll(m.svcDir(), 0o777)
		if err := os.WriteFile(filepath.Join(m.svcDir(), ltx.FormatFilename(dec.Header().MinTXID, dec.Header().MaxTXID)), b, 0o666); err != nil {
			return "err"
		}
		return "ok"
	}
	if m.eng.db == nil && m.eng.store != nil {
		if m.eng.db = m.eng.store.DB("db"); m.eng.db != nil {
			m.eng.db.Now = func() time.Time { return fixedNow }
		}
	}
	out := m.eng.Do(line)
	if f[0] == "reopen" && m.eng.store != nil {
		for i := 0; i < 500 && !m.eng.store.IsPrimary(); i++ {
			time.Sleep(time.Millisecond)
		}
	}
	return out
}

// genBackup: histories of commits, drops and retention sweeps between syncs; the service is put
// behind, ahead, on a fork or loses everything; batches longer than the compaction limit.
func genBackup(c *Ctx) error {
	c.Stats.Rule = "a real primary with the file-based backup client: pager-simulator commits (journal and WAL), retention sweeps and restarts between one-pass syncs; the service is left behind by k transactions (k up to 600, across the 256-file batch limit), loses its newest file or everything, is extended by another writer (ahead) or holds another history (fork); after every sync: service chain, service position, restored image, primary state, high-water mark. Non-trivial = at least 3 syncs that uploaded something and one restore; distinct = distinct step signature."
	r := c.Rng
	nHist := 16
	if c.Tier == "thorough" {
		nHist = 160
	}
	directedBackupLoop(c)
	directedBackupLoopRestore(c)
	directedReplicaRetention(c)
	directedSecondDatabase(c)
	for h := 0; h < nHist; h++ {
		ps := pick(r, []int{512, 1024, 4096})
		cs := c.Begin()
		var sig strings.Builder
		fmt.Fprintf(&sig, "ps=%d", ps)
		do := func(op string) string {
			c.Count("op." + strings.SplitN(op, " ", 2)[0])
			return cs.Do(op)
		}
		p := newPager(r, ps, do)
		p.journalMode = pick(r, []string{"DELETE", "TRUNCATE", "PERSIST"})
		p.walBig = r.Bool()
		if h%2 == 1 {
			// the LiteFS Cloud client (lfsc/backup_client.go) against a local server on the same service state
			do("open primary lfsc")
			sig.WriteString(",lfsc")
		} else {
			do("open primary")
		}
		do("createdb")
		uploads, restores := 0, 0
		// other: a writer elsewhere whose history the service may hold instead of ours
		other := newVPrimary(r, ps)
		observe := func(what string) {
			cs.Do(p.refLine())
			st := do("state")
			do("ltx")
			raw := do("raw")
			do("svc")
			do("hwm")
			if strings.Contains(st, "exit=") {
				c.Fail(fmt.Sprintf("history %d %s: store exited: %s", h, what, st))
			}
			_ = raw
		}
		// every image either writer ever committed, by position: after a restore the application
		// re-reads the database (LiteFS invalidates the page cache), i.e. the simulator continues
		// from the image of the position the primary is at now
		type histImg struct {
			img [][]byte
			tok []string
		}
		hist := map[string]histImg{}
		remember := func(pos string, img [][]byte, tok []string) {
			if pos != "" {
				hist[pos] = histImg{append([][]byte{}, img...), append([]string{}, tok...)}
			}
		}
		lastPos := ""
		noteCommit := func() {
			lastPos = posOf(do("state"))
			remember(lastPos, p.img, p.tok)
		}
		sync := func(what string) {
			noteCommit()
			before := do("svc")
			out := do("backup-sync")
			after := do("svc")
			if out != "ok" {
				c.Fail(fmt.Sprintf("history %d %s: sync failed: %s", h, what, out))
			}
			if before != after {
				uploads++
			}
			if now := posOf(do("state")); now != lastPos && now != "" {
				// the primary adopted the service's state
				e, ok := hist[now]
				if !ok {
					c.Fail(fmt.Sprintf("history %d %s: the primary is at %s after the sync, a position nobody committed", h, what, now))
				} else {
					p.img, p.tok = append([][]byte{}, e.img...), append([]string{}, e.tok...)
					p.wal = len(p.img) > 0 && len(p.img[0]) > 19 && p.img[0][18] == 2
					p.restarted()
					restores++
				}
				lastPos = now
			}
			observe(what)
		}
		steps := r.Range(5, 12)
		for i := 0; i < steps; i++ {
			what := fmt.Sprintf("step %d", i)
			switch k := r.Intn(14); {
			case k < 6: // a few commits, then a sync
				for j, n := 0, r.Range(1, 4); j < n; j++ {
					pagerStep(c, p, 5)
					noteCommit()
				}
				sync(what)
				sig.WriteString(",tx")
			case k == 6: // a long burst: more files than one compacted upload takes
				n := r.Range(250, 280)
				if c.Tier != "thorough" && h > 1 {
					n = r.Range(5, 20)
				}
				for j := 0; j < n; j++ {
					pagerStep(c, p, 2)
					remember(posOf(cs.Do("state")), p.img, p.tok)
				}
				sync(what + " (burst, first sync)")
				sync(what + " (burst, second sync)")
				sync(what + " (burst, third sync)")
				fmt.Fprintf(&sig, ",burst%d", n)
			case k == 7: // retention between syncs: only files the service acknowledged may go
				pagerStep(c, p, 4)
				noteCommit()
				do("ltx")
				do("hwm")
				do("age")
				do("retain")
				observe(what + " (retention before sync)")
				sync(what)
				do("ltx")
				do("hwm")
				do("age")
				do("retain")
				observe(what + " (retention after sync)")
				sig.WriteString(",ret")
			case k == 8: // the service loses its newest file: it is behind again
				do("svc-drop-last")
				sync(what + " (service behind)")
				sig.WriteString(",behind")
			case k == 9: // the service loses the database
				do("svc-clear")
				sync(what + " (service empty)")
				sig.WriteString(",cleared")
			case k == 10: // another writer extended the service's chain: the service is ahead
				pagerStep(c, p, 4)
				noteCommit()
				sync(what)
				// continue the service's history from where it is, with somebody else's transaction
				other.img, other.tok = append([][]byte{}, p.img...), append([]string{}, p.tok...)
				st := do("state")
				var t uint64
				var ck uint64
				fmt.Sscanf(posOf(st), "%d:%x", &t, &ck)
				other.txid, other.chk = t, ck
				do("svc-put " + other.randomCommit(3))
				remember(fmt.Sprintf("%d:%016x", other.txid, other.chk), other.img, other.tok)
				if r.Bool() {
					do("svc-put " + other.randomCommit(3))
					remember(fmt.Sprintf("%d:%016x", other.txid, other.chk), other.img, other.tok)
				}
				sync(what + " (service ahead)")
				sig.WriteString(",ahead")
			case k == 11: // the service holds another history of the same length or shorter (fork)
				pagerStep(c, p, 4)
				noteCommit()
				pagerStep(c, p, 4)
				noteCommit()
				sync(what)
				do("svc-drop-last")
				other.img, other.tok = nil, nil
				other.txid, other.chk = 0, 0
				names := do("svc")
				_ = names
				// rebuild the service from scratch with a foreign history up to some length
				do("svc-clear")
				n := r.Range(1, 4)
				for j := 0; j < n; j++ {
					do("svc-put " + other.randomCommit(4))
					remember(fmt.Sprintf("%d:%016x", other.txid, other.chk), other.img, other.tok)
				}
				sync(what + " (service forked)")
				sig.WriteString(",fork")
			case k == 12: // restart between syncs
				pagerStep(c, p, 4)
				noteCommit()
				do("reopen")
				p.restarted()
				sync(what + " (after restart)")
				sig.WriteString(",restart")
			default: // idle sync: nothing to upload
				sync(what + " (idle)")
				sig.WriteString(",idle")
			}
		}
		cs.End()
		if uploads >= 3 {
			c.Nontrivial(sig.String())
		}
	}
	return nil
}

// directedReplicaRetention: a replica with a backup service configured joined by snapshot (one
// file covering TXIDs 1..k), applied further transactions and learns the primary's high-water
// mark from the stream while the service lags; a retention sweep after each mark.
func directedReplicaRetention(c *Ctx) {
	r := c.Rng
	for _, k := range []int{3, 4, 6} {
		cs := c.Begin()
		do := func(op string) string { c.Count("op." + strings.SplitN(op, " ", 2)[0]); return cs.Do(op) }
		v := newVPrimary(r, pick(r, []int{512, 4096}))
		do("open replica")
		for i := 0; i < k; i++ {
			v.randomCommit(4)
		}
		do("sapply " + v.snapshot())
		do("sapply " + v.randomCommit(3))
		do("sapply " + v.randomCommit(3))
		cs.Do(v.refLine())
		do("state")
		for _, h := range []int{1, k - 1, k, k + 1, k + 2} {
			do(fmt.Sprintf("hwm-frame %d", h))
			do("ltx")
			do("hwm")
			do("age")
			do("retain")
			do("ltx")
			do("state")
		}
		do("sapply " + v.randomCommit(3))
		cs.Do(v.refLine())
		do("state")
		do("ltx")
		cs.End()
		c.Count("directed.replica-retention")
		c.Nontrivial(fmt.Sprintf("directed-replica-retention-%d", k))
	}
}

// directedBackupLoop: the continuous sync loop (cached service positions) against a backlog on
// either side of the 256-file batch limit, then further commits.
func directedBackupLoop(c *Ctx) {
	r := c.Rng
	for _, backlog := range []int{40, 256, 300} {
		if c.Tier != "thorough" && backlog == 40 {
			continue
		}
		cs := c.Begin()
		do := func(op string) string { c.Count("op." + strings.SplitN(op, " ", 2)[0]); return cs.Do(op) }
		p := newPager(r, 512, do)
		p.journalMode = "DELETE"
		if backlog == 300 {
			do("open primary lfsc") // the LiteFS Cloud client on the batch-limit case
		} else {
			do("open primary")
		}
		do("createdb")
		observe := func() {
			cs.Do(p.refLine())
			do("state")
			do("ltx")
			do("raw")
			do("svc")
			do("hwm")
		}
		pagerStep(c, p, 3)
		do("state")
		do("svc")
		do("backup-sync")
		do("svc")
		observe()
		for n := 0; n < backlog; {
			if ok, _ := pagerStep(c, p, 2); ok {
				n++
			}
		}
		observe()
		do("reopen-loop")
		p.restarted()
		do("state")
		do("svc")
		do("backup-wait")
		do("svc")
		observe()
		for j := 0; j < 3; j++ {
			for { // the loop wakes up on a commit
				if ok, _ := pagerStep(c, p, 2); ok {
					break
				}
			}
			do("state")
			do("svc")
			do("backup-wait")
			do("svc")
			observe()
		}
		c.Count("directed.backup-loop")
		c.Nontrivial(fmt.Sprintf("backup-loop-%d", backlog))
		cs.End()
	}
}

// directedSecondDatabase: besides "db" the node has a second database whose name contains
// characters that are special in URLs (legal: only '/' and NUL are forbidden); it is synced for
// several rounds through both backup clients.  After every sync the service holds that database
// under its own name at the node's position.
func directedSecondDatabase(c *Ctx) {
	r := c.Rng
	for _, mode := range []string{"", " lfsc"} {
		for _, name := range []string{"plain.db", "orders+archive.db", "100%.db", "a b&c=d.db", "caf\u00e9#1.db"} {
			cs := c.Begin()
			do := func(op string) string { c.Count("op." + strings.SplitN(op, " ", 2)[0]); return cs.Do(op) }
			p := newPager(r, 512, do)
			p.journalMode = "DELETE"
			do("open primary" + mode)
			do("createdb")
			p.journalTx(p.randomShape(3), 0, 0)
			hx := hex.EncodeToString([]byte(name))
			for round := 0; round < 3; round++ {
				v := newVPrimary(r, 512)
				v.commit(r.Range(1, 3), map[int]bool{})
				if out := do("xdb " + hx + " " + v.tok0()); out != "ok" {
					c.Fail(fmt.Sprintf("second database %q: transaction refused: %s", name, out))
				}
				if round > 0 {
					pagerStep(c, p, 3)
				}
				do("backup-sync")
				if out := do("xdb-check"); out != "ok" {
					c.Fail(fmt.Sprintf("second database %q (%s), round %d: %s", name, strings.TrimSpace(mode+" client"), round, out))
				}
				cs.Do(p.refLine())
				do("state")
				do("svc")
				do("hwm")
			}
			cs.End()
			c.Count("directed.second-database")
			c.Nontrivial("second-database-" + hx + mode)
		}
	}
}

// directedBackupLoopRestore: the continuous sync loop (cached service positions) meets a service
// that another writer extended: the pass that finds out restores the primary from the service;
// the commits that follow must be uploaded as ordinary extensions — the service reaches the
// primary's position and the primary keeps what it committed.  Both backup clients.
func directedBackupLoopRestore(c *Ctx) {
	r := c.Rng
	for _, mode := range []string{"", " lfsc"} {
		cs := c.Begin()
		do := func(op string) string { c.Count("op." + strings.SplitN(op, " ", 2)[0]); return cs.Do(op) }
		p := newPager(r, 512, do)
		p.journalMode = "DELETE"
		do("open primary" + mode)
		do("createdb")
		observe := func() {
			cs.Do(p.refLine())
			do("state")
			do("ltx")
			do("raw")
			do("svc")
			do("hwm")
		}
		pagerStep(c, p, 3)
		pagerStep(c, p, 3)
		do("backup-sync")
		observe()
		do("reopen-loop")
		p.restarted()
		do("backup-wait")
		observe()
		// another writer continues the service's chain from the primary's position
		other := newVPrimary(r, 512)
		other.img, other.tok = append([][]byte{}, p.img...), append([]string{}, p.tok...)
		var t, ck uint64
		fmt.Sscanf(posOf(do("state")), "%d:%x", &t, &ck)
		other.txid, other.chk = t, ck
		do("svc-put " + other.randomCommit(3))
		do("svc")
		// the primary commits the same TXID on its own: the loop's next pass finds the service on
		// another history and restores the primary from it
		for {
			if ok, _ := pagerStep(c, p, 2); ok {
				break
			}
		}
		do("backup-wait")
		st := do("state")
		want := fmt.Sprintf("%d:%016x", other.txid, other.chk)
		if posOf(st) != want {
			c.Fail(fmt.Sprintf("backup loop restore (%s): after the pass the primary is at %s, the service's position is %s", strings.TrimSpace(mode+" client"), posOf(st), want))
			cs.End()
			continue
		}
		p.img, p.tok = append([][]byte{}, other.img...), append([]string{}, other.tok...)
		p.restarted()
		observe()
		for j := 0; j < 3; j++ {
			for {
				if ok, _ := pagerStep(c, p, 2); ok {
					break
				}
			}
			committed := posOf(do("state"))
			do("backup-wait")
			after := do("state")
			sv := do("svc")
			if posOf(after) != committed {
				c.Fail(fmt.Sprintf("backup loop restore (%s), commit %d after the restore: the primary went from %s to %s during the loop's pass (a committed transaction was rolled back)", strings.TrimSpace(mode+" client"), j+1, committed, posOf(after)))
				break
			}
			if !strings.Contains(sv, "pos="+committed) {
				c.Fail(fmt.Sprintf("backup loop restore (%s), commit %d after the restore: the service did not reach the primary's position %s: %s", strings.TrimSpace(mode+" client"), j+1, committed, firstWords(sv, 3)))
				break
			}
			observe()
		}
		cs.End()
		c.Count("directed.backup-loop-restore")
		c.Nontrivial("backup-loop-restore" + mode)
	}
}
