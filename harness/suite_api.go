package main

import (
	"bytes"
	"context"
	"crypto/tls"
	"fmt"
	"io"
	"log"
	"net"
	"net/http"
	"os"
	"sort"
	"strings"
	"sync/atomic"
	"time"

	"github.com/superfly/litefs"
	lhttp "github.com/superfly/litefs/http"
	"github.com/superfly/ltx"
	"golang.org/x/net/http2"
)

func init() {
	register(&Suite{Name: "api", Gen: genAPI, New: func(c *Ctx) Runner { return &apiImpl{eng: engineImpl{c: c}} }})
}

// apiImpl: a real Store with its real HTTP API server.
//
//	open primary|replica|orphan
//	api-start
//	http <1|2> <METHOD> <path> <query|-> <own|other|none|bad> <body|->
//	     body: data token | ltx:<spec with _> | posmap | posmap-bad
//	dbs                      names of the databases of the store
//	everything else: engine operation
type apiImpl struct {
	eng engineImpl
	srv *lhttp.Server
	h1  *http.Client
	h2  *http.Client
}

func (m *apiImpl) Close() {
	if m.srv != nil {
		_ = m.srv.Close()
	}
	m.eng.Close()
}

func (m *apiImpl) refreshDB() {
	if m.eng.db == nil && m.eng.store != nil {
		if m.eng.db = m.eng.store.DB("db"); m.eng.db != nil {
			m.eng.db.Now = func() time.Time { return fixedNow }
		}
	}
}

func (m *apiImpl) Do(line string) string {
	f := strings.Fields(line)
	if len(f) == 0 {
		return "bad-op"
	}
	switch f[0] {
	case "ref":
		return "ok"
	case "open":
		if len(f) == 2 && f[1] == "orphan" {
			if m.eng.store != nil {
				return "bad-op"
			}
			svc := newLeaseSvc()
			m.eng.configure = func(st *litefs.Store) error {
				st.Leaser = &nodeLeaser{svc: svc, idx: 0, host: "orphan"}
				st.ReconnectDelay = 5 * time.Millisecond
				return nil
			}
			if err := m.eng.openStore("replica"); err != nil {
				return "err"
			}
			return "ok"
		}
		return m.eng.Do(line)
	case "api-start":
		if m.eng.store == nil || m.srv != nil {
			return "bad-op"
		}
		m.eng.store.HaltAcquireTimeout = 200 * time.Millisecond
		srv := lhttp.NewServer(m.eng.store, "127.0.0.1:0")
		if err := srv.Listen(); err != nil {
			return "err"
		}
		srv.Serve()
		m.srv = srv
		m.h1 = &http.Client{Timeout: 3 * time.Second, Transport: &http.Transport{DisableKeepAlives: true}}
		m.h2 = &http.Client{Timeout: 3 * time.Second, Transport: &http2.Transport{AllowHTTP: true,
			DialTLSContext: func(ctx context.Context, network, addr string, _ *tls.Config) (net.Conn, error) {
				return (&net.Dialer{}).DialContext(ctx, network, addr)
			}}}
		return "ok"
	case "dbs":
		if m.eng.store == nil {
			return "bad-op"
		}
		var names []string
		for _, db := range m.eng.store.DBs() {
			names = append(names, fmt.Sprintf("%q", db.Name()))
		}
		sort.Strings(names)
		return "[" + strings.Join(names, ",") + "]"
	case "http":
		m.refreshDB()
		out := m.http(f[1:])
		m.refreshDB()
		return out
	}
	m.refreshDB()
	return m.eng.Do(line)
}

// panicLog counts the "panic serving" lines net/http and x/net/http2 write to the standard logger
// when a handler panics (the server recovers and resets the connection / stream).
type panicLog struct{ n atomic.Int64 }

func (p *panicLog) Write(b []byte) (int, error) {
	if bytes.Contains(b, []byte("panic serving")) || bytes.Contains(b, []byte("panic:")) {
		p.n.Add(1)
	}
	if os.Getenv("VERIF_LOG") != "" {
		_, _ = os.Stderr.Write(b)
	}
	return len(b), nil
}

var handlerPanics = &panicLog{}

func (m *apiImpl) http(f []string) string {
	if len(f) != 6 || m.srv == nil {
		return "bad-op"
	}
	log.SetOutput(handlerPanics)
	p0 := handlerPanics.n.Load()
	out := m.http1(f)
	if handlerPanics.n.Load() != p0 {
		out += " PANIC"
	}
	return out
}

func (m *apiImpl) http1(f []string) string {
	proto, method, path, query, node, body := f[0], f[1], f[2], f[3], f[4], f[5]
	var rd io.Reader
	switch {
	case body == "-":
	case strings.HasPrefix(body, "ltx:"):
		b, ok := buildLTX(strings.Fields(strings.ReplaceAll(body[4:], "_", " ")), false)
		if !ok {
			return "bad-op"
		}
		rd = bytes.NewReader(b)
	case body == "posmap":
		var buf bytes.Buffer
		_ = lhttp.WritePosMapTo(&buf, m.eng.store.PosMap())
		rd = &buf
	case strings.HasPrefix(body, "posmapcut:"): // the node's own position map, cut after n bytes
		var buf bytes.Buffer
		_ = lhttp.WritePosMapTo(&buf, m.eng.store.PosMap())
		var n int
		fmt.Sscanf(body[10:], "%d", &n)
		b := buf.Bytes()
		if n < len(b) {
			b = b[:n]
		}
		rd = bytes.NewReader(b)
	case body == "posmap-bad":
		rd = bytes.NewReader([]byte{0, 0, 0, 9, 0, 0})
	case body == "posmap-huge":
		rd = bytes.NewReader([]byte{0xff, 0xff, 0xff, 0xff, 0xff, 0xff, 0xff, 0xff})
	default:
		b, ok := bytesOf(body)
		if !ok {
			return "bad-op"
		}
		rd = bytes.NewReader(b)
	}
	u := m.srv.URL() + path
	if query != "-" {
		u += "?" + query
	}
	req, err := http.NewRequest(method, u, rd)
	if err != nil {
		return "bad-op"
	}
	switch node {
	case "own":
		req.Header.Set(lhttp.HeaderNodeID, litefs.FormatNodeID(m.eng.store.ID()))
	case "own-lower": // the node's own id in another legal spelling (ParseNodeID accepts any hexadecimal number)
		req.Header.Set(lhttp.HeaderNodeID, strings.ToLower(litefs.FormatNodeID(m.eng.store.ID())))
	case "own-pad":
		req.Header.Set(lhttp.HeaderNodeID, "0"+litefs.FormatNodeID(m.eng.store.ID()))
	case "other":
		req.Header.Set(lhttp.HeaderNodeID, litefs.FormatNodeID(m.eng.store.ID()^0x5555))
	case "bad":
		req.Header.Set(lhttp.HeaderNodeID, "zz-not-hex")
	}
	cl := m.h1
	if proto == "2" {
		cl = m.h2
	}
	ctx, cancel := context.WithTimeout(context.Background(), 2500*time.Millisecond)
	defer cancel()
	resp, err := cl.Do(req.WithContext(ctx))
	if err != nil {
		if ctx.Err() != nil {
			return "timeout"
		}
		return "noresponse " + oneLine(err.Error())
	}
	defer resp.Body.Close()
	extra := ""
	switch {
	case path == "/export" && resp.StatusCode == 200:
		b, _ := io.ReadAll(resp.Body)
		extra = " img=" + imageDigest(b, pageSizeOf(b))
	case path == "/info" && resp.StatusCode == 200:
		b, _ := io.ReadAll(resp.Body)
		extra = fmt.Sprintf(" primary=%v", strings.Contains(string(b), `"isPrimary": true`))
	case path == "/halt" && method == "POST" && resp.StatusCode == 200:
		b, _ := io.ReadAll(resp.Body)
		s := string(b)
		if i := strings.Index(s, `"pos":`); i >= 0 {
			extra = " halt=" + strings.TrimSpace(strings.Trim(strings.SplitN(s[i+6:], ",", 2)[0], `"} `))
		}
	case path == "/stream" && resp.StatusCode == 200:
		// read frames until the ready frame, then hang up
		n := 0
		for n < 64 {
			fr, err := litefs.ReadStreamFrame(resp.Body)
			if err != nil {
				break
			}
			n++
			if _, ok := fr.(*litefs.LTXStreamFrame); ok {
				// skip the chunked body
				buf := make([]byte, 2)
				for {
					if _, err := io.ReadFull(resp.Body, buf); err != nil {
						break
					}
					sz := int(buf[0])<<8 | int(buf[1])
					if sz == 0 {
						break
					}
					if _, err := io.CopyN(io.Discard, resp.Body, int64(sz)); err != nil {
						break
					}
				}
			}
			if _, ok := fr.(*litefs.ReadyStreamFrame); ok {
				extra = " ready"
				break
			}
		}
	}
	_ = ltx.Pos{}
	return fmt.Sprintf("status=%d%s", resp.StatusCode, extra)
}

// apiRequest is one generated request together with the generator's classification.
type apiRequest struct {
	op      string
	invalid bool // malformed / not allowed in this role / refers to something that must exist: must change nothing
}

func genAPI(c *Ctx) error {
	c.Stats.Rule = "every API endpoint (/stream /tx /halt /handoff /promote /import /export /info /events + unknown paths) x methods x parameter shapes (missing, empty, unknown database, malformed ids, own / foreign / malformed node ids) x HTTP/1.1 and h2c x bodies (empty, garbage, truncated, oversized length prefixes, valid) on a primary, a replica and a node with no primary, interleaved with valid requests and application transactions; after every request the node's databases, positions, logs and locks are compared with before. Non-trivial = case with at least 10 invalid and 2 valid state-changing requests; distinct = distinct op list."
	r := c.Rng
	nHist := 16
	if c.Tier == "thorough" {
		nHist = 150
	}
	methods := []string{"GET", "POST", "DELETE", "PUT", "HEAD", "PATCH"}
	paths := []string{"/stream", "/tx", "/halt", "/handoff", "/promote", "/import", "/export", "/info", "/events", "/nope", "/", "/halt/", "/Export"}
	// directed: the well-formed shape of every state-changing request on each role; a node that is
	// not primary (a connected replica, a node that knows no primary at all) proceeds with none of them
	for _, role := range []string{"orphan", "replica", "primary"} {
		for _, hasDB := range []bool{true, false} {
			cs := c.Begin()
			do := func(op string) string { c.Count("op." + strings.SplitN(op, " ", 2)[0]); return cs.Do(op) }
			v := newVPrimary(r, 512)
			do("open " + role)
			do("api-start")
			if hasDB {
				v.randomCommit(4)
				do("sapply " + v.snapshot())
			}
			enc := func(s string) string { return strings.ReplaceAll(s, " ", "_") }
			snapshotState := func() string {
				return do("state") + "|" + do("ltx") + "|" + do("locks") + "|" + do("dbs")
			}
			img := v.tok0()
			if img == "-" {
				w := newVPrimary(r, 512)
				w.randomCommit(3)
				img = w.tok0()
			}
			for _, rq := range []string{
				"POST /halt name=db&id=7 other -",
				"POST /halt name=fresh&id=9 other -",
				"DELETE /halt name=db&id=7 own -",
				"DELETE /halt name=db&id=7 own-lower -",
				"DELETE /halt name=db&id=7 own-pad -",
				"POST /halt name=db&id=7 own-pad -",
				"POST /tx name=db&lockID=7 own-lower ltx:" + enc(v.peekCommit()),
				"DELETE /halt name=db&id=7 other -",
				"POST /tx name=db&lockID=7 other ltx:" + enc(v.peekCommit()),
				"POST /import name=db none " + img,
				"POST /import name=fresh2 none " + img,
				"POST /handoff nodeID=0000000000000001 none -",
				"POST /promote - none -",
			} {
				for _, proto := range []string{"1", "2"} {
					before := snapshotState()
					out := do("http " + proto + " " + rq)
					after := snapshotState()
					c.Count("directed.res." + role + "." + firstWords(out, 1))
					if role != "primary" && before != after && !strings.Contains(rq, "/promote") {
						c.Fail(fmt.Sprintf("directed (%s, db=%v): %q answered %q and changed the node although it is not primary", role, hasDB, rq, out))
					}
				}
			}
			do("http 1 GET /info - none -")
			cs.End()
			c.Nontrivial(fmt.Sprintf("directed-%s-%v", role, hasDB))
		}
	}
	for h := 0; h < nHist; h++ {
		cs := c.Begin()
		role := pick(r, []string{"primary", "primary", "replica", "orphan"})
		v := newVPrimary(r, pick(r, []int{512, 1024}))
		do := func(op string) string {
			c.Count("op." + strings.SplitN(op, " ", 2)[0])
			return cs.Do(op)
		}
		do("open " + role)
		do("api-start")
		hasDB := r.Chance(3, 4)
		if hasDB {
			v.randomCommit(4)
			do("sapply " + v.snapshot())
		}
		enc := func(s string) string { return strings.ReplaceAll(s, " ", "_") }
		snapshotState := func() string {
			return do("state") + "|" + do("ltx") + "|" + do("locks") + "|" + do("dbs")
		}
		invalidN, validN := 0, 0
		// position maps cut at every field boundary and inside fields, sent to /stream
		if r.Chance(1, 2) {
			for _, n := range []int{0, 1, 4, 6, 8, 9, 10, 14, 18, 22, 26, 30} {
				before := snapshotState()
				out := do(fmt.Sprintf("http 2 POST /stream - other posmapcut:%d", n))
				after := snapshotState()
				if !strings.HasPrefix(out, "status=") {
					c.Fail(fmt.Sprintf("history %d: truncated position map (%d bytes) got no response: %s", h, n, out))
				}
				if before != after {
					c.Fail(fmt.Sprintf("history %d: truncated position map (%d bytes) changed the node", h, n))
				}
				invalidN++
			}
		}
		steps := r.Range(10, 24)
		for i := 0; i < steps; i++ {
			proto := pick(r, []string{"1", "2"})
			method, path := pick(r, methods), pick(r, paths)
			if r.Chance(3, 4) {
				switch path {
				case "/export", "/info", "/events":
					method = "GET"
				case "/halt":
					method = pick(r, []string{"POST", "DELETE"})
				case "/nope", "/", "/halt/", "/Export":
				default:
					method = "POST"
				}
			}
			node := pick(r, []string{"none", "other", "other", "own", "bad", "own-lower", "own-pad"})
			name := pick(r, []string{"name=db", "name=db", "name=nosuch", "name=", "", "name=db&name=x", "name=%2e%2e%2fx", "name=a%00b"})
			id := pick(r, []string{"id=7", "id=7", "id=", "", "id=abc", "id=0", "id=-1", "id=99999999999999999999", "lockID=7"})
			nid := pick(r, []string{"nodeID=0000000000000001", "nodeID=", "", "nodeID=xyz", "nodeID=00000000000000000001"})
			q := strings.Join(nonEmpty(name, id, nid), "&")
			if r.Chance(1, 5) {
				q = ""
			}
			if q == "" {
				q = "-"
			}
			body := pick(r, []string{"-", "-", "00", "g5x300", "posmap", "posmap-bad", "posmap-huge", "53514c69746520666f726d6174203300+z84", "ltx:" + enc(v.peekCommit())})
			if path == "/import" && r.Chance(1, 2) {
				body = v.tok0()
				if body == "-" {
					body = "00"
				}
			}
			// aim some requests at the well-formed shape of their endpoint
			if r.Chance(1, 3) {
				switch path {
				case "/stream":
					method, proto, body, node = "POST", "2", "posmap", "other"
				case "/export":
					method, q = "GET", "name=db"
				case "/info", "/events":
					method = "GET"
				case "/import":
					method, q = "POST", "name=db"
				case "/halt":
					method, q, node = pick(r, []string{"POST", "DELETE"}), "name=db&id=7", "other"
				case "/tx":
					method, q, node, body = "POST", "name=db&lockID=7", "other", "ltx:"+enc(v.peekCommit())
				case "/handoff":
					method, q = "POST", "nodeID=0000000000000001"
				case "/promote":
					method = "POST"
				}
			}
			op := fmt.Sprintf("http %s %s %s %s %s %s", proto, method, path, q, node, body)
			before := snapshotState()
			out := do(op)
			after := snapshotState()
			c.Count("res." + firstWords(out, 1))
			if out == "timeout" {
				continue // judged by the spec: only import / export may wait, and only for a granted halt lock
			}
			if !strings.HasPrefix(out, "status=") {
				c.Fail(fmt.Sprintf("history %d: %s got no response: %s", h, op, out))
				break
			}
			if before != after {
				validN++
				c.Count("changed")
			} else {
				invalidN++
			}
			// keep the virtual primary in step with an accepted import / forwarded transaction
			if strings.Contains(after, "exit=") {
				break
			}
		}
		// the node is still usable
		do("http 1 GET /info - none -")
		cs.End()
		if invalidN >= 10 {
			c.Nontrivial(fmt.Sprintf("%s-%d-%d-%d", role, h, invalidN, validN))
		}
	}
	return nil
}

func nonEmpty(ss ...string) []string {
	var out []string
	for _, s := range ss {
		if s != "" {
			out = append(out, s)
		}
	}
	return out
}
