package main

import (
	"fmt"
	"strings"
)

func init() {
	register(&Suite{Name: "lease", Gen: genLease, New: func(c *Ctx) Runner { return &clusterImpl{c: c} }})
}

// genLease: scripts of lease-service behaviour against candidate and non-candidate nodes.
func genLease(c *Ctx) error {
	c.Stats.Rule = "clusters of 2-3 real stores on a scripted lease service (TTL 200 ms): who may take the free lease, manual demotion, the service forgetting the lease, renewals failing for longer than the TTL, graceful stop / crash / restart of any node, disconnects, handoff to a connected / disconnected / non-candidate node, cluster ids unset / equal / different on the service and in the nodes' data directories; after every step (once every node's belief agrees with the service): roles, cluster ids, lease events, primary-scoped contexts, and whether a write is accepted. Non-trivial = at least 2 primary changes and one refusal (non-candidate, cluster id, stale lease); distinct = distinct step signature."
	r := c.Rng
	nHist := 14
	if c.Tier == "thorough" {
		nHist = 140
	}
	directedQueuedImport(c)
	directedStalledHandoff(c)
	directedRefusedHandoffAcquisition(c)
	if c.Flag("queued-import") {
		return nil
	}
	directedFailedHandoff(c)
	directedClusterIDFault(c)
	directedRenewalOutage(c)
	for h := 0; h < nHist; h++ {
		nNodes := r.Range(2, 3)
		cs := c.Begin()
		var sig strings.Builder
		do := func(op string) string {
			c.Count("op." + strings.Fields(op)[0])
			return cs.Do(op)
		}
		nc := -1
		if r.Chance(1, 2) {
			nc = r.Intn(nNodes)
		}
		// every other history runs the real Consul leaser (consul/consul.go) against a fake Consul
		// server instead of the simulated leaser; the scripted lease-service state is the same
		mode := ""
		if h%2 == 1 {
			mode = " consul"
		}
		if nc >= 0 {
			do(fmt.Sprintf("cluster %d nc=%d%s", nNodes, nc, mode))
		} else {
			do(fmt.Sprintf("cluster %d%s", nNodes, mode))
		}
		fmt.Fprintf(&sig, "n=%d,nc=%d%s", nNodes, nc, mode)
		// cluster ids: service and some data directories
		svcCid := pick(r, []string{"-", "-", "A", "B"})
		if svcCid != "-" {
			do("clusterid-svc " + svcCid)
		}
		cids := make([]string, nNodes)
		for k := 0; k < nNodes; k++ {
			if x := pick(r, []string{"", "", "A", "A", "B"}); x != "" {
				do(fmt.Sprintf("clusterid-node %d %s", k, x))
				cids[k] = x
			}
		}
		fmt.Fprintf(&sig, ",svc=%s,%v", svcCid, cids)
		up := make([]bool, nNodes)
		allow := r.Intn(nNodes)
		do(fmt.Sprintf("allow %d", allow))
		for k := 0; k < nNodes; k++ {
			do(fmt.Sprintf("up %d", k))
			up[k] = true
		}
		changes, refusals := 0, 0
		observe := func() string {
			if out := do("quiet"); out != "ok" {
				c.Fail(fmt.Sprintf("history %d: nodes and lease service did not reach agreement: %s", h, out))
			}
			roles := do("roles")
			do("events")
			for k := 0; k < nNodes; k++ {
				if up[k] {
					do(fmt.Sprintf("pctx %d", k))
				}
			}
			return roles
		}
		primaryOf := func(roles string) int {
			for _, f := range strings.Fields(roles) {
				if strings.Contains(f, "=primary/") {
					var k int
					fmt.Sscanf(f, "%d=", &k)
					return k
				}
			}
			return -1
		}
		roles := observe()
		steps := r.Range(6, 14)
		for i := 0; i < steps; i++ {
			p := primaryOf(roles)
			switch k := r.Intn(16); {
			case k < 3: // who may take the free lease
				allow = r.Intn(nNodes+1) - 1
				do(fmt.Sprintf("allow %d", allow))
				if allow == nc {
					refusals++
				}
				fmt.Fprintf(&sig, ",allow%d", allow)
			case k < 5 && p >= 0: // manual demotion
				do(fmt.Sprintf("pctx-take %d", p))
				do("allow -1")
				do(fmt.Sprintf("demote %d", p))
				observe()
				allow = r.Intn(nNodes)
				do(fmt.Sprintf("allow %d", allow))
				changes++
				sig.WriteString(",demote")
			case k < 7 && p >= 0: // the service forgets the lease
				do(fmt.Sprintf("pctx-take %d", p))
				if r.Bool() {
					do("allow -1")
					allow = -1
				}
				do("expire")
				refusals++
				changes++
				sig.WriteString(",expire")
			case k < 8 && p >= 0: // renewals fail for longer than the TTL
				do(fmt.Sprintf("pctx-take %d", p))
				do("allow -1")
				do("renewerr on")
				observe()
				do("renewerr off")
				allow = r.Intn(nNodes)
				do(fmt.Sprintf("allow %d", allow))
				changes++
				sig.WriteString(",renewfail")
			case k < 10 && p >= 0: // handoff
				x := r.Intn(nNodes)
				if x == p {
					continue
				}
				do(fmt.Sprintf("pctx-take %d", p))
				do(fmt.Sprintf("handoff %d %d", p, x))
				changes++
				fmt.Fprintf(&sig, ",handoff%d", x)
			case k < 12: // a node loses / regains its connection
				x := r.Intn(nNodes)
				if !up[x] {
					continue
				}
				do(fmt.Sprintf("net %d %s", x, pick(r, []string{"on", "off"})))
				sig.WriteString(",net")
			case k < 14: // stop / crash and restart
				x := r.Intn(nNodes)
				if !up[x] {
					do(fmt.Sprintf("up %d", x))
					up[x] = true
				} else {
					do(fmt.Sprintf("%s %d", pick(r, []string{"down", "crash"}), x))
					up[x] = false
					if r.Bool() {
						observe()
						do(fmt.Sprintf("up %d", x))
						up[x] = true
					}
				}
				sig.WriteString(",restart")
			default: // is a write accepted? (an import is refused as read-only everywhere but on the primary)
				x := r.Intn(nNodes)
				if up[x] {
					do(fmt.Sprintf("n %d import 00", x))
				}
			}
			roles = observe()
		}
		cs.End()
		if changes >= 2 {
			c.Nontrivial(sig.String())
		}
	}
	return nil
}

// directedRenewalOutage: the lease service answers every renewal with an error for longer than
// the lease's time to live: the primary must stop acting as primary (its primary context is
// cancelled) and give the lease up; afterwards another node can take it.
func directedRenewalOutage(c *Ctx) {
	for _, mode := range []string{"", " consul"} {
		cs := c.Begin()
		do := func(op string) string { c.Count("op." + strings.Fields(op)[0]); return cs.Do(op) }
		obs := func(what string) {
			if out := do("quiet"); out != "ok" {
				c.Fail("renewal outage scenario (" + mode + ", " + what + "): a node acts as primary without holding the lease (or the reverse): " + out)
			}
			do("roles")
			do("events")
			do("pctx 0")
		}
		do("cluster 2" + mode)
		do("lease-ttl mid") // a TTL longer than renewal time-out + retry interval: the primary retries before it gives up
		do("allow 0")
		do("up 0")
		do("up 1")
		obs("node 0 primary")
		do("pctx-take 0")
		do("allow -1")
		do("renewerr on")
		obs("renewals failed for a full TTL")
		do("n 0 import 00") // refused: not primary any more
		do("renewerr off")
		do("allow 1")
		do("sync")
		obs("node 1 took over")
		cs.End()
		c.Count("directed.renewal-outage")
		c.Nontrivial("directed-renewal-outage" + mode)
	}
}

// directedClusterIDFault: a node wins the election and the lease service stops answering right
// after the acquisition (the cluster-id lookup at the head of monitorLeaseAsPrimary fails): the
// node must give the lease back and must not act as primary; when the service answers again the
// election proceeds normally.
func directedClusterIDFault(c *Ctx) {
	for _, variant := range []string{"first-election", "after-demotion", "other-node", "first-election consul", "after-demotion consul", "other-node consul"} {
		mode := ""
		if strings.HasSuffix(variant, " consul") {
			mode, variant = " consul", strings.TrimSuffix(variant, " consul")
		}
		cs := c.Begin()
		do := func(op string) string { c.Count("op." + strings.Fields(op)[0]); return cs.Do(op) }
		obs := func(what string) {
			if out := do("quiet"); out != "ok" {
				c.Fail("cluster-id fault scenario (" + variant + ", " + what + "): a node acts as primary without holding the lease (or the reverse): " + out)
			}
			do("roles")
			do("events")
			do("pctx 0")
			do("pctx 1")
		}
		do("cluster 2" + mode)
		winner := 0
		switch variant {
		case "first-election":
			do("allow -1")
			do("up 0")
			do("up 1")
			obs("nobody allowed")
		case "after-demotion", "other-node":
			do("allow 0")
			do("up 0")
			do("up 1")
			obs("node 0 primary")
			do("pctx-take 0")
			do("allow -1")
			do("demote 0")
			obs("demoted")
			if variant == "other-node" {
				winner = 1
			}
		}
		do("cid-fault arm")
		do(fmt.Sprintf("allow %d", winner))
		do("cid-fault wait")
		obs("fault active")
		do(fmt.Sprintf("n %d import 00", winner)) // a write is refused: the node is not primary
		do("cid-fault off")
		do("sync")
		obs("service answers again")
		cs.End()
		c.Count("directed.cluster-id-fault")
		c.Nontrivial("directed-cid-fault-" + variant + mode)
	}
}

// directedFailedHandoff: a handoff whose renewal fails leaves the primary in place; when that
// primary later stops (demotion, shutdown) its lease must be destroyed; a later handoff works.
func directedFailedHandoff(c *Ctx) {
	for _, end := range []string{"demote", "down", "handoff", "demote consul", "down consul", "handoff consul"} {
		mode := ""
		if strings.HasSuffix(end, " consul") {
			mode, end = " consul", strings.TrimSuffix(end, " consul")
		}
		cs := c.Begin()
		do := func(op string) string { c.Count("op." + strings.Fields(op)[0]); return cs.Do(op) }
		obs := func() {
			if out := do("quiet"); out != "ok" {
				c.Fail("failed-handoff scenario (" + end + "): nodes and lease service did not reach agreement")
			}
			do("roles")
			do("events")
			do("pctx 0")
		}
		do("cluster 2" + mode)
		do("lease-ttl long") // no periodic renewal: the only renewal is the one inside the handoff
		do("allow 0")
		do("up 0")
		do("up 1")
		obs()
		do("pctx-take 0")
		do("renewfail-next 1")
		do("handoff 0 1")
		obs()
		do("allow -1")
		switch end {
		case "demote":
			do("demote 0")
		case "down":
			do("down 0")
		default:
			do("handoff 0 1")
		}
		if out := do("quiet"); out != "ok" {
			c.Fail("failed-handoff scenario (" + end + "): nodes and lease service did not reach agreement after the primary stopped")
		}
		do("roles")
		do("events")
		do("allow 1")
		do("quiet")
		do("roles")
		do("events")
		c.Nontrivial("failed-handoff-" + end + mode)
		cs.End()
	}
}

// directedQueuedImport: an import request (POST /import) arrives on the primary while an
// application connection holds a lock, so it waits for the write lock; the node then loses the
// primary role (manual demotion, the service forgetting the lease, renewals failing for a full
// TTL) and only afterwards does the application let go.  The request must be refused and the
// node's position, image and log stay what they were.  Control: without the loss of the role the
// same request is performed once the lock is free.
func directedQueuedImport(c *Ctx) {
	r := c.Rng
	for _, variant := range []string{"control", "demote", "expire", "outage", "demote consul", "control consul"} {
		mode := ""
		if strings.HasSuffix(variant, " consul") {
			mode, variant = " consul", strings.TrimSuffix(variant, " consul")
		}
		for _, held := range []string{"SHARED", "RESERVED"} {
			cs := c.Begin()
			do := func(op string) string { c.Count("op." + strings.Fields(op)[0]); return cs.Do(op) }
			obs := func(what string) {
				if out := do("quiet"); out != "ok" {
					c.Fail("queued-import scenario (" + variant + mode + ", " + what + "): a node acts as primary without holding the lease (or the reverse): " + out)
				}
				do("roles")
				do("events")
				do("n 0 state")
				do("n 0 ltx")
			}
			do("cluster 2" + mode)
			if variant == "outage" {
				do("lease-ttl mid")
			}
			do("allow 0")
			do("up 0")
			do("up 1")
			obs("node 0 primary")
			v := newVPrimary(r, 512)
			v.commit(r.Range(1, 3), map[int]bool{})
			if out := do("n 0 import " + v.tok0()); out != "ok" {
				c.Fail("queued-import scenario: the primary refused the first import: " + out)
			}
			do("sync")
			obs("seeded")
			// an application connection on node 0 is inside a transaction
			do("n 0 rlock 7 PENDING")
			do("n 0 rlock 7 SHARED")
			do("n 0 unlock 7 PENDING")
			if held == "RESERVED" {
				do("n 0 lock 7 RESERVED")
			}
			w := newVPrimary(r, 512)
			w.commit(r.Range(2, 4), map[int]bool{})
			do("import-bg 0 " + w.tok0())
			switch variant {
			case "demote":
				do("allow -1")
				do("demote-nowait 0")
			case "expire":
				do("allow -1")
				do("expire")
			case "outage":
				do("allow -1")
				do("renewerr on")
			}
			obs("request queued")
			// the application's transaction ends
			if held == "RESERVED" {
				do("n 0 unlock 7 RESERVED")
			}
			do("n 0 unlock 7 SHARED")
			out := do("import-join 0")
			if variant == "control" && !strings.HasPrefix(out, "ok ") {
				c.Fail("queued-import scenario (control" + mode + "): an import on the primary was not performed once the lock was free: " + out)
			}
			if variant != "control" && strings.HasPrefix(out, "ok ") {
				c.Fail("queued-import scenario (" + variant + mode + "): an import that was still waiting for the write lock when the node lost the primary role was performed: " + out)
			}
			if variant == "outage" {
				do("renewerr off")
			}
			do("sync")
			obs("answered")
			do("allow 1")
			do("sync")
			obs("node 1 may take over")
			cs.End()
			c.Count("directed.queued-import." + variant)
			c.Nontrivial("directed-queued-import-" + variant + mode + "-" + held)
		}
	}
}

// directedStalledHandoff: a handoff is requested for a replica that is connected but whose stream
// handler on the primary cannot take the lease id: it has just connected and waits for the locks
// of an application transaction before it can send the snapshot.  The primary must carry on as
// primary (the hand-over times out): it must not step down while the lease is neither destroyed
// nor in the hands of the target.
func directedStalledHandoff(c *Ctx) {
	r := c.Rng
	for _, mode := range []string{"", " consul"} {
		cs := c.Begin()
		do := func(op string) string { c.Count("op." + strings.Fields(op)[0]); return cs.Do(op) }
		obs := func(what string) {
			if out := do("quiet"); out != "ok" {
				c.Fail("stalled-handoff scenario (" + mode + ", " + what + "): a node acts as primary without holding the lease (or the reverse): " + out)
			}
			do("roles")
			do("events")
			do("pctx 0")
		}
		do("cluster 2" + mode)
		do("lease-ttl long")
		do("allow 0")
		do("up 0")
		obs("node 0 primary")
		do("pctx-take 0")
		v := newVPrimary(r, 512)
		v.commit(r.Range(2, 4), map[int]bool{})
		if out := do("n 0 import " + v.tok0()); out != "ok" {
			c.Fail("stalled-handoff scenario: import refused: " + out)
		}
		// an application connection on the primary is in the middle of a commit (EXCLUSIVE)
		do("n 0 rlock 5 PENDING")
		do("n 0 rlock 5 SHARED")
		do("n 0 unlock 5 PENDING")
		do("n 0 lock 5 RESERVED")
		do("n 0 lock 5 PENDING")
		do("n 0 lock 5 SHARED")
		// a new replica connects: its snapshot has to wait for that transaction
		do("up 1")
		do("wait-ms 150")
		do("handoff-stalled 0 1")
		do("wait-ms 5400") // the hand-over's processing time-out (5 s) runs out
		obs("hand-over timed out")
		do("n 0 unlock 5 PENDING,RESERVED")
		do("n 0 unlock 5 SHARED")
		do("sync")
		obs("replica caught up")
		do("n 1 state")
		cs.End()
		c.Count("directed.stalled-handoff")
		c.Nontrivial("directed-stalled-handoff" + mode)
	}
}

// directedRefusedHandoffAcquisition (Consul leaser): a node is handed a session that is alive but
// no longer holds the key — another session took the key over between the old primary's last
// renewal and the target's acquisition.  The acquisition must be refused (a primary exists) and
// the roles stay what they are.
func directedRefusedHandoffAcquisition(c *Ctx) {
	cs := c.Begin()
	do := func(op string) string { c.Count("op." + strings.Fields(op)[0]); return cs.Do(op) }
	obs := func(what string) {
		if out := do("quiet"); out != "ok" {
			c.Fail("refused hand-over acquisition (" + what + "): a node acts as primary without holding the lease (or the reverse): " + out)
		}
		do("roles")
		do("events")
	}
	do("cluster 2 consul")
	do("lease-ttl long")
	do("allow 0")
	do("up 0")
	do("up 1")
	obs("node 0 primary")
	if out := do("consul-acqex 1"); out != "primary-exists" {
		c.Fail("refused hand-over acquisition: node 1 was handed a session that does not hold the key and its acquisition answered " + out)
	}
	obs("after the refused acquisition")
	cs.End()
	c.Count("directed.refused-handoff-acquisition")
	c.Nontrivial("directed-refused-handoff-acquisition")
}
