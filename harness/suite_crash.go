package main

import (
	"fmt"
	"strings"
)

func init() {
	register(&Suite{Name: "crash", Gen: genCrash, New: func(c *Ctx) Runner { return &engineRunner{engineImpl{c: c}} }})
}

// genCrash: for each transaction shape a short committed history, then ONE operation (a whole
// SQLite transaction, a checkpoint, a drop, an import, a replica apply) inside a crash window:
// the data directory is copied before every OS-layer call, every page write and file truncate
// and at every operation boundary; afterwards a fresh Store is opened on every copy.
func genCrash(c *Ctx) error {
	c.Stats.Rule = "per shape (first transaction, grow, shrink, multi-segment journal incl. a segment ending on a sector boundary, each journal mode, WAL first transaction after the mode switch / next / after restart, rolled-back transactions, LiteFS checkpoint, drop, import, replica snapshot / incremental / tombstone apply): every crash point inside the operation is enumerated (exhaustive in the crash index) and a fresh Store is opened on the copy. Non-trivial = shape with at least 5 crash points of which at least one recovers to the state before and one to the state after; distinct = distinct (shape, page size, mode)."
	c.Stats.Exhaustive = true
	r := c.Rng
	type shape struct {
		name string
		run  func(p *pager, do func(string) string)
	}
	journal := func(mode string, shapeFn func(p *pager) txShape, spill int, rb int) func(p *pager, do func(string) string) {
		return func(p *pager, do func(string) string) {
			p.journalMode = mode
			p.journalTx(shapeFn(p), spill, rb)
		}
	}
	grow := func(p *pager) txShape {
		s := p.randomShape(4)
		s.newN = len(p.img) + 3
		s.pages = map[int]bool{1: true, 2: true}
		for i := len(p.img) + 1; i <= s.newN; i++ {
			s.pages[i] = true
		}
		return s
	}
	shrink := func(p *pager) txShape {
		return txShape{newN: max(1, len(p.img)-2), pages: map[int]bool{1: true}, commit: true}
	}
	modify := func(p *pager) txShape {
		return txShape{newN: len(p.img), pages: map[int]bool{1: true, 2: true, 3: true}, commit: true}
	}
	many := func(n int) func(p *pager) txShape {
		return func(p *pager) txShape {
			s := txShape{newN: len(p.img), pages: map[int]bool{}, commit: true}
			for i := 1; i <= n && i <= len(p.img); i++ {
				s.pages[i] = true
			}
			return s
		}
	}
	shapes := []shape{
		{"journal-grow-DELETE", journal("DELETE", grow, 0, 0)},
		{"journal-shrink-TRUNCATE", journal("TRUNCATE", shrink, 0, 0)},
		{"journal-modify-PERSIST", journal("PERSIST", modify, 0, 0)},
		{"journal-spill-DELETE", journal("DELETE", many(6), 3, 0)},
		// a transaction that rewrites pages it later cuts off (vacuum): the spill puts their new
		// content and page 1 with the smaller size into the file while the journal is still hot
		{"journal-shrink-spill-DELETE", journal("DELETE", func(p *pager) txShape {
			n := len(p.img)
			return txShape{newN: n - 2, pages: map[int]bool{1: true, 2: true, n - 1: true, n: true}, commit: true}
		}, 3, 0)},
		{"journal-shrink-spill-rollback", journal("TRUNCATE", func(p *pager) txShape {
			n := len(p.img)
			return txShape{newN: n - 2, pages: map[int]bool{1: true, 2: true, n - 1: true, n: true}, commit: true}
		}, 3, 2)},
		{"journal-rollback-after-spill", journal("DELETE", many(6), 3, 2)},
		{"journal-rollback-early", journal("TRUNCATE", modify, 0, 1)},
		{"wal-tx", func(p *pager, do func(string) string) { p.walTx(p.randomShape(3), false, true, true) }},
		{"wal-rollback", func(p *pager, do func(string) string) { p.walTx(p.randomShape(3), true, false, false) }},
		// the first transaction through the WAL after the switch to WAL mode: the newest
		// transaction file (the journal commit of page 1 that made the switch) carries no WAL position
		{"wal-first-tx", func(p *pager, do func(string) string) { p.walTx(p.randomShape(3), false, true, true) }},
		{"wal-first-tx-pages", func(p *pager, do func(string) string) {
			p.walTx(txShape{newN: len(p.img) + 1, pages: map[int]bool{1: true, 2: true, len(p.img) + 1: true}, commit: true}, false, false, false)
		}},
		{"wal-shrink", func(p *pager, do func(string) string) {
			p.walTx(txShape{newN: max(1, len(p.img)-2), pages: map[int]bool{1: true}}, false, false, false)
		}},
		{"litefs-checkpoint", func(p *pager, do func(string) string) {
			do("ckpt")
			p.walInit = false
			p.walPages = map[uint32][]byte{}
			p.walOff = 0
		}},
		{"drop", func(p *pager, do func(string) string) {
			do("drop")
			if p.onCommit != nil {
				p.onCommit()
			}
			p.dropped()
		}},
	}
	shapes = append(shapes,
		shape{"first-tx-DELETE", journal("DELETE", func(p *pager) txShape { return p.randomShape(4) }, 0, 0)},
		shape{"first-tx-PERSIST", journal("PERSIST", func(p *pager) txShape { return p.randomShape(4) }, 0, 0)},
		shape{"first-tx-TRUNCATE-nosync", func(p *pager, do func(string) string) {
			p.nosync = true
			p.journalMode = "TRUNCATE"
			p.journalTx(p.randomShape(4), 0, 0)
		}},
	)
	if c.Tier == "thorough" || true {
		shapes = append(shapes, shape{"journal-2seg-aligned-64", journal("DELETE", many(70), 64, 0)})
		shapes = append(shapes, shape{"journal-2seg-aligned-64-rollback", journal("DELETE", many(70), 64, 2)})
	}
	for _, sh := range shapes {
		reps := 1
		if c.Tier == "thorough" {
			reps = 6
		}
		for rep := 0; rep < reps; rep++ {
			ps := pick(r, []int{512, 1024, 4096})
			if strings.Contains(sh.name, "aligned") {
				ps = 512
			}
			cs := c.Begin()
			do := func(op string) string { c.Count("op." + strings.SplitN(op, " ", 2)[0]); return cs.Do(op) }
			p := newPager(r, ps, do)
			p.walBig = r.Bool()
			do("open primary")
			do("createdb")
			// committed history before the crash window (none for the first-transaction shapes)
			if strings.HasPrefix(sh.name, "first-tx") {
				cs.Do(p.refLine())
				do("state")
				do("ltx")
				do("raw")
				do("crash-begin")
				p.onCommit = func() { do("commit-point") }
				sh.run(p, do)
				p.onCommit = nil
				out := do("crash-end")
				cs.Do(p.refLine())
				do("state")
				do("ltx")
				do("raw")
				var n int
				fmt.Sscanf(out, "n=%d", &n)
				for k := 0; k < n; k++ {
					res := do(fmt.Sprintf("crashpoint %d", k))
					c.Count("crashpoint")
					if strings.Contains(res, "open=err") {
						c.Count("crashpoint.open-error")
					}
				}
				cs.End()
				c.CountN("shape."+sh.name+".points", n)
				c.Nontrivial(fmt.Sprintf("%s|%d", sh.name, ps))
				continue
			}
			first := p.randomShape(5)
			if strings.Contains(sh.name, "shrink-spill") {
				first.newN = 8
				for i := 1; i <= 8; i++ {
					first.pages[i] = true
				}
			}
			if strings.Contains(sh.name, "aligned") {
				first.newN = 80
				for i := 1; i <= 80; i++ {
					first.pages[i] = true
				}
			}
			p.journalTx(first, 0, 0)
			if strings.Contains(sh.name, "shrink-spill") {
				// keep the 8 pages: the shape cuts the last two
				p.journalTx(txShape{newN: len(p.img), pages: map[int]bool{1: true, 2: true}, commit: true}, 0, 0)
			} else {
				p.journalTx(p.randomShape(3), 0, 0)
			}
			wal := strings.HasPrefix(sh.name, "wal") || sh.name == "litefs-checkpoint" || (sh.name == "drop" && r.Bool())
			if wal {
				p.wal = true
				p.journalTx(txShape{newN: len(p.img), pages: map[int]bool{1: true}, commit: true}, 0, 0)
				if !strings.HasPrefix(sh.name, "wal-first") {
					p.walTx(p.randomShape(3), false, false, false)
				}
				if sh.name == "wal-tx" && r.Bool() {
					p.sqliteCheckpoint(true, false)
				}
			}
			cs.Do(p.refLine())
			do("state")
			do("ltx")
			do("raw")
			do("crash-begin")
			p.onCommit = func() { do("commit-point") }
			sh.run(p, do)
			p.onCommit = nil
			out := do("crash-end")
			cs.Do(p.refLine())
			do("state")
			do("ltx")
			do("raw")
			var n int
			fmt.Sscanf(out, "n=%d", &n)
			before, after := 0, 0
			for k := 0; k < n; k++ {
				res := do(fmt.Sprintf("crashpoint %d", k))
				c.Count("crashpoint")
				if strings.Contains(res, "open=err") {
					c.Count("crashpoint.open-error")
				}
				if strings.Contains(res, "(before)") {
					before++
				} else {
					after++
				}
			}
			cs.End()
			c.CountN("shape."+sh.name+".points", n)
			if n >= 5 {
				c.Nontrivial(fmt.Sprintf("%s|%d|%v", sh.name, ps, p.walBig))
			}
		}
	}
	// replica-side shapes: ONE stream frame (handled by processLTXStreamFrame) inside the window
	type rshape struct {
		name string
		run  func(v *vprimary, fork *vprimary) (spec string, after *vprimary)
	}
	rshapes := []rshape{
		{"replica-incremental", func(v, _ *vprimary) (string, *vprimary) { return v.randomCommit(4), v }},
		// the transaction cuts pages off the end: the replica writes page 1 (new size in the header)
		// and only then truncates the file
		{"replica-incremental-shrink", func(v, _ *vprimary) (string, *vprimary) {
			return v.commit(max(1, len(v.img)-2), map[int]bool{}), v
		}},
		{"replica-snapshot-behind", func(v, _ *vprimary) (string, *vprimary) {
			v.randomCommit(4)
			v.randomCommit(4)
			return v.snapshot(), v
		}},
		{"replica-snapshot-same", func(v, _ *vprimary) (string, *vprimary) { return v.snapshot(), v }},
		// the node is ahead of (or forked from) the primary it now follows: the snapshot's TXID is
		// lower than that of files still in the node's log
		{"replica-snapshot-ahead", func(_, fork *vprimary) (string, *vprimary) { return fork.snapshot(), fork }},
		{"replica-snapshot-forked", func(_, fork *vprimary) (string, *vprimary) {
			fork.randomCommit(4)
			return fork.snapshot(), fork
		}},
		{"replica-tombstone", func(v, _ *vprimary) (string, *vprimary) { return v.tombstone(), v }},
	}
	for _, sh := range rshapes {
		reps := 1
		if c.Tier == "thorough" {
			reps = 6
		}
		for rep := 0; rep < reps; rep++ {
			ps := pick(r, []int{512, 1024, 4096})
			cs := c.Begin()
			do := func(op string) string { c.Count("op." + strings.SplitN(op, " ", 2)[0]); return cs.Do(op) }
			v := newVPrimary(r, ps)
			do("open replica")
			v.commit(r.Range(4, 7), map[int]bool{})
			v.randomCommit(4)
			if len(v.img) < 4 {
				v.commit(len(v.img)+3, map[int]bool{})
			}
			do("sapply " + v.snapshot())
			fork := v.clone()
			for i, k := 0, r.Range(2, 4); i < k; i++ {
				do("sapply " + v.randomCommit(4))
			}
			cs.Do(v.refLine())
			do("state")
			do("ltx")
			do("raw")
			do("crash-begin")
			spec, after := sh.run(v, fork)
			res := do("sapply " + spec)
			do("commit-point")
			out := do("crash-end")
			cs.Do(after.refLine())
			do("state")
			do("ltx")
			do("raw")
			var n int
			fmt.Sscanf(out, "n=%d", &n)
			for k := 0; k < n; k++ {
				pres := do(fmt.Sprintf("crashpoint %d", k))
				c.Count("crashpoint")
				if strings.Contains(pres, "open=err") {
					c.Count("crashpoint.open-error")
				}
			}
			cs.End()
			c.Count("replica-shape." + sh.name + "." + firstWords(res, 1))
			c.CountN("shape."+sh.name+".points", n)
			if n >= 5 && res == "ok" {
				c.Nontrivial(fmt.Sprintf("%s|%d", sh.name, ps))
			}
		}
	}
	return nil
}
