package main

import (
	"bytes"
	"context"
	"errors"
	"fmt"
	"io"
	"os"
	"strconv"
	"sync"
	"syscall"
	"time"

	"bazil.org/fuse"
	"bazil.org/fuse/fs"
	"github.com/superfly/litefs"
	lfuse "github.com/superfly/litefs/fuse"
	"github.com/superfly/ltx"
)

// mountImpl routes the application-side operations of the engine runner (page, journal and WAL
// writes, creation / deletion / truncation of the files, byte-range locks and lock queries,
// database creation and removal) through the handlers of the FUSE layer (fuse/*.go) — the very
// methods the FUSE server calls for a mounted directory — instead of calling the DB methods
// directly.  There is no kernel and no mount: requests are built by hand (names as the kernel
// passes them: "db", "db-journal", "db-wal", "db-shm"; POSIX lock requests as byte ranges with a
// lock owner) and the handler's error is mapped to an errno with the library's own fuse.ToErrno,
// as the server does before it answers the kernel.  The file system's invalidation callbacks run
// against a server that caches nothing (hook VerifAttachServer).
type mountImpl struct {
	fsys *lfuse.FileSystem
	root *lfuse.RootNode
	dbh  *lfuse.DatabaseHandle
	jh   *lfuse.JournalHandle
	wh   *lfuse.WALHandle
	sh   *lfuse.SHMHandle
	cache *pageCache
	used int // operations that went through the FUSE handlers
	fell int // lock operations on type sets that are not one byte range (direct call instead)
}

// pageCache models the kernel's page cache of the mounted database file "db" (the file system
// opens files with OpenKeepCache): 4 KiB pages an application read through the mount stay cached
// until LiteFS invalidates them (Invalidator.InvalidateDBRange / InvalidateDB, i.e.
// notify_inval_inode) or until an attribute refresh shows a smaller file (the kernel then drops
// what lies beyond the new size).  A read of a cached page does not reach LiteFS.  It sits in
// front of the real fuse.FileSystem, which every call is passed on to.
type pageCache struct {
	mu    sync.Mutex
	fsys  *lfuse.FileSystem
	pages map[int64][]byte // offset of the 4 KiB page -> its bytes
	size  int64            // the file size the kernel last saw
	inval int
}

const kernelPage = 4096

func (pc *pageCache) dropRange(off, size int64) {
	pc.mu.Lock()
	defer pc.mu.Unlock()
	pc.inval++
	for o := off - off%kernelPage; o < off+size; o += kernelPage {
		delete(pc.pages, o)
	}
}

func (pc *pageCache) dropAll() {
	pc.mu.Lock()
	defer pc.mu.Unlock()
	pc.inval++
	pc.pages = map[int64][]byte{}
}

// sawSize: an attribute refresh (stat, or the revalidation before a read)
func (pc *pageCache) sawSize(n int64) {
	pc.mu.Lock()
	defer pc.mu.Unlock()
	if n < pc.size {
		for o := range pc.pages {
			if o+kernelPage > n {
				delete(pc.pages, o)
			}
		}
	}
	pc.size = n
}

func (pc *pageCache) InvalidateDB(db *litefs.DB) error {
	if db.Name() == "db" {
		pc.dropAll()
	}
	return pc.fsys.InvalidateDB(db)
}
func (pc *pageCache) InvalidateDBRange(db *litefs.DB, offset, size int64) error {
	if db.Name() == "db" {
		pc.dropRange(offset, size)
	}
	return pc.fsys.InvalidateDBRange(db, offset, size)
}
func (pc *pageCache) InvalidateSHM(db *litefs.DB) error { return pc.fsys.InvalidateSHM(db) }
func (pc *pageCache) InvalidatePos(db *litefs.DB) error { return pc.fsys.InvalidatePos(db) }
func (pc *pageCache) InvalidateEntry(name string) error {
	if name == "db" {
		pc.dropAll()
	}
	return pc.fsys.InvalidateEntry(name)
}
func (pc *pageCache) InvalidateLag() error { return pc.fsys.InvalidateLag() }

func newMount(store *litefs.Store) (*mountImpl, error) {
	fsys := lfuse.NewFileSystem("/nonexistent-verif-mount", store)
	fsys.VerifAttachServer()
	pc := &pageCache{fsys: fsys, pages: map[int64][]byte{}}
	store.Invalidator = pc
	n, err := fsys.Root()
	if err != nil {
		return nil, err
	}
	root, ok := n.(*lfuse.RootNode)
	if !ok {
		return nil, fmt.Errorf("unexpected root node type %T", n)
	}
	return &mountImpl{fsys: fsys, root: root, cache: pc}, nil
}

func (mt *mountImpl) forget() { mt.dbh, mt.jh, mt.wh, mt.sh = nil, nil, nil, nil }

// forgetNode: after an unlink the kernel drops its reference and sends FORGET for the node.
func (mt *mountImpl) forgetNode(name string) {
	if n := mt.root.Node(name); n != nil {
		if f, ok := n.(fs.NodeForgetter); ok {
			f.Forget()
		}
	}
}

// errClass: for the operations the properties only require to be refused "with an error"
// (deletion, truncation, removal) the observation is the class of the handler's error as the
// direct API reports it; the errno the kernel is given is counted (`mount.errno.*`).
func (mt *mountImpl) errClass(m *engineImpl, err error) string {
	if err != nil && m.c != nil {
		m.c.Count("mount.errno." + errnoStr(err))
	}
	var fe *lfuse.Error
	if errors.As(err, &fe) && errnoStr(err) == "readonly" {
		return "readonly"
	}
	if err != nil && errnoStr(err) == "enoent" {
		return "enoent"
	}
	return errStr(err)
}

// errnoStr names the errno the kernel would be given for a handler's error.
func errnoStr(err error) string {
	if err == nil {
		return "ok"
	}
	switch e := syscall.Errno(fuse.ToErrno(err)); e {
	case syscall.EACCES, syscall.EROFS, syscall.EPERM:
		return "readonly" // the read-only permission error SQLite reports as SQLITE_READONLY
	case syscall.ENOENT:
		return "enoent"
	case syscall.EEXIST:
		return "exists"
	case syscall.EAGAIN:
		return "eagain"
	case syscall.EIO:
		return "eio"
	case syscall.EINVAL:
		return "einval"
	case syscall.ENOSYS:
		return "enosys"
	default:
		return fmt.Sprintf("errno=%d", int(e))
	}
}

func (mt *mountImpl) lookup(ctx context.Context, name string) (fs.Node, error) {
	return mt.root.Lookup(ctx, name)
}

func (mt *mountImpl) create(ctx context.Context, name string) (fs.Node, fs.Handle, error) {
	req := &fuse.CreateRequest{Name: name, Flags: fuse.OpenFlags(os.O_RDWR | os.O_CREATE), Mode: 0o666}
	return mt.root.Create(ctx, req, &fuse.CreateResponse{})
}

func setSize(size uint64) *fuse.SetattrRequest {
	return &fuse.SetattrRequest{Valid: fuse.SetattrSize, Size: size}
}

// lockRange: the byte range SQLite would lock for this set of lock types, and whether the range
// names exactly this set (on the database file or on the shared-memory file).
func lockRange(types []litefs.LockType) (start, end uint64, shm bool, exact bool) {
	if len(types) == 0 {
		return 0, 0, false, false
	}
	start, end = uint64(types[0]), uint64(types[0])
	for _, t := range types {
		if uint64(t) < start {
			start = uint64(t)
		}
		if uint64(t) > end {
			end = uint64(t)
		}
	}
	shm = start < uint64(litefs.LockTypePending)
	if !shm && end == uint64(litefs.LockTypeShared) {
		end += 509 // SQLite's SHARED_SIZE
	}
	// which lock bytes lie in the range — by the harness's own table of SQLite's lock bytes, not by
	// the functions under test
	inRange := map[litefs.LockType]bool{}
	for _, t := range []litefs.LockType{
		litefs.LockTypePending, litefs.LockTypeReserved, litefs.LockTypeShared,
		litefs.LockTypeWrite, litefs.LockTypeCkpt, litefs.LockTypeRecover, litefs.LockTypeRead0, litefs.LockTypeRead1,
		litefs.LockTypeRead2, litefs.LockTypeRead3, litefs.LockTypeRead4, litefs.LockTypeDMS,
	} {
		if start <= uint64(t) && uint64(t) <= end {
			inRange[t] = true
		}
	}
	if len(inRange) != len(types) {
		return start, end, shm, false
	}
	for _, t := range types {
		if !inRange[t] {
			return start, end, shm, false
		}
	}
	return start, end, shm, true
}

// do runs one application-side operation through the FUSE handlers.  handled=false: the operation
// is not one of the mount's (the caller falls back to the direct API).
func (mt *mountImpl) do(m *engineImpl, ctx context.Context, f []string) (obs string, handled bool) {
	const owner = fuse.LockOwner(1)
	atoi := func(s string) (int64, bool) { v, err := strconv.ParseInt(s, 10, 64); return v, err == nil }
	switch f[0] {
	case "createdb":
		if m.store == nil {
			return "bad-op", true
		}
		mt.used++
		_, h, err := mt.create(ctx, "db")
		if err != nil {
			return errnoStr(err), true
		}
		mt.dbh, _ = h.(*lfuse.DatabaseHandle)
		m.db = m.store.DB("db")
		if m.db == nil {
			return "err", true
		}
		m.db.Now = func() time.Time { return fixedNow }
		return "ok", true
	case "dbw":
		if len(f) != 3 || !m.need() {
			return "bad-op", true
		}
		off, ok1 := atoi(f[1])
		data, ok2 := bytesOf(f[2])
		if !ok1 || !ok2 {
			return "bad-op", true
		}
		mt.used++
		if mt.dbh == nil {
			n, err := mt.lookup(ctx, "db")
			if err != nil {
				return errnoStr(err), true
			}
			h, err := n.(*lfuse.DatabaseNode).Open(ctx, &fuse.OpenRequest{Flags: fuse.OpenReadWrite}, &fuse.OpenResponse{})
			if err != nil {
				return errnoStr(err), true
			}
			mt.dbh = h.(*lfuse.DatabaseHandle)
		}
		err := mt.dbh.Write(ctx, &fuse.WriteRequest{Offset: off, Data: data, LockOwner: owner}, &fuse.WriteResponse{})
		mt.cache.dropRange(off, int64(len(data))) // the kernel updates its own pages on a write through the mount
		return errnoStr(err), true
	case "dbt":
		if len(f) != 2 || !m.need() {
			return "bad-op", true
		}
		sz, ok := atoi(f[1])
		if !ok || sz < 0 {
			return "bad-op", true
		}
		mt.used++
		n, err := mt.lookup(ctx, "db")
		if err != nil {
			return errnoStr(err), true
		}
		err = n.(*lfuse.DatabaseNode).Setattr(ctx, setSize(uint64(sz)), &fuse.SetattrResponse{})
		if err == nil {
			mt.cache.sawSize(sz) // truncate(2) through the mount
		}
		return mt.errClass(m, err), true
	case "jc":
		if !m.need() {
			return "bad-op", true
		}
		mt.used++
		mt.jh = nil // SQLite creates the journal only when it has no journal file open
		if _, err := os.Stat(m.db.JournalPath()); err == nil {
			return "eexist", true // the kernel answers an exclusive create of an existing name itself
		}
		_, h, err := mt.create(ctx, "db-journal")
		if err != nil {
			return errnoStr(err), true
		}
		mt.jh, _ = h.(*lfuse.JournalHandle)
		return "ok", true
	case "jw":
		if len(f) != 3 || !m.need() {
			return "bad-op", true
		}
		off, ok1 := atoi(f[1])
		data, ok2 := bytesOf(f[2])
		if !ok1 || !ok2 {
			return "bad-op", true
		}
		mt.used++
		if mt.jh == nil {
			n, err := mt.lookup(ctx, "db-journal")
			if err != nil {
				return errnoStr(err), true
			}
			h, err := n.(*lfuse.JournalNode).Open(ctx, &fuse.OpenRequest{Flags: fuse.OpenReadWrite}, &fuse.OpenResponse{})
			if err != nil {
				return errnoStr(err), true
			}
			mt.jh = h.(*lfuse.JournalHandle)
		}
		err := mt.jh.Write(ctx, &fuse.WriteRequest{Offset: off, Data: data, LockOwner: owner}, &fuse.WriteResponse{})
		return m.withExit(errnoStr(err)), true
	case "jrm":
		if !m.need() {
			return "bad-op", true
		}
		mt.used++
		err := mt.root.Remove(ctx, &fuse.RemoveRequest{Name: "db-journal"})
		if err == nil {
			mt.jh = nil
			mt.forgetNode("db-journal")
		}
		return m.withExit(mt.errClass(m, err)), true
	case "jtr":
		if !m.need() {
			return "bad-op", true
		}
		mt.used++
		if _, err := os.Stat(m.db.JournalPath()); err != nil {
			// no such file: the kernel answers the lookup itself, LiteFS is not asked (direct call
			// keeps the history aligned with the model)
			mt.used--
			return "", false
		}
		n, err := mt.lookup(ctx, "db-journal")
		if err != nil {
			return m.withExit(errnoStr(err)), true
		}
		return m.withExit(mt.errClass(m, n.(*lfuse.JournalNode).Setattr(ctx, setSize(0), &fuse.SetattrResponse{}))), true
	case "wc":
		if !m.need() {
			return "bad-op", true
		}
		mt.used++
		mt.wh = nil
		if _, err := os.Stat(m.db.WALPath()); err == nil {
			return "eexist", true // the kernel answers an exclusive create of an existing name itself
		}
		_, h, err := mt.create(ctx, "db-wal")
		if err != nil {
			return errnoStr(err), true
		}
		mt.wh, _ = h.(*lfuse.WALHandle)
		return "ok", true
	case "ww":
		if len(f) != 3 || !m.need() {
			return "bad-op", true
		}
		off, ok1 := atoi(f[1])
		data, ok2 := bytesOf(f[2])
		if !ok1 || !ok2 {
			return "bad-op", true
		}
		mt.used++
		if mt.wh == nil {
			n, err := mt.lookup(ctx, "db-wal")
			if err != nil {
				return errnoStr(err), true
			}
			h, err := n.(*lfuse.WALNode).Open(ctx, &fuse.OpenRequest{Flags: fuse.OpenReadWrite}, &fuse.OpenResponse{})
			if err != nil {
				return errnoStr(err), true
			}
			mt.wh = h.(*lfuse.WALHandle)
		}
		err := mt.wh.Write(ctx, &fuse.WriteRequest{Offset: off, Data: data, LockOwner: owner}, &fuse.WriteResponse{})
		return errnoStr(err), true
	case "wt":
		if len(f) != 2 || !m.need() {
			return "bad-op", true
		}
		sz, ok := atoi(f[1])
		if !ok || sz < 0 {
			return "bad-op", true
		}
		mt.used++
		n, err := mt.lookup(ctx, "db-wal")
		if err != nil {
			return errnoStr(err), true
		}
		return mt.errClass(m, n.(*lfuse.WALNode).Setattr(ctx, setSize(uint64(sz)), &fuse.SetattrResponse{})), true
	case "wrm":
		if !m.need() {
			return "bad-op", true
		}
		mt.used++
		err := mt.root.Remove(ctx, &fuse.RemoveRequest{Name: "db-wal"})
		if err == nil {
			mt.wh = nil
			mt.forgetNode("db-wal")
		}
		return mt.errClass(m, err), true
	case "drop":
		if !m.need() {
			return "bad-op", true
		}
		mt.used++
		m.closeFiles()
		mt.forget()
		err := mt.root.Remove(ctx, &fuse.RemoveRequest{Name: "db"})
		time.Sleep(2 * time.Millisecond) // the handler's notification goroutine
		if err == nil {
			for _, name := range []string{"db", "db-journal", "db-wal", "db-shm"} {
				mt.forgetNode(name)
			}
		}
		return m.withExit(mt.errClass(m, err)), true
	case "shmclose", "dbclose":
		if len(f) != 2 || !m.need() {
			return "bad-op", true
		}
		o, ok := atoi(f[1])
		if !ok {
			return "bad-op", true
		}
		if f[0] == "dbclose" {
			if mt.dbh == nil {
				return "", false
			}
			mt.used++
			_ = mt.dbh.Flush(ctx, &fuse.FlushRequest{LockOwner: fuse.LockOwner(o)})
			return m.withExit("ok"), true
		}
		if mt.sh == nil {
			return "", false
		}
		mt.used++
		_ = mt.sh.Flush(ctx, &fuse.FlushRequest{LockOwner: fuse.LockOwner(o)})
		return m.withExit("ok"), true
	case "lock", "rlock", "unlock", "canlock", "canrlock":
		if len(f) != 3 || !m.need() {
			return "bad-op", true
		}
		o, ok1 := atoi(f[1])
		types, ok2 := parseLocks(f[2])
		if !ok1 || !ok2 {
			return "bad-op", true
		}
		start, end, shm, exact := lockRange(types)
		if !exact {
			mt.fell++
			return "", false
		}
		var lk interface {
			Lock(context.Context, *fuse.LockRequest) error
			Unlock(context.Context, *fuse.UnlockRequest) error
			QueryLock(context.Context, *fuse.QueryLockRequest, *fuse.QueryLockResponse) error
		}
		if shm {
			if mt.sh == nil {
				// SQLite opens (creates) the shared-memory file before it takes any WAL lock
				n, err := mt.lookup(ctx, "db-shm")
				var h fs.Handle
				if err == nil {
					h, err = n.(*lfuse.SHMNode).Open(ctx, &fuse.OpenRequest{Flags: fuse.OpenReadWrite}, &fuse.OpenResponse{})
				} else if syscall.Errno(fuse.ToErrno(err)) == syscall.ENOENT {
					_, h, err = mt.create(ctx, "db-shm")
				}
				if err != nil {
					mt.fell++
					return "", false
				}
				mt.sh = h.(*lfuse.SHMHandle)
			}
			lk = mt.sh
		} else {
			if mt.dbh == nil {
				n, err := mt.lookup(ctx, "db")
				if err != nil {
					mt.fell++
					return "", false
				}
				h, err := n.(*lfuse.DatabaseNode).Open(ctx, &fuse.OpenRequest{Flags: fuse.OpenReadWrite}, &fuse.OpenResponse{})
				if err != nil {
					mt.fell++
					return "", false
				}
				mt.dbh = h.(*lfuse.DatabaseHandle)
			}
			lk = mt.dbh
		}
		mt.used++
		fl := fuse.FileLock{Start: start, End: end, PID: 1}
		switch f[0] {
		case "lock", "rlock":
			fl.Type = fuse.LockWrite
			if f[0] == "rlock" {
				fl.Type = fuse.LockRead
			}
			err := lk.Lock(ctx, &fuse.LockRequest{LockOwner: fuse.LockOwner(o), Lock: fl})
			switch s := errnoStr(err); s {
			case "ok":
				return "true", true
			case "eagain":
				return "false", true
			default:
				if f[0] == "lock" {
					return "err", true
				}
				return s, true
			}
		case "unlock":
			fl.Type = fuse.LockUnlock
			err := lk.Unlock(ctx, &fuse.UnlockRequest{LockOwner: fuse.LockOwner(o), Lock: fl})
			s := errnoStr(err)
			if s != "ok" && s != "readonly" && s != "enoent" {
				s = "err"
			}
			return m.withExit(s), true
		default:
			fl.Type = fuse.LockWrite
			if f[0] == "canrlock" {
				fl.Type = fuse.LockRead
			}
			var resp fuse.QueryLockResponse
			resp.Lock.Type = fuse.LockUnlock
			_ = lk.QueryLock(ctx, &fuse.QueryLockRequest{LockOwner: fuse.LockOwner(o), Lock: fl}, &resp)
			free := resp.Lock.Type == fuse.LockUnlock
			if f[0] == "canrlock" {
				return fmt.Sprint(free), true
			}
			// the mount reports the kind of the blocking lock: a write lock when the mutex is held
			// exclusively, otherwise a read lock (or nothing)
			if free {
				// F_GETLK carries no mutex state when the lock is available: ask the DB for the
				// second half of the observation
				_, st := m.db.CanLock(ctx, uint64(o), types)
				return fmt.Sprintf("true %s", st), true
			}
			_, st := m.db.CanLock(ctx, uint64(o), types)
			if (resp.Lock.Type == fuse.LockWrite) != (st == litefs.RWMutexStateExclusive) {
				return fmt.Sprintf("false %s/mount-reports-%v", st, resp.Lock.Type), true
			}
			return fmt.Sprintf("false %s", st), true
		}
	}
	return "", false
}

// crossCheck reads, through the mount's handlers, the database's -pos file (as `cat` does, in two
// reads) and the database file (whole, in 4 KiB reads as the kernel issues them), and compares them
// with the position the node reports and with the file on disk.  Empty string = they agree.
func (mt *mountImpl) crossCheck(m *engineImpl, pos ltx.Pos) string {
	ctx := context.Background()
	n, err := mt.lookup(ctx, "db-pos")
	if err != nil {
		return "lookup of the -pos file: " + errnoStr(err)
	}
	pn, ok := n.(*lfuse.PosNode)
	if !ok {
		return fmt.Sprintf("the -pos file is a %T", n)
	}
	var text []byte
	for off := int64(0); off < 64; {
		var resp fuse.ReadResponse
		err := pn.Read(ctx, &fuse.ReadRequest{Offset: off, Size: 20}, &resp)
		if err == io.EOF || (err == nil && len(resp.Data) == 0) {
			break
		} else if err != nil {
			return "read of the -pos file: " + errnoStr(err)
		}
		text = append(text, resp.Data...)
		off += int64(len(resp.Data))
	}
	want := fmt.Sprintf("%s/%s\n", pos.TXID, pos.PostApplyChecksum)
	if string(text) != want && m.db.Pos() == pos {
		return fmt.Sprintf("the -pos file reads %q, the node's position is %q", text, want)
	}
	mt.used++
	if m.c != nil {
		m.c.Count("mount.read-pos")
	}
	// database file
	disk, err := os.ReadFile(m.db.DatabasePath())
	if err != nil {
		return "" // no database file (dropped)
	}
	dn, err := mt.lookup(ctx, "db")
	if err != nil {
		return "lookup of the database: " + errnoStr(err)
	}
	dnode, ok := dn.(*lfuse.DatabaseNode)
	if !ok {
		return fmt.Sprintf("the database is a %T", dn)
	}
	var attr fuse.Attr
	if err := dnode.Attr(ctx, &attr); err != nil {
		return "attributes of the database: " + errnoStr(err)
	}
	if attr.Size != uint64(len(disk)) {
		return fmt.Sprintf("the database's size through the mount is %d, the file has %d bytes", attr.Size, len(disk))
	}
	if len(disk) > 1<<22 {
		return "" // large images: size only
	}
	mt.cache.sawSize(int64(attr.Size))
	h, err := dnode.Open(ctx, &fuse.OpenRequest{Flags: fuse.OpenReadOnly}, &fuse.OpenResponse{})
	if err != nil {
		return "open of the database: " + errnoStr(err)
	}
	dh := h.(*lfuse.DatabaseHandle)
	defer func() { _ = dh.Release(ctx, &fuse.ReleaseRequest{}) }()
	var got []byte
	hits := 0
	for off := int64(0); off < int64(len(disk)); off += kernelPage {
		mt.cache.mu.Lock()
		pg, cached := mt.cache.pages[off]
		mt.cache.mu.Unlock()
		if cached {
			hits++
			got = append(got, pg...)
			continue
		}
		resp := fuse.ReadResponse{Data: make([]byte, 0, kernelPage)}
		if err := dh.Read(ctx, &fuse.ReadRequest{Offset: off, Size: kernelPage, LockOwner: 99}, &resp); err != nil {
			return "read of the database: " + errnoStr(err)
		}
		got = append(got, resp.Data...)
		if len(resp.Data) == kernelPage {
			mt.cache.mu.Lock()
			mt.cache.pages[off] = append([]byte{}, resp.Data...)
			mt.cache.mu.Unlock()
		}
		if len(resp.Data) < kernelPage {
			break
		}
	}
	if m.c != nil {
		m.c.CountN("mount.cache-hit-pages", hits)
	}
	if !bytes.Equal(got, disk) {
		return fmt.Sprintf("the database read through the mount and the kernel's page cache (%d bytes, %d pages from the cache) differs from the file (%d bytes)", len(got), hits, len(disk))
	}
	if m.c != nil {
		m.c.Count("mount.read-db")
	}
	return ""
}
