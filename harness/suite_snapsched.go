package main

import (
	"fmt"
	"strings"
)

func init() {
	register(&Suite{Name: "snapsched", Gen: genSnapSched, New: func(c *Ctx) Runner { return &engineRunner{engineImpl{c: c}} }})
}

// genSnapSched: an Export or snapshot runs in a second goroutine and is stopped at a chosen lock
// transition (or blocks naturally on the WAL write lock) while the application commits, rolls
// back, checkpoints, restarts the log, and LiteFS checkpoints; then it is resumed.
func genSnapSched(c *Ctx) error {
	c.Stats.Rule = "snapshot / export in a second goroutine, paused at each lock transition of its sequence (after PENDING, after SHARED, waiting for WRITE, after releasing WRITE, after CKPT, after RECOVER, after each READ lock) or naturally blocked on a writer; meanwhile: commit (grow / shrink / same size), rolled-back frames, SQLite checkpoint with and without restart and truncate, WAL restart overwritten by a new transaction, LiteFS checkpoint; both journal modes. Non-trivial = the background operation completed after at least one interfering commit or checkpoint; distinct = distinct (kind, pause point, interference script, page size)."
	r := c.Rng
	pausePoints := []string{"", "PENDING:unlocked:shared", "SHARED:unlocked:shared", "WRITE:unlocked:exclusive", "WRITE:exclusive:unlocked",
		"CKPT:unlocked:shared", "RECOVER:unlocked:shared", "READ0:unlocked:shared", "READ2:unlocked:shared", "READ4:unlocked:shared"}
	scripts := []string{"commit", "commit-grow", "commit-shrink", "rollback", "commit+ckpt", "commit+ckpt-restart+commit", "ckpt-restart+commit+commit",
		"litefs-ckpt", "litefs-ckpt+commit", "commit+litefs-ckpt+commit", "writer-holds"}
	reps := 1
	if c.Tier == "thorough" {
		reps = 10
	}
	for rep := 0; rep < reps; rep++ {
		for _, kind := range []string{"export", "snapshot"} {
			for _, wal := range []bool{true, false} {
				for _, pp := range pausePoints {
					for _, sc := range scripts {
						if !wal && (strings.HasPrefix(pp, "WRITE") || strings.Contains(sc, "ckpt") || sc == "writer-holds") {
							continue
						}
						if c.Tier == "quick" && r.Chance(1, 2) {
							continue
						}
						ps := pick(r, []int{512, 4096})
						cs := c.Begin()
						do := func(op string) string { c.Count("op." + strings.SplitN(op, " ", 2)[0]); return cs.Do(op) }
						p := newPager(r, ps, do)
						p.walBig = r.Bool()
						do("open primary")
						do("createdb")
						p.journalTx(p.randomShape(5), 0, 0)
						p.journalTx(p.randomShape(3), 0, 0)
						if wal {
							p.wal = true
							p.journalTx(txShape{newN: len(p.img), pages: map[int]bool{1: true}, commit: true}, 0, 0)
							p.walTx(p.randomShape(3), false, false, false)
							p.walTx(p.randomShape(2), false, false, false)
						}
						observeHist := func() {
							cs.Do(p.refLine())
							do("state")
							do("raw")
						}
						observeHist()
						var st string
						if sc == "writer-holds" {
							// the writer is inside a transaction when the export starts
							do("rlock 1 READ1")
							do("lock 1 WRITE")
							st = do("bg-start " + kind)
							// the writer finishes its transaction: frames + commit
							hold := *p
							hold.do = func(op string) string {
								if strings.HasPrefix(op, "rlock") || (strings.HasPrefix(op, "lock") && strings.HasSuffix(op, "WRITE")) {
									return "true" // already held
								}
								return do(op)
							}
							hold.walTx(hold.randomShape(3), false, false, false)
							*p = hold
							p.do = do
							observeHist()
						} else {
							st = do(strings.TrimSpace("bg-start " + kind + " " + pp))
							// application activity while the background operation is stopped
							for _, a := range strings.Split(sc, "+") {
								switch a {
								case "commit":
									s := txShape{newN: len(p.img), pages: map[int]bool{1: true, 2: true}, commit: true}
									if wal {
										p.walTx(s, false, false, false)
									} else {
										p.tryJournalTx(s)
									}
								case "commit-grow":
									s := p.randomShape(3)
									s.newN = len(p.img) + 2
									s.pages[len(p.img)+1], s.pages[len(p.img)+2] = true, true
									if wal {
										p.walTx(s, false, false, false)
									} else {
										p.tryJournalTx(s)
									}
								case "commit-shrink":
									s := txShape{newN: max(1, len(p.img)-1), pages: map[int]bool{1: true}, commit: true}
									if wal {
										p.walTx(s, false, false, false)
									} else {
										p.tryJournalTx(s)
									}
								case "rollback":
									if wal {
										p.walTx(p.randomShape(3), true, false, false)
									}
								case "ckpt":
									p.sqliteCheckpoint(false, false)
								case "ckpt-restart":
									p.sqliteCheckpoint(true, r.Bool())
								case "litefs-ckpt":
									if do("ckpt") == "ok" {
										p.walInit = false
										p.walPages = map[uint32][]byte{}
										p.walOff = 0
									}
								}
								observeHist()
							}
						}
						res := st
						for i := 0; i < 3 && !strings.HasPrefix(res, "finished"); i++ {
							res = do("bg-resume")
						}
						if !strings.HasPrefix(res, "finished") {
							res = do("bg-result")
						}
						c.Count("result." + firstWords(res, 2))
						observeHist()
						cs.End()
						c.Nontrivial(fmt.Sprintf("%s|%v|%s|%s|%d", kind, wal, pp, sc, ps))
					}
				}
			}
		}
	}
	return nil
}

// tryJournalTx runs a rollback-journal transaction that may be refused at the EXCLUSIVE step
// (a reader — the background export — holds SHARED): then the application rolls back.
func (p *pager) tryJournalTx(s txShape) {
	o := p.owner
	p.do(fmt.Sprintf("rlock %d PENDING", o))
	p.do(fmt.Sprintf("rlock %d SHARED", o))
	p.do(fmt.Sprintf("unlock %d PENDING", o))
	if p.do(fmt.Sprintf("lock %d RESERVED", o)) != "true" {
		p.do(fmt.Sprintf("unlock %d SHARED", o))
		return
	}
	ok := p.do(fmt.Sprintf("lock %d PENDING", o)) == "true"
	if ok {
		ok = p.do(fmt.Sprintf("lock %d SHARED", o)) == "true"
	}
	p.do(fmt.Sprintf("unlock %d PENDING,RESERVED", o))
	p.do(fmt.Sprintf("unlock %d SHARED", o))
	if ok {
		p.journalTx(s, 0, 0) // nothing blocks an exclusive lock: the transaction can run
	}
}
