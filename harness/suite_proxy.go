package main

import (
	"fmt"
	"net"
	"net/http"
	"regexp"
	"strings"
	"sync"
	"time"

	"github.com/superfly/litefs"
	lhttp "github.com/superfly/litefs/http"
)

func init() {
	register(&Suite{Name: "proxy", Gen: genProxy, New: func(c *Ctx) Runner { return &proxyImpl{eng: engineImpl{c: c}} }})
}

// proxyImpl: a real Store (through engineImpl), a real lhttp.ProxyServer in front of a recording
// target application.
//
//	open primary|replica|orphan     orphan = replica without a known primary
//	proxy-start
//	req <METHOD> <path> <cookie|-> [w=<spec>] [adv=<spec;spec...>]
//	     w:   the application's write when it is reached (applied while the request is served)
//	     adv: transaction files applied through the stream path while the request waits
//	     (spec = LTX spec with '_' for spaces)
//	everything else: engine operation
type proxyImpl struct {
	eng    engineImpl
	proxy  *lhttp.ProxyServer
	target *http.Server
	tln    net.Listener

	mu      sync.Mutex
	hit     bool
	hitPos  uint64
	onHit   string // engine op the application runs when reached
	hitNote string
}

func (m *proxyImpl) Close() {
	if m.proxy != nil {
		_ = m.proxy.Close()
	}
	if m.target != nil {
		_ = m.target.Close()
	}
	m.eng.Close()
}

func (m *proxyImpl) Do(line string) string {
	f := strings.Fields(line)
	if len(f) == 0 {
		return "bad-op"
	}
	switch f[0] {
	case "ref":
		return "ok"
	case "open":
		if len(f) == 2 && f[1] == "orphan" {
			svc := newLeaseSvc()
			m.eng.configure = func(st *litefs.Store) error {
				st.Leaser = &nodeLeaser{svc: svc, idx: 0, host: "orphan"}
				st.ReconnectDelay = 5 * time.Millisecond
				return nil
			}
			if m.eng.store != nil {
				return "bad-op"
			}
			if err := m.eng.openStore("replica"); err != nil {
				return "err"
			}
			return "ok"
		}
		return m.eng.Do(line)
	case "proxy-start":
		if m.eng.store == nil || m.proxy != nil {
			return "bad-op"
		}
		ln, err := net.Listen("tcp", "127.0.0.1:0")
		if err != nil {
			return "err"
		}
		m.tln = ln
		m.target = &http.Server{Handler: http.HandlerFunc(m.serveTarget)}
		go func() { _ = m.target.Serve(ln) }()
		p := lhttp.NewProxyServer(m.eng.store)
		p.Target = ln.Addr().String()
		p.DBName = "db"
		p.Addr = "127.0.0.1:0"
		// a prefix expression and a wildcard-suffix expression each (the latter compiled the way
		// the configuration file's patterns are: `*.png` -> ^.*\.png$)
		png, _ := lhttp.CompileMatch("*.png")
		fwd, _ := lhttp.CompileMatch("*.fwd")
		p.Passthroughs = []*regexp.Regexp{regexp.MustCompile(`^/pt/`), png}
		p.AlwaysForward = []*regexp.Regexp{regexp.MustCompile(`^/fw/`), fwd}
		p.PollTXIDInterval = time.Millisecond
		p.PollTXIDTimeout = 300 * time.Millisecond
		p.PrimaryRedirectTimeout = 60 * time.Millisecond
		p.MaxLag = 0 // the health endpoint's lag threshold is not part of the property (the suite's files carry a fixed 2023 timestamp)
		if err := p.Listen(); err != nil {
			return "err"
		}
		p.Serve()
		m.proxy = p
		return "ok"
	case "req":
		return m.req(f[1:])
	}
	if m.eng.db == nil && m.eng.store != nil {
		if m.eng.db = m.eng.store.DB("db"); m.eng.db != nil {
			m.eng.db.Now = func() time.Time { return fixedNow }
		}
	}
	return m.eng.Do(line)
}

// the application: records that it was reached and at which database position, optionally writes
func (m *proxyImpl) serveTarget(w http.ResponseWriter, r *http.Request) {
	m.mu.Lock()
	m.hit = true
	if db := m.eng.store.DB("db"); db != nil {
		m.hitPos = uint64(db.Pos().TXID)
	} else {
		m.hitPos = 0
	}
	op := m.onHit
	m.mu.Unlock()
	if op != "" {
		if m.eng.db == nil {
			if m.eng.db = m.eng.store.DB("db"); m.eng.db != nil {
				m.eng.db.Now = func() time.Time { return fixedNow }
			}
		}
		out := m.eng.Do(op)
		m.mu.Lock()
		m.hitNote = out
		m.mu.Unlock()
	}
	w.Header().Set("X-App", "1")
	// the application sets cookies of its own (session, CSRF token): the proxy's position cookie
	// has to travel next to them
	http.SetCookie(w, &http.Cookie{Name: "session", Value: "s1", Path: "/"})
	http.SetCookie(w, &http.Cookie{Name: "csrf", Value: "t1", Path: "/"})
	w.WriteHeader(200)
	_, _ = w.Write([]byte("app\n"))
}

func unspec(s string) string { return strings.ReplaceAll(s, "_", " ") }

func (m *proxyImpl) req(f []string) string {
	if len(f) < 3 || m.proxy == nil {
		return "bad-op"
	}
	method, path, cookie := f[0], f[1], f[2]
	var write string
	var adv []string
	for _, a := range f[3:] {
		switch {
		case strings.HasPrefix(a, "w="):
			write = "txapply " + unspec(a[2:])
		case strings.HasPrefix(a, "adv="):
			for _, s := range strings.Split(a[4:], ";") {
				if s != "" {
					adv = append(adv, "sapply "+unspec(s))
				}
			}
		default:
			return "bad-op"
		}
	}
	if write != "" && len(adv) > 0 {
		return "bad-op"
	}
	m.mu.Lock()
	m.hit, m.hitPos, m.onHit, m.hitNote = false, 0, write, ""
	m.mu.Unlock()
	req, err := http.NewRequest(method, m.proxy.URL()+path, nil)
	if err != nil {
		return "bad-op"
	}
	if cookie != "-" {
		req.AddCookie(&http.Cookie{Name: lhttp.TXIDCookieName, Value: cookie})
	}
	var wg sync.WaitGroup
	if len(adv) > 0 {
		wg.Add(1)
		go func() {
			defer wg.Done()
			for _, op := range adv {
				time.Sleep(15 * time.Millisecond)
				if m.eng.db == nil && m.eng.store != nil {
					if m.eng.db = m.eng.store.DB("db"); m.eng.db != nil {
						m.eng.db.Now = func() time.Time { return fixedNow }
					}
				}
				m.eng.Do(op)
			}
		}()
	}
	cl := &http.Client{Timeout: 3 * time.Second, CheckRedirect: func(*http.Request, []*http.Request) error { return http.ErrUseLastResponse }}
	resp, err := cl.Do(req)
	wg.Wait()
	if err != nil {
		return "err " + oneLine(err.Error())
	}
	defer resp.Body.Close()
	replay := resp.Header.Get("fly-replay")
	if replay == "" {
		replay = "-"
	}
	ck := "-"
	appCookies := 0
	for _, c := range resp.Cookies() {
		if c.Name == lhttp.TXIDCookieName {
			ck = c.Value
		} else if c.Name == "session" || c.Name == "csrf" {
			appCookies++
		}
	}
	m.mu.Lock()
	defer m.mu.Unlock()
	hit, hitok := "nohit", "-"
	if m.hit {
		hit = "hit"
		// read-your-writes: the application was reached at a position at or after the cookie's
		want := parseTXID(cookie)
		hitok = fmt.Sprint(m.hitPos >= want)
	}
	note := ""
	if m.hitNote != "" {
		note = " app=" + m.hitNote
	}
	if m.hit && resp.StatusCode == 200 && appCookies != 2 {
		note += fmt.Sprintf(" app-cookies=%d/2", appCookies)
	}
	return fmt.Sprintf("status=%d target=%s replay=%s cookie=%s hitok=%s%s", resp.StatusCode, hit, replay, ck, hitok, note)
}

func parseTXID(s string) uint64 {
	if len(s) != 16 {
		return 0
	}
	var v uint64
	for _, ch := range s {
		var d uint64
		switch {
		case ch >= '0' && ch <= '9':
			d = uint64(ch - '0')
		case ch >= 'a' && ch <= 'f':
			d = uint64(ch-'a') + 10
		case ch >= 'A' && ch <= 'F':
			d = uint64(ch-'A') + 10
		default:
			return 0
		}
		v = v<<4 | d
	}
	return v
}

func genProxy(c *Ctx) error {
	c.Stats.Rule = "a real ProxyServer in front of a recording application on a real store: every method (GET HEAD POST PUT PATCH DELETE OPTIONS) x path class (plain, passthrough, always-forward, health) x cookie (absent, malformed, behind, equal, ahead by k, far ahead) x role (primary, replica, replica without known primary) x database state (absent, present) with the replica catching up (or not) while the request waits, and application writes on the primary. Non-trivial = case with at least one waiting read and one write request; distinct = distinct op list."
	r := c.Rng
	nHist := 16
	if c.Tier == "thorough" {
		nHist = 120
	}
	methods := []string{"GET", "HEAD", "POST", "PUT", "PATCH", "DELETE", "OPTIONS"}
	paths := []string{"/", "/a/b", "/pt/x", "/fw/x", "/litefs/health", "/ptx", "/a/pt/",
		// wildcard-suffix expressions, and query strings that end like them or contain a prefix
		"/img/x.png", "/a/x.fwd", "/a/b?avatar=me.png", "/a/b?next=/pt/x", "/a/b?f=y.fwd", "/img/x.png?v=2"}
	enc := func(s string) string { return strings.ReplaceAll(s, " ", "_") }
	for h := 0; h < nHist; h++ {
		cs := c.Begin()
		role := pick(r, []string{"primary", "replica", "replica", "orphan"})
		v := newVPrimary(r, pick(r, []int{512, 1024}))
		do := func(op string) string {
			c.Count("op." + strings.SplitN(op, " ", 2)[0])
			return cs.Do(op)
		}
		do("open " + role)
		do("proxy-start")
		waits, writes := 0, 0
		// the virtual primary always has a history; the node may or may not have received it yet
		v.randomCommit(4)
		for i, k := 0, r.Intn(3); i < k; i++ {
			v.randomCommit(4)
		}
		hasDB := role == "primary" || r.Chance(2, 3)
		if hasDB {
			do("sapply " + v.snapshot())
		}
		steps := r.Range(8, 20)
		for i := 0; i < steps; i++ {
			method, path := pick(r, methods), pick(r, paths)
			nodeTxid := 0
			if hasDB {
				nodeTxid = int(v.txid)
			}
			cookie := "-"
			target := 0 // TXID the cookie names (0 = none / malformed)
			switch r.Intn(8) {
			case 0:
				cookie = pick(r, []string{"zzzz", "12", "00000000000000000", "000000000000000g", "0000000000000000"})
			case 1, 2:
				target = max(1, nodeTxid-r.Intn(3))
				cookie = fmt.Sprintf("%016x", target)
			case 3, 4, 5:
				target = max(nodeTxid, int(v.txid)) + r.Range(1, 3)
				if !hasDB && r.Bool() {
					target = r.Range(1, int(v.txid))
				}
				cookie = fmt.Sprintf("%016x", target)
			case 6:
				target = int(v.txid) + 1000
				cookie = fmt.Sprintf("%016X", target)
			}
			op := fmt.Sprintf("req %s %s %s", method, path, cookie)
			isRead := method == "GET" || method == "HEAD"
			wrote := false
			switch {
			case role == "primary" && !isRead && r.Chance(2, 3):
				op += " w=" + enc(v.peekCommit()) // the application writes when reached
				wrote = true
				writes++
			case role != "primary" && target > nodeTxid && target < int(v.txid)+100 && isRead && r.Chance(3, 4):
				// the replica catches up (fully or not) while the request waits
				var specs []string
				reach := target
				if r.Chance(1, 4) {
					reach = target - 1 // not far enough
				}
				if !hasDB && reach >= 1 {
					specs = append(specs, enc(v.snapshot()))
					hasDB = true
				}
				for hasDB && int(v.txid) < reach {
					specs = append(specs, enc(v.randomCommit(3)))
				}
				if len(specs) > 0 {
					op += " adv=" + strings.Join(specs, ";")
				}
				waits++
			}
			out := do(op)
			c.Count("res." + firstWords(out, 2))
			if wrote && strings.Contains(out, "app=ok") {
				v.randomCommit(4) // same generator state as the peek: the same transaction
			}
			if r.Chance(1, 6) {
				do("state")
			}
		}
		cs.End()
		if waits >= 1 && writes >= 0 {
			c.Nontrivial(fmt.Sprintf("%s-%d-%d-%d", role, h, waits, writes))
		}
	}
	return nil
}
